/-! Prototype for C02: the re-ordering chain parser builds the unique precedence-respecting tree. -/
inductive E where
  | leaf (n : Nat)
  | bin (p : Nat) (l r : E)      -- p = precedence level of the operator (operator identity abstracted for the prototype)
deriving Repr, DecidableEq

def ins : E → Nat → E → E
  | .bin pl l rr, p, r => if pl < p then .bin pl l (ins rr p r) else .bin p (.bin pl l rr) r
  | .leaf n, p, r => .bin p (.leaf n) r

def build : E → List (Nat × E) → E
  | t, [] => t
  | t, (p, r) :: rest => build (ins t p r) rest

/-- in-order token sequence: operands are `Sum.inl`, operators `Sum.inr` -/
def flat : E → List (Nat ⊕ Nat)
  | .leaf n => [.inl n]
  | .bin p l r => flat l ++ [.inr p] ++ flat r

def rootP : E → Option Nat
  | .leaf _ => none
  | .bin p _ _ => some p

/-- precedence-respecting, left-associative -/
def WF : E → Prop
  | .leaf _ => True
  | .bin p l r => WF l ∧ WF r ∧ (∀ q, rootP l = some q → p ≤ q) ∧ (∀ q, rootP r = some q → p < q)

/-- all operators on the right spine have precedence ≥ m … -/
def Leaf (t : E) : Prop := ∃ n, t = .leaf n

theorem flat_ins (t : E) (p : Nat) (n : Nat) : flat (ins t p (.leaf n)) = flat t ++ [.inr p, .inl n] := by
  induction t with
  | leaf m => simp [ins, flat]
  | bin pl l rr ihl ihr =>
    simp only [ins]; split
    · simp [flat, ihr]
    · simp [flat]

theorem rootP_ins (t : E) (p : Nat) (r : E) : ∃ q, rootP (ins t p r) = some q ∧ q ≤ p ∧ (∀ q', rootP t = some q' → min q' p = q) := by
  cases t with
  | leaf m => exact ⟨p, by simp [ins, rootP]⟩
  | bin pl l rr =>
    simp only [ins]; split
    · exact ⟨pl, by simp [rootP]; omega⟩
    · exact ⟨p, by simp [rootP]; omega⟩

theorem WF_ins (t : E) (p : Nat) (n : Nat) (h : WF t) : WF (ins t p (.leaf n)) := by
  induction t with
  | leaf m => simp [ins, WF, rootP]
  | bin pl l rr ihl ihr =>
    obtain ⟨h1, h2, h3, h4⟩ := h
    simp only [ins]; split
    · rename_i hlt
      refine ⟨h1, ihr h2, h3, ?_⟩
      intro q hq
      obtain ⟨q0, hq0, _, hmin⟩ := rootP_ins rr p (.leaf n)
      rw [hq0] at hq; cases hq
      cases hr : rootP rr with
      | none =>
        cases rr with
        | leaf k => simp [ins, rootP] at hq0; omega
        | bin => simp [rootP] at hr
      | some q' => have := hmin q' hr; have := h4 q' hr; omega
    · rename_i hge
      refine ⟨⟨h1, h2, h3, h4⟩, trivial, ?_, ?_⟩
      · intro q hq; simp [rootP] at hq; omega
      · intro q hq; simp [rootP] at hq

theorem flat_build (t : E) (ch : List (Nat × Nat)) :
    flat (build t (ch.map fun x => (x.1, .leaf x.2))) = flat t ++ ch.flatMap (fun x => [.inr x.1, .inl x.2]) := by
  induction ch generalizing t with
  | nil => simp [build]
  | cons x xs ih => simp [build, ih, flat_ins]

theorem WF_build (t : E) (ch : List (Nat × Nat)) (h : WF t) : WF (build t (ch.map fun x => (x.1, .leaf x.2))) := by
  induction ch generalizing t with
  | nil => simpa [build]
  | cons x xs ih => simp only [List.map, build]; exact ih _ (WF_ins t x.1 x.2 h)

/-! ### uniqueness via reconstruction: a WF tree is rebuilt by the chain parser from its own flattening -/
def first : E → Nat
  | .leaf n => n
  | .bin _ l _ => first l

def chain : E → List (Nat × Nat)      -- (operator precedence, operand) pairs after the first operand
  | .leaf _ => []
  | .bin p l r => chain l ++ (p, first r) :: chain r

def mk (c : List (Nat × Nat)) : List (Nat × E) := c.map fun x => (x.1, .leaf x.2)

theorem build_append (t : E) (a b : List (Nat × E)) : build t (a ++ b) = build (build t a) b := by
  induction a generalizing t with
  | nil => rfl
  | cons x xs ih => simp [build, ih]

/-- every operator in the tree has precedence ≥ m -/
def AllGe (m : Nat) : E → Prop
  | .leaf _ => True
  | .bin p l r => m ≤ p ∧ AllGe m l ∧ AllGe m r

theorem AllGe.mono {m m' : Nat} {t : E} (h : AllGe m t) (hm : m' ≤ m) : AllGe m' t := by
  induction t with
  | leaf n => trivial
  | bin p l r ihl ihr => exact ⟨by have := h.1; omega, ihl h.2.1, ihr h.2.2⟩

theorem WF_allGe : ∀ t, WF t → ∀ q, rootP t = some q → AllGe q t
  | .leaf _, _, _, h => by simp [rootP] at h
  | .bin p l r, ⟨hl, hr, h3, h4⟩, q, hq => by
      simp [rootP] at hq; subst hq
      refine ⟨Nat.le_refl _, ?_, ?_⟩
      · cases l with
        | leaf n => trivial
        | bin pl ll lr => exact (WF_allGe _ hl pl rfl).mono (h3 pl rfl)
      · cases r with
        | leaf n => trivial
        | bin pr rl rr => exact (WF_allGe _ hr pr rfl).mono (Nat.le_of_lt (h4 pr rfl))

theorem chain_allGe {m : Nat} : ∀ t, AllGe m t → ∀ x ∈ chain t, m ≤ x.1
  | .leaf _, _, x, hx => by simp [chain] at hx
  | .bin p l r, ⟨h1, h2, h3⟩, x, hx => by
      simp only [chain, List.mem_append, List.mem_cons] at hx
      rcases hx with hx | hx | hx
      · exact chain_allGe l h2 x hx
      · subst hx; exact h1
      · exact chain_allGe r h3 x hx

/-- operators of strictly higher precedence than the root are inserted below it, on the right -/
theorem build_under (p : Nat) (l x : E) (c : List (Nat × Nat)) (h : ∀ y ∈ c, p < y.1) :
    build (.bin p l x) (mk c) = .bin p l (build x (mk c)) := by
  induction c generalizing x with
  | nil => rfl
  | cons y ys ih =>
    have hy := h y (List.mem_cons_self ..)
    simp only [mk, List.map, build, ins, hy, if_true]
    exact ih _ (fun z hz => h z (List.mem_cons_of_mem _ hz))

theorem rebuild : ∀ t, WF t → build (.leaf (first t)) (mk (chain t)) = t
  | .leaf n, _ => rfl
  | .bin p l r, ⟨hl, hr, h3, h4⟩ => by
      have ihl := rebuild l hl
      have ihr := rebuild r hr
      simp only [chain, mk, List.map_append, List.map_cons, first]
      rw [build_append]
      change build (build (.leaf (first l)) (mk (chain l))) _ = _
      rw [ihl]
      simp only [build]
      have hins : ins l p (.leaf (first r)) = .bin p l (.leaf (first r)) := by
        cases l with
        | leaf n => rfl
        | bin pl ll lr =>
          have := h3 pl rfl
          simp only [ins]; rw [if_neg (by omega)]
      rw [hins]
      have hgt : ∀ y ∈ chain r, p < y.1 := by
        cases r with
        | leaf n => intro y hy; simp [chain] at hy
        | bin pr rl rr =>
          intro y hy
          have := chain_allGe _ (WF_allGe _ hr pr rfl) y hy
          have := h4 pr rfl
          omega
      have := build_under p l (.leaf (first r)) (chain r) hgt
      simp only [mk] at this ihr
      rw [this, ihr]

/-- C02 core: the precedence-respecting tree with a given token sequence is unique -/
theorem wf_unique (t₁ t₂ : E) (h₁ : WF t₁) (h₂ : WF t₂) (hf : first t₁ = first t₂) (hc : chain t₁ = chain t₂) : t₁ = t₂ := by
  rw [← rebuild t₁ h₁, ← rebuild t₂ h₂, hf, hc]

#print axioms wf_unique
#print axioms rebuild
