/-! Prototype: jump machine, structured language, lowering, exactness of lowering.
    Expression evaluation is an abstract parameter. -/

inductive GK where | ifL | done | loop | cont
deriving Repr, DecidableEq

inductive Label where
  | user (s : String)
  | gen (k : GK) (n : Nat)
deriving Repr, DecidableEq

inductive Expr where
  | atom (n : Nat)
  | not (e : Expr)
deriving Repr, DecidableEq

inductive Stmt where
  | eff (name : Option String) (e : Expr)          -- expression / assignment statement
  | jump (l : Label) (c : Option Expr)
  | ret (e : Option Expr)
  | label (l : Label)
deriving Repr, DecidableEq

/-- result of running a statement list -/
inductive Res (σ ν : Type) where
  | oog                       -- out of gas (model-only)
  | done (st : σ)             -- fell off the end
  | ret (v : Option ν) (st : σ)
  | err (l : Label) (st : σ)
deriving Repr

structure Sem (σ ν : Type) where
  ev : Expr → σ → ν × σ
  truthy : ν → Bool
  assign : Option String → ν → σ → σ
  ev_not_t : ∀ e s, truthy (ev (.not e) s).1 = !(truthy (ev e s).1)
  ev_not_s : ∀ e s, (ev (.not e) s).2 = (ev e s).2

variable {σ ν : Type}

def findLabel (P : List Stmt) (l : Label) : Option Nat :=
  let i := P.findIdx (· == Stmt.label l)
  if i < P.length then some i else none

def execM (S : Sem σ ν) (P : List Stmt) : Nat → Nat → σ → Res σ ν
  | gas, pc, st =>
    match P[pc]? with
    | none => .done st
    | some s =>
      match gas with
      | 0 => .oog
      | gas+1 =>
        match s with
        | .eff n e => execM S P gas (pc+1) (S.assign n (S.ev e st).1 (S.ev e st).2)
        | .label _ => execM S P gas (pc+1) st
        | .ret none => .ret none st
        | .ret (some e) => .ret (some (S.ev e st).1) (S.ev e st).2
        | .jump l none =>
            match findLabel P l with
            | none => .err l st
            | some i => execM S P gas (i+1) st
        | .jump l (some c) =>
            if S.truthy (S.ev c st).1 then
              match findLabel P l with
              | none => .err l (S.ev c st).2
              | some i => execM S P gas (i+1) (S.ev c st).2
            else execM S P gas (pc+1) (S.ev c st).2
termination_by gas _ _ => gas

/-! structured language -/
inductive SStmt where
  | eff (name : Option String) (e : Expr)
  | ret (e : Option Expr)
  | ite (c : Expr) (t : List SStmt) (e : List SStmt)
  | while (c : Expr) (b : List SStmt)
  | brk
  | cont
deriving Repr

-- lowering; `lp` = enclosing loop labels (break, continue)
mutual
def lowerS (lp : Option (Label × Label)) : SStmt → Nat → List Stmt × Nat
  | .eff n e, i => ([.eff n e], i)
  | .ret e, i => ([.ret e], i)
  | .brk, i => (match lp with | some (b, _) => [.jump b none] | none => [], i)
  | .cont, i => (match lp with | some (_, c) => [.jump c none] | none => [], i)
  | .ite c t e, i =>
      let r1 := lowerB lp t (i+1)
      let r2 := lowerB lp e r1.2
      ([.jump (.gen .ifL i) (some (.not c))] ++ r1.1 ++ [.jump (.gen .done i) none, .label (.gen .ifL i)] ++ r2.1
        ++ [.label (.gen .done i)], r2.2)
  | .while c b, i =>
      let r := lowerB (some (.gen .done i, .gen .loop i)) b (i+1)
      ([.jump (.gen .done i) (some (.not c)), .label (.gen .loop i)] ++ r.1 ++
        [.jump (.gen .loop i) (some c), .label (.gen .done i)], r.2)
def lowerB (lp : Option (Label × Label)) : List SStmt → Nat → List Stmt × Nat
  | [], i => ([], i)
  | s :: ss, i =>
      let r1 := lowerS lp s i
      let r2 := lowerB lp ss r1.2
      (r1.1 ++ r2.1, r2.2)
end

#eval (lowerB none [.while (.atom 1) [.ite (.atom 2) [.cont] [.brk], .eff none (.atom 3)]] 0).1

/-! ticked structured semantics (mirrors the real lowering's statement cost, incl. while+continue quirk) -/
inductive Out (σ ν : Type) where
  | norm (st : σ) (g : Nat)
  | brk (st : σ) (g : Nat)
  | cont (st : σ) (g : Nat)
  | ret (v : Option ν) (st : σ)
  | oog
deriving Repr

/-- consume one statement tick -/
def tick (g : Nat) (k : Nat → Out σ ν) : Out σ ν :=
  match g with
  | 0 => .oog
  | g+1 => k g

/-- the loop, entered just after `label loop`; `fuel` bounds the number of iterations -/
def loopW (S : Sem σ ν) (c : Expr) (body : Nat → σ → Out σ ν) : Nat → Nat → σ → Out σ ν
  | 0, _, _ => .oog
  | fuel+1, g, st =>
    match body g st with
    | .norm st' g' =>
        tick g' fun g'' =>                         -- footer conditional jump
          if S.truthy (S.ev c st').1 then loopW S c body fuel g'' (S.ev c st').2
          else tick g'' fun g3 => .norm (S.ev c st').2 g3      -- label done
    | .brk st' g' => .norm st' g'
    | .cont st' g' => loopW S c body fuel g' st'   -- quirk: jump to loop label, no re-test
    | o => o

mutual
def execTS (S : Sem σ ν) (inLoop : Bool) : SStmt → Nat → σ → Out σ ν
  | .eff n e, g, st => tick g fun g => .norm (S.assign n (S.ev e st).1 (S.ev e st).2) g
  | .ret none, g, st => tick g fun _ => .ret none st
  | .ret (some e), g, st => tick g fun _ => .ret (some (S.ev e st).1) (S.ev e st).2
  | .brk, g, st => if inLoop then tick g fun g => .brk st g else .norm st g
  | .cont, g, st => if inLoop then tick g fun g => .cont st g else .norm st g
  | .ite c t e, g, st =>
      tick g fun g =>
      if S.truthy (S.ev c st).1 then
        match execTB S inLoop t g (S.ev c st).2 with
        | .norm st' g' => tick g' fun g'' => .norm st' g''   -- jump done
        | o => o
      else
        match execTB S inLoop e g (S.ev c st).2 with
        | .norm st' g' => tick g' fun g'' => .norm st' g''   -- label done
        | o => o
  | .while c b, g, st =>
      tick g fun g =>
      if S.truthy (S.ev c st).1 then
        tick g fun g1 => loopW S c (fun g st => execTB S true b g st) (g1+1) g1 (S.ev c st).2
      else .norm (S.ev c st).2 g
def execTB (S : Sem σ ν) (inLoop : Bool) : List SStmt → Nat → σ → Out σ ν
  | [], g, st => .norm st g
  | s :: ss, g, st =>
      match execTS S inLoop s g st with
      | .norm st' g' => execTB S inLoop ss g' st'
      | o => o
end

/-! ### gas monotonicity -/
def GasOK (g : Nat) : Out σ ν → Prop
  | .norm _ g' => g' ≤ g
  | .brk _ g' => g' < g
  | .cont _ g' => g' < g
  | _ => True

theorem GasOK.mono {g g2 : Nat} {o : Out σ ν} (h : GasOK g o) (h2 : g ≤ g2) : GasOK g2 o := by
  cases o <;> simp_all [GasOK] <;> omega

theorem tick_ok (g : Nat) (k : Nat → Out σ ν) (h : ∀ g', g' < g → GasOK g' (k g')) : GasOK g (tick g k) := by
  cases g with
  | zero => simp [tick, GasOK]
  | succ g => exact (h g (Nat.lt_succ_self g)).mono (Nat.le_succ g)

/-- like `GasOK` but `norm` must be strict too -/
theorem tick_ok_strict (g : Nat) (k : Nat → Out σ ν) (h : ∀ g', g' < g → GasOK g' (k g')) :
    match tick g k with | .norm _ g' => g' < g | o => GasOK g o := by
  cases g with
  | zero => simp [tick, GasOK]
  | succ g =>
    have := h g (Nat.lt_succ_self g)
    simp only [tick]
    cases hk : k g <;> simp_all [GasOK] <;> omega

def LoopOK (g : Nat) : Out σ ν → Prop
  | .norm _ g' => g' ≤ g
  | .brk _ _ => False
  | .cont _ _ => False
  | _ => True

theorem LoopOK.mono {g g2 : Nat} {o : Out σ ν} (h : LoopOK g o) (h2 : g ≤ g2) : LoopOK g2 o := by
  cases o <;> simp_all [LoopOK] <;> omega

theorem loopW_ok (S : Sem σ ν) (c : Expr) (body : Nat → σ → Out σ ν) (hb : ∀ g st, GasOK g (body g st)) :
    ∀ fuel g st, LoopOK g (loopW S c body fuel g st) := by
  intro fuel
  induction fuel with
  | zero => intro g st; simp [loopW, LoopOK]
  | succ fuel ih =>
    intro g st
    simp only [loopW]
    have hb1 := hb g st
    cases hO : body g st with
    | norm st' g' =>
      simp only [hO, GasOK] at hb1
      simp only
      cases g' with
      | zero => simp [tick, LoopOK]
      | succ g' =>
        simp only [tick]
        by_cases hc : S.truthy (S.ev c st').1 = true
        · simp only [hc, if_true]; exact (ih g' _).mono (by omega)
        · simp only [hc, if_false]
          cases g' with
          | zero => simp [LoopOK]
          | succ g3 => simp [LoopOK]; omega
    | brk st' g' => simp only [hO, GasOK] at hb1; simp [LoopOK]; omega
    | cont st' g' =>
      simp only [hO, GasOK] at hb1
      exact (ih g' st').mono (by omega)
    | ret v st' => simp [LoopOK]
    | oog => simp [LoopOK]

theorem tick_after_norm {g : Nat} {o : Out σ ν} (h : GasOK g o) :
    GasOK g (match o with | .norm st' g' => tick g' (fun g'' => .norm st' g'') | o => o) := by
  cases o with
  | norm st' g' => cases g' <;> simp_all [tick, GasOK]; omega
  | brk _ _ => simpa using h
  | cont _ _ => simpa using h
  | ret _ _ => simp [GasOK]
  | oog => simp [GasOK]

mutual
theorem execTS_ok (S : Sem σ ν) (il : Bool) : ∀ (s : SStmt) (g : Nat) (st : σ), GasOK g (execTS S il s g st)
  | .eff n e, g, st => by rw [execTS]; exact tick_ok _ _ (fun g' _ => by simp [GasOK])
  | .ret none, g, st => by rw [execTS]; exact tick_ok _ _ (fun g' _ => by simp [GasOK])
  | .ret (some e), g, st => by rw [execTS]; exact tick_ok _ _ (fun g' _ => by simp [GasOK])
  | .brk, g, st => by
      rw [execTS]; split
      · cases g <;> simp [tick, GasOK]
      · simp [GasOK]
  | .cont, g, st => by
      rw [execTS]; split
      · cases g <;> simp [tick, GasOK]
      · simp [GasOK]
  | .ite c t e, g, st => by
      rw [execTS]; apply tick_ok; intro g' _
      split
      · exact tick_after_norm (execTB_ok S il t g' (S.ev c st).2)
      · exact tick_after_norm (execTB_ok S il e g' (S.ev c st).2)
  | .while c b, g, st => by
      rw [execTS]; apply tick_ok; intro g' _
      split
      · apply tick_ok; intro g1 _
        have := loopW_ok S c (fun g st => execTB S true b g st) (fun g st => execTB_ok S true b g st) (g1+1) g1 (S.ev c st).2
        cases hL : loopW S c (fun g st => execTB S true b g st) (g1+1) g1 (S.ev c st).2 <;> simp_all [GasOK, LoopOK]
      · simp [GasOK]
theorem execTB_ok (S : Sem σ ν) (il : Bool) : ∀ (B : List SStmt) (g : Nat) (st : σ), GasOK g (execTB S il B g st)
  | [], g, st => by simp [execTB, GasOK]
  | s :: ss, g, st => by
      rw [execTB]
      have h1 := execTS_ok S il s g st
      cases hO : execTS S il s g st with
      | norm st' g' =>
        simp only [hO, GasOK] at h1
        exact (execTB_ok S il ss g' st').mono h1
      | brk st' g' => simpa [hO] using h1
      | cont st' g' => simpa [hO] using h1
      | ret v st' => simp [GasOK]
      | oog => simp [GasOK]
end

/-! ### helper lemmas -/

theorem findLabel_mid (A C : List Stmt) (l : Label) (h : Stmt.label l ∉ A) :
    findLabel (A ++ Stmt.label l :: C) l = some A.length := by
  unfold findLabel
  have h1 : (A ++ Stmt.label l :: C).findIdx (· == Stmt.label l) = A.length := by
    rw [List.findIdx_append]
    have : A.findIdx (· == Stmt.label l) = A.length := by
      apply List.findIdx_eq_length.mpr
      intro x hx
      simp
      intro hxe; subst hxe; exact h hx
    simp [this, List.findIdx_cons]
  simp [h1]

theorem execM_step (S : Sem σ ν) (P : List Stmt) (g pc : Nat) (st : σ) (s : Stmt) (h : P[pc]? = some s) :
    execM S P (g+1) pc st =
      match s with
      | .eff n e => execM S P g (pc+1) (S.assign n (S.ev e st).1 (S.ev e st).2)
      | .label _ => execM S P g (pc+1) st
      | .ret none => .ret none st
      | .ret (some e) => .ret (some (S.ev e st).1) (S.ev e st).2
      | .jump l none =>
          (match findLabel P l with
          | none => .err l st
          | some i => execM S P g (i+1) st)
      | .jump l (some c) =>
          if S.truthy (S.ev c st).1 then
            (match findLabel P l with
            | none => .err l (S.ev c st).2
            | some i => execM S P g (i+1) (S.ev c st).2)
          else execM S P g (pc+1) (S.ev c st).2 := by
  rw [execM]; simp only [h]
  cases s with
  | eff n e => rfl
  | label l => rfl
  | ret e => cases e <;> rfl
  | jump l c => cases c <;> rfl

theorem execM_zero (S : Sem σ ν) (P : List Stmt) (pc : Nat) (st : σ) (s : Stmt) (h : P[pc]? = some s) :
    execM S P 0 pc st = .oog := by
  rw [execM]; simp only [h]

theorem execM_end (S : Sem σ ν) (P : List Stmt) (g pc : Nat) (st : σ) (h : P[pc]? = none) :
    execM S P g pc st = .done st := by
  rw [execM]; simp only [h]

/-! ### label ranges of lowered code -/
def InRange (L : List Stmt) (i j : Nat) : Prop :=
  ∀ l, Stmt.label l ∈ L → ∃ K k, l = .gen K k ∧ i ≤ k ∧ k < j

def Fresh (L : List Stmt) (i j : Nat) : Prop :=
  ∀ K k, i ≤ k → k < j → Stmt.label (.gen K k) ∉ L

mutual
theorem lowerS_range (lp : Option (Label × Label)) : ∀ (s : SStmt) (i : Nat),
    i ≤ (lowerS lp s i).2 ∧ InRange (lowerS lp s i).1 i (lowerS lp s i).2
  | .eff n e, i => by simp [lowerS, InRange]
  | .ret e, i => by simp [lowerS, InRange]
  | .brk, i => by cases lp <;> simp [lowerS, InRange]
  | .cont, i => by cases lp <;> simp [lowerS, InRange]
  | .ite c t e, i => by
      have h1 := lowerB_range lp t (i+1)
      have h2 := lowerB_range lp e (lowerB lp t (i+1)).2
      simp only [lowerS]
      refine ⟨by omega, ?_⟩
      intro l hl
      simp only [List.mem_append, List.mem_cons, Stmt.label.injEq, reduceCtorEq,
        false_or, or_false, List.not_mem_nil] at hl
      rcases hl with ((hl | hl) | hl) | hl
      · obtain ⟨K, k, rfl, hk1, hk2⟩ := h1.2 l hl; exact ⟨K, k, rfl, by omega, by omega⟩
      · subst hl; exact ⟨_, _, rfl, by omega, by omega⟩
      · obtain ⟨K, k, rfl, hk1, hk2⟩ := h2.2 l hl; exact ⟨K, k, rfl, by omega, by omega⟩
      · subst hl; exact ⟨_, _, rfl, by omega, by omega⟩
  | .while c b, i => by
      have h1 := lowerB_range (some (.gen .done i, .gen .loop i)) b (i+1)
      simp only [lowerS]
      refine ⟨by omega, ?_⟩
      intro l hl
      simp only [List.mem_append, List.mem_cons, Stmt.label.injEq, reduceCtorEq,
        false_or, or_false, List.not_mem_nil] at hl
      rcases hl with (hl | hl) | hl
      · subst hl; exact ⟨_, _, rfl, by omega, by omega⟩
      · obtain ⟨K, k, rfl, hk1, hk2⟩ := h1.2 l hl; exact ⟨K, k, rfl, by omega, by omega⟩
      · subst hl; exact ⟨_, _, rfl, by omega, by omega⟩
theorem lowerB_range (lp : Option (Label × Label)) : ∀ (B : List SStmt) (i : Nat),
    i ≤ (lowerB lp B i).2 ∧ InRange (lowerB lp B i).1 i (lowerB lp B i).2
  | [], i => by simp [lowerB, InRange]
  | s :: ss, i => by
      have h1 := lowerS_range lp s i
      have h2 := lowerB_range lp ss (lowerS lp s i).2
      simp only [lowerB]
      refine ⟨by omega, ?_⟩
      intro l hl
      simp only [List.mem_append] at hl
      rcases hl with hl | hl
      · obtain ⟨K, k, rfl, hk1, hk2⟩ := h1.2 l hl; exact ⟨K, k, rfl, by omega, by omega⟩
      · obtain ⟨K, k, rfl, hk1, hk2⟩ := h2.2 l hl; exact ⟨K, k, rfl, by omega, by omega⟩
end

/-! ### the simulation -/

/-- what the machine does after the structured outcome -/
def Cont (S : Sem σ ν) (P : List Stmt) (pb pc after : Nat) : Out σ ν → Res σ ν
  | .norm st g => execM S P g after st
  | .brk st g => execM S P g (pb+1) st
  | .cont st g => execM S P g (pc+1) st
  | .ret v st => .ret v st
  | .oog => .oog

theorem get_mid (pre rest : List Stmt) (x : Stmt) : (pre ++ x :: rest)[pre.length]? = some x := by simp

theorem Fresh.mono {L : List Stmt} {i j i' j' : Nat} (h : Fresh L i j) (h1 : i ≤ i') (h2 : j' ≤ j) : Fresh L i' j' :=
  fun K k a b => h K k (by omega) (by omega)

theorem fresh_of_range {L : List Stmt} {a b i j : Nat} (h : InRange L a b) (hd : b ≤ i ∨ j ≤ a) : Fresh L i j := by
  intro K k h1 h2 hm
  obtain ⟨K', k', he, h3, h4⟩ := h _ hm
  cases he; omega

theorem Fresh.append {L M : List Stmt} {i j : Nat} (h1 : Fresh L i j) (h2 : Fresh M i j) : Fresh (L ++ M) i j := by
  intro K k a b hm; rcases List.mem_append.mp hm with h | h
  · exact h1 K k a b h
  · exact h2 K k a b h

theorem tick_zero (k : Nat → Out σ ν) : tick 0 k = .oog := rfl
theorem tick_succ (g : Nat) (k : Nat → Out σ ν) : tick (g+1) k = k g := rfl


theorem get_at {P A B : List Stmt} {x : Stmt} {n : Nat} (hP : P = A ++ x :: B) (hn : n = A.length) :
    P[n]? = some x := by subst hP; subst hn; simp

theorem find_at {P A B : List Stmt} {l : Label} {n : Nat} (hP : P = A ++ Stmt.label l :: B) (hn : n = A.length)
    (hf : Stmt.label l ∉ A) : findLabel P l = some n := by
  subst hP; subst hn; exact findLabel_mid A B l hf

section
variable (S : Sem σ ν) (P : List Stmt)

mutual
theorem simS (lp : Option (Label × Label)) (pb pc : Nat)
    (hlp : ∀ bl cl, lp = some (bl, cl) → findLabel P bl = some pb ∧ findLabel P cl = some pc) :
    ∀ (s : SStmt) (i : Nat) (pre post : List Stmt),
    P = pre ++ (lowerS lp s i).1 ++ post →
    Fresh pre i (lowerS lp s i).2 → Fresh post i (lowerS lp s i).2 →
    ∀ g st, execM S P g pre.length st =
      Cont S P pb pc (pre.length + (lowerS lp s i).1.length) (execTS S lp.isSome s g st)
  | .eff n e, i, pre, post, hP, _, _, g, st => by
      simp only [lowerS, List.append_assoc, List.cons_append, List.nil_append] at hP
      have hg : P[pre.length]? = some (.eff n e) := by rw [hP]; exact get_mid ..
      cases g with
      | zero => rw [execM_zero S P _ _ _ hg]; simp [execTS, tick_zero, Cont]
      | succ g => rw [execM_step S P _ _ _ _ hg]; simp [execTS, tick_succ, Cont, lowerS]
  | .ret e, i, pre, post, hP, _, _, g, st => by
      simp only [lowerS, List.append_assoc, List.cons_append, List.nil_append] at hP
      have hg : P[pre.length]? = some (.ret e) := by rw [hP]; exact get_mid ..
      cases g with
      | zero => rw [execM_zero S P _ _ _ hg]; cases e <;> simp [execTS, tick_zero, Cont]
      | succ g => rw [execM_step S P _ _ _ _ hg]; cases e <;> simp [execTS, tick_succ, Cont]
  | .brk, i, pre, post, hP, _, _, g, st => by
      cases lp with
      | none => simp [execTS, Cont, lowerS]
      | some p =>
        obtain ⟨bl, cl⟩ := p
        simp only [lowerS, List.append_assoc, List.cons_append, List.nil_append] at hP
        have hg : P[pre.length]? = some (.jump bl none) := by rw [hP]; exact get_mid ..
        cases g with
        | zero => rw [execM_zero S P _ _ _ hg]; simp [execTS, tick_zero, Cont]
        | succ g =>
          rw [execM_step S P _ _ _ _ hg]; simp [execTS, tick_succ, Cont, (hlp bl cl rfl).1]
  | .cont, i, pre, post, hP, _, _, g, st => by
      cases lp with
      | none => simp [execTS, Cont, lowerS]
      | some p =>
        obtain ⟨bl, cl⟩ := p
        simp only [lowerS, List.append_assoc, List.cons_append, List.nil_append] at hP
        have hg : P[pre.length]? = some (.jump cl none) := by rw [hP]; exact get_mid ..
        cases g with
        | zero => rw [execM_zero S P _ _ _ hg]; simp [execTS, tick_zero, Cont]
        | succ g =>
          rw [execM_step S P _ _ _ _ hg]; simp [execTS, tick_succ, Cont, (hlp bl cl rfl).2]
  | .ite c t e, i, pre, post, hP, hf1, hf2, g, st => by
      have rt := lowerB_range lp t (i+1)
      have re := lowerB_range lp e (lowerB lp t (i+1)).2
      simp only [lowerS] at hP hf1 hf2 ⊢
      generalize hT : lowerB lp t (i+1) = T at *
      generalize hE : lowerB lp e T.2 = E at *
      have hg : P[pre.length]? = some (.jump (.gen .ifL i) (some (.not c))) := by
        rw [hP]; simp [List.append_assoc]
      cases g with
      | zero => rw [execM_zero S P _ _ _ hg]; simp [execTS, tick_zero, Cont]
      | succ g =>
        rw [execM_step S P _ _ _ _ hg]
        simp only [S.ev_not_t, S.ev_not_s, execTS, tick_succ]
        cases hc : S.truthy (S.ev c st).1 with
        | true =>
          simp only [Bool.not_true, Bool.false_eq_true, if_false, if_true]
          have h1 := simB lp pb pc hlp t (i+1) (pre ++ [.jump (.gen .ifL i) (some (.not c))])
            (.jump (.gen .done i) none :: .label (.gen .ifL i) :: (E.1 ++ .label (.gen .done i) :: post))
            (by rw [hP, hT]; simp [List.append_assoc])
            (by rw [hT]; exact (hf1.mono (by omega) re.1).append (by intro K k _ _; simp))
            (by
              rw [hT]; intro K k h1 h2 hm
              simp only [List.mem_cons, List.mem_append, Stmt.label.injEq, reduceCtorEq, false_or, Label.gen.injEq] at hm
              rcases hm with hm | hm | hm | hm
              · omega
              · exact fresh_of_range re.2 (Or.inr (Nat.le_refl _)) K k h1 h2 hm
              · omega
              · exact hf2 K k (by omega) (by omega) hm)
            g (S.ev c st).2
          simp only [List.length_append, List.length_cons, List.length_nil, hT] at h1
          rw [h1]
          cases hO : execTB S lp.isSome t g (S.ev c st).2 with
          | norm st' g' =>
            simp only [Cont]
            have hg2 : P[pre.length + (0 + 1) + T.1.length]? = some (.jump (.gen .done i) none) :=
              get_at (A := pre ++ .jump (.gen .ifL i) (some (.not c)) :: T.1)
                (B := .label (.gen .ifL i) :: (E.1 ++ .label (.gen .done i) :: post))
                (by rw [hP]; simp [List.append_assoc]) (by simp; omega)
            have hf : findLabel P (.gen .done i) = some (pre.length + 1 + T.1.length + 2 + E.1.length) :=
              find_at (A := pre ++ .jump (.gen .ifL i) (some (.not c)) :: (T.1 ++ .jump (.gen .done i) none
                  :: .label (.gen .ifL i) :: E.1)) (B := post)
                (by rw [hP]; simp [List.append_assoc]) (by simp; omega)
                (by
                  intro hm
                  simp only [List.mem_cons, List.mem_append, Stmt.label.injEq, reduceCtorEq, false_or,
                    Label.gen.injEq] at hm
                  rcases hm with hm | hm | hm | hm
                  · exact hf1 .done i (Nat.le_refl _) (by omega) hm
                  · obtain ⟨K, k, he, h3, h4⟩ := rt.2 _ hm; cases he; omega
                  · exact absurd hm.1 (by decide)
                  · obtain ⟨K, k, he, h3, h4⟩ := re.2 _ hm; cases he; omega)
            cases g' with
            | zero => rw [execM_zero S P _ _ _ hg2]; simp [tick_zero]
            | succ g' =>
              rw [execM_step S P _ _ _ _ hg2]
              simp only [hf, tick_succ]
              congr 1
              simp; omega
          | brk st' g' => simp [Cont]
          | cont st' g' => simp [Cont]
          | ret v st' => simp [Cont]
          | oog => simp [Cont]
        | false =>
          simp only [Bool.not_false, if_true, Bool.false_eq_true, if_false]
          have hfi : findLabel P (.gen .ifL i) = some (pre.length + 1 + T.1.length + 1) :=
            find_at (A := pre ++ .jump (.gen .ifL i) (some (.not c)) :: (T.1 ++ [.jump (.gen .done i) none]))
              (B := E.1 ++ .label (.gen .done i) :: post)
              (by rw [hP]; simp [List.append_assoc]) (by simp; omega)
              (by
                intro hm
                simp only [List.mem_cons, List.mem_append, Stmt.label.injEq, reduceCtorEq, false_or,
                  Label.gen.injEq, List.not_mem_nil, or_false] at hm
                rcases hm with hm | hm
                · exact hf1 .ifL i (Nat.le_refl _) (by omega) hm
                · obtain ⟨K, k, he, h3, h4⟩ := rt.2 _ hm; cases he; omega)
          simp only [hfi]
          have h1 := simB lp pb pc hlp e T.2
            (pre ++ .jump (.gen .ifL i) (some (.not c)) :: (T.1 ++ [.jump (.gen .done i) none, .label (.gen .ifL i)]))
            (.label (.gen .done i) :: post)
            (by rw [hP, hE]; simp [List.append_assoc])
            (by
              rw [hE]; intro K k h1 h2 hm
              simp only [List.mem_cons, List.mem_append, Stmt.label.injEq, reduceCtorEq, false_or,
                  Label.gen.injEq, List.not_mem_nil, or_false] at hm
              rcases hm with hm | hm | hm
              · exact hf1 K k (by omega) h2 hm
              · obtain ⟨K', k', he, h3, h4⟩ := rt.2 _ hm; cases he; omega
              · omega)
            (by
              rw [hE]; intro K k h1 h2 hm
              simp only [List.mem_cons, Stmt.label.injEq, Label.gen.injEq] at hm
              rcases hm with hm | hm
              · omega
              · exact hf2 K k (by omega) h2 hm)
            g (S.ev c st).2
          simp only [List.length_append, List.length_cons, List.length_nil, hE] at h1
          have e1 : pre.length + (T.1.length + (0 + 1 + 1) + 1) = pre.length + 1 + T.1.length + 1 + 1 := by omega
          rw [e1] at h1
          rw [h1]
          cases hO : execTB S lp.isSome e g (S.ev c st).2 with
          | norm st' g' =>
            simp only [Cont]
            have hg2 : P[pre.length + 1 + T.1.length + 1 + 1 + E.1.length]? = some (.label (.gen .done i)) :=
              get_at (A := pre ++ .jump (.gen .ifL i) (some (.not c)) :: (T.1 ++ .jump (.gen .done i) none
                  :: .label (.gen .ifL i) :: E.1)) (B := post)
                (by rw [hP]; simp [List.append_assoc]) (by simp; omega)
            cases g' with
            | zero => rw [execM_zero S P _ _ _ hg2]; simp [tick_zero]
            | succ g' =>
              rw [execM_step S P _ _ _ _ hg2]
              simp only [tick_succ]
              congr 1
              simp; omega
          | brk st' g' => simp [Cont]
          | cont st' g' => simp [Cont]
          | ret v st' => simp [Cont]
          | oog => simp [Cont]
  | .while c b, i, pre, post, hP, hf1, hf2, g, st => by
      have rb := lowerB_range (some (.gen .done i, .gen .loop i)) b (i+1)
      simp only [lowerS] at hP hf1 hf2 ⊢
      generalize hBd : lowerB (some (.gen .done i, .gen .loop i)) b (i+1) = Bd at *
      have hP' : P = pre ++ .jump (.gen .done i) (some (.not c)) :: .label (.gen .loop i) :: (Bd.1 ++
          .jump (.gen .loop i) (some c) :: .label (.gen .done i) :: post) := by
        rw [hP]; simp [List.append_assoc]
      have hgH : P[pre.length]? = some (.jump (.gen .done i) (some (.not c))) := get_at hP' rfl
      have hgL : P[pre.length + 1]? = some (.label (.gen .loop i)) :=
        get_at (A := pre ++ [.jump (.gen .done i) (some (.not c))]) (B := Bd.1 ++
          .jump (.gen .loop i) (some c) :: .label (.gen .done i) :: post) (by rw [hP']; simp) (by simp)
      have hgF : P[pre.length + 2 + Bd.1.length]? = some (.jump (.gen .loop i) (some c)) :=
        get_at (A := pre ++ .jump (.gen .done i) (some (.not c)) :: .label (.gen .loop i) :: Bd.1)
          (B := .label (.gen .done i) :: post) (by rw [hP']; simp) (by simp; omega)
      have hgD : P[pre.length + 2 + Bd.1.length + 1]? = some (.label (.gen .done i)) :=
        get_at (A := pre ++ .jump (.gen .done i) (some (.not c)) :: .label (.gen .loop i) :: (Bd.1 ++
          [.jump (.gen .loop i) (some c)])) (B := post) (by rw [hP']; simp) (by simp; omega)
      have hfl : findLabel P (.gen .loop i) = some (pre.length + 1) :=
        find_at (A := pre ++ [.jump (.gen .done i) (some (.not c))]) (B := Bd.1 ++
          .jump (.gen .loop i) (some c) :: .label (.gen .done i) :: post) (by rw [hP']; simp) (by simp)
          (by
            intro hm
            simp only [List.mem_cons, List.mem_append, reduceCtorEq, false_or, List.not_mem_nil, or_false] at hm
            exact hf1 .loop i (Nat.le_refl _) (by omega) hm)
      have hfd : findLabel P (.gen .done i) = some (pre.length + 2 + Bd.1.length + 1) :=
        find_at (A := pre ++ .jump (.gen .done i) (some (.not c)) :: .label (.gen .loop i) :: (Bd.1 ++
          [.jump (.gen .loop i) (some c)])) (B := post) (by rw [hP']; simp) (by simp; omega)
          (by
            intro hm
            simp only [List.mem_cons, List.mem_append, Stmt.label.injEq, reduceCtorEq, false_or,
              Label.gen.injEq, List.not_mem_nil, or_false] at hm
            rcases hm with hm | hm | hm
            · exact hf1 .done i (Nat.le_refl _) (by omega) hm
            · exact absurd hm.1 (by decide)
            · obtain ⟨K, k, he, h3, h4⟩ := rb.2 _ hm; cases he; omega)
      have hbody := simB (some (.gen .done i, .gen .loop i)) (pre.length + 2 + Bd.1.length + 1) (pre.length + 1)
        (by intro bl cl h; cases h; exact ⟨hfd, hfl⟩) b (i+1)
        (pre ++ [.jump (.gen .done i) (some (.not c)), .label (.gen .loop i)])
        (.jump (.gen .loop i) (some c) :: .label (.gen .done i) :: post)
        (by rw [hP', hBd]; simp)
        (by
          rw [hBd]; intro K k h1 h2 hm
          simp only [List.mem_cons, List.mem_append, Stmt.label.injEq, reduceCtorEq, false_or,
              Label.gen.injEq, List.not_mem_nil, or_false] at hm
          rcases hm with hm | hm
          · exact hf1 K k (by omega) h2 hm
          · omega)
        (by
          rw [hBd]; intro K k h1 h2 hm
          simp only [List.mem_cons, Stmt.label.injEq, reduceCtorEq, false_or, Label.gen.injEq] at hm
          rcases hm with hm | hm
          · omega
          · exact hf2 K k (by omega) h2 hm)
      simp only [List.length_append, List.length_cons, List.length_nil, hBd, Option.isSome_some] at hbody
      have hloop : ∀ fuel g st, g < fuel → execM S P g (pre.length + 2) st =
          Cont S P pb pc (pre.length + (2 + Bd.1.length + 2))
            (loopW S c (fun g st => execTB S true b g st) fuel g st) := by
        intro fuel
        induction fuel with
        | zero => intro g st h; omega
        | succ fuel ih =>
          intro g st hlt
          have hb := hbody g st
          have hok := execTB_ok S true b g st
          rw [show pre.length + (0 + 1 + 1) = pre.length + 2 by omega] at hb
          rw [hb, loopW]
          cases hO : execTB S true b g st with
          | norm st' g' =>
            simp only [hO, GasOK] at hok
            simp only [Cont]
            rw [show pre.length + (0 + 1 + 1) + Bd.1.length = pre.length + 2 + Bd.1.length by omega]
            cases g' with
            | zero => rw [execM_zero S P _ _ _ hgF]; simp [tick_zero, Cont]
            | succ g' =>
              rw [execM_step S P _ _ _ _ hgF]
              simp only [tick_succ, hfl]
              by_cases hc : S.truthy (S.ev c st').1 = true
              · simp only [hc, if_true]
                exact ih g' _ (by omega)
              · simp only [hc, if_false]
                cases g' with
                | zero => rw [execM_zero S P _ _ _ hgD]; simp [tick_zero, Cont]
                | succ g3 =>
                  rw [execM_step S P _ _ _ _ hgD]
                  simp only [tick_succ, Cont]
                  exact congrArg (fun n => execM S P g3 n _) (by omega)
          | brk st' g' => simp only [Cont]; exact congrArg (fun n => execM S P g' n _) (by omega)
          | cont st' g' =>
            simp only [hO, GasOK] at hok
            simp only [Cont]
            exact ih g' st' (by omega)
          | ret v st' => simp [Cont]
          | oog => simp [Cont]
      cases g with
      | zero => rw [execM_zero S P _ _ _ hgH]; simp [execTS, tick_zero, Cont]
      | succ g =>
        rw [execM_step S P _ _ _ _ hgH]
        simp only [S.ev_not_t, S.ev_not_s, execTS, tick_succ, hfd]
        cases hc : S.truthy (S.ev c st).1 with
        | true =>
          simp only [Bool.not_true, Bool.false_eq_true, if_false, if_true]
          cases g with
          | zero => rw [execM_zero S P _ _ _ hgL]; simp [tick_zero, Cont]
          | succ g1 =>
            rw [execM_step S P _ _ _ _ hgL]
            simp only [tick_succ]
            have := hloop (g1+1) g1 (S.ev c st).2 (Nat.lt_succ_self _)
            simp only [List.length_append, List.length_cons, List.length_nil] at this ⊢
            rw [show pre.length + 1 + 1 = pre.length + 2 by omega, this]
        | false =>
          simp only [Bool.not_false, if_true, Bool.false_eq_true, if_false, Cont]
          exact congrArg (fun n => execM S P g n _) (by simp; omega)
theorem simB (lp : Option (Label × Label)) (pb pc : Nat)
    (hlp : ∀ bl cl, lp = some (bl, cl) → findLabel P bl = some pb ∧ findLabel P cl = some pc) :
    ∀ (B : List SStmt) (i : Nat) (pre post : List Stmt),
    P = pre ++ (lowerB lp B i).1 ++ post →
    Fresh pre i (lowerB lp B i).2 → Fresh post i (lowerB lp B i).2 →
    ∀ g st, execM S P g pre.length st =
      Cont S P pb pc (pre.length + (lowerB lp B i).1.length) (execTB S lp.isSome B g st)
  | [], i, pre, post, hP, _, _, g, st => by simp [lowerB, execTB, Cont]
  | s :: ss, i, pre, post, hP, hf1, hf2, g, st => by
      have r1 := lowerS_range lp s i
      have r2 := lowerB_range lp ss (lowerS lp s i).2
      simp only [lowerB] at hP hf1 hf2 ⊢
      have h1 := simS lp pb pc hlp s i pre ((lowerB lp ss (lowerS lp s i).2).1 ++ post)
        (by rw [hP]; simp [List.append_assoc])
        (hf1.mono (Nat.le_refl _) r2.1)
        ((fresh_of_range r2.2 (Or.inr (Nat.le_refl _))).append (hf2.mono (Nat.le_refl _) r2.1)) g st
      rw [h1, execTB]
      cases hO : execTS S lp.isSome s g st with
      | norm st' g' =>
        simp only [Cont]
        have h2 := simB lp pb pc hlp ss (lowerS lp s i).2 (pre ++ (lowerS lp s i).1) post
          (by rw [hP]; simp [List.append_assoc])
          ((hf1.mono r1.1 (Nat.le_refl _)).append (fresh_of_range r1.2 (Or.inl (Nat.le_refl _))))
          (hf2.mono r1.1 (Nat.le_refl _)) g' st'
        simp only [List.length_append] at h2
        rw [h2, Nat.add_assoc]; cases execTB S lp.isSome ss g' st' <;> simp [Cont]
      | brk st' g' => simp [Cont]
      | cont st' g' => simp [Cont]
      | ret v st' => simp [Cont]
      | oog => simp [Cont]
end
end

/-- whole-program corollary: top level, no enclosing loop -/
theorem lower_exact (S : Sem σ ν) (B : List SStmt) (g : Nat) (st : σ) :
    execM S (lowerB none B 0).1 g 0 st =
      Cont S (lowerB none B 0).1 0 0 (lowerB none B 0).1.length (execTB S false B g st) := by
  have := simB S (lowerB none B 0).1 none 0 0 (by intro _ _ h; cases h) B 0 [] [] (by simp)
    (by intro K k _ _; simp) (by intro K k _ _; simp) g st
  simpa using this

#print axioms lower_exact
#print axioms simB
