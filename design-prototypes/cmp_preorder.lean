/-! Prototype for C11: value comparison is a total preorder (nested arrays / objects). -/

inductive V where
  | null | bool (b : Bool) | num (q : Int) | str (s : List Nat) | dt (t : Int)
  | arr (xs : List V) | obj (kvs : List (List Nat × V)) | fn (id : Nat) | regex (id : Nat)

def tyRank : V → Nat      -- alphabetical order of the type names: array boolean datetime function null number object regex string
  | .arr _ => 0 | .bool _ => 1 | .dt _ => 2 | .fn _ => 3 | .null => 4 | .num _ => 5 | .obj _ => 6 | .regex _ => 7 | .str _ => 8

def cmpI (a b : Int) : Ordering := if a < b then .lt else if a = b then .eq else .gt
def cmpN (a b : Nat) : Ordering := if a < b then .lt else if a = b then .eq else .gt
def cmpS : List Nat → List Nat → Ordering
  | [], [] => .eq | [], _ :: _ => .lt | _ :: _, [] => .gt
  | a :: as, b :: bs => (cmpN a b).then (cmpS as bs)
def cmpB (a b : Bool) : Ordering := cmpN a.toNat b.toNat

mutual
def cmp : V → V → Ordering
  | .null, .null => .eq
  | .null, _ => .lt
  | _, .null => .gt
  | .str a, .str b => cmpS a b
  | .bool a, .bool b => cmpB a b
  | .num a, .num b => cmpI a b
  | .dt a, .dt b => cmpI a b
  | .arr a, .arr b => cmpL a b
  | .obj a, .obj b => cmpO a b
  | a, b => cmpN (tyRank a) (tyRank b)
def cmpL : List V → List V → Ordering
  | [], [] => .eq | [], _ :: _ => .lt | _ :: _, [] => .gt
  | a :: as, b :: bs => (cmp a b).then (cmpL as bs)
def cmpO : List (List Nat × V) → List (List Nat × V) → Ordering
  | [], [] => .eq | [], _ :: _ => .lt | _ :: _, [] => .gt
  | (ka, a) :: as, (kb, b) :: bs => ((cmpS ka kb).then (cmp a b)).then (cmpO as bs)
end

/-- the two laws that make `c` a total preorder comparison -/
def Swap (c : α → α → Ordering) : Prop := ∀ a b, c a b = (c b a).swap
def TransLe (c : α → α → Ordering) : Prop := ∀ a b d, c a b ≠ .gt → c b d ≠ .gt → c a d ≠ .gt

theorem cmpN_swap (a b : Nat) : cmpN a b = (cmpN b a).swap := by
  unfold cmpN; grind [Ordering.swap]
theorem cmpI_swap (a b : Int) : cmpI a b = (cmpI b a).swap := by
  unfold cmpI; grind [Ordering.swap]
theorem cmpS_swap : ∀ a b, cmpS a b = (cmpS b a).swap
  | [], [] => rfl | [], _ :: _ => rfl | _ :: _, [] => rfl
  | a :: as, b :: bs => by simp [cmpS, Ordering.swap_then, ← cmpN_swap a b, ← cmpS_swap as bs]

mutual
theorem cmp_swap : ∀ a b, cmp a b = (cmp b a).swap
  | a, b => by
    cases a <;> cases b <;> simp only [cmp, Ordering.swap, tyRank] <;>
      first
      | rfl
      | exact cmpS_swap _ _
      | exact cmpI_swap _ _
      | exact cmpN_swap _ _
      | exact cmpL_swap _ _
      | exact cmpO_swap _ _
      | (unfold cmpB; exact cmpN_swap _ _)
      | decide
theorem cmpL_swap : ∀ a b, cmpL a b = (cmpL b a).swap
  | [], [] => rfl | [], _ :: _ => rfl | _ :: _, [] => rfl
  | a :: as, b :: bs => by simp [cmpL, Ordering.swap_then, ← cmp_swap a b, ← cmpL_swap as bs]
theorem cmpO_swap : ∀ a b, cmpO a b = (cmpO b a).swap
  | [], [] => rfl | [], _ :: _ => rfl | _ :: _, [] => rfl
  | (ka, a) :: as, (kb, b) :: bs => by
    simp [cmpO, Ordering.swap_then, ← cmpS_swap ka kb, ← cmp_swap a b, ← cmpO_swap as bs]
end
#print axioms cmp_swap

/-! transitivity -/
theorem then_ne_gt {a b : Ordering} : a.then b ≠ .gt ↔ (a = .lt ∨ (a = .eq ∧ b ≠ .gt)) := by
  cases a <;> cases b <;> simp [Ordering.then]

/-- strong form used for lexicographic induction: lt/eq composition -/
def Trans3 (c : α → α → Ordering) : Prop :=
  (∀ a b d, c a b = .lt → c b d ≠ .gt → c a d = .lt) ∧
  (∀ a b d, c a b ≠ .gt → c b d = .lt → c a d = .lt) ∧
  (∀ a b d, c a b = .eq → c b d = .eq → c a d = .eq)

theorem cmpN_t3 : Trans3 cmpN := by
  refine ⟨?_, ?_, ?_⟩ <;> intro a b d <;> unfold cmpN <;> grind
theorem cmpI_t3 : Trans3 cmpI := by
  refine ⟨?_, ?_, ?_⟩ <;> intro a b d <;> unfold cmpI <;> grind

theorem then_eq_lt {a b : Ordering} : a.then b = .lt ↔ (a = .lt ∨ (a = .eq ∧ b = .lt)) := by
  cases a <;> cases b <;> simp [Ordering.then]
theorem then_eq_eq {a b : Ordering} : a.then b = .eq ↔ (a = .eq ∧ b = .eq) := by
  cases a <;> cases b <;> simp [Ordering.then]

theorem ne_gt_iff {a : Ordering} : a ≠ .gt ↔ (a = .lt ∨ a = .eq) := by cases a <;> simp

theorem cmpS_t3 : Trans3 cmpS := by
  have h : ∀ a b d : List Nat,
      (cmpS a b = .lt → cmpS b d ≠ .gt → cmpS a d = .lt) ∧
      (cmpS a b ≠ .gt → cmpS b d = .lt → cmpS a d = .lt) ∧
      (cmpS a b = .eq → cmpS b d = .eq → cmpS a d = .eq) := by
    intro a
    induction a with
    | nil => intro b d; cases b <;> cases d <;> simp [cmpS]
    | cons x xs ih =>
      intro b d
      cases b with
      | nil => cases d <;> simp [cmpS]
      | cons y ys =>
        cases d with
        | nil => simp [cmpS]
        | cons z zs =>
          have ⟨n1, n2, n3⟩ := cmpN_t3
          have ⟨i1, i2, i3⟩ := ih ys zs
          have e1 := n1 x y z; have e2 := n2 x y z; have e3 := n3 x y z
          simp only [cmpS, then_eq_lt, then_eq_eq, ne_gt_iff] at *
          refine ⟨?_, ?_, ?_⟩ <;> grind
  exact ⟨fun a b d => (h a b d).1, fun a b d => (h a b d).2.1, fun a b d => (h a b d).2.2⟩
#print axioms cmpS_t3
