import BareModel.Text

/-!
# Rx — a regex AST and a backtracking matcher for the fragment of Python `re` that parser.py uses (extension C06X)

* `Atom`, `Rx`     the AST: one-character matchers (literal, `.`, `\s \S \w \d`, classes `[...]` / `[^...]`), `^`, `$`,
                   concatenation, alternation `|`, greedy `* + ?`, `(?:...)`, capture groups `(...)` / `(?P<name>...)`.
                   (Lazy quantifiers, look-around, back-references, bounded repeats do not occur in parser.py.)
* `Rx.render`      the Python source spelling.  `BareModel/RxPatterns.lean` has one AST per pattern of parser.py and
                   `C06Regex.sources_pinned` proves `render ast = source regenerated from the working tree`.
* `Rx.m`           the matcher, in continuation-passing style: `m r st k` tries every way `r` can match at state `st` in
                   the priority order of a backtracking engine (greedy = longest first, `a|b` = left first, `a?` = with
                   first) and returns the first answer `k` accepts.  Total: structural on the pattern; a star runs on a
                   fuel equal to the length of the remaining input and an iteration must consume at least one character
                   (for the patterns here no starred body is nullable: `Rx.starsOK`, checked by `decide` per pattern).
* `matchAt`        `re.match(pattern, s)`: `some st` with `st.pos = match.end()`, `st.caps` the group spans.
  `search`         `re.search`: the first start position at which `matchAt` succeeds.

Character classes (flags 32 = `re.UNICODE`, the default for `str` patterns): `\s` = `Text.isSpace` (29 code points),
`\w` = `Text.isWord` (table `Text.wordRanges`), `\d` = `isDigitU` (table `digitRanges`, the 64 runs of Unicode `Nd`),
all frozen from CPython 3.12 / Unicode 15.0 and compared with `re` for every code point on every run
(streams `charclass` of C10 and `rx-classes` of c06x).  `.` = any character but `'\n'`; `$` = at the end or before a
final `'\n'`; `^` = at position 0 (no `re.MULTILINE`).
-/

namespace Rx
open Text

/-! ## AST -/

/-- an item of a character class -/
inductive Item where
  /-- a single character, written with a backslash if `esc` -/
  | ch (esc : Bool) (c : Char)
  /-- `lo-hi` -/
  | range (lo hi : Char)
deriving Repr, DecidableEq

/-- a matcher of exactly one character -/
inductive Atom where
  /-- a literal character, written with a backslash if `esc` (`\(`, `\.`, `\/`, `\'` …) -/
  | lit (esc : Bool) (c : Char)
  /-- `.` -/
  | dot
  /-- `\s` -/
  | space
  /-- `\S` -/
  | nspace
  /-- `\w` -/
  | word
  /-- `\d` -/
  | digit
  /-- a control escape `\n`, `\r`, `\t` (`l` = the letter) -/
  | ctrl (l : Char)
  /-- `[...]` (`neg = false`) or `[^...]` -/
  | cls (neg : Bool) (items : List Item)
deriving Repr, DecidableEq

inductive Rx where
  | one (a : Atom)
  /-- `^` -/
  | bol
  /-- `$` -/
  | eol
  | seq (a b : Rx)
  /-- `a|b` -/
  | alt (a b : Rx)
  /-- `a*` -/
  | star (a : Rx)
  /-- `a+` -/
  | plus (a : Rx)
  /-- `a?` -/
  | opt (a : Rx)
  /-- `(?:a)` -/
  | ncg (a : Rx)
  /-- capture group number `i`: `(a)` or `(?P<name>a)` -/
  | cap (i : Nat) (name : Option String) (a : Rx)
deriving Repr, DecidableEq

infixr:65 " ⬝ " => Rx.seq

/-! ## character classes -/

/-- `\d` (str pattern): the runs of Unicode category `Nd` (CPython 3.12, Unicode 15.0) -/
def digitRanges : List (Nat × Nat) := [
  (0x30, 0x39), (0x660, 0x669), (0x6f0, 0x6f9), (0x7c0, 0x7c9), (0x966, 0x96f), (0x9e6, 0x9ef), (0xa66, 0xa6f),
  (0xae6, 0xaef), (0xb66, 0xb6f), (0xbe6, 0xbef), (0xc66, 0xc6f), (0xce6, 0xcef), (0xd66, 0xd6f), (0xde6, 0xdef),
  (0xe50, 0xe59), (0xed0, 0xed9), (0xf20, 0xf29), (0x1040, 0x1049), (0x1090, 0x1099), (0x17e0, 0x17e9),
  (0x1810, 0x1819), (0x1946, 0x194f), (0x19d0, 0x19d9), (0x1a80, 0x1a89), (0x1a90, 0x1a99), (0x1b50, 0x1b59),
  (0x1bb0, 0x1bb9), (0x1c40, 0x1c49), (0x1c50, 0x1c59), (0xa620, 0xa629), (0xa8d0, 0xa8d9), (0xa900, 0xa909),
  (0xa9d0, 0xa9d9), (0xa9f0, 0xa9f9), (0xaa50, 0xaa59), (0xabf0, 0xabf9), (0xff10, 0xff19), (0x104a0, 0x104a9),
  (0x10d30, 0x10d39), (0x11066, 0x1106f), (0x110f0, 0x110f9), (0x11136, 0x1113f), (0x111d0, 0x111d9),
  (0x112f0, 0x112f9), (0x11450, 0x11459), (0x114d0, 0x114d9), (0x11650, 0x11659), (0x116c0, 0x116c9),
  (0x11730, 0x11739), (0x118e0, 0x118e9), (0x11950, 0x11959), (0x11c50, 0x11c59), (0x11d50, 0x11d59),
  (0x11da0, 0x11da9), (0x11f50, 0x11f59), (0x16a60, 0x16a69), (0x16ac0, 0x16ac9), (0x16b50, 0x16b59),
  (0x1d7ce, 0x1d7ff), (0x1e140, 0x1e149), (0x1e2f0, 0x1e2f9), (0x1e4f0, 0x1e4f9), (0x1e950, 0x1e959),
  (0x1fbf0, 0x1fbf9)
]

def isDigitN (n : Nat) : Bool := digitRanges.any (fun r => r.1 ≤ n && n ≤ r.2)

def isDigitU (c : Char) : Bool := isDigitN c.toNat

/-- the character a control escape stands for -/
def ctrlChar (l : Char) : Char :=
  if l == 'n' then '\n' else if l == 'r' then '\r' else if l == 't' then '\t' else l

def Item.test : Item → Char → Bool
  | .ch _ c, x => x == c
  | .range lo hi, x => lo.toNat ≤ x.toNat && x.toNat ≤ hi.toNat

/-- does the atom match this character? -/
def Atom.test : Atom → Char → Bool
  | .lit _ c, x => x == c
  | .dot, x => x != '\n'
  | .space, x => isSpace x
  | .nspace, x => !isSpace x
  | .word, x => isWord x
  | .digit, x => isDigitU x
  | .ctrl l, x => x == ctrlChar l
  | .cls neg items, x => items.any (·.test x) != neg

/-! ## rendering: the Python source of the pattern -/

def Item.render : Item → List Char
  | .ch esc c => if esc then ['\\', c] else [c]
  | .range lo hi => [lo, '-', hi]

def Atom.render : Atom → List Char
  | .lit esc c => if esc then ['\\', c] else [c]
  | .dot => ['.']
  | .space => ['\\', 's']
  | .nspace => ['\\', 'S']
  | .word => ['\\', 'w']
  | .digit => ['\\', 'd']
  | .ctrl l => ['\\', l]
  | .cls neg items => '[' :: ((if neg then ['^'] else []) ++ items.flatMap Item.render ++ [']'])

def Rx.render : Rx → List Char
  | .one a => a.render
  | .bol => ['^']
  | .eol => ['$']
  | .seq a b => a.render ++ b.render
  | .alt a b => a.render ++ '|' :: b.render
  | .star a => a.render ++ ['*']
  | .plus a => a.render ++ ['+']
  | .opt a => a.render ++ ['?']
  | .ncg a => '(' :: '?' :: ':' :: (a.render ++ [')'])
  | .cap _ none a => '(' :: (a.render ++ [')'])
  | .cap _ (some nm) a => '(' :: '?' :: 'P' :: '<' :: (nm.toList ++ '>' :: (a.render ++ [')']))

def Rx.source (r : Rx) : String := String.ofList r.render

/-! ## static checks -/

/-- can the pattern match the empty string? -/
def Rx.nullable : Rx → Bool
  | .one _ => false
  | .bol => true
  | .eol => true
  | .seq a b => a.nullable && b.nullable
  | .alt a b => a.nullable || b.nullable
  | .star _ => true
  | .plus a => a.nullable
  | .opt _ => true
  | .ncg a => a.nullable
  | .cap _ _ a => a.nullable

/-- no `*` / `+` over a nullable body (where engines differ; the matcher below refuses an empty iteration) -/
def Rx.starsOK : Rx → Bool
  | .one _ => true
  | .bol => true
  | .eol => true
  | .seq a b => a.starsOK && b.starsOK
  | .alt a b => a.starsOK && b.starsOK
  | .star a => !a.nullable && a.starsOK
  | .plus a => !a.nullable && a.starsOK
  | .opt a => a.starsOK
  | .ncg a => a.starsOK
  | .cap _ _ a => a.starsOK

/-- the capture-group numbers in the order of their opening parentheses -/
def Rx.groups : Rx → List Nat
  | .one _ => []
  | .bol => []
  | .eol => []
  | .seq a b => a.groups ++ b.groups
  | .alt a b => a.groups ++ b.groups
  | .star a => a.groups
  | .plus a => a.groups
  | .opt a => a.groups
  | .ncg a => a.groups
  | .cap i _ a => i :: a.groups

/-- groups are numbered 1, 2, … in the order of their opening parentheses, as `re` numbers them -/
def Rx.numbered (r : Rx) : Bool := r.groups == (List.range r.groups.length).map (· + 1)

/-! ## the matcher -/

/-- matcher state: `pos` characters consumed, `rest` still to read, `caps` = the spans `(group, start, end)` of the
groups closed so far, the most recent first -/
structure St where
  pos : Nat
  rest : List Char
  caps : List (Nat × Nat × Nat)
deriving Repr, DecidableEq

abbrev K := St → Option St

/-- one character -/
def step (a : Atom) (st : St) (k : K) : Option St :=
  match st.rest with
  | c :: r => if a.test c then k ⟨st.pos + 1, r, st.caps⟩ else none
  | [] => none

/-- `$`: at the end, or before a final newline -/
def atEnd : List Char → Bool
  | [] => true
  | [c] => c == '\n'
  | _ => false

/-- greedy iteration of `ma` (at most `fuel` times; every iteration must consume), then `k`; fewer iterations are
tried when `k` (or what follows) fails -/
def loop (ma : St → K → Option St) : Nat → St → K → Option St
  | 0, st, k => k st
  | n + 1, st, k =>
    (ma st (fun st' => if st'.rest.length < st.rest.length then loop ma n st' k else none)) <|> k st

/-- `m r st k`: the first answer, in the engine's priority order, of `k` on a state reached by matching `r` from `st` -/
def Rx.m : Rx → St → K → Option St
  | .one a, st, k => step a st k
  | .bol, st, k => if st.pos = 0 then k st else none
  | .eol, st, k => if atEnd st.rest then k st else none
  | .seq a b, st, k => a.m st (fun st' => b.m st' k)
  | .alt a b, st, k => a.m st k <|> b.m st k
  | .star a, st, k => loop a.m st.rest.length st k
  | .plus a, st, k => a.m st (fun st' => loop a.m st'.rest.length st' k)
  | .opt a, st, k => a.m st k <|> k st
  | .ncg a, st, k => a.m st k
  | .cap i _ a, st, k => a.m st (fun st' => k { st' with caps := (i, st.pos, st'.pos) :: st'.caps })

/-- `pattern.match(s)` seen from position `p` of a longer string (`p = 0`: `re.match`) -/
def matchFrom (r : Rx) (p : Nat) (s : List Char) : Option St := r.m ⟨p, s, []⟩ some

/-- `re.match(pattern, s)` -/
def matchAt (r : Rx) (s : List Char) : Option St := matchFrom r 0 s

/-- `re.search(pattern, s)` from position `p`: the leftmost start with a match -/
def searchFrom (r : Rx) : Nat → List Char → Option (Nat × St)
  | p, [] => (matchFrom r p []).map (fun st => (p, st))
  | p, c :: t =>
    match matchFrom r p (c :: t) with
    | some st => some (p, st)
    | none => searchFrom r (p + 1) t

/-- `re.search(pattern, s)`: (`match.start()`, final state) -/
def search (r : Rx) (s : List Char) : Option (Nat × St) := searchFrom r 0 s

/-- `match.span(i)` -/
def St.span (st : St) (i : Nat) : Option (Nat × Nat) := st.caps.lookup i

/-- `s[a:b]` -/
def slice (s : List Char) (ab : Nat × Nat) : List Char := (s.drop ab.1).take (ab.2 - ab.1)

/-- `match.group(i)` -/
def St.group (st : St) (s : List Char) (i : Nat) : Option (List Char) := (st.span i).map (slice s)

/-! ## pattern-building helpers (plain functions: `render` and `m` compute through them) -/

def lit (c : Char) : Rx := .one (.lit false c)
def elit (c : Char) : Rx := .one (.lit true c)
def sp : Rx := .one .space
/-- `\s*` -/
def ws : Rx := .star sp
/-- `\s+` -/
def ws1 : Rx := .plus sp

/-- a non-empty literal word -/
def word1 (c : Char) : List Char → Rx
  | [] => lit c
  | d :: ds => lit c ⬝ word1 d ds

/-- a literal word (`kw ""` is not used) -/
def kw (w : List Char) : Rx :=
  match w with
  | [] => .bol
  | c :: cs => word1 c cs

/-- `[A-Za-z_]` -/
def idStart : Atom := .cls false [.range 'A' 'Z', .range 'a' 'z', .ch false '_']

/-- `[A-Za-z_]\w*` -/
def ident : Rx := .one idStart ⬝ .star (.one .word)

end Rx
