import BareModel.Syntax
import BareModel.Line
import BareModel.ExprScan
import BareModel.Gen.Reorder

/-!
# Expression parser — binary chain (mirror of parser.py:455-486)

`insR` is the body of `_parse_binary_expression` after the right operand was parsed: if the tree built so far is a
binary node whose operator the re-order table lists under the new operator, walk down its right spine while that stays
true and graft the new node there; otherwise the new operator becomes the root.  The table is the *generated* one
(`Gen.reorder`, re-extracted from `parser.BINARY_REORDER` on every run).
-/

namespace ExprParse

/-- `left_expr['binary']['op'] in BINARY_REORDER[bin_op]` -/
def reorders (newOp leftOp : BinOp) : Bool :=
  match Gen.reorder.find? (fun r => r.1 == newOp.text) with
  | some r => r.2.contains leftOp.text
  | none => false

/-- the `while` loop of parser.py:479-481, as recursion on the right spine (called on a binary node `bin pl l rr`) -/
def graft : Expr → BinOp → Expr → Expr
  | .binary pl l rr, op, r =>
      match rr with
      | .binary pr _ _ => if reorders op pr then .binary pl l (graft rr op r) else .binary pl l (.binary op rr r)
      | _ => .binary pl l (.binary op rr r)
  | t, op, r => .binary op t r

/-- parser.py:474-483 -/
def insR (t : Expr) (op : BinOp) (r : Expr) : Expr :=
  match t with
  | .binary pl _ _ => if reorders op pl then graft t op r else .binary op t r
  | _ => .binary op t r

/-- the chain loop (tail recursion of `_parse_binary_expression`) over already-parsed unary operands -/
def parseChain : Expr → List (BinOp × Expr) → Expr
  | t, [] => t
  | t, (op, r) :: rest => parseChain (insR t op r) rest

/-! ## specification side -/

/-- the eight precedence levels of the language reference (higher binds tighter) -/
def prec : BinOp → Nat
  | .pow => 8
  | .mul | .div | .mod => 7
  | .add | .sub => 6
  | .le | .lt | .ge | .gt => 5
  | .eq | .ne => 4
  | .and => 3
  | .or => 2

def rootOp : Expr → Option BinOp
  | .binary op _ _ => some op
  | _ => none

/-- A tree respects precedence and left associativity *at its binary skeleton*: operands of a chain (anything that is
not a bare `binary` node: literals, variables, calls, unary applications, groups) are leaves. -/
def WFPrec : Expr → Prop
  | .binary op l r =>
      WFPrec l ∧ WFPrec r ∧ (∀ q, rootOp l = some q → prec op ≤ prec q) ∧ (∀ q, rootOp r = some q → prec op < prec q)
  | _ => True

/-- in-order token sequence of the binary skeleton: operands are `Sum.inl`, operators `Sum.inr` -/
def flat : Expr → List (Expr ⊕ BinOp)
  | .binary op l r => flat l ++ [.inr op] ++ flat r
  | e => [.inl e]

/-- an operand of a chain (what `_parse_unary_expression` returns): never a bare binary node -/
def IsOperand (e : Expr) : Prop := rootOp e = none

/-! ## text level (mirror of `parse_expression`, `_parse_binary_expression`, `_parse_unary_expression`)

The result type is the Python control flow made explicit: `ok (expr, next_text)` or `error (error text, error.line)`
where `error.line` is the remaining text the `BareScriptParserError` was raised with (`parse_expression` computes the
column from its length).  The functions are total by fuel; `fuelMsg` is the error text of an exhausted fuel, and
`C02.fuel_sufficient` shows that it never occurs with fuel = text length. -/

open ExprScan

abbrev Res (α : Type) := Except (String × List Char) α

def fuelMsg : String := "<out of fuel>"

/-- the tail of `_parse_binary_expression` (parser.py: match a binary operator, parse the right unary operand, insert
with `insR`, continue with the rest) as a loop; `pu` is `_parse_unary_expression` -/
def chainLoop (pu : List Char → Res (Expr × List Char)) : Nat → Expr → List Char → Res (Expr × List Char)
  | 0, l, t =>
    match scanBinOp t with
    | none => .ok (l, t)
    | some _ => .error (fuelMsg, t)
  | n + 1, l, t =>
    match scanBinOp t with
    | none => .ok (l, t)
    | some (op, rt) =>
      match pu rt with
      | .error e => .error e
      | .ok (r, nt) => chainLoop pu n (insR l op r) nt

/-- `_parse_binary_expression(expr_text)`: the first unary operand, then the chain -/
def binaryWith (pu : List Char → Res (Expr × List Char)) (n : Nat) (text : List Char) : Res (Expr × List Char) :=
  match pu text with
  | .error e => .error e
  | .ok (l, t) => chainLoop pu n l t

/-- the `while True` argument loop of a function call; `pb` is `_parse_binary_expression` -/
def argsLoop (pb : List Char → Res (Expr × List Char)) : Nat → List Expr → List Char → Res (List Expr × List Char)
  | 0, _, t => .error (fuelMsg, t)
  | n + 1, args, t =>
    match scanClose t with
    | some r => .ok (args, r)
    | none =>
      match (if args.isEmpty then some t else scanComma t) with
      | none => .error ("Syntax error", t)
      | some t1 =>
        match pb t1 with
        | .error e => .error e
        | .ok (a, nt) => argsLoop pb n (args ++ [a]) nt

/-- the non-recursive alternatives of `_parse_unary_expression`, in its order: number, string, string (double quotes),
variable, variable (brackets) -/
def parseAtom (text : List Char) : Res (Expr × List Char) :=
  match scanNumber text with
  | some (q, r) => .ok (.number q, r)
  | none =>
  match scanString '\'' text with
  | some (s, r) => .ok (.string (String.ofList s), r)
  | none =>
  match scanString '"' text with
  | some (s, r) => .ok (.string (String.ofList s), r)
  | none =>
  match scanVariable text with
  | some (n, r) => .ok (.variable (Name.ofString (String.ofList n)), r)
  | none =>
  match scanVariableEx text with
  | some (n, r) => .ok (.variable (Name.ofString (String.ofList n)), r)
  | none => .error ("Syntax error", text)

/-- `_parse_unary_expression`: group, unary operator, function call, then the atoms -/
def parseUnary : Nat → List Char → Res (Expr × List Char)
  | 0, text =>
    if (scanGroupOpen text).isSome || (scanUnaryOp text).isSome || (scanFuncOpen text).isSome then .error (fuelMsg, text)
    else parseAtom text
  | fuel + 1, text =>
    match scanGroupOpen text with
    | some gt =>
      match binaryWith (parseUnary fuel) fuel gt with
      | .error e => .error e
      | .ok (e, nt) =>
        match scanClose nt with
        | none => .error ("Unmatched parenthesis", text)
        | some r => .ok (.group e, r)
    | none =>
    match scanUnaryOp text with
    | some (op, ut) =>
      match parseUnary fuel ut with
      | .error e => .error e
      | .ok (e, nt) => .ok (.unary op e, nt)
    | none =>
    match scanFuncOpen text with
    | some (name, argText) =>
      match argsLoop (binaryWith (parseUnary fuel) fuel) fuel [] argText with
      | .error e => .error e
      | .ok (args, r) => .ok (.function (Name.ofString (String.ofList name)) args, r)
    | none => parseAtom text

/-- `_parse_binary_expression(expr_text)` -/
def parseBinary (fuel : Nat) (text : List Char) : Res (Expr × List Char) := binaryWith (parseUnary fuel) fuel text

/-- `parse_expression` on a character list: trailing non-blank text is a 'Syntax error' at that text; the column of any
error is `len(expr_text) - len(error.line) + 1` -/
def parseExprL (cs : List Char) : Except ParseErr Expr :=
  match parseBinary cs.length cs with
  | .ok (e, nt) => if (skipWs nt).isEmpty then .ok e else .error ⟨"Syntax error", cs.length - nt.length + 1⟩
  | .error (msg, line) => .error ⟨msg, cs.length - line.length + 1⟩

/-- `parse_expression(expr_text)` -/
def parseExpr (s : String) : Except ParseErr Expr := parseExprL s.toList

end ExprParse
