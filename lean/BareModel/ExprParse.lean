import BareModel.Syntax
import BareModel.Gen.Reorder

/-!
# Expression parser — binary chain (mirror of parser.py:455-486)

`insR` is the body of `_parse_binary_expression` after the right operand was parsed: if the tree built so far is a
binary node whose operator the re-order table lists under the new operator, walk down its right spine while that stays
true and graft the new node there; otherwise the new operator becomes the root.  The table is the *generated* one
(`Gen.reorder`, re-extracted from `parser.BINARY_REORDER` on every run).
-/

namespace ExprParse

/-- `left_expr['binary']['op'] in BINARY_REORDER[bin_op]` -/
def reorders (newOp leftOp : BinOp) : Bool :=
  match Gen.reorder.find? (fun r => r.1 == newOp.text) with
  | some r => r.2.contains leftOp.text
  | none => false

/-- the `while` loop of parser.py:479-481, as recursion on the right spine (called on a binary node `bin pl l rr`) -/
def graft : Expr → BinOp → Expr → Expr
  | .binary pl l rr, op, r =>
      match rr with
      | .binary pr _ _ => if reorders op pr then .binary pl l (graft rr op r) else .binary pl l (.binary op rr r)
      | _ => .binary pl l (.binary op rr r)
  | t, op, r => .binary op t r

/-- parser.py:474-483 -/
def insR (t : Expr) (op : BinOp) (r : Expr) : Expr :=
  match t with
  | .binary pl _ _ => if reorders op pl then graft t op r else .binary op t r
  | _ => .binary op t r

/-- the chain loop (tail recursion of `_parse_binary_expression`) over already-parsed unary operands -/
def parseChain : Expr → List (BinOp × Expr) → Expr
  | t, [] => t
  | t, (op, r) :: rest => parseChain (insR t op r) rest

/-! ## specification side -/

/-- the eight precedence levels of the language reference (higher binds tighter) -/
def prec : BinOp → Nat
  | .pow => 8
  | .mul | .div | .mod => 7
  | .add | .sub => 6
  | .le | .lt | .ge | .gt => 5
  | .eq | .ne => 4
  | .and => 3
  | .or => 2

def rootOp : Expr → Option BinOp
  | .binary op _ _ => some op
  | _ => none

/-- A tree respects precedence and left associativity *at its binary skeleton*: operands of a chain (anything that is
not a bare `binary` node: literals, variables, calls, unary applications, groups) are leaves. -/
def WFPrec : Expr → Prop
  | .binary op l r =>
      WFPrec l ∧ WFPrec r ∧ (∀ q, rootOp l = some q → prec op ≤ prec q) ∧ (∀ q, rootOp r = some q → prec op < prec q)
  | _ => True

/-- in-order token sequence of the binary skeleton: operands are `Sum.inl`, operators `Sum.inr` -/
def flat : Expr → List (Expr ⊕ BinOp)
  | .binary op l r => flat l ++ [.inr op] ++ flat r
  | e => [.inl e]

/-- an operand of a chain (what `_parse_unary_expression` returns): never a bare binary node -/
def IsOperand (e : Expr) : Prop := rootOp e = none

end ExprParse
