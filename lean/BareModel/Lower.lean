import BareModel.Syntax
import BareModel.Line

/-!
# Lowering of structured control flow to jumps (parser.py:40-403)

* **spec** `lowerS / lowerB / lowerElse`: the lowering as a recursive function of the structured program
  (`SStmt`), threading the script-wide label counter.
* **mirror** `PState / stepLine / parseLines`: the line-at-a-time algorithm of `parse_script` with its stack
  `label_defs`, the counter `label_index`, the per-function stack floor and the in-place re-targeting of the last
  conditional jump at `endif`.
* `render`: the classified lines a user writes for a structured program.

`C01.parseLines_render` (T1) states `parseLines (render B) = ok (lowerB none B 0).1`.
-/

mutual
/-- Structured statements.  An `if` chain is `ite c t e` with `e : SElse` (nothing / `else` block / `elif` …). -/
inductive SStmt where
  | expr (name : Option Name) (e : Expr)                      -- assignment or expression statement
  | ret (e : Option Expr)
  | ite (c : Expr) (t : List SStmt) (e : SElse)
  | while (c : Expr) (b : List SStmt)
  | for (value : Name) (index : Option Name) (vals : Expr) (b : List SStmt)
  | brk
  | cont
  | func (fid : Nat) (name : Name) (args : List Name) (lastArgArray : Bool) (isAsync : Bool) (b : List SStmt)
  | label (l : Name)                                          -- pass-through statements
  | jump (l : Name) (c : Option Expr)
  | include (incs : List IncludeScript)
inductive SElse where
  | none
  | els (b : List SStmt)
  | elif (c : Expr) (t : List SStmt) (e : SElse)
end

namespace Lower

def notE (e : Expr) : Expr := .unary .not e

/-- labels / variables of construct number `i` -/
def lIf (i : Nat) : Name := .gen .ifL i
def lDone (i : Nat) : Name := .gen .done i
def lLoop (i : Nat) : Name := .gen .loop i
def lCont (i : Nat) : Name := .gen .cont i
def vIndex (i : Nat) : Name := .gen .index i
def vValues (i : Nat) : Name := .gen .values i
def vLength (i : Nat) : Name := .gen .length i

def fnArrayLength : Name := .user "arrayLength"
def fnArrayGet : Name := .user "arrayGet"

/-- header of a `for` loop (parser.py:268-281) -/
def forHeader (i : Nat) (value : Name) (ix : Name) (vals : Expr) : List Stmt :=
  [ .expr (some (vValues i)) vals,
    .expr (some (vLength i)) (.function fnArrayLength [.variable (vValues i)]),
    .jump (lDone i) (some (notE (.variable (vLength i)))),
    .expr (some ix) (.number 0),
    .label (lLoop i),
    .expr (some value) (.function fnArrayGet [.variable (vValues i), .variable ix]) ]

/-- footer of a `for` loop (parser.py:297-309) -/
def forFooter (i : Nat) (ix : Name) (hasContinue : Bool) : List Stmt :=
  (if hasContinue then [.label (lCont i)] else []) ++
  [ .expr (some ix) (.binary .add (.variable ix) (.number 1)),
    .jump (lLoop i) (some (.binary .lt (.variable ix) (.variable (vLength i)))),
    .label (lDone i) ]

mutual
/-- does the block contain a `continue` that binds to the enclosing loop (not inside a nested loop or function)? -/
def usesContS : SStmt → Bool
  | .cont => true
  | .ite _ t e => usesContB t || usesContE e
  | _ => false
def usesContB : List SStmt → Bool
  | [] => false
  | s :: ss => usesContS s || usesContB ss
def usesContE : SElse → Bool
  | .none => false
  | .els b => usesContB b
  | .elif _ t e => usesContB t || usesContE e
end

mutual
/-- `lp` = labels of the innermost enclosing loop of the same function: (break target, continue target) -/
def lowerS (lp : Option (Name × Name)) : SStmt → Nat → List Stmt × Nat
  | .expr n e, i => ([.expr n e], i)
  | .ret e, i => ([.ret e], i)
  | .label l, i => ([.label l], i)
  | .jump l c, i => ([.jump l c], i)
  | .include incs, i => ([.include incs], i)
  | .brk, i => (match lp with | some (b, _) => [.jump b none] | none => [], i)
  | .cont, i => (match lp with | some (_, c) => [.jump c none] | none => [], i)
  | .ite c t e, i =>
      -- the conditional jump targets this branch's own `If` label unless it is the last branch and no else follows
      let tgt := match e with | .none => lDone i | _ => lIf i
      let r1 := lowerB lp t (i+1)
      let r2 := lowerElse lp (lIf i) (lDone i) e r1.2
      ([.jump tgt (some (notE c))] ++ r1.1 ++ r2.1, r2.2)
  | .while c b, i =>
      let r := lowerB (some (lDone i, lLoop i)) b (i+1)
      ([.jump (lDone i) (some (notE c)), .label (lLoop i)] ++ r.1 ++
        [.jump (lLoop i) (some c), .label (lDone i)], r.2)
  | .for v ix vals b, i =>
      let ixv := ix.getD (vIndex i)
      let r := lowerB (some (lDone i, lCont i)) b (i+1)
      (forHeader i v ixv vals ++ r.1 ++ forFooter i ixv (usesContB b), r.2)
  | .func fid n args laa isAsync b, i =>
      let r := lowerB none b i
      ([.function fid n args laa isAsync r.1], r.2)
def lowerB (lp : Option (Name × Name)) : List SStmt → Nat → List Stmt × Nat
  | [], i => ([], i)
  | s :: ss, i =>
      let r1 := lowerS lp s i
      let r2 := lowerB lp ss r1.2
      (r1.1 ++ r2.1, r2.2)
/-- the rest of an `if` chain after a branch body; `cur` = the `If` label of the conditional jump emitted last -/
def lowerElse (lp : Option (Name × Name)) (cur done : Name) : SElse → Nat → List Stmt × Nat
  | .none, i => ([.label done], i)
  | .els b, i =>
      let r := lowerB lp b i
      ([.jump done none, .label cur] ++ r.1 ++ [.label done], r.2)
  | .elif c t e, i =>
      let tgt := match e with | .none => done | _ => lIf i
      let r1 := lowerB lp t (i+1)
      let r2 := lowerElse lp (lIf i) done e r1.2
      ([.jump done none, .label cur, .jump tgt (some (notE c))] ++ r1.1 ++ r2.1, r2.2)
end

mutual
/-- the label counter after lowering (number of `if`/`elif`/`while`/`for` constructs), independent of `lp` -/
def cntS : SStmt → Nat → Nat
  | .ite _ t e, i => cntE e (cntB t (i+1))
  | .while _ b, i => cntB b (i+1)
  | .for _ _ _ b, i => cntB b (i+1)
  | .func _ _ _ _ _ b, i => cntB b i
  | _, i => i
def cntB : List SStmt → Nat → Nat
  | [], i => i
  | s :: ss, i => cntB ss (cntS s i)
def cntE : SElse → Nat → Nat
  | .none, i => i
  | .els b, i => cntB b i
  | .elif _ t e, i => cntE e (cntB t (i+1))
end

/-- `parse_script` on a structured program: counter starts at 0, no enclosing loop -/
def lowerProgram (B : List SStmt) : List Stmt := (lowerB none B 0).1

/-! ## rendering a structured program as classified lines -/

mutual
def renderS : SStmt → List Line
  | .expr none e => [.exprStmt e]
  | .expr (some n) e => [.assign n e]
  | .ret e => [.ret e]
  | .label l => [.label l]
  | .jump l c => [.jump l c]
  | .include incs => incs.map fun i => Line.include i.url i.system
  | .brk => [.break_]
  | .cont => [.continue_]
  | .ite c t e => [.ifBegin c] ++ renderB t ++ renderE e
  | .while c b => [.whileBegin c] ++ renderB b ++ [.endwhile]
  | .for v ix vals b => [.forBegin v ix vals] ++ renderB b ++ [.endfor]
  | .func _ n args laa isAsync b => [.funcBegin n args laa isAsync] ++ renderB b ++ [.funcEnd]
def renderB : List SStmt → List Line
  | [] => []
  | s :: ss => renderS s ++ renderB ss
def renderE : SElse → List Line
  | .none => [.endif]
  | .els b => [.else_] ++ renderB b ++ [.endif]
  | .elif c t e => [.elif c] ++ renderB t ++ renderE e
end

/-! ## mirror: the line-at-a-time algorithm -/

/-- an entry of `label_defs` -/
inductive LabelDef where
  /-- `jumpAt` = position (in the current statement list) of the conditional jump held in `ifthen['jump']`,
  `jumpLabel` its current label, `done`, `hasElse` -/
  | ifD (jumpAt : Nat) (jumpLabel : Name) (done : Name) (hasElse : Bool)
  | whileD (loop done : Name) (c : Expr)
  | forD (i : Nat) (ix : Name) (hasContinue : Bool)
deriving Repr, Inhabited

structure OpenFunc where
  fid : Nat
  name : Name
  args : List Name
  lastArgArray : Bool
  isAsync : Bool
  body : List Stmt            -- statements of the open function so far
  floor : Nat                 -- `function_label_def_depth`
deriving Repr, Inhabited

structure PState where
  stmts : List Stmt           -- `script['statements']`
  func : Option OpenFunc      -- `function_def`
  defs : List LabelDef        -- `label_defs`, innermost FIRST (head = top of stack)
  idx : Nat                   -- `label_index`
  nextFid : Nat               -- number of function definitions seen so far
deriving Repr, Inhabited

def PState.init : PState := { stmts := [], func := none, defs := [], idx := 0, nextFid := 0 }

/-- the list new statements are appended to -/
def PState.cur (s : PState) : List Stmt := match s.func with | some f => f.body | none => s.stmts

def PState.setCur (s : PState) (ss : List Stmt) : PState :=
  match s.func with
  | some f => { s with func := some { f with body := ss } }
  | none => { s with stmts := ss }

def PState.emit (s : PState) (ss : List Stmt) : PState := s.setCur (s.cur ++ ss)

/-- `label_def_depth` -/
def PState.floor (s : PState) : Nat := match s.func with | some f => f.floor | none => 0

/-- entries of `defs` that belong to the current scope (above the function floor), innermost first -/
def PState.scopeDefs (s : PState) : List LabelDef := s.defs.take (s.defs.length - s.floor)

inductive LowerErr where
  | nestedFunction | noMatchingFunction | missingEnd (kind : String)
  | noMatchingIf | elifAfterElse | multipleElse | noMatchingWhile | noMatchingFor
  | breakOutside | continueOutside
deriving Repr, DecidableEq, Inhabited

def LowerErr.text : LowerErr → String
  | .nestedFunction => "Nested function definition"
  | .noMatchingFunction => "No matching function definition"
  | .missingEnd k => "Missing end" ++ k ++ " statement"
  | .noMatchingIf => "No matching if statement"
  | .elifAfterElse => "Elif statement following else statement"
  | .multipleElse => "Multiple else statements"
  | .noMatchingWhile => "No matching while statement"
  | .noMatchingFor => "No matching for statement"
  | .breakOutside => "Break statement outside of loop"
  | .continueOutside => "Continue statement outside of loop"

def LabelDef.kind : LabelDef → String
  | .ifD .. => "if" | .whileD .. => "while" | .forD .. => "for"

/-- re-target the conditional jump stored at position `at_` (the in-place `ifthen['jump']['label'] = …`) -/
def retarget (ss : List Stmt) (at_ : Nat) (l : Name) : List Stmt :=
  match ss[at_]? with
  | some (.jump _ c) => ss.set at_ (.jump l c)
  | _ => ss

/-- the innermost loop entry of the current scope, skipping `if` entries; with the entries skipped before it -/
def findLoop : List LabelDef → Option (List LabelDef × LabelDef × List LabelDef)
  | [] => none
  | d :: rest =>
      match d with
      | .ifD .. => (findLoop rest).map fun (pre, l, post) => (d :: pre, l, post)
      | _ => some ([], d, rest)

def stepLine (s : PState) : Line → Except LowerErr PState
  | .assign n e => .ok (s.emit [.expr (some n) e])
  | .exprStmt e => .ok (s.emit [.expr none e])
  | .label l => .ok (s.emit [.label l])
  | .jump l c => .ok (s.emit [.jump l c])
  | .ret e => .ok (s.emit [.ret e])
  | .include url sys =>
      -- merged into the preceding include statement of the same list, if that is what precedes
      match s.cur.getLast? with
      | some (.include incs) => .ok (s.setCur (s.cur.dropLast ++ [.include (incs ++ [{ url := url, system := sys }])]))
      | _ => .ok (s.emit [.include [{ url := url, system := sys }]])
  | .funcBegin n args laa isAsync =>
      match s.func with
      | some _ => .error .nestedFunction
      | none => .ok { s with func := some { fid := s.nextFid, name := n, args := args, lastArgArray := laa, isAsync := isAsync,
                                             body := [], floor := s.defs.length },
                             nextFid := s.nextFid + 1 }
  | .funcEnd =>
      match s.func with
      | none => .error .noMatchingFunction
      | some f =>
          if s.defs.length > f.floor then .error (.missingEnd (s.defs.head!.kind))
          else .ok { s with func := none,
                            stmts := s.stmts ++ [.function f.fid f.name f.args f.lastArgArray f.isAsync f.body] }
  | .ifBegin c =>
      let s1 := s.emit [.jump (lIf s.idx) (some (notE c))]
      .ok { s1 with defs := .ifD s.cur.length (lIf s.idx) (lDone s.idx) false :: s.defs, idx := s.idx + 1 }
  | .elif c =>
      match s.scopeDefs with
      | .ifD _ prev done hasElse :: _ =>
          if hasElse then .error .elifAfterElse
          else
            let s1 := s.emit [.jump done none, .label prev, .jump (lIf s.idx) (some (notE c))]
            .ok { s1 with defs := .ifD (s.cur.length + 2) (lIf s.idx) done false :: s.defs.tail, idx := s.idx + 1 }
      | _ => .error .noMatchingIf
  | .else_ =>
      match s.scopeDefs with
      | .ifD at_ cur done hasElse :: _ =>
          if hasElse then .error .multipleElse
          else
            let s1 := s.emit [.jump done none, .label cur]
            .ok { s1 with defs := .ifD at_ cur done true :: s.defs.tail }
      | _ => .error .noMatchingIf
  | .endif =>
      match s.scopeDefs with
      | .ifD at_ _ done hasElse :: _ =>
          let ss := if hasElse then s.cur else retarget s.cur at_ done
          .ok { (s.setCur (ss ++ [.label done])) with defs := s.defs.tail }
      | _ => .error .noMatchingIf
  | .whileBegin c =>
      let s1 := s.emit [.jump (lDone s.idx) (some (notE c)), .label (lLoop s.idx)]
      .ok { s1 with defs := .whileD (lLoop s.idx) (lDone s.idx) c :: s.defs, idx := s.idx + 1 }
  | .endwhile =>
      match s.scopeDefs with
      | .whileD loop done c :: _ =>
          .ok { (s.emit [.jump loop (some c), .label done]) with defs := s.defs.tail }
      | _ => .error .noMatchingWhile
  | .forBegin v ix vals =>
      let ixv := ix.getD (vIndex s.idx)
      let s1 := s.emit (forHeader s.idx v ixv vals)
      .ok { s1 with defs := .forD s.idx ixv false :: s.defs, idx := s.idx + 1 }
  | .endfor =>
      match s.scopeDefs with
      | .forD i ixv hasContinue :: _ =>
          .ok { (s.emit (forFooter i ixv hasContinue)) with defs := s.defs.tail }
      | _ => .error .noMatchingFor
  | .break_ =>
      match findLoop s.scopeDefs with
      | some (_, .whileD _ done _, _) => .ok (s.emit [.jump done none])
      | some (_, .forD i _ _, _) => .ok (s.emit [.jump (lDone i) none])
      | _ => .error .breakOutside
  | .continue_ =>
      match findLoop s.scopeDefs with
      | some (_, .whileD loop _ _, _) => .ok (s.emit [.jump loop none])            -- `hasContinue` set but never read
      | some (pre, .forD i ixv _, _) =>
          -- `loop_def['hasContinue'] = True`
          let s1 := s.emit [.jump (lCont i) none]
          .ok { s1 with defs := pre ++ [.forD i ixv true] ++ s.defs.drop (pre.length + 1) }
      | _ => .error .continueOutside

/-- end of input (parser.py:396-403 + the F12 fix) -/
def finish (s : PState) : Except LowerErr (List Stmt) :=
  match s.defs with
  | d :: _ => .error (.missingEnd d.kind)
  | [] => match s.func with
    | some _ => .error (.missingEnd "function")
    | none => .ok s.stmts

def parseLinesFrom (s : PState) : List Line → Except LowerErr PState
  | [] => .ok s
  | l :: ls => match stepLine s l with
    | .ok s' => parseLinesFrom s' ls
    | .error e => .error e

def parseLines (ls : List Line) : Except LowerErr (List Stmt) :=
  match parseLinesFrom PState.init ls with
  | .ok s => finish s
  | .error e => .error e

end Lower
