import BareModel.Machine
import BareModel.HostImpl
import BareModel.Gen.Alias

/-!
# Specification layer of expression evaluation (property C03)

The mirror `Machine.evalExpr` threads a state through the evaluation.  The specification below is *compositional*:
the value of an expression (`valueOf`) and the sequence of calls its evaluation makes (`traceOf`) are defined by
recursion on the expression, the trace as the **concatenation, in source order, of the traces of exactly those
sub-expressions the laziness rules select** — so "each selected sub-expression contributes exactly once, left to right"
is what the definition *says*; `C03.once_left_to_right` shows that the state-threading evaluator computes exactly this.

Everything here is definitions (no Mathlib).
-/

namespace EvalSpec
open Machine

/-! ## the TRACE instance of the evaluator -/

/-- the world of the TRACE instance: the calls made so far, oldest first, each with its evaluated arguments -/
abbrev Trace := List (Value × List Value)

/-- a call in the TRACE instance: record `(f, args)`, return `result f args`; globals and counter untouched -/
def traceCall (result : Value → List Value → Value) : CallFn Trace :=
  fun f args st => .ok (result f args) { st with world := st.world ++ [(f, args)] }

/-- the host operators do not look at the trace -/
structure Blind (h : Host Trace) : Prop where
  truthy : ∀ v w w', h.truthy v w = h.truthy v w'
  binop : ∀ op a b w w', h.binop op a b w = h.binop op a b w'

/-! ## the specification -/

/-- what the specification needs to know about the context of an evaluation -/
structure Ctx where
  truthy : Value → Bool
  binop : BinOp → Value → Value → Value
  neg : Value → Value
  result : Value → List Value → Value          -- what a call returns
  var : Name → Value                           -- variable lookup (locals, then globals, else null)
  func : Name → Option Value                   -- function lookup (locals, then globals, then built-ins)

/-- outcome of a specification-level evaluation: a value, or the `Undefined function "<n>"` runtime error -/
inductive SRes (α : Type) where
  | ok (a : α)
  | undef (n : Name)
deriving Repr, DecidableEq

/-- the function value a call resolves to: unbound and bound-to-null are both "undefined" -/
def callee (c : Ctx) (n : Name) : Option Value :=
  match c.func n with
  | some .null => none
  | some fv => some fv
  | none => none

/-- does the right operand of `op` get evaluated, given the outcome of the left operand?
(`&&`: iff the left is truthy; `||`: iff the left is falsy; every other operator: always; nothing after a failure) -/
def rightSelected (c : Ctx) (op : BinOp) : SRes Value → Bool
  | .undef _ => false
  | .ok lv =>
    match op with
    | .and => c.truthy lv
    | .or => !c.truthy lv
    | _ => true

mutual
/-- the value of an expression -/
def valueOf (c : Ctx) : Expr → SRes Value
  | .number q => .ok (.num q)
  | .string s => .ok (.str s)
  | .variable n =>
      if n = kwNull then .ok .null else if n = kwFalse then .ok (.bool false) else if n = kwTrue then .ok (.bool true)
      else .ok (c.var n)
  | .function n args =>
      if n = kwIf then ifValue c args
      else
        match valuesOf c args with
        | .undef m => .undef m
        | .ok vs =>
          match callee c n with
          | some fv => .ok (c.result fv vs)
          | none => .undef n
  | .binary op l r =>
      match valueOf c l with
      | .undef m => .undef m
      | .ok lv =>
        match op with
        | .and => if c.truthy lv then valueOf c r else .ok lv
        | .or => if c.truthy lv then .ok lv else valueOf c r
        | op =>
          match valueOf c r with
          | .undef m => .undef m
          | .ok rv => .ok (c.binop op lv rv)
  | .unary .not e =>
      match valueOf c e with
      | .undef m => .undef m
      | .ok v => .ok (.bool (!c.truthy v))
  | .unary .neg e =>
      match valueOf c e with
      | .undef m => .undef m
      | .ok v => .ok (c.neg v)
  | .group e => valueOf c e

/-- the values of an argument list -/
def valuesOf (c : Ctx) : List Expr → SRes (List Value)
  | [] => .ok []
  | a :: as =>
      match valueOf c a with
      | .undef m => .undef m
      | .ok v =>
        match valuesOf c as with
        | .undef m => .undef m
        | .ok vs => .ok (v :: vs)

/-- `if(cond, then, else)`: the value of the selected branch; a missing branch is null -/
def ifValue (c : Ctx) : List Expr → SRes Value
  | [] => .ok .null
  | [cnd] =>
      match valueOf c cnd with
      | .undef m => .undef m
      | .ok _ => .ok .null
  | [cnd, t] =>
      match valueOf c cnd with
      | .undef m => .undef m
      | .ok v => if c.truthy v then valueOf c t else .ok .null
  | cnd :: t :: f :: _ =>
      match valueOf c cnd with
      | .undef m => .undef m
      | .ok v => if c.truthy v then valueOf c t else valueOf c f
end

/-- the record a completed call leaves in the trace: nothing if an argument failed or the function is undefined -/
def callTrace (c : Ctx) (n : Name) : SRes (List Value) → Trace
  | .undef _ => []
  | .ok vs =>
    match callee c n with
    | some fv => [(fv, vs)]
    | none => []

/-- the branch of an `if` that is selected by the outcome of the condition -/
def branchSelected (c : Ctx) (t f : Option Expr) : SRes Value → Option Expr
  | .undef _ => none
  | .ok v => if c.truthy v then t else f

mutual
/-- the calls made by evaluating an expression, in order -/
def traceOf (c : Ctx) : Expr → Trace
  | .number _ => []
  | .string _ => []
  | .variable _ => []
  | .function n args =>
      if n = kwIf then ifTrace c args
      else tracesOf c args ++ callTrace c n (valuesOf c args)          -- arguments first, then the call itself
  | .binary op l r => traceOf c l ++ (if rightSelected c op (valueOf c l) then traceOf c r else [])
  | .unary _ e => traceOf c e
  | .group e => traceOf c e

/-- arguments left to right; nothing after an argument that failed -/
def tracesOf (c : Ctx) : List Expr → Trace
  | [] => []
  | a :: as =>
      traceOf c a ++ (match valueOf c a with | .ok _ => tracesOf c as | .undef _ => [])

/-- `if`: the condition, then only the selected branch; arguments after the third are never evaluated -/
def ifTrace (c : Ctx) : List Expr → Trace
  | [] => []
  | [cnd] => traceOf c cnd
  | [cnd, t] =>
      traceOf c cnd ++ (match valueOf c cnd with
        | .ok v => if c.truthy v then traceOf c t else []
        | .undef _ => [])
  | cnd :: t :: f :: _ =>
      traceOf c cnd ++ (match valueOf c cnd with
        | .ok v => if c.truthy v then traceOf c t else traceOf c f
        | .undef _ => [])
end

/-! ## embedding the specification into the result type of the mirror -/

/-- the specification context of a TRACE-instance evaluation -/
def ctxOf (cfg : Config Trace) (result : Value → List Value → Value) (locals : Option Env) (globals : Env) : Ctx where
  truthy := fun v => cfg.host.truthy v []
  binop := fun op a b => cfg.host.binop op a b []
  neg := cfg.host.neg
  result := result
  var := lookupVar locals globals
  func := lookupFunc cfg locals globals

/-- a specification outcome + the trace it appends, as a result of the mirror started in state `st` -/
def embed (r : SRes Value) (t : Trace) (st : State Trace) : Out Trace :=
  match r with
  | .ok v => .ok v { st with world := st.world ++ t }
  | .undef n => .err (.undefinedFunction n) { st with world := st.world ++ t }

def embedArgs (r : SRes (List Value)) (t : Trace) (st : State Trace) : ArgsOut Trace :=
  match r with
  | .ok vs => .ok vs { st with world := st.world ++ t }
  | .undef n => .err (.undefinedFunction n) { st with world := st.world ++ t }

/-! ## the typed operator table -/

/-- the 12 strict binary operators (`&&` and `||` are not dispatched through `Host.binop`) -/
def strictOps : List BinOp := [.pow, .mul, .div, .mod, .add, .sub, .le, .lt, .ge, .gt, .eq, .ne]

def isCompare : BinOp → Bool
  | .le | .lt | .ge | .gt | .eq | .ne => true
  | _ => false

/-- the operand type pairs (by `typeName`) each strict operator supports -/
def supported (op : BinOp) (ta tb : String) : Bool :=
  match op with
  | .add => (ta == "number" && tb == "number") || ta == "string" || tb == "string"
            || (ta == "datetime" && tb == "number") || (ta == "number" && tb == "datetime")
  | .sub => (ta == "number" && tb == "number") || (ta == "datetime" && tb == "datetime")
  | .mul | .div | .mod | .pow => ta == "number" && tb == "number"
  | .le | .lt | .ge | .gt | .eq | .ne => true
  | .and | .or => false

def typeNames : List String := ["null", "boolean", "number", "string", "datetime", "array", "object", "function", "regex"]

/-! ## the built-in expression functions -/

/-- `EXPRESSION_FUNCTIONS` as generated from the working tree: alias ↦ the library function it is -/
def builtinOf : Name → Option FnVal
  | .user s => (Gen.aliases.find? (·.1 == s)).map fun t => .lib t.2.1
  | .gen _ _ => none

/-- the documented expression library: (built-in, the library function it is an alias of) -/
def documentedAliases : List (String × String) := [
  ("abs", "mathAbs"), ("acos", "mathAcos"), ("asin", "mathAsin"), ("atan", "mathAtan"), ("atan2", "mathAtan2"),
  ("ceil", "mathCeil"), ("charCodeAt", "stringCharCodeAt"), ("cos", "mathCos"), ("date", "datetimeNew"),
  ("day", "datetimeDay"), ("endsWith", "stringEndsWith"), ("fixed", "numberToFixed"), ("floor", "mathFloor"),
  ("fromCharCode", "stringFromCharCode"), ("hour", "datetimeHour"), ("indexOf", "stringIndexOf"),
  ("lastIndexOf", "stringLastIndexOf"), ("len", "stringLength"), ("ln", "mathLn"), ("log", "mathLog"),
  ("lower", "stringLower"), ("max", "mathMax"), ("millisecond", "datetimeMillisecond"), ("min", "mathMin"),
  ("minute", "datetimeMinute"), ("month", "datetimeMonth"), ("now", "datetimeNow"), ("parseFloat", "numberParseFloat"),
  ("parseInt", "numberParseInt"), ("pi", "mathPi"), ("rand", "mathRandom"), ("replace", "stringReplace"),
  ("rept", "stringRepeat"), ("round", "mathRound"), ("second", "datetimeSecond"), ("sign", "mathSign"), ("sin", "mathSin"),
  ("slice", "stringSlice"), ("sqrt", "mathSqrt"), ("startsWith", "stringStartsWith"), ("tan", "mathTan"),
  ("text", "stringNew"), ("today", "datetimeToday"), ("trim", "stringTrim"), ("upper", "stringUpper"),
  ("year", "datetimeYear")]

end EvalSpec
