import BareModel.Machine
import BareModel.ExprParse
import BareModel.Data
import BareModel.HostImpl

/-!
# DataExpr — dataFilter / dataCalculatedField / dataJoin evaluate their expression TEXT (property C19, extension X1)

`BareModel/Data.lean` takes the per-row evaluator as an abstract pure parameter `eval : Row → Option PValue`.  Here the
evaluator is the modelled pipeline itself: `ExprParse.parseExpr` (text → tree | parser error) followed by
`Machine.evalExpr` with

* locals  := the ROW (`rowEnv`: the row's fields as variables, `evaluate_expression(expr, eval_options, row)`),
* globals := the globals of the options, overridden by `variables` (`{**globals, **variables}`, data.py:196-200, 250-256, 293-299),
* builtins enabled at the top level (`builtins=True` default of `evaluate_expression`); script functions called from the
  expression run their statements through `callValue` (statement counter, `maxStatements`, `builtins` of the configuration).

Evaluation is EFFECTFUL: the machine state (globals, world = heap + log, statement counter) is threaded through the rows in
order — for the join the right rows first, then the left rows.  What survives the call (`leave`):

* the world (heap, log) and the statement counter always (`_eval_options_done` copies `statementCount` back),
* global writes only when `variables` is null (otherwise they went to the merged COPY of the globals).

A parser error aborts before anything is evaluated (`DOut.parseErr`); a runtime error aborts the loop (`DOut.err`: the rows
`dataCalculatedField` already updated stay updated).  `oof` = out of fuel (model artefact, as in `Machine`).

Rows are insertion-ordered dicts held BY VALUE (`VRow`); their cells are machine values (containers are references into
the world).  Scope limit (stated, sampled never): a row *object* reachable from the globals / variables / a cell, or occurring
twice in one table, could be observed or mutated by the expression through that alias; this model has no such alias.

Two layers: *mirror* (`filterLoop`, `calcLoop`, `bucketLoop`, `joinLoop`: shaped like data.py) and *spec* (`runRows`,
`runKeys`: the fold of the machine over the rows; `keepRows`, `joinPairs`: shaped like the property).  No Mathlib.
-/

namespace DataExpr
open Machine

abbrev VRow := List (String × Value)
abbrev VTable := List VRow

/-- the row as `locals_` -/
def rowEnv (r : VRow) : Env := r.map fun p => (Name.ofString p.1, p.2)

/-- `{**globals, **variables}`: a key of the globals keeps its position, new keys are appended, later entries win -/
def mergeVars (g : Env) (vars : VRow) : Env := vars.foldl (fun g p => g.set (Name.ofString p.1) p.2) g

/-- `row[k] = v` -/
def rowSet (k : String) (v : Value) : VRow → VRow
  | [] => [(k, v)]
  | (k', v') :: rest => if k' = k then (k, v) :: rest else (k', v') :: rowSet k v rest

/-- `row.get(k)` -/
def rowGet? (k : String) (r : VRow) : Option Value := (r.find? (·.1 == k)).map (·.2)

/-- what a data function is given besides its arguments: the options (`cfg`: host, script function table, `maxStatements`;
`cfg.builtins` is the flag statements run with, `false` in `execute_script`), the fuel, and the host's `_bucket_key`
(`none`: it raised — a container that contains itself) -/
structure Ctx (W : Type) where
  cfg : Config W
  fuel : Nat
  key : W → Value → Option Data.Key

variable {W : Type}

/-- `evaluate_expression(expr, eval_options, row)` -/
def evalRow (C : Ctx W) (e : Expr) (row : VRow) (st : State W) : Out W :=
  evalExpr { C.cfg with builtins := true } (callValue C.cfg C.fuel) (some (rowEnv row)) e st

/-- the evaluation options object: with `variables`, a copy of the options whose globals are the merged dict -/
def enter (vars : Option VRow) (st : State W) : State W :=
  match vars with
  | none => st
  | some vs => { st with globals := mergeVars st.globals vs }

/-- after the call (`_eval_options_done`): world and counter survive; the globals of the caller are the caller's own dict -/
def leave (vars : Option VRow) (st0 st1 : State W) : State W :=
  match vars with
  | none => st1
  | some _ => { st1 with globals := st0.globals }

/-- outcome of a loop over rows -/
inductive LOut (W : Type) (α : Type) where
  | ok (a : α) (st : State W)
  | err (e : RtErr) (a : α) (st : State W)       -- a BareScriptRuntimeError left the loop; `a` = what had been built
  | keyErr (st : State W)                        -- `_bucket_key` raised (RecursionError)
  | oof

/-- outcome of a data function: `data` = the result; for `err` the INPUT table as it is after the call -/
inductive DOut (W : Type) where
  | ok (data : VTable) (st : State W)
  | err (e : RtErr) (data : VTable) (st : State W)
  | parseErr (e : ParseErr)
  | keyErr (st : State W)
  | oof

/-! ## SPEC: the fold of the machine over the rows -/

/-- evaluate the rows in order, threading the state; the answer lists, per row, the value and the world right after its
evaluation (where `value_boolean` / `_bucket_key` look at it) -/
def runRows (ev : VRow → State W → Out W) : VTable → State W → LOut W (List (Value × W))
  | [], st => .ok [] st
  | row :: rest, st =>
    match ev row st with
    | .ok v st1 =>
      match runRows ev rest st1 with
      | .ok vs st2 => .ok ((v, st1.world) :: vs) st2
      | .err e vs st2 => .err e ((v, st1.world) :: vs) st2
      | .keyErr s => .keyErr s
      | .oof => .oof
    | .err e st1 => .err e [] st1
    | .oof => .oof

/-- the same fold computing the bucket key of every value (stops at the first key failure) -/
def runKeys (ev : VRow → State W → Out W) (key : W → Value → Option Data.Key) : VTable → State W → LOut W (List Data.Key)
  | [], st => .ok [] st
  | row :: rest, st =>
    match ev row st with
    | .ok v st1 =>
      match key st1.world v with
      | none => .keyErr st1
      | some k =>
        match runKeys ev key rest st1 with
        | .ok ks st2 => .ok (k :: ks) st2
        | .err e ks st2 => .err e (k :: ks) st2
        | .keyErr s => .keyErr s
        | .oof => .oof
    | .err e st1 => .err e [] st1
    | .oof => .oof

/-- the rows whose value is truthy, in order (the rows themselves) -/
def keepRows (truthy : Value → W → Bool) (rows : VTable) (vs : List (Value × W)) : VTable :=
  ((rows.zip vs).filter (fun p => truthy p.2.1 p.2.2)).map (·.1)

/-- the flags "row i is kept" -/
def keepMarks (truthy : Value → W → Bool) (vs : List (Value × W)) : List Bool := vs.map (fun p => truthy p.1 p.2)

/-! ## MIRROR: dataFilter -/

/-- `for row in data: if value_boolean(evaluate_expression(filter_expr, eval_options, row)): result.append(row)` -/
def filterLoop (ev : VRow → State W → Out W) (truthy : Value → W → Bool) : VTable → VTable → State W → LOut W VTable
  | [], result, st => .ok result st
  | row :: rest, result, st =>
    match ev row st with
    | .ok v st1 => filterLoop ev truthy rest (if truthy v st1.world then result ++ [row] else result) st1
    | .err e st1 => .err e result st1
    | .oof => .oof

/-- `filter_data` after the parse -/
def filterCore (C : Ctx W) (e : Expr) (vars : Option VRow) (data : VTable) (st : State W) : DOut W :=
  match filterLoop (evalRow C e) C.cfg.host.truthy data [] (enter vars st) with
  | .ok res st1 => .ok res (leave vars st st1)
  | .err er _ st1 => .err er data (leave vars st st1)
  | .keyErr st1 => .keyErr (leave vars st st1)
  | .oof => .oof

/-- `dataFilter(data, expr, variables)` (`filter_data`, data.py:268-307) -/
def dataFilter (C : Ctx W) (text : String) (vars : Option VRow) (data : VTable) (st : State W) : DOut W :=
  match ExprParse.parseExpr text with
  | .error pe => .parseErr pe
  | .ok e => filterCore C e vars data st

/-! ## MIRROR: dataCalculatedField -/

/-- `for row in data: row[field_name] = evaluate_expression(calc_expr, eval_options, row)`: the answer is the data array after
the loop (on an error: the rows before the failing one updated) -/
def calcLoop (ev : VRow → State W → Out W) (field : String) : VTable → State W → LOut W VTable
  | [], st => .ok [] st
  | row :: rest, st =>
    match ev row st with
    | .ok v st1 =>
      match calcLoop ev field rest st1 with
      | .ok rs st2 => .ok (rowSet field v row :: rs) st2
      | .err e rs st2 => .err e (rowSet field v row :: rs) st2
      | .keyErr s => .keyErr s
      | .oof => .oof
    | .err e st1 => .err e (row :: rest) st1
    | .oof => .oof

def calcCore (C : Ctx W) (field : String) (e : Expr) (vars : Option VRow) (data : VTable) (st : State W) : DOut W :=
  match calcLoop (evalRow C e) field data (enter vars st) with
  | .ok res st1 => .ok res (leave vars st st1)
  | .err er res st1 => .err er res (leave vars st st1)
  | .keyErr st1 => .keyErr (leave vars st st1)
  | .oof => .oof

/-- `dataCalculatedField(data, fieldName, expr, variables)` (`add_calculated_field`, data.py:226-265) -/
def dataCalculatedField (C : Ctx W) (field text : String) (vars : Option VRow) (data : VTable) (st : State W) : DOut W :=
  match ExprParse.parseExpr text with
  | .error pe => .parseErr pe
  | .ok e => calcCore C field e vars data st

/-! ## MIRROR: dataJoin -/

/-- only the field names of a row matter for the joined names -/
def eraseRow (r : VRow) : Data.Row := r.map fun p => (p.1, Compare.PValue.null)

/-- the `right_names` dict of data.py:160-184 (`Data.rightNames` on the field names) -/
def joinNames (leftData rightData : VTable) : Option (List (String × String)) :=
  Data.rightNames (leftData.map eraseRow) (rightData.map eraseRow)

/-- `right_names[right_name]` (the key is always present: `C19Expr.joinNames_total`) -/
def renameOf (names : List (String × String)) (n : String) : String := (Data.bucketLookup n names).getD n

/-- `join_row = dict(left_row); for right_name, right_value in right_row.items(): join_row[right_names[right_name]] = right_value` -/
def joinRow (names : List (String × String)) (left right : VRow) : VRow :=
  right.foldl (fun jr p => rowSet (renameOf names p.1) p.2 jr) left

/-- `for right_row in right_data: category_key = _bucket_key(evaluate_expression(right_expression, eval_options, right_row)); …append` -/
def bucketLoop (ev : VRow → State W → Out W) (key : W → Value → Option Data.Key) :
    VTable → List (Data.Key × List VRow) → State W → LOut W (List (Data.Key × List VRow))
  | [], acc, st => .ok acc st
  | row :: rest, acc, st =>
    match ev row st with
    | .ok v st1 =>
      match key st1.world v with
      | none => .keyErr st1
      | some k => bucketLoop ev key rest (Data.bucketAdd k row acc) st1
    | .err e st1 => .err e acc st1
    | .oof => .oof

/-- the loop over the left rows (data.py:210-219).  NOTE the flag as the code has it: a left row without partner is kept iff
NOT `is_left_join` -/
def joinLoop (ev : VRow → State W → Out W) (key : W → Value → Option Data.Key) (names : List (String × String))
    (buckets : List (Data.Key × List VRow)) (isLeftJoin : Bool) : VTable → VTable → State W → LOut W VTable
  | [], data, st => .ok data st
  | leftRow :: rest, data, st =>
    match ev leftRow st with
    | .ok v st1 =>
      match key st1.world v with
      | none => .keyErr st1
      | some k =>
        match Data.bucketLookup k buckets with
        | some rightRows => joinLoop ev key names buckets isLeftJoin rest (data ++ rightRows.map (joinRow names leftRow)) st1
        | none => joinLoop ev key names buckets isLeftJoin rest (if !isLeftJoin then data ++ [leftRow] else data) st1
    | .err e st1 => .err e data st1
    | .oof => .oof

/-- `join_data` after the two parses: right rows first, then left rows -/
def joinCore (C : Ctx W) (eL eR : Expr) (isLeftJoin : Bool) (vars : Option VRow) (leftData rightData : VTable) (st : State W) : DOut W :=
  match joinNames leftData rightData with
  | none => .oof                                       -- the fuel of `uniqueName` (never: `joinNames_total`)
  | some names =>
    match bucketLoop (evalRow C eR) C.key rightData [] (enter vars st) with
    | .ok buckets st1 =>
      match joinLoop (evalRow C eL) C.key names buckets isLeftJoin leftData [] st1 with
      | .ok res st2 => .ok res (leave vars st st2)
      | .err er _ st2 => .err er leftData (leave vars st st2)
      | .keyErr st2 => .keyErr (leave vars st st2)
      | .oof => .oof
    | .err er _ st1 => .err er leftData (leave vars st st1)
    | .keyErr st1 => .keyErr (leave vars st st1)
    | .oof => .oof

/-- `dataJoin(leftData, rightData, joinExpr, rightExpr, isLeftJoin, variables)` (`join_data`, data.py:139-223): `joinExpr` is
parsed first, then `rightExpr` (when given; else the right expression is the left one) -/
def dataJoin (C : Ctx W) (textL : String) (textR : Option String) (isLeftJoin : Bool) (vars : Option VRow)
    (leftData rightData : VTable) (st : State W) : DOut W :=
  match ExprParse.parseExpr textL with
  | .error pe => .parseErr pe
  | .ok eL =>
    match textR with
    | none => joinCore C eL eL isLeftJoin vars leftData rightData st
    | some t =>
      match ExprParse.parseExpr t with
      | .error pe => .parseErr pe
      | .ok eR => joinCore C eL eR isLeftJoin vars leftData rightData st

/-- SPEC: the relational join on rows annotated with their key: each left row, in order, with each right row of equal key in
right order; a left row without partner is kept iff `keepUnmatched` -/
def joinPairs (merge : VRow → VRow → VRow) (keepUnmatched : Bool) (left right : List (VRow × Data.Key)) : VTable :=
  left.flatMap fun l =>
    let partners := (right.filter (fun r => r.2 = l.2)).map (·.1)
    if partners.isEmpty then (if keepUnmatched then [l.1] else []) else partners.map (merge l.1)

/-! ## the concrete host of the driver: `HostImpl` + the expression built-ins `abs`, `len`, `max`, `min` -/

namespace X
open HostImpl

/-- `mathMax` / `mathMin`: `result = first; for value in rest: if value_compare(value, result) > 0 (< 0): result = value` -/
def pickGo (w : World) (gt : Bool) : List Value → Value → Option Value
  | [], r => some r
  | v :: vs, r =>
    match compare? w v r with
    | none => none
    | some c => pickGo w gt vs (if (if gt then c > 0 else c < 0) then v else r)

def lib (name : String) (args : List Value) (w : World) : LibTree World :=
  match name, args with
  | "mathMax", [] => ok .null w
  | "mathMax", v :: vs => match pickGo w true vs v with | some r => ok r w | none => fail .null w
  | "mathMin", [] => ok .null w
  | "mathMin", v :: vs => match pickGo w false vs v with | some r => ok r w | none => fail .null w
  | "mathAbs", [.num x] => ok (.num (if x < 0 then -x else x)) w
  | "mathAbs", _ => fail .null w
  | "stringLength", [.str s] => ok (.num (s.length : Int)) w
  | "stringLength", _ => fail (.num 0) w
  | _, _ => HostImpl.lib name args w

def moreNames : List String := ["mathMax", "mathMin", "mathAbs", "stringLength"]

/-- `EXPRESSION_FUNCTIONS` restricted to the modelled functions -/
def builtin : Name → Option FnVal
  | .user "abs" => some (.lib "mathAbs")
  | .user "len" => some (.lib "stringLength")
  | .user "max" => some (.lib "mathMax")
  | .user "min" => some (.lib "mathMin")
  | _ => none

def host : Host World := { HostImpl.host with lib := lib, builtin := builtin }

mutual
/-- `_bucket_key` on a heap value; `none`: the recursion re-enters a container on the current path (RecursionError) -/
def keyF (w : World) : Nat → List Nat → Value → Option Data.Key
  | 0, _, _ => none
  | fuel+1, path, v =>
    match v with
    | .null => some .null
    | .bool b => some (.bool b)
    | .num q => some (.num q)
    | .str s => some (.str s)
    | .dt t => some (.dt t)
    | .fn (.script k) => some (.other false (3 * k))
    | .fn (.lib n) => some (.other false (3 * n.hash.toNat + 1))
    | .fn (.other k) => some (.other false (3 * k + 2))
    | .regex r => some (.other true r)
    | .arr r => if path.contains r then none else (keyList w fuel (r :: path) ((w.arr? r).getD [])).map .arr
    | .obj r => if path.contains r then none else (keyItems w fuel (r :: path) ((w.obj? r).getD [])).map fun ks => .obj (Data.sortKeyItems ks)
def keyList (w : World) : Nat → List Nat → List Value → Option (List Data.Key)
  | _, _, [] => some []
  | fuel, path, v :: vs =>
    match keyF w fuel path v with
    | none => none
    | some k => (keyList w fuel path vs).map (k :: ·)
def keyItems (w : World) : Nat → List Nat → List (String × Value) → Option (List (String × Data.Key))
  | _, _, [] => some []
  | fuel, path, (n, v) :: kvs =>
    match keyF w fuel path v with
    | none => none
    | some k => (keyItems w fuel path kvs).map ((n, k) :: ·)
end

/-- a path without repetition is at most `heap.length` long -/
def key (w : World) (v : Value) : Option Data.Key := keyF w (w.heap.length + 2) [] v

end X

end DataExpr
