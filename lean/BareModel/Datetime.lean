/-!
# Datetime — model of BareScript's datetime construction, arithmetic and ISO text (property C16)

Two layers.

**Mirror** (shaped like the Python):
* `datetimeNew` = `value_args_validate(_DATETIME_NEW_ARGS)` + `datetimeNewCore`, the body of `library._datetime_new`
  (library.py:622-671): the four carry steps written with Python's `//`, the month normalisation, the two day loops
  over `calendar.monthrange`, and finally the `datetime.datetime(...)` constructor with its field checks (`mkDT`).
  Anything the real function raises (`ValueError` for a year outside 1..9999, `ValueArgsError`) surfaces in a script
  as `null`; that is `none` here.
* the getters, `value_string`'s datetime branch (`isoFormat`) and `value_parse_datetime` (`isoParse`) over an
  abstract zone (`offL` : UTC offset in seconds that `astimezone()` picks for a naive local time, `offU` : UTC offset
  in seconds in force at a UTC instant).
* `addMs` / `subMs`: `datetime + timedelta(milliseconds=n)` and `(a - b)` in integer milliseconds.

**Spec** (shaped like the property): proleptic Gregorian ordinal arithmetic as in CPython's `Lib/_pydatetime.py`
(`daysBeforeYear`, `daysBeforeMonth`, `ymd2ord`, `ord2ymd`), `fromOrdinalMs`, `datetimeNewSpec`.

All integers are unbounded; the Python code works on `float`s that hold integers (script literals) or `int`s, and every
operation it performs on them (`//`, `-`, `*`, `+`, comparisons, `int()`) is exact below 2^53 — the correspondence
sends both spellings.
-/

namespace Datetime

/-! ## Python integer primitives -/

/-- Python `a // b` (floor division) -/
def pyFloorDiv (a b : Int) : Int := Int.fdiv a b
/-- Python `a % b` (sign of the divisor) -/
def pyMod (a b : Int) : Int := Int.fmod a b

/-- `calendar.isleap` -/
def isLeap (y : Int) : Bool := pyMod y 4 == 0 && (pyMod y 100 != 0 || pyMod y 400 == 0)

/-- `calendar.mdays[month] + (month == 2 and leap)`; `none` = `IllegalMonthError` -/
def mdays (leap : Bool) (m : Int) : Option Int :=
  if m = 1 then some 31 else if m = 2 then some (if leap then 29 else 28) else if m = 3 then some 31
  else if m = 4 then some 30 else if m = 5 then some 31 else if m = 6 then some 30 else if m = 7 then some 31
  else if m = 8 then some 31 else if m = 9 then some 30 else if m = 10 then some 31 else if m = 11 then some 30
  else if m = 12 then some 31 else none

/-- second component of `calendar.monthrange(year, month)` (defined for every integer year, as in CPython) -/
def monthrange (y m : Int) : Option Int := mdays (isLeap y) m

/-- days in month as a total function (0 for an illegal month) — used by the constructor check and the spec -/
def daysInMonth (y m : Int) : Int := (monthrange y m).getD 0

/-! ## the naive local datetime value (millisecond resolution: every datetime BareScript makes has `microsecond % 1000 = 0`) -/

structure DT where
  year : Int
  month : Int
  day : Int
  hour : Int
  minute : Int
  second : Int
  ms : Int
deriving DecidableEq, Repr, Inhabited

/-- `datetime.datetime(y, mo, d, h, mi, s, ms * 1000)`: `none` = `ValueError` -/
def mkDT (y mo d h mi s ms : Int) : Option DT :=
  if 1 ≤ y ∧ y ≤ 9999 ∧ 1 ≤ mo ∧ mo ≤ 12 ∧ 1 ≤ d ∧ d ≤ daysInMonth y mo ∧
     0 ≤ h ∧ h ≤ 23 ∧ 0 ≤ mi ∧ mi ≤ 59 ∧ 0 ≤ s ∧ s ≤ 59 ∧ 0 ≤ ms ∧ ms ≤ 999 then
    some ⟨y, mo, d, h, mi, s, ms⟩
  else none

/-- the decidable well-formedness of a datetime value (what the constructor guarantees) -/
def DT.Valid (t : DT) : Prop :=
  1 ≤ t.year ∧ t.year ≤ 9999 ∧ 1 ≤ t.month ∧ t.month ≤ 12 ∧ 1 ≤ t.day ∧ t.day ≤ daysInMonth t.year t.month ∧
  0 ≤ t.hour ∧ t.hour ≤ 23 ∧ 0 ≤ t.minute ∧ t.minute ≤ 59 ∧ 0 ≤ t.second ∧ t.second ≤ 59 ∧ 0 ≤ t.ms ∧ t.ms ≤ 999

instance (t : DT) : Decidable t.Valid := by unfold DT.Valid; exact inferInstance

/-! ## MIRROR: `_datetime_new` -/

/-- `if x < 0 or x >= k: e = x // k; x -= e * k; y += e`  →  `(x, y)` -/
def carry (x y k : Int) : Int × Int :=
  if x < 0 ∨ x ≥ k then
    let e := pyFloorDiv x k
    (x - e * k, y + e)
  else (x, y)

/-- `if month < 1 or month > 12: e = (month - 1) // 12; month -= e * 12; year += e`  →  `(year, month)` -/
def monthNorm (y mo : Int) : Int × Int :=
  if mo < 1 ∨ mo > 12 then
    let e := pyFloorDiv (mo - 1) 12
    (y + e, mo - e * 12)
  else (y, mo)

/-- `while day < 1:` previous month, `day += month_days` (fuel = an upper bound on the iterations) -/
def dayUp : Nat → Int → Int → Int → Option (Int × Int × Int)
  | 0, y, m, d => some (y, m, d)
  | f + 1, y, m, d =>
    if d < 1 then
      let y' := if m ≠ 1 then y else y - 1
      let m' := if m ≠ 1 then m - 1 else 12
      match monthrange y' m' with
      | none => none
      | some md => dayUp f y' m' (d + md)
    else some (y, m, d)

/-- `while day > month_days:` `day -= month_days`, next month, recompute `month_days` -/
def dayDown : Nat → Int → Int → Int → Int → Option (Int × Int × Int)
  | 0, y, m, d, _ => some (y, m, d)
  | f + 1, y, m, d, md =>
    if d > md then
      let d' := d - md
      let y' := if m ≠ 12 then y else y + 1
      let m' := if m ≠ 12 then m + 1 else 1
      match monthrange y' m' with
      | none => none
      | some md' => dayDown f y' m' d' md'
    else some (y, m, d)

/-- the `# Adjust day` block (library.py:655-668); `none` = `calendar.IllegalMonthError` (never happens, see C16) -/
def dayAdjust (y m d : Int) : Option (Int × Int × Int) :=
  if d < 1 then dayUp (1 - d).toNat y m d
  else if d > 28 then
    match monthrange y m with
    | none => none
    | some md => dayDown d.toNat y m d md
  else some (y, m, d)

/-- the final `return datetime.datetime(year, month, day, hour, minute, second, millisecond * 1000)` -/
def construct (h mi s ms : Int) : Option (Int × Int × Int) → Option DT
  | none => none
  | some (y, mo, d) => mkDT y mo d h mi s ms

/-- body of `_datetime_new` after argument validation -/
def datetimeNewCore (y mo d h mi s ms : Int) : Option DT :=
  let c1 := carry ms s 1000       -- (millisecond, second)
  let c2 := carry c1.2 mi 60      -- (second, minute)
  let c3 := carry c2.2 h 60       -- (minute, hour)
  let c4 := carry c3.2 d 24       -- (hour, day)
  let ym := monthNorm y mo        -- (year, month)
  construct c4.1 c3.1 c2.1 c1.1 (dayAdjust ym.1 ym.2 c4.2)

/-- bounds of `_DATETIME_NEW_ARGS` (tied to `Gen.argModels` by `C16.args_table`) -/
def yearGte : Int := 100
def dayGte : Int := -10000
def dayLte : Int := 10000

/-- `datetimeNew(year, month, day, hour, minute, second, millisecond)` on integer arguments -/
def datetimeNew (y mo d h mi s ms : Int) : Option DT :=
  if yearGte ≤ y ∧ dayGte ≤ d ∧ d ≤ dayLte then datetimeNewCore y mo d h mi s ms else none

/-! getters (`datetimeYear` … `datetimeMillisecond`) are the projections `DT.year` … `DT.ms`:
`value_normalize_datetime` is the identity on a naive datetime and
`int(value_round_number(microsecond / 1000, 0))` is `ms` for `microsecond = ms * 1000`. -/

/-! ## SPEC: proleptic Gregorian ordinals (CPython `_pydatetime.py`) -/

/-- `_days_before_year`: number of days before January 1st of year `y` (floor division: valid for every integer) -/
def daysBeforeYear (y : Int) : Int :=
  let y1 := y - 1
  y1 * 365 + y1 / 4 - y1 / 100 + y1 / 400

/-- `_DAYS_BEFORE_MONTH` -/
def dbmTable (m : Int) : Int :=
  if m = 1 then 0 else if m = 2 then 31 else if m = 3 then 59 else if m = 4 then 90 else if m = 5 then 120
  else if m = 6 then 151 else if m = 7 then 181 else if m = 8 then 212 else if m = 9 then 243 else if m = 10 then 273
  else if m = 11 then 304 else if m = 12 then 334 else 365

/-- `_DAYS_IN_MONTH` (non-leap) -/
def dimTable (m : Int) : Int :=
  if m = 2 then 28 else if m = 4 ∨ m = 6 ∨ m = 9 ∨ m = 11 then 30 else 31

/-- `_days_before_month` with the leap flag given -/
def dbmL (leap : Bool) (m : Int) : Int := dbmTable m + (if m > 2 ∧ leap then 1 else 0)

/-- `_days_before_month(year, month)` -/
def daysBeforeMonth (y m : Int) : Int := dbmL (isLeap y) m

/-- `_ymd2ord`: 0001-01-01 is day 1 -/
def ymd2ord (y m d : Int) : Int := daysBeforeYear y + daysBeforeMonth y m + d

/-- month/day part of `_ord2ymd`: `n` = zero-based day of the year -/
def monthDay (leap : Bool) (n : Int) : Int × Int :=
  let month := (n + 50) / 32
  let preceding := dbmTable month + (if month > 2 ∧ leap then 1 else 0)
  if preceding > n then
    let month' := month - 1
    let preceding' := preceding - (dimTable month' + (if month' = 2 ∧ leap then 1 else 0))
    (month', n - preceding' + 1)
  else (month, n - preceding + 1)

/-- `_ord2ymd` (the 400/100/4/1-year cycle decomposition; `divmod` = floor) -/
def ord2ymd (ord : Int) : Int × Int × Int :=
  let n := ord - 1
  let n400 := n / 146097
  let n := n % 146097
  let n100 := n / 36524
  let n := n % 36524
  let n4 := n / 1461
  let n := n % 1461
  let n1 := n / 365
  let n := n % 365
  let year := n400 * 400 + 1 + n100 * 100 + n4 * 4 + n1
  if n1 = 4 ∨ n100 = 4 then (year - 1, 12, 31)
  else
    let leap := decide (n1 = 3) && (decide (n4 ≠ 24) || decide (n100 = 3))
    let md := monthDay leap n
    (year, md.1, md.2)

/-- `_MAXORDINAL` = `date(9999, 12, 31).toordinal()` -/
def maxOrdinal : Int := 3652059

def msPerDay : Int := 86400000

/-- the datetime at day ordinal `ord`, `tod` milliseconds after midnight; `none` outside years 1..9999 -/
def fromOrdinalMs (ord tod : Int) : Option DT :=
  if 1 ≤ ord ∧ ord ≤ maxOrdinal then
    let p := ord2ymd ord
    some ⟨p.1, p.2.1, p.2.2, tod / 3600000, tod / 60000 % 60, tod / 1000 % 60, tod % 1000⟩
  else none

/-- what `datetimeNew` means: calendar arithmetic from the first of the (normalised) month -/
def datetimeNewSpec (y mo d h mi s ms : Int) : Option DT :=
  let T := ((h * 60 + mi) * 60 + s) * 1000 + ms
  let Y := y + (mo - 1) / 12
  let M := (mo - 1) % 12 + 1
  fromOrdinalMs (ymd2ord Y M 1 + (d - 1) + T / msPerDay) (T % msPerDay)

/-! ## integer-millisecond instant model (`datetime + number`, `datetime - datetime`) -/

/-- milliseconds of the naive local value since 0001-01-01T00:00 -/
def toLocalMs (t : DT) : Int :=
  (ymd2ord t.year t.month t.day - 1) * msPerDay + (((t.hour * 60 + t.minute) * 60 + t.second) * 1000 + t.ms)

def ofLocalMs (x : Int) : Option DT := fromOrdinalMs (x / msPerDay + 1) (x % msPerDay)

/-- `t + datetime.timedelta(milliseconds=n)` for integral `n`; `none` = `OverflowError` (an `ArithmeticError` → null) -/
def addMs (t : DT) (n : Int) : Option DT := ofLocalMs (toLocalMs t + n)

/-- `(a - b)` in milliseconds (exact; the float path of runtime.py:306 is `round_ms_exact`) -/
def subMs (a b : DT) : Int := toLocalMs a - toLocalMs b

/-! ## ISO text: `value_string` (datetime branch) and `value_parse_datetime` -/

def digitChar (n : Nat) : Char := Char.ofNat (48 + n % 10)

/-- `%02d` -/
def pad2 (n : Nat) : List Char := [digitChar (n / 10), digitChar n]
/-- `%03d` -/
def pad3 (n : Nat) : List Char := [digitChar (n / 100), digitChar (n / 10), digitChar n]
/-- `%04d` -/
def pad4 (n : Nat) : List Char := [digitChar (n / 1000), digitChar (n / 100), digitChar (n / 10), digitChar n]

/-- `±HH:MM` of a UTC offset given in seconds, as `isoformat()` prints it and `_R_DATETIME_TZ_CLEANUP` trims it
(a seconds part, present for local-mean-time offsets, is dropped) -/
def fmtOffset (o : Int) : List Char :=
  let a := o.natAbs
  (if o < 0 then '-' else '+') :: (pad2 (a / 3600) ++ ':' :: pad2 (a / 60 % 60))

/-- `value_string(datetime)`: `astimezone().isoformat()`, microseconds cut to milliseconds. `us` = the microseconds
below the millisecond (0 for everything `datetimeNew`/`datetimeISOParse`/`+` produce; `datetimeNow()` and the host can
supply 1..999): `isoformat()` prints a fraction iff `microsecond ≠ 0`, and the fraction is then cut to 3 digits. -/
def isoFormatUs (o : Int) (t : DT) (us : Int) : List Char :=
  pad4 t.year.toNat ++ '-' :: (pad2 t.month.toNat ++ '-' :: (pad2 t.day.toNat ++ 'T' :: (pad2 t.hour.toNat ++ ':' ::
    (pad2 t.minute.toNat ++ ':' :: (pad2 t.second.toNat ++
      ((if t.ms = 0 ∧ us = 0 then [] else '.' :: pad3 t.ms.toNat) ++ fmtOffset o))))))

def isoFormatWith (o : Int) (t : DT) : List Char := isoFormatUs o t 0

def isoFormat (offL : Int → Int) (t : DT) : List Char := isoFormatWith (offL (toLocalMs t)) t

/-- `datetimeISOFormat(d, true)` -/
def isoFormatDate (t : DT) : List Char :=
  pad4 t.year.toNat ++ '-' :: (pad2 t.month.toNat ++ '-' :: pad2 t.day.toNat)

/-- an ASCII decimal digit -/
def digit? (c : Char) : Option Nat :=
  if 48 ≤ c.toNat ∧ c.toNat ≤ 57 then some (c.toNat - 48) else none

def num2? (a b : Char) : Option Nat := do
  let a ← digit? a; let b ← digit? b; pure (a * 10 + b)

def num4? (a b c d : Char) : Option Nat := do
  let x ← num2? a b; let y ← num2? c d; pure (x * 100 + y)

/-- `\d{1,6}` read as microseconds (right-padded with zeros) -/
def frac? (cs : List Char) : Option Nat :=
  if cs.length = 0 ∨ cs.length > 6 then none
  else (cs.mapM digit?).map fun ds => (ds ++ List.replicate (6 - ds.length) 0).foldl (fun acc x => acc * 10 + x) 0

/-- `(?:Z|[+-]\d{2}:\d{2})$` → offset in seconds. Hours ≤ 23 and minutes ≤ 59. -/
def zone? : List Char → Option Int
  | ['Z'] => some 0
  | [sg, h1, h2, ':', m1, m2] =>
    if sg = '+' ∨ sg = '-' then do
      let hh ← num2? h1 h2
      let mm ← num2? m1 m2
      if hh ≤ 23 ∧ mm ≤ 59 then
        let o : Int := (hh * 3600 + mm * 60 : Nat)
        some (if sg = '-' then -o else o)
      else none
    else none
  | _ => none

/-- split `(?:\.\d{1,6})?(?:Z|[+-]\d{2}:\d{2})` → (microseconds, offset seconds) -/
def fracZone? : List Char → Option (Nat × Int)
  | [] => none
  | c :: rest =>
    if c = '.' then
      let ds := rest.takeWhile fun c => (digit? c).isSome
      let tl := rest.dropWhile fun c => (digit? c).isSome
      do let us ← frac? ds; let o ← zone? tl; pure (us, o)
    else (zone? (c :: rest)).map fun o => (0, o)

/-- the fields of text matching `_R_DATETIME`: (y, mo, d, h, mi, s, microsecond, offset seconds) -/
structure IsoFields where
  year : Nat
  month : Nat
  day : Nat
  hour : Nat
  minute : Nat
  second : Nat
  us : Nat
  off : Int
deriving DecidableEq, Repr

def scanDateTime : List Char → Option IsoFields
  | y1 :: y2 :: y3 :: y4 :: '-' :: m1 :: m2 :: '-' :: d1 :: d2 :: 'T' :: h1 :: h2 :: ':' :: i1 :: i2 :: ':' :: s1 :: s2 :: rest => do
    let y ← num4? y1 y2 y3 y4
    let mo ← num2? m1 m2
    let d ← num2? d1 d2
    let h ← num2? h1 h2
    let mi ← num2? i1 i2
    let s ← num2? s1 s2
    let (us, o) ← fracZone? rest
    pure ⟨y, mo, d, h, mi, s, us, o⟩
  | _ => none

def scanDate : List Char → Option (Nat × Nat × Nat)
  | [y1, y2, y3, y4, '-', m1, m2, '-', d1, d2] => do
    let y ← num4? y1 y2 y3 y4
    let mo ← num2? m1 m2
    let d ← num2? d1 d2
    pure (y, mo, d)
  | _ => none

/-- `value_parse_datetime`: a date is local midnight; a datetime is converted from its own offset to the zone
(`astimezone()`), then cut to the millisecond. `none` = `None`. -/
def isoParse (offU : Int → Int) (cs : List Char) : Option DT :=
  match scanDate cs with
  | some (y, mo, d) => mkDT y mo d 0 0 0 0
  | none =>
    match scanDateTime cs with
    | none => none
    | some f =>
      -- `datetime.fromisoformat`: field checks
      match mkDT f.year f.month f.day f.hour f.minute f.second (f.us / 1000) with
      | none => none
      | some t =>
        -- UTC instant in ms (floor of the microsecond value is taken after the shift; offsets are whole seconds)
        let u := toLocalMs t - f.off * 1000
        -- `.astimezone()` first forms `self - utcoffset` (`OverflowError` outside years 1..9999) …
        match ofLocalMs u with
        | none => none
        | some _ =>
          -- … then shifts to the zone's local time, `.replace(tzinfo=None)`; `OverflowError` outside years 1..9999
          ofLocalMs (u + offU u * 1000)

end Datetime
