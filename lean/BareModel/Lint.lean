import BareModel.Syntax

/-!
# Lint — model of `model.py: lint_script` (lines 248-443)

**Mirror layer** (`Lint.lint`, `Lint.lintScript`): shaped like the Python — insertion-ordered dictionaries
(`Dict`, with the two update idioms `if k not in d: d[k] = v` and `d[k] = v`), one statement loop per scope that threads
`functions_defined / labels_defined / labels_used`, `sorted(d.keys())` for the after-loop reports, and the same order of
emission.  Warnings are *structured* (`Warning`), `Warning.text` renders the exact message text; `lintScript` is the list of
texts, compared verbatim with the implementation by the correspondence check.

What the code does and does not look at (modelled as is):
* a scope is the global statement list or the body of a *top-level* function; a function statement nested in a function body
  is skipped entirely by lint (finding F19: the runtime does bind and run it);
* "used" means: occurs as a variable or as the *name of a called function* in an expression of an `expr`, `jump` or `return`
  statement of that scope (nested bodies are not scanned); unused variables are reported for function scopes only;
* `labels_used` remembers the *last* jump to a name, `labels_defined` / `assigns` / `uses` the *first* index.

**Spec layer** (end of file): the set-theoretic readings `DefinedIn`, `JumpsTo`, `UnknownLabel`, `UnusedLabel`,
`RedefinedLabelAt`, `RedefinedFunctionAt`, `DuplicateArgAt` that the theorems of `BareProofs/C18.lean` relate the mirror to.
-/

namespace Lint

/-! ## Structured warnings and their texts -/

inductive Scope where
  | global
  | fn (name : Name)
deriving Repr, DecidableEq, Inhabited

inductive Warning where
  | emptyScript
  | usedBefore (sc : Scope) (v : Name) (useIx assignIx : Nat)
  | redefFunction (f : Name) (ix : Nat)
  | unusedVar (f v : Name) (ix : Nat)
  | dupArg (f a : Name) (ix : Nat)
  | unusedArg (f a : Name) (ix : Nat)
  | pointless (sc : Scope) (ix : Nat)
  | redefLabel (sc : Scope) (l : Name) (ix : Nat)
  | unusedLabel (sc : Scope) (l : Name) (ix : Nat)
  | unknownLabel (sc : Scope) (l : Name) (ix : Nat)
deriving Repr, DecidableEq, Inhabited

private def q (n : Name) : String := "\"" ++ n.render ++ "\""
private def at_ (ix : Nat) : String := "(index " ++ toString ix ++ ")"

def Warning.text : Warning → String
  | .emptyScript => "Empty script"
  | .usedBefore .global v u a =>
      "Global variable " ++ q v ++ " used " ++ at_ u ++ " before assignment " ++ at_ a
  | .usedBefore (.fn f) v u a =>
      "Variable " ++ q v ++ " of function " ++ q f ++ " used " ++ at_ u ++ " before assignment " ++ at_ a
  | .redefFunction f ix => "Redefinition of function " ++ q f ++ " " ++ at_ ix
  | .unusedVar f v ix => "Unused variable " ++ q v ++ " defined in function " ++ q f ++ " " ++ at_ ix
  | .dupArg f a ix => "Duplicate argument " ++ q a ++ " of function " ++ q f ++ " " ++ at_ ix
  | .unusedArg f a ix => "Unused argument " ++ q a ++ " of function " ++ q f ++ " " ++ at_ ix
  | .pointless .global ix => "Pointless global statement " ++ at_ ix
  | .pointless (.fn f) ix => "Pointless statement in function " ++ q f ++ " " ++ at_ ix
  | .redefLabel .global l ix => "Redefinition of global label " ++ q l ++ " " ++ at_ ix
  | .redefLabel (.fn f) l ix => "Redefinition of label " ++ q l ++ " in function " ++ q f ++ " " ++ at_ ix
  | .unusedLabel .global l ix => "Unused global label " ++ q l ++ " " ++ at_ ix
  | .unusedLabel (.fn f) l ix => "Unused label " ++ q l ++ " in function " ++ q f ++ " " ++ at_ ix
  | .unknownLabel .global l ix => "Unknown global label " ++ q l ++ " " ++ at_ ix
  | .unknownLabel (.fn f) l ix => "Unknown label " ++ q l ++ " in function " ++ q f ++ " " ++ at_ ix

/-! ## Python dictionaries `str → int` (insertion ordered) -/

abbrev Dict := List (Name × Nat)

def Dict.keys (d : Dict) : List Name := d.map (·.1)

def Dict.has (d : Dict) (k : Name) : Bool := d.keys.contains k

/-- `d[k]` for a key that is present (0 otherwise; every use below is guarded by `has`) -/
def Dict.get : Dict → Name → Nat
  | [], _ => 0
  | (a, b) :: d, k => if a = k then b else Dict.get d k

/-- `if k not in d: d[k] = v` -/
def Dict.setDefault (d : Dict) (k : Name) (v : Nat) : Dict :=
  if d.has k then d else d ++ [(k, v)]

/-- `d[k] = v` (an existing key keeps its position) -/
def Dict.set (d : Dict) (k : Name) (v : Nat) : Dict :=
  if d.has k then d.map (fun p => if p.1 = k then (k, v) else p) else d ++ [(k, v)]

/-- `sorted(d.keys())`: Python compares `str` by code point, which is `String`'s order on the rendered names -/
def sortNames (ns : List Name) : List Name :=
  ns.mergeSort (fun a b => decide (a.render ≤ b.render))

def Dict.sortedKeys (d : Dict) : List Name := sortNames d.keys

/-! ## `_get_expression_variable_uses`, `_is_pointless_expression` -/

mutual
/-- the names an expression reads, in the order the Python visits them (variables *and* called function names) -/
def exprUses : Expr → List Name
  | .number _ => []
  | .string _ => []
  | .variable n => [n]
  | .function n args => n :: argsUses args
  | .binary _ l r => exprUses l ++ exprUses r
  | .unary _ e => exprUses e
  | .group e => exprUses e
def argsUses : List Expr → List Name
  | [] => []
  | e :: es => exprUses e ++ argsUses es
end

def isPointless : Expr → Bool
  | .function _ _ => false
  | .binary _ l r => isPointless l && isPointless r
  | .unary _ e => isPointless e
  | .group e => isPointless e
  | _ => true

/-- `uses` after visiting the names `ns` of statement `ix` -/
def addUses (u : Dict) (ix : Nat) (ns : List Name) : Dict := ns.foldl (fun d n => d.setDefault n ix) u

/-- `_get_variable_assignments_and_uses` (loop from statement index `ix`) -/
def varScan : Nat → List Stmt → Dict → Dict → Dict × Dict
  | _, [], a, u => (a, u)
  | ix, .expr nm e :: rest, a, u =>
      let a' := match nm with
        | some n => a.setDefault n ix
        | none => a
      varScan (ix + 1) rest a' (addUses u ix (exprUses e))
  | ix, .jump _ (some e) :: rest, a, u => varScan (ix + 1) rest a (addUses u ix (exprUses e))
  | ix, .ret (some e) :: rest, a, u => varScan (ix + 1) rest a (addUses u ix (exprUses e))
  | ix, _ :: rest, a, u => varScan (ix + 1) rest a u

/-- "used before assignment" reports; `skip` = the function's argument names (re-assigned arguments are ignored) -/
def usedBeforeW (sc : Scope) (skip : List Name) (a u : Dict) : List Warning :=
  a.sortedKeys.filterMap fun v =>
    if skip.contains v then none
    else if u.has v && u.get v ≤ a.get v then some (.usedBefore sc v (u.get v) (a.get v))
    else none

def unusedVarW (f : Name) (a u : Dict) : List Warning :=
  a.sortedKeys.filterMap fun v => if u.has v then none else some (.unusedVar f v (a.get v))

/-- the argument loop (`args_defined` is `seen`) -/
def argLoop (f : Name) (ix : Nat) (u : Dict) : List Name → List Name → List Warning
  | _, [] => []
  | seen, a :: rest =>
      if seen.contains a then .dupArg f a ix :: argLoop f ix u seen rest
      else (if u.has a then [] else [.unusedArg f a ix]) ++ argLoop f ix u (a :: seen) rest

/-! ## The statement loop of one scope -/

structure LoopState where
  warnings : List Warning := []
  fdefs : Dict := []     -- functions_defined
  ldefs : Dict := []     -- labels_defined
  lused : Dict := []     -- labels_used
deriving Repr, Inhabited

/-- The body of one scope's statement loop at statement `s` with index `ix`.  `onFn ix name args body` is what the loop
does at a function statement *besides* the redefinition test: the per-function analysis in the global scope, nothing inside
a function body. -/
def scopeStep (sc : Scope) (onFn : Nat → Name → List Name → List Stmt → List Warning) (ix : Nat) (s : Stmt)
    (st : LoopState) : LoopState :=
  match s with
  | .function _ f args _ _ body =>
      match sc with
      | .global =>
          let st1 : LoopState :=
            if st.fdefs.has f then { st with warnings := st.warnings ++ [.redefFunction f ix] }
            else { st with fdefs := st.fdefs ++ [(f, ix)] }
          { st1 with warnings := st1.warnings ++ onFn ix f args body }
      | .fn _ => st
  | .expr nm e =>
      if nm.isNone && isPointless e then { st with warnings := st.warnings ++ [.pointless sc ix] } else st
  | .label l =>
      if st.ldefs.has l then { st with warnings := st.warnings ++ [.redefLabel sc l ix] }
      else { st with ldefs := st.ldefs ++ [(l, ix)] }
  | .jump l _ => { st with lused := st.lused.set l ix }
  | _ => st

/-- one scope's statement loop from index `ix` (`for ix, statement in enumerate(statements)`) -/
def scopeLoop (sc : Scope) (onFn : Nat → Name → List Name → List Stmt → List Warning) :
    Nat → List Stmt → LoopState → LoopState
  | _, [], st => st
  | ix, s :: rest, st => scopeLoop sc onFn (ix + 1) rest (scopeStep sc onFn ix s st)

def unusedLabelW (sc : Scope) (ldefs lused : Dict) : List Warning :=
  ldefs.sortedKeys.filterMap fun l => if lused.has l then none else some (.unusedLabel sc l (ldefs.get l))

def unknownLabelW (sc : Scope) (ldefs lused : Dict) : List Warning :=
  lused.sortedKeys.filterMap fun l => if ldefs.has l then none else some (.unknownLabel sc l (lused.get l))

/-- nothing is done for a function statement inside a function body -/
def noFn : Nat → Name → List Name → List Stmt → List Warning := fun _ _ _ _ => []

/-- the final state of the statement loop of a function body -/
def fnLoop (f : Name) (body : List Stmt) : LoopState := scopeLoop (.fn f) noFn 0 body {}

/-- everything lint reports for the function statement at global index `ix` (after the redefinition test) -/
def lintFunction (ix : Nat) (f : Name) (args : List Name) (body : List Stmt) : List Warning :=
  let au := varScan 0 body [] []
  let st := fnLoop f body
  usedBeforeW (.fn f) args au.1 au.2 ++ unusedVarW f au.1 au.2 ++ argLoop f ix au.2 [] args ++
    st.warnings ++ unusedLabelW (.fn f) st.ldefs st.lused ++ unknownLabelW (.fn f) st.ldefs st.lused

/-- the final state of the global statement loop -/
def globalLoop (ss : List Stmt) : LoopState := scopeLoop .global lintFunction 0 ss {}

/-- `lint_script`, structured -/
def lint (ss : List Stmt) : List Warning :=
  let au := varScan 0 ss [] []
  let st := globalLoop ss
  (if ss.isEmpty then [.emptyScript] else []) ++ usedBeforeW .global [] au.1 au.2 ++
    st.warnings ++ unusedLabelW .global st.ldefs st.lused ++ unknownLabelW .global st.ldefs st.lused

/-- `lint_script`: the warning texts -/
def lintScript (ss : List Stmt) : List String := (lint ss).map Warning.text

/-! ## Spec layer: what the warnings are supposed to mean -/

/-- `l` is defined in the scope `ss` -/
def DefinedIn (ss : List Stmt) (l : Name) : Prop := Stmt.label l ∈ ss

/-- some jump of the scope `ss` targets `l` -/
def JumpsTo (ss : List Stmt) (l : Name) : Prop := ∃ c, Stmt.jump l c ∈ ss

/-- `unknownLabels scope = { l | some jump in the scope targets l ∧ l is not defined in that scope }` -/
def UnknownLabel (ss : List Stmt) (l : Name) : Prop := JumpsTo ss l ∧ ¬ DefinedIn ss l

/-- `unusedLabels scope = { l | l is defined in the scope ∧ no jump of the scope targets l }` -/
def UnusedLabel (ss : List Stmt) (l : Name) : Prop := DefinedIn ss l ∧ ¬ JumpsTo ss l

/-- statement `i` of the scope defines label `l`, which an earlier statement already defined -/
def RedefinedLabelAt (ss : List Stmt) (l : Name) (i : Nat) : Prop :=
  ss[i]? = some (.label l) ∧ ∃ j, j < i ∧ ss[j]? = some (.label l)

/-- statement `i` of the script defines function `f`, which an earlier statement already defined -/
def RedefinedFunctionAt (ss : List Stmt) (f : Name) (i : Nat) : Prop :=
  (∃ k a v y b, ss[i]? = some (.function k f a v y b)) ∧ ∃ j, j < i ∧ ∃ k a v y b, ss[j]? = some (.function k f a v y b)

/-- argument position `i` repeats an earlier argument name -/
def DuplicateArgAt (args : List Name) (a : Name) (i : Nat) : Prop :=
  args[i]? = some a ∧ ∃ j, j < i ∧ args[j]? = some a

/-- index of the first / last statement satisfying `p` -/
def firstIdx (p : Stmt → Bool) (ss : List Stmt) : Option Nat := ss.findIdx? p

def isLabel (l : Name) : Stmt → Bool
  | .label l' => l' == l
  | _ => false

def isJumpTo (l : Name) : Stmt → Bool
  | .jump l' _ => l' == l
  | _ => false

/-- index of the last jump to `l` in `ss`, counting from `ix` -/
def lastJumpFrom (l : Name) : Nat → List Stmt → Option Nat
  | _, [] => none
  | ix, s :: rest =>
      match lastJumpFrom l (ix + 1) rest with
      | some j => some j
      | none => if isJumpTo l s then some ix else none

end Lint
