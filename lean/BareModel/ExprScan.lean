import BareModel.Syntax
import BareModel.Rx

/-!
# Expression token scanners (mirror of the token regexes of parser.py, `_R_EXPR_*`)

One hand-written recogniser over `List Char` per anchored token pattern, each with the semantics of
`pattern.match(text)` of CPython's backtracking `re` engine *for that exact pattern* (the pattern sources are pinned
against the generated `Gen.regexes` in `BareProofs/C02.lean`, theorem `regex_sources_pinned`):

| scanner | pattern |
|---|---|
| `scanBinOp`      | `^\s*(\*\*|\*|\/|%|\+|-|<=|<|>=|>|==|!=|&&|\|\|)` (alternation order = list order of `binOpAlts`) |
| `scanUnaryOp`    | `^\s*(!|-)` |
| `scanFuncOpen`   | `^\s*([A-Za-z_]\w+)\s*\(`  (name of at least two characters) |
| `scanComma`      | `^\s*,` |
| `scanClose`      | `^\s*\)` (function close and group close are the same pattern) |
| `scanGroupOpen`  | `^\s*\(` |
| `scanNumber`     | `^\s*([+-]?\d+(?:\.\d*)?(?:e[+-]\d+)?)`, value = the exact rational of the decimal text |
| `scanString q`   | `^\s*q((?:\\\\|\\q|[^q])*)q` followed by the substitution `\\([\\q])` → `\1`, for `q` = `'` and `"` |
| `scanVariable`   | `^\s*([A-Za-z_]\w*)` |
| `scanVariableEx` | `^\s*\[\s*((?:\\\]|[^\]])+)\s*\]` followed by the substitution `\\([\\\]])` → `\1` |

Character classes (the patterns are compiled without `re.ASCII`, so the three classes are the Unicode ones of a `str`
pattern; all three frozen from CPython 3.12 / Unicode 15.0 and compared with `re` for every code point on every run).
`\s` = `isPySpace`: the 29 code points for which CPython's `str.isspace` holds (`str.strip()` uses the same set).
`\d` = `isDigit` = `Rx.isDigitU`: the 680 code points of category `Nd`, in the 64 runs of `Rx.digitRanges`; the decimal value
of a digit (`digitVal`, what `float()` makes of it: `parse_expression('٣')` is `{'number': 3.0}`) is its offset in its run
modulo 10 (63 runs are one block `0..9`; `U+1D7CE..U+1D7FF` is five consecutive blocks).
`\w` = `isWord` = `Text.isWord`: `[A-Za-z0-9_]` plus every Unicode alphanumeric (table `Text.wordRanges`, 137 936 members;
it contains `\d`), so `aé٣(1)` is a call of the function `aé٣`.  `[A-Za-z_]` (`isIdStart`) is ASCII in the patterns.

Backtracking.  For the two patterns where the engine's backtracking is observable (`'abc\'` is the string `abc\`;
`[   ]` is the variable named by one space; `[a\]` is the variable `a\`) the scanners compute the *first match in the
engine's priority order* directly: an escape alternative (`\\\\`, `\\q`, `\\\]`) is taken iff a closing delimiter still
exists behind it — which is exactly when the engine's depth-first search succeeds through that alternative.
-/

namespace ExprScan

/-- `\s` of a CPython `str` pattern = `str.isspace` = what `str.strip()` removes (29 code points) -/
def isPySpace (c : Char) : Bool :=
  let n := c.toNat
  (9 ≤ n && n ≤ 13) || (28 ≤ n && n ≤ 32) || n == 0x85 || n == 0xa0 || n == 0x1680 ||
  (0x2000 ≤ n && n ≤ 0x200a) || n == 0x2028 || n == 0x2029 || n == 0x202f || n == 0x205f || n == 0x3000

/-- `\d` of a `str` pattern: every Unicode decimal digit (category `Nd`; 680 code points in the 64 runs of
`Rx.digitRanges`) -/
def isDigit (c : Char) : Bool := Rx.isDigitU c

/-- the decimal value of a `\d` character as `float()` / `int()` read it (`Py_UNICODE_TODECIMAL`): its offset in its run of
`Rx.digitRanges`, modulo 10 (the run `U+1D7CE..U+1D7FF` is five blocks `0..9`); `0` for any other character -/
def digitVal (c : Char) : Nat :=
  match Rx.digitRanges.find? (fun r => r.1 ≤ c.toNat && c.toNat ≤ r.2) with
  | some r => (c.toNat - r.1) % 10
  | none => 0

/-- `[A-Za-z_]` -/
def isIdStart (c : Char) : Bool :=
  (65 ≤ c.toNat && c.toNat ≤ 90) || (97 ≤ c.toNat && c.toNat ≤ 122) || c == '_'

/-- `\w` of a `str` pattern: `[A-Za-z0-9_]` and every Unicode alphanumeric (`Text.isWord`, table `Text.wordRanges`) -/
def isWord (c : Char) : Bool := Text.isWord c

/-- the leading `\s*` of every token pattern (greedy; no token starts with a whitespace character, so the engine never
gives any of it back — except inside `[ … ]`, see `scanVariableEx`) -/
def skipWs (t : List Char) : List Char := t.dropWhile isPySpace

def stripPrefix? : List Char → List Char → Option (List Char)
  | [], t => some t
  | _ :: _, [] => none
  | p :: ps, c :: t => if p = c then stripPrefix? ps t else none

/-- regex alternation `(p₁|p₂|…)` of literal alternatives: the first alternative that is a prefix wins -/
def firstAlt {α : Type} : List (List Char × α) → List Char → Option (α × List Char)
  | [], _ => none
  | (p, a) :: rest, t =>
    match stripPrefix? p t with
    | some r => some (a, r)
    | none => firstAlt rest t

/-- the alternatives of `_R_EXPR_BINARY_OP`, in the order of the pattern -/
def binOpAlts : List (List Char × BinOp) :=
  [(['*', '*'], .pow), (['*'], .mul), (['/'], .div), (['%'], .mod), (['+'], .add), (['-'], .sub),
   (['<', '='], .le), (['<'], .lt), (['>', '='], .ge), (['>'], .gt), (['=', '='], .eq), (['!', '='], .ne),
   (['&', '&'], .and), (['|', '|'], .or)]

def unOpAlts : List (List Char × UnOp) := [(['!'], .not), (['-'], .neg)]

def scanBinOp (t : List Char) : Option (BinOp × List Char) := firstAlt binOpAlts (skipWs t)

def scanUnaryOp (t : List Char) : Option (UnOp × List Char) := firstAlt unOpAlts (skipWs t)

/-- `^\s*c` for a single literal character -/
def scanChar (c : Char) (t : List Char) : Option (List Char) :=
  match skipWs t with
  | d :: r => if d = c then some r else none
  | [] => none

def scanGroupOpen : List Char → Option (List Char) := scanChar '('
def scanClose : List Char → Option (List Char) := scanChar ')'
def scanComma : List Char → Option (List Char) := scanChar ','

/-- `^\s*([A-Za-z_]\w*)\s*\(` → (name, rest).  `\w*` is greedy and giving back a word character never helps (the next
thing would have to be whitespace or `(`), so: all word characters.  (Until fix F31 the pattern was `\w+`: a call of a
function with a one-character name was a syntax error.) -/
def scanFuncOpen (t : List Char) : Option (List Char × List Char) :=
  match skipWs t with
  | c :: r =>
    if isIdStart c then
      let w := r.takeWhile isWord
      match skipWs (r.dropWhile isWord) with
      | d :: r2 => if d = '(' then some (c :: w, r2) else none
      | [] => none
    else none
  | [] => none

/-- `^\s*([A-Za-z_]\w*)` → (name, rest) -/
def scanVariable (t : List Char) : Option (List Char × List Char) :=
  match skipWs t with
  | c :: r => if isIdStart c then some (c :: r.takeWhile isWord, r.dropWhile isWord) else none
  | [] => none

/-! ### numbers -/

def digitsVal (ds : List Char) : Nat := ds.foldl (fun a c => 10 * a + digitVal c) 0

/-- the exact rational denoted by `[sign] ip [. fp] [e ex]` -/
def decVal (neg : Bool) (ip fp : List Char) (ex : Int) : Rat :=
  let m : Int := (digitsVal (ip ++ fp) : Nat)
  let e : Int := ex - (fp.length : Nat)
  let q : Rat := if 0 ≤ e then ((m * ((10 : Int) ^ e.toNat) : Int) : Rat) else mkRat m (10 ^ (-e).toNat)
  if neg then -q else q

/-- optional sign `[+-]?` → (negative?, rest) -/
def scanSign : List Char → Bool × List Char
  | c :: r => if c = '+' then (false, r) else if c = '-' then (true, r) else (false, c :: r)
  | [] => (false, [])

/-- optional fraction `(?:\.\d*)?` → (fraction digits, rest) -/
def scanFrac : List Char → List Char × List Char
  | c :: r => if c = '.' then (r.takeWhile isDigit, r.dropWhile isDigit) else ([], c :: r)
  | [] => ([], [])

/-- optional exponent `(?:e[+-]\d+)?` → (exponent, rest); an `e` that is not followed by a sign and a digit is left -/
def scanExp : List Char → Int × List Char
  | c :: s :: r =>
    if c = 'e' && (s = '+' || s = '-') then
      let ed := r.takeWhile isDigit
      if ed.isEmpty then (0, c :: s :: r)
      else (if s = '-' then -((digitsVal ed : Nat) : Int) else ((digitsVal ed : Nat) : Int), r.dropWhile isDigit)
    else (0, c :: s :: r)
  | t => (0, t)

/-- `^\s*([+-]?\d+(?:\.\d*)?(?:e[+-]\d+)?)` → (value, rest) -/
def scanNumber (t : List Char) : Option (Rat × List Char) :=
  let (neg, t1) := scanSign (skipWs t)
  let ip := t1.takeWhile isDigit
  if ip.isEmpty then none
  else
    let (fp, t3) := scanFrac (t1.dropWhile isDigit)
    let (ex, t4) := scanExp t3
    some (decVal neg ip fp ex, t4)

/-! ### strings and bracketed names -/

/-- `re.sub(r'\\([\\q])', r'\1', raw)`: left to right, a backslash followed by a backslash or by `q` is dropped -/
def unescape (q : Char) : List Char → List Char
  | [] => []
  | c :: t =>
    if c = '\\' then
      match t with
      | d :: t' => if d = '\\' || d = q then d :: unescape q t' else c :: unescape q (d :: t')
      | [] => [c]
    else c :: unescape q t

/-- `((?:\\\\|\\q|[^q])*)q` after the opening quote → (raw group 1, rest after the closing quote).
At a backslash followed by a backslash or `q` the engine first tries the two-character alternative; that branch of its
search succeeds iff a `q` still exists behind the pair.  Otherwise the backslash is consumed by `[^q]`. -/
def strBody (q : Char) : List Char → Option (List Char × List Char)
  | [] => none
  | c :: t =>
    if c = q then some ([], t)
    else if c = '\\' then
      match t with
      | d :: t' =>
        if (d = '\\' || d = q) && t'.contains q then (strBody q t').map (fun p => (c :: d :: p.1, p.2))
        else (strBody q (d :: t')).map (fun p => (c :: p.1, p.2))
      | [] => none
    else (strBody q t).map (fun p => (c :: p.1, p.2))

/-- `_R_EXPR_STRING` (q = `'`) / `_R_EXPR_STRING_DOUBLE` (q = `"`) with the escape substitution → (string, rest) -/
def scanString (q : Char) (t : List Char) : Option (List Char × List Char) :=
  match skipWs t with
  | c :: r => if c = q then (strBody q r).map (fun p => (unescape q p.1, p.2)) else none
  | [] => none

/-- `((?:\\\]|[^\]])+)\s*\]` from a position that is not `]` → (raw group 1, rest after the closing bracket).
The group is greedy over everything that is not `]` (whitespace included), so the `\s*` behind it matches the empty
string in the first successful match. -/
def bracketBody : List Char → Option (List Char × List Char)
  | [] => none
  | c :: t =>
    if c = ']' then some ([], t)
    else if c = '\\' then
      match t with
      | d :: t' =>
        if d = ']' && t'.contains ']' then (bracketBody t').map (fun p => (c :: d :: p.1, p.2))
        else (bracketBody (d :: t')).map (fun p => (c :: p.1, p.2))
      | [] => none
    else (bracketBody t).map (fun p => (c :: p.1, p.2))

/-- `_R_EXPR_VARIABLE_EX` with the escape substitution → (name, rest).  After `[` the `\s*` takes all whitespace; if a `]`
follows immediately the group (`+`: at least one character) cannot start there, the engine gives back one whitespace
character and the name is that single character (`[   ]` names the variable `" "`); `[]` does not match. -/
def scanVariableEx (t : List Char) : Option (List Char × List Char) :=
  match skipWs t with
  | c :: r =>
    if c = '[' then
      match r.dropWhile isPySpace with
      | [] => none
      | d :: r2 =>
        if d = ']' then
          match (r.takeWhile isPySpace).getLast? with
          | some w => some ([w], r2)
          | none => none
        else (bracketBody (d :: r2)).map (fun p => (unescape ']' p.1, p.2))
    else none
  | [] => none

end ExprScan
