import BareModel.PJson
import BareModel.Syntax
import BareModel.SyntaxJson
import BareModel.NumText
import BareModel.Gen.Schema

/-!
# Schema — the schema-markdown validator, run on the published BareScript schema (extension of C07 / C08)

`Gen.schema` (BareModel/Gen/Schema.lean, regenerated from `bare_script.model.BARE_SCRIPT_TYPES` on every check run) is the
published schema as *data*.  This file models `schema_markdown.validate_type(types, type_name, value)`
(`/venv/lib/python3.12/site-packages/schema_markdown/schema.py`, `_validate_type`, lines 156-425) for exactly the constructs
that schema uses, over the project's protocol JSON `PJson`:

* `val S t j : Option PJson` — `none` = the Python function raises; `some j'` = it returns the *validated, transformed copy*
  `j'` (Python builds a new value: struct members in **schema order**, unknown members rejected, strings coerced);
* built-in `string`: a string;  `bool`: a bool, or the strings `"true"` / `"false"` (coerced);  `float`: a number (see below)
  or a string `float()` accepts with a finite value (coerced; text grammar = `NumText.numberParseFloat`);
* user type → `enum`: a string that is one of the values;  `struct`: an object, **or the empty string** (coerced to `{}`);
  union: exactly one member; otherwise every non-optional member present; every member value validated against the member
  type and then the member attributes (`lenGT` …); any unknown member rejects;
* `array`: an array, **or the empty string** (coerced to `[]`), every element validated (+ element attributes);
* anything else the generator could emit (`unsupported …`, other built-ins, other attributes such as `nullable`) is rejected,
  so the theorems of `BareProofs/C07Schema.lean` stop building when the schema starts using it.

**Numbers.**  How a Python number is written in `PJson`:
`num n` = the Python `int` `n` (accepted for `float` unless `float(n)` overflows — Python then raises `OverflowError`, which is
*not* a `ValidationError`; the model answers `none` as for every other exception);  `raw text` = a JSON float literal, i.e. a
Python `float` (always accepted: `isinstance(value, float)`);  `arr [num p, num q]` with `q > 0` = the project's wire form of
the exact rational `p/q` standing for a Python `float` (SyntaxJson.ratToJson) — **at a `float` position only**, so the single
document the encoding cannot express is a *list* of two integers (second positive) where a number is expected (Python: invalid).
The validated copy carries every number as `ratToJson q`, `q` the exact rational denoted (rounding to a double is not modelled,
as everywhere in this project, DESIGN §3.2).

**Objects.**  A Python `dict` has no duplicate keys; a `PJson.obj` with a duplicate key stands for no Python value and is rejected
(Python's "unknown member" test is `len(value_copy) != len(value)`, which is what `nodupKeys` mirrors on a list).

The second half of the file has the structurally recursive twins of the harness-only `partial def`s of `SyntaxJson.lean`:
`exprJ / stmtJ / scriptJ` (= `exprToJson / stmtToJson / scriptToJson`, checked by the driver op `schema_script` and the
examples in `C07Schema.lean`), the reader `exprOf / stmtOf / scriptOf` (any member order, absent optional members at their
defaults; function definitions get `fid 0`, `renumber` numbers them in source order as `progen.canon_script` does), the
validated-copy renderer `exprW / stmtW / scriptW` (members in schema order) and `dropD` (delete optional members that are at
their default: `false`, and `args: []`).
-/

namespace Schema
open Gen PJson

/-! ## the validator -/

def lookupDef (S : List (String × SDef)) (n : String) : Option SDef := (S.find? (fun d => d.1 == n)).map (·.2)

def findMember (ms : List SMember) (k : String) : Option SMember := ms.find? (fun m => m.name == k)

def lookupKV (kvs : List (String × PJson)) (k : String) : Option PJson := (kvs.find? (fun kv => kv.1 == k)).map (·.2)

def hasKey (kvs : List (String × PJson)) (k : String) : Bool := kvs.any (fun kv => kv.1 == k)

def nodupKeys : List (String × PJson) → Bool
  | [] => true
  | (k, _) :: r => !hasKey r k && nodupKeys r

/-- Python `len(value)` for the validated values that have one -/
def jlen : PJson → Option Nat
  | .arr xs => some xs.length
  | .str s => some s.length
  | _ => none

/-- one attribute (`_validate_attr`, schema.py:455-475): the five length attributes; everything else is not implemented = rejected -/
def attr1 (a : String) (n : Int) (v : PJson) : Bool :=
  match jlen v with
  | none => false
  | some l =>
    if a == "lenGT" then decide ((l : Int) > n)
    else if a == "lenGTE" then decide ((l : Int) ≥ n)
    else if a == "lenLT" then decide ((l : Int) < n)
    else if a == "lenLTE" then decide ((l : Int) ≤ n)
    else if a == "lenEq" then decide ((l : Int) = n)
    else false

def attrOk (attr : List (String × Int)) (v : PJson) : Bool := attr.all (fun a => attr1 a.1 a.2 v)

/-- the number a `float` position holds (see the header): `none` = rejected -/
def floatOf : PJson → Option Rat
  | .num n => if NumText.overflowBound ≤ (n : Rat) ∨ (n : Rat) ≤ -NumText.overflowBound then none else some (n : Rat)
  | .raw s => NumText.decVal s
  | .str s => NumText.numberParseFloat s
  | .arr [.num p, .num q] => if q > 0 then some (mkRat p q.toNat) else none
  | _ => none

/-- built-in types (schema.py:160-265); only the three the schema uses -/
def valBuiltin (b : String) (j : PJson) : Option PJson :=
  if b == "string" then (match j with | .str _ => some j | _ => none)
  else if b == "bool" then
    (match j with
     | .bool _ => some j
     | .str s => if s == "true" then some (.bool true) else if s == "false" then some (.bool false) else none
     | _ => none)
  else if b == "float" then (floatOf j).map Syntax.ratToJson
  else none

/-- the validated members, in schema order (Python builds `value_copy` by iterating over the struct's members) -/
def order (ms : List SMember) (out : List (String × PJson)) : List (String × PJson) :=
  ms.filterMap (fun m => (lookupKV out m.name).map (fun v => (m.name, v)))

/-- after the members: no duplicate key; union ⇒ exactly one member; struct ⇒ every non-optional member present -/
def finishStruct (u : Bool) (ms : List SMember) (out : List (String × PJson)) : Option PJson :=
  if !nodupKeys out then none
  else if u then (if out.length == 1 then some (.obj (order ms out)) else none)
  else if ms.all (fun m => m.optional || hasKey out m.name) then some (.obj (order ms out))
  else none

mutual
/-- `_validate_type(types, type_, value)`; `none` = raises -/
def val (S : List (String × SDef)) : SType → PJson → Option PJson
  | .builtin b, j => valBuiltin b j
  | .unsupported _, _ => none
  | .array t attr, j =>
    (match j with
     | .arr xs => (valArr S t attr xs).map PJson.arr
     | .str s => if s == "" then some (.arr []) else none
     | _ => none)
  | .user n, j =>
    (match lookupDef S n with
     | some (.enum vs) =>
       (match j with
        | .str s => if vs.contains s then some (.str s) else none
        | _ => none)
     | some (.struct u ms) =>
       (match j with
        | .obj kvs => (valKVs S ms kvs).bind (finishStruct u ms)
        | .str s => if s == "" then finishStruct u ms [] else none
        | _ => none)
     | _ => none)
/-- the elements of an array, each against the element type and the array's (element) attributes -/
def valArr (S : List (String × SDef)) (t : SType) (attr : List (String × Int)) : List PJson → Option (List PJson)
  | [] => some []
  | x :: r =>
    (match val S t x with
     | none => none
     | some x' => if attrOk attr x' then (valArr S t attr r).map (x' :: ·) else none)
/-- the members of an object, each against the type and attributes of the struct member of that name; unknown name = rejected -/
def valKVs (S : List (String × SDef)) (ms : List SMember) : List (String × PJson) → Option (List (String × PJson))
  | [] => some []
  | (k, v) :: r =>
    (match findMember ms k with
     | none => none
     | some m =>
       (match val S m.type v with
        | none => none
        | some v' => if attrOk m.attr v' then (valKVs S ms r).map ((k, v') :: ·) else none))
end

/-- `schema_markdown.validate_type(S, typeName, j)`: the validated copy, or `none` when Python raises -/
def validate (S : List (String × SDef)) (typeName : String) (j : PJson) : Option PJson := val S (.user typeName) j

def valid (S : List (String × SDef)) (typeName : String) (j : PJson) : Bool := (validate S typeName j).isSome

/-! ## `Expr` / `Stmt` → JSON as the boundary writes it (structural twins of `Syntax.exprToJson` …) -/

mutual
def exprJ : Expr → PJson
  | .number q => mk [("number", Syntax.ratToJson q)]
  | .string s => mk [("string", .str s)]
  | .variable n => mk [("variable", .str n.render)]
  | .function n args => mk [("function", mk [("args", .arr (exprsJ args)), ("name", .str n.render)])]
  | .binary op l r => mk [("binary", mk [("left", exprJ l), ("op", .str op.text), ("right", exprJ r)])]
  | .unary op e => mk [("unary", mk [("expr", exprJ e), ("op", .str op.text)])]
  | .group e => mk [("group", exprJ e)]
def exprsJ : List Expr → List PJson
  | [] => []
  | e :: r => exprJ e :: exprsJ r
end

def incJ (i : IncludeScript) : PJson :=
  mk ((if i.system then [("system", PJson.bool true)] else []) ++ [("url", .str i.url)])

mutual
def stmtJ : Stmt → PJson
  | .expr none e => mk [("expr", mk [("expr", exprJ e)])]
  | .expr (some n) e => mk [("expr", mk [("expr", exprJ e), ("name", .str n.render)])]
  | .jump l none => mk [("jump", mk [("label", .str l.render)])]
  | .jump l (some c) => mk [("jump", mk [("expr", exprJ c), ("label", .str l.render)])]
  | .ret none => mk [("return", mk [])]
  | .ret (some e) => mk [("return", mk [("expr", exprJ e)])]
  | .label l => mk [("label", .str l.render)]
  | .function _ n args laa isAsync body =>
      mk [("function", mk (
        (if args.isEmpty then [] else [("args", PJson.arr (args.map fun a => .str a.render))]) ++
        (if isAsync then [("async", PJson.bool true)] else []) ++
        (if laa then [("lastArgArray", PJson.bool true)] else []) ++
        [("name", .str n.render), ("statements", .arr (stmtsJ body))]))]
  | .include incs => mk [("include", mk [("includes", .arr (incs.map incJ))])]
def stmtsJ : List Stmt → List PJson
  | [] => []
  | s :: r => stmtJ s :: stmtsJ r
end

def scriptJ (P : List Stmt) : PJson := mk [("statements", .arr (stmtsJ P))]

/-! ## the validated copy of `exprJ e` … (members in schema order) -/

mutual
def exprW : Expr → PJson
  | .number q => mk [("number", Syntax.ratToJson q)]
  | .string s => mk [("string", .str s)]
  | .variable n => mk [("variable", .str n.render)]
  | .function n args => mk [("function", mk [("name", .str n.render), ("args", .arr (exprsW args))])]
  | .binary op l r => mk [("binary", mk [("op", .str op.text), ("left", exprW l), ("right", exprW r)])]
  | .unary op e => mk [("unary", mk [("op", .str op.text), ("expr", exprW e)])]
  | .group e => mk [("group", exprW e)]
def exprsW : List Expr → List PJson
  | [] => []
  | e :: r => exprW e :: exprsW r
end

def incW (i : IncludeScript) : PJson :=
  mk ([("url", PJson.str i.url)] ++ (if i.system then [("system", PJson.bool true)] else []))

mutual
def stmtW : Stmt → PJson
  | .expr none e => mk [("expr", mk [("expr", exprW e)])]
  | .expr (some n) e => mk [("expr", mk [("name", .str n.render), ("expr", exprW e)])]
  | .jump l none => mk [("jump", mk [("label", .str l.render)])]
  | .jump l (some c) => mk [("jump", mk [("label", .str l.render), ("expr", exprW c)])]
  | .ret none => mk [("return", mk [])]
  | .ret (some e) => mk [("return", mk [("expr", exprW e)])]
  | .label l => mk [("label", .str l.render)]
  | .function _ n args laa isAsync body =>
      mk [("function", mk (
        (if isAsync then [("async", PJson.bool true)] else []) ++
        [("name", PJson.str n.render)] ++
        (if args.isEmpty then [] else [("args", PJson.arr (args.map fun a => .str a.render))]) ++
        (if laa then [("lastArgArray", PJson.bool true)] else []) ++
        [("statements", .arr (stmtsW body))]))]
  | .include incs => mk [("include", mk [("includes", .arr (incs.map incW))])]
def stmtsW : List Stmt → List PJson
  | [] => []
  | s :: r => stmtW s :: stmtsW r
end

def scriptW (P : List Stmt) : PJson := mk [("statements", .arr (stmtsW P))]

/-! ## JSON → `Expr` / `Stmt` (any member order; absent optional members at their defaults; unknown members rejected) -/

def unOpOf (s : String) : Option UnOp := if s == "!" then some .not else if s == "-" then some .neg else none

/-- a number in the validated copy: `[num, den]` with `den > 0` -/
def ratOf : PJson → Option Rat
  | .arr [.num p, .num q] => if q > 0 then some (mkRat p q.toNat) else none
  | _ => none

mutual
def exprOf : PJson → Option Expr
  | .obj [(k, v)] =>
      if k == "number" then (ratOf v).map .number
      else if k == "string" then (match v with | .str s => some (.string s) | _ => none)
      else if k == "variable" then (match v with | .str s => some (.variable (Name.ofString s)) | _ => none)
      else if k == "group" then (exprOf v).map .group
      else if k == "function" then (match v with | .obj kvs => fnExprOf kvs none [] | _ => none)
      else if k == "binary" then (match v with | .obj kvs => binOf kvs none none none | _ => none)
      else if k == "unary" then (match v with | .obj kvs => unOf kvs none none | _ => none)
      else none
  | _ => none
def exprsOf : List PJson → Option (List Expr)
  | [] => some []
  | x :: r =>
      (match exprOf x, exprsOf r with
       | some e, some es => some (e :: es)
       | _, _ => none)
def fnExprOf : List (String × PJson) → Option String → List Expr → Option Expr
  | [], some n, args => some (.function (Name.ofString n) args)
  | [], none, _ => none
  | (k, v) :: r, n, args =>
      if k == "name" then (match v with | .str s => fnExprOf r (some s) args | _ => none)
      else if k == "args" then
        (match v with
         | .arr xs => (match exprsOf xs with | some es => fnExprOf r n es | none => none)
         | _ => none)
      else none
def binOf : List (String × PJson) → Option BinOp → Option Expr → Option Expr → Option Expr
  | [], some op, some l, some r => some (.binary op l r)
  | [], _, _, _ => none
  | (k, v) :: rest, op, l, r =>
      if k == "op" then (match v with | .str s => (match BinOp.ofText s with | some o => binOf rest (some o) l r | none => none) | _ => none)
      else if k == "left" then (match exprOf v with | some e => binOf rest op (some e) r | none => none)
      else if k == "right" then (match exprOf v with | some e => binOf rest op l (some e) | none => none)
      else none
def unOf : List (String × PJson) → Option UnOp → Option Expr → Option Expr
  | [], some op, some e => some (.unary op e)
  | [], _, _ => none
  | (k, v) :: rest, op, e =>
      if k == "op" then (match v with | .str s => (match unOpOf s with | some o => unOf rest (some o) e | none => none) | _ => none)
      else if k == "expr" then (match exprOf v with | some x => unOf rest op (some x) | none => none)
      else none
end

def strsOf : List PJson → Option (List String)
  | [] => some []
  | .str s :: r => (strsOf r).map (s :: ·)
  | _ :: _ => none

def incFieldsOf : List (String × PJson) → Option String → Bool → Option IncludeScript
  | [], some u, sys => some { url := u, system := sys }
  | [], none, _ => none
  | (k, v) :: r, u, sys =>
      if k == "url" then (match v with | .str s => incFieldsOf r (some s) sys | _ => none)
      else if k == "system" then (match v with | .bool b => incFieldsOf r u b | _ => none)
      else none

def incOf : PJson → Option IncludeScript
  | .obj kvs => incFieldsOf kvs none false
  | _ => none

def incsOf : List PJson → Option (List IncludeScript)
  | [] => some []
  | x :: r =>
      (match incOf x, incsOf r with
       | some i, some is => some (i :: is)
       | _, _ => none)

def exprStmtOf : List (String × PJson) → Option Name → Option Expr → Option Stmt
  | [], n, some e => some (.expr n e)
  | [], _, none => none
  | (k, v) :: r, n, e =>
      if k == "name" then (match v with | .str s => exprStmtOf r (some (Name.ofString s)) e | _ => none)
      else if k == "expr" then (match exprOf v with | some x => exprStmtOf r n (some x) | none => none)
      else none

def jumpOf : List (String × PJson) → Option Name → Option Expr → Option Stmt
  | [], some l, c => some (.jump l c)
  | [], none, _ => none
  | (k, v) :: r, l, c =>
      if k == "label" then (match v with | .str s => jumpOf r (some (Name.ofString s)) c | _ => none)
      else if k == "expr" then (match exprOf v with | some x => jumpOf r l (some x) | none => none)
      else none

def retOf : List (String × PJson) → Option Expr → Option Stmt
  | [], e => some (.ret e)
  | (k, v) :: r, _ =>
      if k == "expr" then (match exprOf v with | some x => retOf r (some x) | none => none)
      else none

/-- the fields of a function statement read so far -/
structure FnAcc where
  name : Option String := none
  args : List String := []
  laa : Bool := false
  isAsync : Bool := false
  body : Option (List Stmt) := none

mutual
def stmtOf : PJson → Option Stmt
  | .obj [(k, v)] =>
      if k == "expr" then (match v with | .obj kvs => exprStmtOf kvs none none | _ => none)
      else if k == "jump" then (match v with | .obj kvs => jumpOf kvs none none | _ => none)
      else if k == "return" then (match v with | .obj kvs => retOf kvs none | _ => none)
      else if k == "label" then (match v with | .str s => some (.label (Name.ofString s)) | _ => none)
      else if k == "function" then (match v with | .obj kvs => fnStmtOf kvs {} | _ => none)
      else if k == "include" then
        (match v with
         | .obj [(k2, .arr xs)] => if k2 == "includes" then (incsOf xs).map .include else none
         | _ => none)
      else none
  | _ => none
def stmtsOf : List PJson → Option (List Stmt)
  | [] => some []
  | x :: r =>
      (match stmtOf x, stmtsOf r with
       | some s, some ss => some (s :: ss)
       | _, _ => none)
def fnStmtOf : List (String × PJson) → FnAcc → Option Stmt
  | [], acc =>
      (match acc.name, acc.body with
       | some n, some b => some (.function 0 (Name.ofString n) (acc.args.map Name.ofString) acc.laa acc.isAsync b)
       | _, _ => none)
  | (k, v) :: r, acc =>
      if k == "name" then (match v with | .str s => fnStmtOf r { acc with name := some s } | _ => none)
      else if k == "args" then (match v with | .arr xs => (match strsOf xs with | some as => fnStmtOf r { acc with args := as } | none => none) | _ => none)
      else if k == "lastArgArray" then (match v with | .bool b => fnStmtOf r { acc with laa := b } | _ => none)
      else if k == "async" then (match v with | .bool b => fnStmtOf r { acc with isAsync := b } | _ => none)
      else if k == "statements" then (match v with | .arr xs => (match stmtsOf xs with | some ss => fnStmtOf r { acc with body := some ss } | none => none) | _ => none)
      else none
end

def scriptOf : PJson → Option (List Stmt)
  | .obj [(k, .arr xs)] => if k == "statements" then stmtsOf xs else none
  | _ => none

/-! ## function identifiers: source (pre-)order, as `progen.canon_script` / the model parser number them -/

mutual
def renumS : Stmt → Nat → Stmt × Nat
  | .function _ n args laa isAsync body, i =>
      let r := renumL body (i + 1)
      (.function i n args laa isAsync r.1, r.2)
  | s, i => (s, i)
def renumL : List Stmt → Nat → List Stmt × Nat
  | [], i => ([], i)
  | s :: r, i =>
      let a := renumS s i
      let b := renumL r a.2
      (a.1 :: b.1, b.2)
end

def renumber (P : List Stmt) : List Stmt := (renumL P 0).1

/-- how a schema-valid document is read as a statement list: validate (`validate_script`), read the validated copy, number the
function definitions in source order; `none` = not schema-valid -/
def readScript (S : List (String × SDef)) (j : PJson) : Option (List Stmt) :=
  ((validate S "BareScript" j).bind scriptOf).map renumber

/-! ## optional members at their defaults -/

/-- an optional member that says nothing: a `false` flag, or an empty `args` list -/
def isDefault (k : String) : PJson → Bool
  | .bool false => true
  | .arr [] => k == "args"
  | _ => false

mutual
def dropD : PJson → PJson
  | .obj kvs => .obj (dropK kvs)
  | .arr xs => .arr (dropL xs)
  | j => j
def dropL : List PJson → List PJson
  | [] => []
  | x :: r => dropD x :: dropL r
def dropK : List (String × PJson) → List (String × PJson)
  | [] => []
  | (k, v) :: r => if isDefault k v then dropK r else (k, dropD v) :: dropK r
end

/-! ## what the JSON boundary needs of a statement list -/

mutual
/-- no `include` statement with an empty list (the schema's `len > 0`), here and in function bodies -/
def wfS : Stmt → Bool
  | .include incs => !incs.isEmpty
  | .function _ _ _ _ _ body => wfL body
  | _ => true
def wfL : List Stmt → Bool
  | [] => true
  | s :: r => wfS s && wfL r
end

/-- every identifier is what reading its own spelling gives (`Name.ofString n.render = n`): a user identifier does not spell a
generated name -/
def nameOk (n : Name) : Bool := decide (Name.ofString n.render = n)

mutual
def namesE : Expr → Bool
  | .number _ => true
  | .string _ => true
  | .variable n => nameOk n
  | .function n args => nameOk n && namesEs args
  | .binary _ l r => namesE l && namesE r
  | .unary _ e => namesE e
  | .group e => namesE e
def namesEs : List Expr → Bool
  | [] => true
  | e :: r => namesE e && namesEs r
end

def namesO : Option Expr → Bool
  | none => true
  | some e => namesE e

mutual
def namesS : Stmt → Bool
  | .expr n e => (match n with | none => true | some n => nameOk n) && namesE e
  | .jump l c => nameOk l && namesO c
  | .ret e => namesO e
  | .label l => nameOk l
  | .function _ n args _ _ body => nameOk n && args.all nameOk && namesL body
  | .include _ => true
def namesL : List Stmt → Bool
  | [] => true
  | s :: r => namesS s && namesL r
end

end Schema
