/-!
# Compare — value comparison and its consumers (C11)

Mirror of `value.py` `value_compare` (the ladder of value.py:193-229) over *closed* values `PValue` (arrays and objects
by value, numbers as exact rationals — every finite Python `int`/`float` is one and Python compares `int` with `float`
exactly —, datetimes as the integer the normalisation `value_normalize_datetime` induces, functions and regexes opaque),
and of the consumers of the comparison:

* the six relational operators of `runtime.evaluate_expression` (runtime.py:318-334)         → `relop`
* `library._system_compare`                                                                   → `valueCompare`
* `library._array_sort` (no compare function), `data.sort_data`
  (`list.sort(key=functools.cmp_to_key(cmp))` — only ever asks `cmp(x, y) < 0`)               → `sortBy`, `arraySort`, `dataSort`
* `library._math_max` / `_math_min` (first-flag fold, replace on *strictly* greater/less)     → `mathMax`, `mathMin`
* `library._array_index_of` / `_array_last_index_of` (value needle, not a match function)     → `arrayIndexOf`, `arrayLastIndexOf`

No Mathlib. Everything is total and computable (the driver `Drv/C11.lean` links it).
-/

namespace Compare

/-- closed BareScript values -/
inductive PValue where
  | null
  | bool (b : Bool)
  /-- a finite number: the exact rational value of the Python `int` or `float` (NaN excluded by the property) -/
  | num (q : Rat)
  | str (s : String)
  /-- a `datetime.date`/`datetime.datetime`: the normalised instant (naive local wall clock, integer microseconds) -/
  | dt (t : Int)
  | arr (xs : List PValue)
  /-- a `dict` in insertion order (keys are unique: `WFValue`) -/
  | obj (kvs : List (String × PValue))
  | fn (id : Nat)
  | regex (id : Nat)
deriving Inhabited

/-- `value_type` (value.py:26-43) -/
def typeName : PValue → String
  | .null => "null"
  | .str _ => "string"
  | .bool _ => "boolean"
  | .num _ => "number"
  | .dt _ => "datetime"
  | .obj _ => "object"
  | .arr _ => "array"
  | .fn _ => "function"
  | .regex _ => "regex"

/-- Python's `-1 if l < r else (0 if l == r else 1)` -/
def tri (lt eq : Bool) : Int := if lt then -1 else if eq then 0 else 1

/-- the code points of a string -/
def codes (s : String) : List Nat := s.toList.map Char.toNat

/-- CPython `str` ordering: first differing code point decides, otherwise the shorter string is smaller -/
def codeCmp : List Nat → List Nat → Int
  | [], [] => 0
  | [], _ :: _ => -1
  | _ :: _, [] => 1
  | a :: as, b :: bs => if a < b then -1 else if a = b then codeCmp as bs else 1

/-- `-1 if left < right else (0 if left == right else 1)` on two `str` -/
def strCompare (a b : String) : Int := codeCmp (codes a) (codes b)

/-! ## `list.sort(key=functools.cmp_to_key(cmp))`

`cmp_to_key` wraps every element in an object whose `__lt__` is `cmp(a, b) < 0`; `list.sort` is a stable sort that only
uses `<`.  The model is the insertion sort CPython itself runs on short lists: each element in turn is inserted *after*
all already-placed elements that are not greater (`pivot < p` is the only test).  `C11.stable_sort_unique` shows that
for a total preorder every stable sort (merge runs of timsort included) returns this very list. -/

def insertBy {α} (lt : α → α → Bool) (x : α) : List α → List α
  | [] => [x]
  | y :: ys => if lt x y then x :: y :: ys else y :: insertBy lt x ys

def sortBy {α} (lt : α → α → Bool) (xs : List α) : List α :=
  xs.foldl (fun acc x => insertBy lt x acc) []

theorem insertBy_perm {α} (lt : α → α → Bool) (x : α) (ys : List α) : (insertBy lt x ys).Perm (x :: ys) := by
  induction ys with
  | nil => exact .refl _
  | cons y ys ih =>
    unfold insertBy
    split
    · exact .refl _
    · exact ((List.Perm.cons y ih).trans (List.Perm.swap x y ys))

theorem foldl_insertBy_perm {α} (lt : α → α → Bool) (xs acc : List α) :
    (xs.foldl (fun acc x => insertBy lt x acc) acc).Perm (acc ++ xs) := by
  induction xs generalizing acc with
  | nil => simp
  | cons x xs ih =>
    refine (ih (insertBy lt x acc)).trans ?_
    refine ((insertBy_perm lt x acc).append_right xs).trans ?_
    simpa using (List.perm_middle (a := x) (l₁ := acc) (l₂ := xs)).symm

theorem sortBy_perm {α} (lt : α → α → Bool) (xs : List α) : (sortBy lt xs).Perm xs := by
  simpa [sortBy] using foldl_insertBy_perm lt xs []

/-- `sorted(d.items())`: Python orders the `(key, value)` tuples; tuple comparison looks for the first position where the
two tuples differ (`==`) and compares there with `<`.  Keys of one `dict` are pairwise different, so that position is
always the key and the value is never consulted: a stable sort by key (code-point order). -/
def sortItems (kvs : List (String × PValue)) : List (String × PValue) :=
  sortBy (fun p q => strCompare p.1 q.1 < 0) kvs

theorem sortItems_perm (kvs : List (String × PValue)) : (sortItems kvs).Perm kvs := sortBy_perm _ kvs

/-! ## `value_compare` -/

mutual
/-- value.py:193-229, branch for branch -/
def valueCompare : PValue → PValue → Int
  | .null, .null => 0                                      -- if left is None: return 0 if right is None else -1
  | .null, _ => -1
  | _, .null => 1                                          -- elif right is None: return 1
  | .str a, .str b => strCompare a b                       -- str, str
  | .bool a, .bool b => tri (!a && b) (a == b)             -- bool, bool (False < True)
  | .num a, .num b => tri (a < b) (a = b)                  -- (int, float) and not bool, both sides
  | .dt a, .dt b => tri (a < b) (a = b)                    -- datetime.date, both sides, after value_normalize_datetime
  | .arr a, .arr b => cmpList a b                          -- list, list
  | .obj a, .obj b => cmpItems (sortItems a) (sortItems b) -- dict, dict: sorted(left.items()), sorted(right.items())
  | a, b => strCompare (typeName a) (typeName b)           -- "Invalid comparison - compare by type name"
termination_by a => sizeOf a
decreasing_by
  · simp_wf
  · simp_wf
    have := (sortItems_perm a).sizeOf_eq_sizeOf
    omega

/-- the loop `for ix in range(min(len(left), len(right)))` of value.py:209-213; once one side is exhausted the lengths
decide (both sides have consumed the same number of elements, so the remainders compare like the full lengths) -/
def cmpList : List PValue → List PValue → Int
  | [], [] => 0
  | [], _ :: _ => -1
  | _ :: _, [] => 1
  | x :: xs, y :: ys =>
      let c := valueCompare x y
      if c != 0 then c else cmpList xs ys
termination_by xs => sizeOf xs
decreasing_by all_goals (simp_wf; omega)

/-- the loop of value.py:217-224 over the two key-sorted item lists (keys are `str`: `value_compare(key, key)` is the
`str` branch) -/
def cmpItems : List (String × PValue) → List (String × PValue) → Int
  | [], [] => 0
  | [], _ :: _ => -1
  | _ :: _, [] => 1
  | (k1, v1) :: xs, (k2, v2) :: ys =>
      let kc := strCompare k1 k2
      if kc != 0 then kc else
      let vc := valueCompare v1 v2
      if vc != 0 then vc else cmpItems xs ys
termination_by xs => sizeOf xs
decreasing_by all_goals (simp_wf; omega)
end

/-! ## relational operators (runtime.py:318-334) -/

inductive RelOp where | eq | ne | le | lt | ge | gt
deriving DecidableEq, Repr

def RelOp.ofText : String → Option RelOp
  | "==" => some .eq | "!=" => some .ne | "<=" => some .le | "<" => some .lt | ">=" => some .ge | ">" => some .gt
  | _ => none

def relop (op : RelOp) (a b : PValue) : Bool :=
  match op with
  | .eq => valueCompare a b == 0
  | .ne => valueCompare a b != 0
  | .le => decide (valueCompare a b ≤ 0)
  | .lt => decide (valueCompare a b < 0)
  | .ge => decide (valueCompare a b ≥ 0)
  | .gt => decide (valueCompare a b > 0)

/-! ## consumers -/

/-- `_array_sort` with `compareFn = null`: `array.sort(key=functools.cmp_to_key(value_compare))` -/
def arraySort (xs : List PValue) : List PValue := sortBy (fun a b => valueCompare a b < 0) xs

/-- `row.get(field)` on a row `dict` (missing → `None`) -/
def rowGet (field : String) : List (String × PValue) → PValue
  | [] => .null
  | (k, v) :: rest => if k = field then v else rowGet field rest

/-- `_sort_data_fn` (data.py:463-472); a sort is `(field, desc)` -/
def sortDataFn : List (String × Bool) → List (String × PValue) → List (String × PValue) → Int
  | [], _, _ => 0
  | (field, desc) :: rest, row1, row2 =>
      let value1 := rowGet field row1
      let value2 := rowGet field row2
      let result := if desc then valueCompare value2 value1 else valueCompare value1 value2
      if result != 0 then result else sortDataFn rest row1 row2

/-- `sort_data` (data.py:447-460) -/
def dataSort (sorts : List (String × Bool)) (rows : List (List (String × PValue))) : List (List (String × PValue)) :=
  sortBy (fun r1 r2 => sortDataFn sorts r1 r2 < 0) rows

/-- one step of the loop of `_math_max`: state = (result, is_first) -/
def maxStep (st : PValue × Bool) (value : PValue) : PValue × Bool :=
  if st.2 then (value, false)
  else if valueCompare value st.1 > 0 then (value, false)
  else st

def minStep (st : PValue × Bool) (value : PValue) : PValue × Bool :=
  if st.2 then (value, false)
  else if valueCompare value st.1 < 0 then (value, false)
  else st

/-- `_math_max` (library.py:921-930): any values, `null` for no arguments -/
def mathMax (values : List PValue) : PValue := (values.foldl maxStep (.null, true)).1

/-- `_math_min` (library.py:938-947) -/
def mathMin (values : List PValue) : PValue := (values.foldl minStep (.null, true)).1

/-- the scan `for ix in range(index, len(array)): if value_compare(array[ix], value) == 0: return ix`, `ix` = position of
the head of the remaining list -/
def scanFrom (value : PValue) : Nat → List PValue → Int
  | _, [] => -1
  | ix, x :: xs => if valueCompare x value == 0 then (ix : Int) else scanFrom value (ix + 1) xs

/-- `_array_index_of` (library.py:111-126) for a needle that is not a function (a function needle is a match function:
that path belongs to C15 and is answered `none` here).  `index >= len(array)` is the argument error whose return value
is `-1`. -/
def arrayIndexOf (array : List PValue) (value : PValue) (index : Nat := 0) : Option Int :=
  match value with
  | .fn _ => none
  | _ => some (if index ≥ array.length then -1 else scanFrom value index (array.drop index))

/-- the downward scan `for ix in range(index, -1, -1)`: `rev` is `array[0..index]` reversed, `ix` the position of its head -/
def scanDown (value : PValue) : Nat → List PValue → Int
  | _, [] => -1
  | ix, x :: xs => if valueCompare x value == 0 then (ix : Int) else scanDown value (ix - 1) xs

/-- `_array_last_index_of` (library.py:158-175), value needle; `index = none` is the default `len(array) - 1` -/
def arrayLastIndexOf (array : List PValue) (value : PValue) (index : Option Nat := none) : Option Int :=
  match value with
  | .fn _ => none
  | _ =>
    match index with
    | none => some (scanDown value (array.length - 1) array.reverse)
    | some i => some (if i ≥ array.length then -1 else scanDown value i (array.take (i + 1)).reverse)

/-! ## well-formedness: a `dict` has pairwise different keys -/

mutual
def WFValue : PValue → Bool
  | .arr xs => WFList xs
  | .obj kvs => (kvs.map (·.1)).Nodup && WFItems kvs
  | _ => true
def WFList : List PValue → Bool
  | [] => true
  | x :: xs => WFValue x && WFList xs
def WFItems : List (String × PValue) → Bool
  | [] => true
  | (_, v) :: rest => WFValue v && WFItems rest
end

end Compare
