import BareModel.Lib

/-!
# LibSpec — the *specification layer* of the library model (C15)

Written from the documented contracts (`$doc`/`$arg`/`$return` of library.py and the property statement), not from the
Python bodies:

* `docSig`   — the documented signature of every function (argument names, types, optional/nullable, index = integral `≥ 0`);
* `docFail`  — the documented failure value (`null`; `-1` for the four index searches; `0` for the two lengths; `false` for
               `objectHas`; the caller's default for `objectGet`);
* reference operations on `List Value`, association lists and code point lists, with **natural-number** indices:
  an index argument is a natural number or the call fails — there is no truncation, no negative wrap-around, no slice
  clamping here;
* `specEff`  — a call = validate against the documented signature, then the reference operation.

`BareProofs/C15.lean` proves `eff = specEff` (theorem `lib_spec`): the generated argument models are the documented
signatures, and on validated arguments the Python-shaped bodies of `Lib` compute the reference operations.
-/

namespace Lib.Spec
open Lib

/-! ## documented signatures -/

def P (name : String) (type : Option String) : Gen.ArgModel :=
  { name := name, type := type, nullable := false, default := none, lastArgArray := false, integer := false,
    lt := none, lte := none, gt := none, gte := none }

def arrP (n : String) : Gen.ArgModel := P n (some "array")
def objP (n : String) : Gen.ArgModel := P n (some "object")
def strP (n : String) : Gen.ArgModel := P n (some "string")
def anyP (n : String) : Gen.ArgModel := P n none
/-- a required index / count: an integral number `≥ 0` -/
def idxP (n : String) : Gen.ArgModel := { P n (some "number") with integer := true, gte := some 0 }
/-- an optional index with default 0 -/
def idx0P (n : String) : Gen.ArgModel := { idxP n with default := some "0" }
/-- an optional index whose absence (or null) means "the end" -/
def idxEndP (n : String) : Gen.ArgModel := { idxP n with nullable := true }

def docSig : List (String × List Gen.ArgModel) := [
  ("arrayCopy", [arrP "array"]),
  ("arrayDelete", [arrP "array", idxP "index"]),
  ("arrayExtend", [arrP "array", arrP "array2"]),
  ("arrayGet", [arrP "array", idxP "index"]),
  ("arrayIndexOf", [arrP "array", anyP "value", idx0P "index"]),
  ("arrayJoin", [arrP "array", strP "separator"]),
  ("arrayLastIndexOf", [arrP "array", anyP "value", idxEndP "index"]),
  ("arrayLength", [arrP "array"]),
  ("arrayNewSize", [idx0P "size", { anyP "value" with default := some "0" }]),
  ("arrayPop", [arrP "array"]),
  ("arrayPush", [arrP "array", { anyP "values" with lastArgArray := true }]),
  ("arraySet", [arrP "array", idxP "index", anyP "value"]),
  ("arrayShift", [arrP "array"]),
  ("arraySlice", [arrP "array", idx0P "start", idxEndP "end"]),
  ("objectAssign", [objP "object", objP "object2"]),
  ("objectCopy", [objP "object"]),
  ("objectDelete", [objP "object", strP "key"]),
  ("objectGet", [objP "object", strP "key", anyP "defaultValue"]),
  ("objectHas", [objP "object", strP "key"]),
  ("objectKeys", [objP "object"]),
  ("objectSet", [objP "object", strP "key", anyP "value"]),
  ("stringCharCodeAt", [strP "string", idxP "index"]),
  ("stringEndsWith", [strP "string", strP "search"]),
  ("stringIndexOf", [strP "string", strP "search", idx0P "index"]),
  ("stringLastIndexOf", [strP "string", strP "search", idxEndP "index"]),
  ("stringLength", [strP "string"]),
  ("stringLower", [strP "string"]),
  ("stringRepeat", [strP "string", idxP "count"]),
  ("stringReplace", [strP "string", strP "substr", strP "newSubstr"]),
  ("stringSlice", [strP "string", idxP "start", idxEndP "end"]),
  ("stringSplit", [strP "string", strP "separator"]),
  ("stringStartsWith", [strP "string", strP "search"]),
  ("stringTrim", [strP "string"]),
  ("stringUpper", [strP "string"]),
  ("regexEscape", [strP "string"]),
  ("urlEncode", [strP "url"]),
  ("urlEncodeComponent", [strP "url"])]

/-- the functions documented as taking any number of arguments -/
def rawFns : List String := ["arrayNew", "objectNew", "stringFromCharCode"]

/-- the documented failure value -/
def docFail (f : String) (args : List Value) : Value :=
  if f == "arrayIndexOf" || f == "arrayLastIndexOf" || f == "stringIndexOf" || f == "stringLastIndexOf" then numI (-1)
  else if f == "arrayLength" || f == "stringLength" then numN 0
  else if f == "objectHas" then .bool false
  else if f == "objectGet" then args[2]?.getD .null
  else .null

/-- the characters the two URL encoders leave alone besides letters, digits and `-._~` -/
def docSafe (f : String) : String := if f == "urlEncode" then "':/&+" else "'"

/-! ## reference operations (natural indices) -/

/-- a validated index as a natural number -/
def nat (q : Rat) : Nat := q.num.toNat

def sliceN {α} (xs : List α) (s e : Nat) : List α := (xs.drop s).take (e - s)

/-- first index `≥ start` whose element compares equal to `v` (`none`: comparison impossible, `some none`: absent) -/
def indexOfN (h : Heap) (v : Value) : List Value → Nat → Option (Option Nat)
  | [], _ => some none
  | x :: xs, i =>
    match valueCompare h x v with
    | none => none
    | some c => if c = 0 then some (some i) else indexOfN h v xs (i + 1)

/-- last index `< n` whose element compares equal to `v`: scan `n-1, n-2, …, 0` -/
def lastIndexOfN (h : Heap) (v : Value) (xs : List Value) : Nat → Option (Option Nat)
  | 0 => some none
  | n + 1 =>
    match xs[n]? with
    | none => none
    | some x =>
      match valueCompare h x v with
      | none => none
      | some c => if c = 0 then some (some n) else lastIndexOfN h v xs n

def searchResN : Option (Option Nat) → Eff
  | none => .unmodelled
  | some none => .ret (numI (-1))
  | some (some i) => .ret (numN i)

def endN (len : Nat) : Value → Option Nat
  | .null => some len
  | .num q => some (nat q)
  | _ => none

def arrayDeleteS : List VArg → Heap → Eff
  | [.one (.arr r), .one (.num q)], h => match getArr h r with
    | some xs => if nat q < xs.length then .store r (.arr (xs.eraseIdx (nat q))) .null else .fail .null
    | none => .unmodelled
  | _, _ => .unmodelled

def arrayGetS : List VArg → Heap → Eff
  | [.one (.arr r), .one (.num q)], h => match getArr h r with
    | some xs => match xs[nat q]? with
      | some v => .ret v
      | none => .fail .null
    | none => .unmodelled
  | _, _ => .unmodelled

def arraySetS : List VArg → Heap → Eff
  | [.one (.arr r), .one (.num q), .one v], h => match getArr h r with
    | some xs => if nat q < xs.length then .store r (.arr (xs.set (nat q) v)) v else .fail .null
    | none => .unmodelled
  | _, _ => .unmodelled

def arrayNewSizeS : List VArg → Heap → Eff
  | [.one (.num q), .one v], _ => .alloc (.arr (List.replicate (nat q) v))
  | _, _ => .unmodelled

def arraySliceS : List VArg → Heap → Eff
  | [.one (.arr r), .one (.num s), .one e], h => match getArr h r with
    | some xs => match endN xs.length e with
      | none => .unmodelled
      | some e => if nat s ≤ xs.length ∧ e ≤ xs.length then .alloc (.arr (sliceN xs (nat s) e)) else .fail .null
    | none => .unmodelled
  | _, _ => .unmodelled

def arrayIndexOfS : List VArg → Heap → Eff
  | [.one (.arr r), .one v, .one (.num q)], h => match getArr h r with
    | some xs =>
      if nat q < xs.length then
        match v with
        | .fn _ => .unmodelled
        | v => searchResN (indexOfN h v (xs.drop (nat q)) (nat q))
      else .fail (numI (-1))
    | none => .unmodelled
  | _, _ => .unmodelled

/-- the start of a backward search: absent/null = the last element -/
def lastStart (len : Nat) : Value → Option (Option Nat)
  | .null => some (if len = 0 then none else some (len - 1))
  | .num q => some (some (nat q))
  | _ => none

def arrayLastIndexOfS : List VArg → Heap → Eff
  | [.one (.arr r), .one v, .one ix], h => match getArr h r with
    | some xs => match lastStart xs.length ix with
      | none => .unmodelled
      | some none =>           -- empty array, no index given: nothing to search
        (match v with
        | .fn _ => .unmodelled
        | _ => .ret (numI (-1)))
      | some (some i) =>
        if i < xs.length then
          match v with
          | .fn _ => .unmodelled
          | v => searchResN (lastIndexOfN h v xs (i + 1))
        else .fail (numI (-1))
    | none => .unmodelled
  | _, _ => .unmodelled

def stringCharCodeAtS : List VArg → Heap → Eff
  | [.one (.str s), .one (.num q)], _ => match (chars s)[nat q]? with
    | some c => .ret (numN c.toNat)
    | none => .fail .null
  | _, _ => .unmodelled

def stringRepeatS : List VArg → Heap → Eff
  | [.one (.str s), .one (.num q)], _ => .ret (mkStr (List.replicate (nat q) (chars s)).flatten)
  | _, _ => .unmodelled

def stringSliceS : List VArg → Heap → Eff
  | [.one (.str s), .one (.num b), .one e], _ => match endN (chars s).length e with
    | none => .unmodelled
    | some e =>
      if nat b ≤ (chars s).length ∧ e ≤ (chars s).length then .ret (mkStr (sliceN (chars s) (nat b) e)) else .fail .null
  | _, _ => .unmodelled

/-- first occurrence of `sub` at an index `≥ start` (`start < length`) -/
def stringIndexOfS : List VArg → Heap → Eff
  | [.one (.str s), .one (.str t), .one (.num q)], _ =>
    if nat q < (chars s).length then .ret (numI (optIdx (findFrom (chars t) ((chars s).drop (nat q)) (nat q))))
    else .fail (numI (-1))
  | _, _ => .unmodelled

/-- last occurrence of `sub` at an index `≤ start`: the last match inside the first `start + |sub|` code points -/
def stringLastIndexOfS : List VArg → Heap → Eff
  | [.one (.str s), .one (.str t), .one ix], _ =>
    match lastStart (chars s).length ix with
    | none => .unmodelled
    | some none => .ret (numI (optIdx (lastMatch (chars t) [] 0)))     -- empty text: only the empty string occurs, at 0
    | some (some i) =>
      if i < (chars s).length then .ret (numI (optIdx (lastMatch (chars t) ((chars s).take (i + (chars t).length)) 0)))
      else .fail (numI (-1))
  | _, _ => .unmodelled

/-- the reference operation of every function; where the Python body is already a plain list / assoc-list / code point
operation (`xs ++ ys`, `dictSet`, `isPrefixOf`, `pySplit`, …) the reference *is* that operation and its contract is stated by
the characterisation theorems of `BareProofs/C15.lean` (`dict_*`, `findFrom_*`, `split_join`, `reEscape_*`, `quote_*`) -/
def specBodies : List (String × (List VArg → Heap → Eff)) := [
  ("arrayCopy", arrayCopyB), ("arrayDelete", arrayDeleteS), ("arrayExtend", arrayExtendB), ("arrayGet", arrayGetS),
  ("arrayIndexOf", arrayIndexOfS), ("arrayJoin", arrayJoinB), ("arrayLastIndexOf", arrayLastIndexOfS),
  ("arrayLength", arrayLengthB), ("arrayNewSize", arrayNewSizeS), ("arrayPop", arrayPopB), ("arrayPush", arrayPushB),
  ("arraySet", arraySetS), ("arrayShift", arrayShiftB), ("arraySlice", arraySliceS),
  ("objectAssign", objectAssignB), ("objectCopy", objectCopyB), ("objectDelete", objectDeleteB), ("objectGet", objectGetB),
  ("objectHas", objectHasB), ("objectKeys", objectKeysB), ("objectSet", objectSetB),
  ("stringCharCodeAt", stringCharCodeAtS), ("stringEndsWith", stringEndsWithB), ("stringIndexOf", stringIndexOfS),
  ("stringLastIndexOf", stringLastIndexOfS), ("stringLength", stringLengthB), ("stringLower", stringLowerB),
  ("stringRepeat", stringRepeatS), ("stringReplace", stringReplaceB), ("stringSlice", stringSliceS),
  ("stringSplit", stringSplitB), ("stringStartsWith", stringStartsWithB), ("stringTrim", stringTrimB),
  ("stringUpper", stringUpperB), ("regexEscape", regexEscapeB),
  ("urlEncode", urlEncodeB (safeBytes (docSafe "urlEncode"))),
  ("urlEncodeComponent", urlEncodeB (safeBytes (docSafe "urlEncodeComponent")))]

/-- one call, by the documented contract -/
def specEff (f : String) (args : List Value) (h : Heap) : Eff :=
  if rawFns.contains f then
    match rawBodies.lookup f with
    | some b => b args h
    | none => .unmodelled
  else
    match docSig.lookup f, specBodies.lookup f with
    | some ms, some b =>
      match validate h ms args with
      | none => .fail (docFail f args)
      | some va => b va h
    | _, _ => .unmodelled

def specLib (f : String) (args : List Value) (h : Heap) : Res × Heap := (specEff f args h).run h

end Lib.Spec
