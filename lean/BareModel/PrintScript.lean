import BareModel.Scan
import BareModel.Lower

/-!
# Printer of classified lines / structured programs to BareScript source text

`printLine pe l` is the canonical spelling of one classified line (`Line`), parametric in the expression printer `pe`;
`printScript pe B` is the text of a structured program: the lines of `Lower.renderB B`, joined by `'\n'` (one chunk).
`C01.classify_printLine` / `C01.parseScript_print` (BareProofs/C01Source.lean): the statement regex cascade (`Scan`)
reads every printed line back as the line it was printed from, and the whole text-level parser `Parser.parseScript`
returns the recursive lowering `Lower.lowerProgram B`.

Everything is defined over `List Char` (suffix `L`) — that is what the theorems are about — with `String` wrappers.

`LineOK pe l` is the decidable side condition on a line: identifiers are identifiers (`[A-Za-z_]\w*`) that read back
as the same `Name`, expression texts have a harmless first and last character, an expression *statement* is a call
`f(…)`, include URLs contain no line feed (and no `>` in the `<…>` form).  Each clause says in its comment what the
regex cascade of parser.py would do without it.
-/

namespace PrintScript
open Text

/-! ## pieces -/

/-- the spelling of an identifier -/
def nameL (n : Name) : Chars := n.render.toList

/-- inverse of `Scan.unescapeQuote` (`\` ↦ `\\`, `'` ↦ `\'`) -/
def escapeUrl : Chars → Chars
  | [] => []
  | c :: r => if c = '\\' ∨ c = '\'' then '\\' :: c :: escapeUrl r else c :: escapeUrl r

/-- `, a, b` … (each further argument of a function definition) -/
def moreArgsL : List Name → Chars
  | [] => []
  | a :: as => ',' :: ' ' :: (nameL a ++ moreArgsL as)

/-- `a, b, c` -/
def argsL : List Name → Chars
  | [] => []
  | a :: as => nameL a ++ moreArgsL as

/-- `async ` in front of an asynchronous function definition -/
def asyncL (isAsync : Bool) : Chars := if isAsync then "async ".toList else []

/-- `...` after the last argument of a function definition that collects the remaining arguments -/
def laaL (laa : Bool) : Chars := if laa then "...".toList else []

/-- `, index` of a `for` loop with an index variable -/
def ixL : Option Name → Chars
  | none => []
  | some i => ',' :: ' ' :: nameL i

/-- **the canonical spelling of one classified line**, no indentation, single blanks -/
def printLineL (pe : Expr → Chars) : Line → Chars
  | .assign n e => nameL n ++ (' ' :: '=' :: ' ' :: pe e)
  | .funcBegin n args laa isAsync =>
      asyncL isAsync ++ ("function ".toList ++ (nameL n ++ ('(' :: (argsL args ++ (laaL laa ++ [')', ':'])))))
  | .funcEnd => "endfunction".toList
  | .ifBegin c => "if ".toList ++ (pe c ++ [':'])
  | .elif c => "elif ".toList ++ (pe c ++ [':'])
  | .else_ => "else:".toList
  | .endif => "endif".toList
  | .whileBegin c => "while ".toList ++ (pe c ++ [':'])
  | .endwhile => "endwhile".toList
  | .forBegin v i vals => "for ".toList ++ (nameL v ++ (ixL i ++ (" in ".toList ++ (pe vals ++ [':']))))
  | .endfor => "endfor".toList
  | .break_ => "break".toList
  | .continue_ => "continue".toList
  | .label n => nameL n ++ [':']
  | .jump n none => "jump ".toList ++ nameL n
  | .jump n (some c) => "jumpif (".toList ++ (pe c ++ (')' :: ' ' :: nameL n))
  | .ret none => "return".toList
  | .ret (some e) => "return ".toList ++ pe e
  | .include url false => "include '".toList ++ (escapeUrl url.toList ++ ['\''])
  | .include url true => "include <".toList ++ (url.toList ++ ['>'])
  | .exprStmt e => pe e

/-- lines joined by `'\n'` (no final line feed) -/
def joinNl : List Chars → Chars
  | [] => []
  | [l] => l
  | l :: ls => l ++ '\n' :: joinNl ls

/-! ## `String` interface -/

def printLine (pe : Expr → String) (l : Line) : String := String.ofList (printLineL (fun e => (pe e).toList) l)

/-- the text of a list of classified lines: one chunk, lines separated by `'\n'` -/
def printLines (pe : Expr → String) (ls : List Line) : String := "\n".intercalate (ls.map (printLine pe))

/-- **the text of a structured program** -/
def printScript (pe : Expr → String) (B : List SStmt) : String := printLines pe (Lower.renderB B)

-- (an indented layout — any blanks in front of every line — is `C01.printIndented` / `C01.printPretty`,
-- BareProofs/C01Source.lean)

/-! ## the decidable side conditions -/

/-- `[A-Za-z_]\w*` -/
def isIdent : Chars → Bool
  | c :: r => isIdStart c && r.all isWord
  | [] => false

/-- an identifier the scanner reads back as the same `Name`: its spelling matches `[A-Za-z_]\w*` (otherwise the
identifier recognisers of the patterns stop early or fail) and `Name.ofString` maps the spelling back to the name
(a `user` name spelt like a generated one, `__bareScriptIf7`, *is* the generated name after parsing) -/
def NameOK (n : Name) : Bool := isIdent (nameL n) && decide (Name.ofString n.render = n)

/-- first character of an expression text: not a blank (the patterns strip blanks in front of a captured expression;
a blank line is a comment), not `=` (`if =x:` is the assignment `if = x:`: the assignment pattern comes first), not `:`
(`return :` is the label `return`), not `#` (an expression statement starting with `#` is a comment line) -/
def headOK (c : Char) : Bool := !isSpace c && c != '=' && c != ':' && c != '#'

/-- last character of an expression text: not a blank (`'\r'` in front of the line feed would be read as CRLF; the
patterns would hand the blank to the expression), not a backslash (line continuation) -/
def lastOK (c : Char) : Bool := !isSpace c && c != '\\'

/-- an expression text that can stand in a line -/
def ExprTextOK (t : Chars) : Bool :=
  !t.contains '\n' && (match t.head? with | some c => headOK c | none => false) &&
  (match t.getLast? with | some c => lastOK c | none => false)

/-- an expression **statement** text: a call `f(…)` with `f` a plain identifier, ending with its closing parenthesis.
Anything else can be captured by an earlier pattern of the cascade: `a = b` (comparison written with one `=`) is an
assignment, `x:` a label, `jump x`, `return x`, `if x:` … are statements; `jumpif(a) b` is a conditional jump, hence
the closing parenthesis at the end. -/
def CallTextOK (t : Chars) : Bool :=
  isIdent (t.takeWhile isWord) && (t.dropWhile isWord).head? == some '(' && t.getLast? == some ')'

/-- the expressions of a line -/
def exprs : Line → List Expr
  | .assign _ e | .ifBegin e | .elif e | .whileBegin e | .forBegin _ _ e | .jump _ (some e) | .ret (some e)
  | .exprStmt e => [e]
  | _ => []

/-- the identifiers of a line -/
def names : Line → List Name
  | .assign n _ | .label n | .jump n _ => [n]
  | .funcBegin n args _ _ => n :: args
  | .forBegin v i _ => v :: i.toList
  | _ => []

/-- **side condition of one line** -/
def LineOK (pe : Expr → Chars) (l : Line) : Bool :=
  (names l).all NameOK && (exprs l).all (fun e => ExprTextOK (pe e)) &&
  (match l with
   | .exprStmt e => CallTextOK (pe e)
   -- `else:` is the else statement, not a label
   | .label n => nameL n != "else".toList
   -- a line feed in the URL would split the line; `>` ends the `<…>` form early
   | .include url sys => !url.toList.contains '\n' && (!sys || !url.toList.contains '>')
   | _ => true)

/-- **side condition of a structured program**: every line of its rendering is printable -/
def ProgPrintable (pe : Expr → String) (B : List SStmt) : Bool :=
  (Lower.renderB B).all (LineOK fun e => (pe e).toList)

/-- every expression of the program satisfies `ok` (instantiated with the printable class of the expression printer) -/
def ProgExprsOK (ok : Expr → Bool) (B : List SStmt) : Bool :=
  (Lower.renderB B).all fun l => (exprs l).all ok

end PrintScript
