/-!
# PJson — protocol JSON for the correspondence drivers

A small self-contained JSON reader/printer (no `import Lean`, so driver executables stay small and link fast).
This is *harness* code: it carries requests from the Python correspondence harness to the model and answers back.
It is not the model of BareScript's own JSON functions (that is `BareModel.Json`).

Numbers: integer literals are kept exactly (`num`); anything else numeric is kept as its raw text (`raw`) and it is
up to the handler to interpret it. The printer emits ASCII only (`\uXXXX` for everything outside 0x20..0x7e).
-/

inductive PJson where
  | null
  | bool (b : Bool)
  | num (n : Int)
  | raw (s : String)          -- non-integer numeric literal, verbatim
  | str (s : String)
  | arr (xs : List PJson)
  | obj (kvs : List (String × PJson))
deriving Repr, Inhabited, BEq

namespace PJson

def hexDigit (n : Nat) : Char :=
  if n < 10 then Char.ofNat (48 + n) else Char.ofNat (87 + n)

def hex4 (n : Nat) : String :=
  String.ofList [hexDigit (n / 4096 % 16), hexDigit (n / 256 % 16), hexDigit (n / 16 % 16), hexDigit (n % 16)]

def escChar (c : Char) : String :=
  if c == '"' then "\\\""
  else if c == '\\' then "\\\\"
  else if c == '\n' then "\\n"
  else if c == '\r' then "\\r"
  else if c == '\t' then "\\t"
  else
    let n := c.toNat
    if 0x20 ≤ n && n < 0x7f then String.singleton c
    else if n < 0x10000 then "\\u" ++ hex4 n
    else
      let m := n - 0x10000
      "\\u" ++ hex4 (0xd800 + m / 1024) ++ "\\u" ++ hex4 (0xdc00 + m % 1024)

def escStr (s : String) : String :=
  "\"" ++ String.join (s.toList.map escChar) ++ "\""

partial def render : PJson → String
  | null => "null"
  | bool true => "true"
  | bool false => "false"
  | num n => toString n
  | raw s => s
  | str s => escStr s
  | arr xs => "[" ++ String.intercalate "," (xs.map render) ++ "]"
  | obj kvs => "{" ++ String.intercalate "," (kvs.map fun (k, v) => escStr k ++ ":" ++ render v) ++ "}"

/-! ## parser (over `List Char`, fuel = remaining length) -/

def skipWs : List Char → List Char
  | c :: cs => if c == ' ' || c == '\n' || c == '\r' || c == '\t' then skipWs cs else c :: cs
  | [] => []

def hexVal (c : Char) : Option Nat :=
  let n := c.toNat
  if 48 ≤ n && n ≤ 57 then some (n - 48)
  else if 97 ≤ n && n ≤ 102 then some (n - 87)
  else if 65 ≤ n && n ≤ 70 then some (n - 55)
  else none

def parseHex4 : List Char → Option (Nat × List Char)
  | a :: b :: c :: d :: rest => do
      let a ← hexVal a; let b ← hexVal b; let c ← hexVal c; let d ← hexVal d
      pure (a * 4096 + b * 256 + c * 16 + d, rest)
  | _ => none

/-- parse the inside of a string after the opening quote -/
partial def parseStrBody (acc : List Char) : List Char → Option (String × List Char)
  | [] => none
  | '"' :: rest => some (String.ofList acc.reverse, rest)
  | '\\' :: 'u' :: rest =>
      match parseHex4 rest with
      | none => none
      | some (hi, rest') =>
        if 0xd800 ≤ hi && hi < 0xdc00 then
          match rest' with
          | '\\' :: 'u' :: rest2 =>
            match parseHex4 rest2 with
            | some (lo, rest3) =>
              if 0xdc00 ≤ lo && lo < 0xe000 then
                parseStrBody (Char.ofNat (0x10000 + (hi - 0xd800) * 1024 + (lo - 0xdc00)) :: acc) rest3
              else parseStrBody (Char.ofNat 0xfffd :: acc) rest'
            | none => none
          | _ => parseStrBody (Char.ofNat 0xfffd :: acc) rest'
        else if 0xdc00 ≤ hi && hi < 0xe000 then parseStrBody (Char.ofNat 0xfffd :: acc) rest'
        else parseStrBody (Char.ofNat hi :: acc) rest'
  | '\\' :: c :: rest =>
      let c' := match c with
        | 'n' => '\n' | 'r' => '\r' | 't' => '\t' | 'b' => Char.ofNat 8 | 'f' => Char.ofNat 12 | c => c
      parseStrBody (c' :: acc) rest
  | c :: rest => parseStrBody (c :: acc) rest

def isNumChar (c : Char) : Bool :=
  c.isDigit || c == '-' || c == '+' || c == '.' || c == 'e' || c == 'E'

def spanNum : List Char → List Char × List Char
  | c :: cs => if isNumChar c then let (a, b) := spanNum cs; (c :: a, b) else ([], c :: cs)
  | [] => ([], [])

def parseNumLit (cs : List Char) : PJson :=
  let s := String.ofList cs
  match s.toInt? with
  | some n => num n
  | none => raw s

mutual
partial def parseVal (cs : List Char) : Option (PJson × List Char) :=
  match skipWs cs with
  | 'n' :: 'u' :: 'l' :: 'l' :: rest => some (null, rest)
  | 't' :: 'r' :: 'u' :: 'e' :: rest => some (bool true, rest)
  | 'f' :: 'a' :: 'l' :: 's' :: 'e' :: rest => some (bool false, rest)
  | '"' :: rest => (parseStrBody [] rest).map fun (s, r) => (str s, r)
  | '[' :: rest =>
      match skipWs rest with
      | ']' :: r => some (arr [], r)
      | r => parseElems [] r
  | '{' :: rest =>
      match skipWs rest with
      | '}' :: r => some (obj [], r)
      | r => parseMembers [] r
  | c :: rest =>
      if isNumChar c then
        let (n, r) := spanNum (c :: rest)
        some (parseNumLit n, r)
      else none
  | [] => none
partial def parseElems (acc : List PJson) (cs : List Char) : Option (PJson × List Char) :=
  match parseVal cs with
  | none => none
  | some (v, r) =>
    match skipWs r with
    | ',' :: r' => parseElems (v :: acc) r'
    | ']' :: r' => some (arr (v :: acc).reverse, r')
    | _ => none
partial def parseMembers (acc : List (String × PJson)) (cs : List Char) : Option (PJson × List Char) :=
  match skipWs cs with
  | '"' :: r =>
    match parseStrBody [] r with
    | none => none
    | some (k, r1) =>
      match skipWs r1 with
      | ':' :: r2 =>
        match parseVal r2 with
        | none => none
        | some (v, r3) =>
          match skipWs r3 with
          | ',' :: r4 => parseMembers ((k, v) :: acc) r4
          | '}' :: r4 => some (obj ((k, v) :: acc).reverse, r4)
          | _ => none
      | _ => none
  | _ => none
end

def parse (s : String) : Option PJson :=
  match parseVal s.toList with
  | some (v, r) => if (skipWs r).isEmpty then some v else none
  | none => none

/-! ## accessors -/

def get? (j : PJson) (k : String) : Option PJson :=
  match j with
  | obj kvs => (kvs.find? (·.1 == k)).map (·.2)
  | _ => none

def getD (j : PJson) (k : String) : PJson := (j.get? k).getD null

def asStr? : PJson → Option String | str s => some s | _ => none
def asInt? : PJson → Option Int | num n => some n | _ => none
def asNat? : PJson → Option Nat | num n => if 0 ≤ n then some n.toNat else none | _ => none
def asBool? : PJson → Option Bool | bool b => some b | _ => none
def asArr? : PJson → Option (List PJson) | arr xs => some xs | _ => none
def asObj? : PJson → Option (List (String × PJson)) | obj kvs => some kvs | _ => none

def strD (j : PJson) (k : String) (d : String := "") : String := ((j.get? k).bind asStr?).getD d
def intD (j : PJson) (k : String) (d : Int := 0) : Int := ((j.get? k).bind asInt?).getD d
def natD (j : PJson) (k : String) (d : Nat := 0) : Nat := ((j.get? k).bind asNat?).getD d
def boolD (j : PJson) (k : String) (d : Bool := false) : Bool := ((j.get? k).bind asBool?).getD d
def arrD (j : PJson) (k : String) : List PJson := ((j.get? k).bind asArr?).getD []

def mk (kvs : List (String × PJson)) : PJson := obj kvs
def ofStrs (xs : List String) : PJson := arr (xs.map str)
def ofOpt {α} (f : α → PJson) : Option α → PJson | some a => f a | none => null

end PJson
