
/-!
# Syntax of BareScript models (the published schema, `model.py` BARE_SCRIPT_TYPES)

One constructor per member of the schema unions.  Identifiers (variable names, function names, labels) are `Name`s:
the names the parser *generates* (`__bareScriptIf7`, `__bareScriptValues3`, ...) are structured (`gen kind n`), every
other identifier is `user s`.  `Name.ofString` maps the canonical spelling of a generated name to `gen`, so a user
identifier that collides with a generated one is the same `Name`, exactly as the two Python strings are equal.
-/

/-- kinds of generated names (parser.py:130-259) -/
inductive GK where
  | ifL | done | loop | cont | index | values | length
deriving Repr, DecidableEq, Inhabited

def GK.text : GK → String
  | .ifL => "If" | .done => "Done" | .loop => "Loop" | .cont => "Continue"
  | .index => "Index" | .values => "Values" | .length => "Length"

def GK.all : List GK := [.ifL, .done, .loop, .cont, .index, .values, .length]

inductive Name where
  | user (s : String)
  | gen (k : GK) (n : Nat)
deriving Repr, DecidableEq, Inhabited

def reservedPrefix : String := "__bareScript"

def Name.render : Name → String
  | .user s => s
  | .gen k n => reservedPrefix ++ k.text ++ toString n

/-- canonical decimal: no leading zero unless the number is 0 -/
def canonDigits (ds : List Char) : Option Nat :=
  if ds.isEmpty || !ds.all Char.isDigit then none
  else if ds.length > 1 && ds.head? == some '0' then none
  else (String.ofList ds).toNat?

def Name.ofString (s : String) : Name :=
  let cs := s.toList
  let pre := reservedPrefix.toList
  if pre.isPrefixOf cs then
    let rest := cs.drop pre.length
    match GK.all.findSome? (fun k =>
        let kt := k.text.toList
        if kt.isPrefixOf rest then (canonDigits (rest.drop kt.length)).map (fun n => Name.gen k n) else none) with
    | some n => n
    | none => .user s
  else .user s

inductive BinOp where
  | pow | mul | div | mod | add | sub | le | lt | ge | gt | eq | ne | and | or
deriving Repr, DecidableEq, Inhabited

def BinOp.all : List BinOp := [.pow, .mul, .div, .mod, .add, .sub, .le, .lt, .ge, .gt, .eq, .ne, .and, .or]

def BinOp.text : BinOp → String
  | .pow => "**" | .mul => "*" | .div => "/" | .mod => "%" | .add => "+" | .sub => "-"
  | .le => "<=" | .lt => "<" | .ge => ">=" | .gt => ">" | .eq => "==" | .ne => "!=" | .and => "&&" | .or => "||"

def BinOp.ofText (s : String) : Option BinOp := BinOp.all.find? (fun o => o.text == s)

inductive UnOp where
  | not | neg
deriving Repr, DecidableEq, Inhabited

def UnOp.text : UnOp → String
  | .not => "!" | .neg => "-"

/-- Expressions.  A number literal is the exact rational denoted by its text (`float(text)` rounds it; see DESIGN §3.2). -/
inductive Expr where
  | number (q : Rat)
  | string (s : String)
  | variable (n : Name)
  | function (name : Name) (args : List Expr)
  | binary (op : BinOp) (l r : Expr)
  | unary (op : UnOp) (e : Expr)
  | group (e : Expr)
deriving Repr, Inhabited

structure IncludeScript where
  url : String
  system : Bool
deriving Repr, DecidableEq, Inhabited

/-- Statements.  `function` carries, besides the schema's members, a script-wide identifier `fid` of the definition
(assigned at the boundary: by the model parser in source order, by the harness for implementation-produced models);
script function *values* are these identifiers (BareScript functions capture nothing), see `Machine`. -/
inductive Stmt where
  | expr (name : Option Name) (e : Expr)
  | jump (label : Name) (cond : Option Expr)
  | ret (e : Option Expr)
  | label (l : Name)
  | function (fid : Nat) (name : Name) (args : List Name) (lastArgArray : Bool) (isAsync : Bool) (body : List Stmt)
  | include (incs : List IncludeScript)
deriving Repr, Inhabited

