import BareModel.Machine
import BareModel.Lower

/-!
# Structured semantics

* `execT` — the *ticked* big-step semantics of structured programs: it follows the source structure (blocks, if chains,
  loops, break/continue) but consumes fuel and advances the statement counter exactly as the lowered code does, and it
  keeps the hidden loop variables of `for`.  `C01.lower_exact` (T2): the jump machine on `lowerB B` *equals* `execT B`
  as a function of fuel, counter and state.  Calls inside expressions go through the same `Machine.callValue`.
* `execS` — the plain source-level reading (no hidden variables, `for` walks the once-evaluated array, conditions are
  re-tested before every iteration).  `C01.ticked_erasure` (T3) relates the two.
-/

namespace Structured
open Machine Lower

variable {W : Type}

/-- how nested calls / includes are run at a given fuel: instantiated with `callValue cfg` / `execIncludes cfg`
(or their cache-free versions) -/
abbrev CallAt (W : Type) := Nat → CallFn W
abbrev InclAt (W : Type) := Nat → Option String → List IncludeScript → State W → Res W

/-- outcome of a structured statement / block; `fuel` is what is left -/
inductive TOut (W : Type) where
  | norm (locals : Option Env) (st : State W) (fuel : Nat)
  | brk (locals : Option Env) (st : State W) (fuel : Nat)
  | cont (locals : Option Env) (st : State W) (fuel : Nat)
  | ret (v : Value) (st : State W)
  | err (e : RtErr) (st : State W)
  | oof
deriving Repr

/-- start one (lowered) statement: one unit of fuel, the counter, the limit test (runtime.py:59-62) -/
def tick (cfg : Config W) (fuel : Nat) (st : State W) (k : Nat → State W → TOut W) : TOut W :=
  match fuel with
  | 0 => .oof
  | f+1 =>
    let st1 : State W := { st with count := st.count + 1 }
    if cfg.maxStatements > 0 && st1.count > cfg.maxStatements then .err (.exceeded cfg.maxStatements) st1
    else k f st1

/-- assignment target: locals if inside a function, else globals -/
def assign (locals : Option Env) (st : State W) (n : Name) (v : Value) : Option Env × State W :=
  match locals with
  | some l => (some (l.set n v), st)
  | none => (none, { st with globals := st.globals.set n v })

/-- one lowered expression statement `name = e` (or bare `e`) -/
def stmtExpr (cfg : Config W) (cv : CallAt W) (name : Option Name) (e : Expr) (fuel : Nat) (locals : Option Env) (st : State W) : TOut W :=
  tick cfg fuel st fun f st1 =>
    match evalExpr cfg (cv f) locals e st1 with
    | .ok v st2 =>
        match name with
        | none => .norm locals st2 f
        | some n => let (l', st3) := assign locals st2 n v; .norm l' st3 f
    | .err e st2 => .err e st2
    | .oof => .oof

/-- one lowered conditional jump: `k true` if the jump is taken -/
def stmtCond (cfg : Config W) (cv : CallAt W) (c : Expr) (fuel : Nat) (locals : Option Env) (st : State W)
    (k : Bool → Nat → State W → TOut W) : TOut W :=
  tick cfg fuel st fun f st1 =>
    match evalExpr cfg (cv f) locals c st1 with
    | .ok v st2 => k (cfg.host.truthy v st2.world) f st2
    | .err e st2 => .err e st2
    | .oof => .oof

/-- a statement that only costs a tick (a label reached by falling through, an unconditional jump) -/
def stmtSkip (cfg : Config W) (fuel : Nat) (locals : Option Env) (st : State W) : TOut W :=
  tick cfg fuel st fun f st1 => .norm locals st1 f

/-- `while`, entered just after `label loop`; `n` bounds the number of iterations (never binding: each iteration
burns fuel).  F7: `continue` re-enters the body without re-testing the condition. -/
def loopW (cfg : Config W) (cv : CallAt W) (c : Expr) (body : Nat → Option Env → State W → TOut W) :
    Nat → Nat → Option Env → State W → TOut W
  | 0, _, _, _ => .oof
  | n+1, fuel, locals, st =>
    match body fuel locals st with
    | .norm l1 st1 f1 =>
        stmtCond cfg cv c f1 l1 st1 fun taken f2 st2 =>
          if taken then loopW cfg cv c body n f2 l1 st2
          else stmtSkip cfg f2 l1 st2                       -- label done
    | .brk l1 st1 f1 => .norm l1 st1 f1
    | .cont l1 st1 f1 => loopW cfg cv c body n f1 l1 st1
    | o => o

/-- `for`, entered just after `label loop` (before `value = arrayGet(values, index)`) -/
def loopF (cfg : Config W) (cv : CallAt W) (i : Nat) (v ixv : Name) (hasCont : Bool) (body : Nat → Option Env → State W → TOut W) :
    Nat → Nat → Option Env → State W → TOut W
  | 0, _, _, _ => .oof
  | n+1, fuel, locals, st =>
    match stmtExpr cfg cv (some v) (.function fnArrayGet [.variable (vValues i), .variable ixv]) fuel locals st with
    | .norm l0 st0 f0 =>
      let footer (viaCont : Bool) (l1 : Option Env) (st1 : State W) (f1 : Nat) : TOut W :=
        -- `label continue` costs a tick only when reached by falling through
        let afterLabel (l2 : Option Env) (st2 : State W) (f2 : Nat) : TOut W :=
          match stmtExpr cfg cv (some ixv) (.binary .add (.variable ixv) (.number 1)) f2 l2 st2 with
          | .norm l3 st3 f3 =>
              stmtCond cfg cv (.binary .lt (.variable ixv) (.variable (vLength i))) f3 l3 st3 fun taken f4 st4 =>
                if taken then loopF cfg cv i v ixv hasCont body n f4 l3 st4
                else stmtSkip cfg f4 l3 st4                 -- label done
          | o => o
        if hasCont && !viaCont then
          match stmtSkip cfg f1 l1 st1 with
          | .norm l2 st2 f2 => afterLabel l2 st2 f2
          | o => o
        else afterLabel l1 st1 f1
      match body f0 l0 st0 with
      | .norm l1 st1 f1 => footer false l1 st1 f1
      | .cont l1 st1 f1 => footer true l1 st1 f1
      | .brk l1 st1 f1 => .norm l1 st1 f1
      | o => o
    | o => o

mutual
/-- `i` = the value of the script-wide label counter when the statement is lowered (names the hidden `for` variables) -/
def execTS (cfg : Config W) (cv : CallAt W) (ei : InclAt W) (inLoop : Bool) : SStmt → Nat → Nat → Option Env → Option String → State W → TOut W
  | .expr n e, _, fuel, locals, _, st => stmtExpr cfg cv n e fuel locals st
  | .ret none, _, fuel, _, _, st => tick cfg fuel st fun _ st1 => .ret .null st1
  | .ret (some e), _, fuel, locals, _, st =>
      tick cfg fuel st fun f st1 =>
        match evalExpr cfg (cv f) locals e st1 with
        | .ok v st2 => .ret v st2
        | .err e st2 => .err e st2
        | .oof => .oof
  | .label _, _, fuel, locals, _, st => stmtSkip cfg fuel locals st
  | .jump l _, _, _, _, _, st => .err (.unknownLabel l) st       -- raw jumps have no structured meaning (excluded by `NoRaw`)
  | .include incs, _, fuel, locals, base, st =>
      tick cfg fuel st fun f st1 =>
        match ei f base incs st1 with
        | .done st2 => .norm locals st2 f
        | .ret v st2 => .ret v st2                                -- unreachable: `execIncludes` never returns `.ret`
        | .err e st2 => .err e st2
        | .oof => .oof
  | .brk, _, fuel, locals, _, st => if inLoop then tick cfg fuel st fun f st1 => .brk locals st1 f else .norm locals st fuel
  | .cont, _, fuel, locals, _, st => if inLoop then tick cfg fuel st fun f st1 => .cont locals st1 f else .norm locals st fuel
  | .func fid n _ _ _ _, _, fuel, locals, _, st =>
      tick cfg fuel st fun f st1 => .norm locals { st1 with globals := st1.globals.set n (.fn (.script fid)) } f
  | .ite c t e, i, fuel, locals, base, st =>
      stmtCond cfg cv (notE c) fuel locals st fun taken f st1 =>
        if taken then execTE cfg cv ei inLoop e (cntB t (i+1)) f locals base st1
        else
          match execTB cfg cv ei inLoop t (i+1) f locals base st1 with
          | .norm l2 st2 f2 => stmtSkip cfg f2 l2 st2          -- `label done` (no else) or `jump done`
          | o => o
  | .while c b, i, fuel, locals, base, st =>
      stmtCond cfg cv (notE c) fuel locals st fun taken f st1 =>
        if taken then .norm locals st1 f
        else
          match stmtSkip cfg f locals st1 with                  -- label loop
          | .norm l2 st2 f2 => loopW cfg cv c (fun f l s => execTB cfg cv ei true b (i+1) f l base s) (f2 + 1) f2 l2 st2
          | o => o
  | .for v ix vals b, i, fuel, locals, base, st =>
      let ixv := ix.getD (vIndex i)
      match stmtExpr cfg cv (some (vValues i)) vals fuel locals st with
      | .norm l1 st1 f1 =>
        match stmtExpr cfg cv (some (vLength i)) (.function fnArrayLength [.variable (vValues i)]) f1 l1 st1 with
        | .norm l2 st2 f2 =>
          stmtCond cfg cv (notE (.variable (vLength i))) f2 l2 st2 fun taken f3 st3 =>
            if taken then .norm l2 st3 f3
            else
              match stmtExpr cfg cv (some ixv) (.number 0) f3 l2 st3 with
              | .norm l4 st4 f4 =>
                match stmtSkip cfg f4 l4 st4 with               -- label loop
                | .norm l5 st5 f5 =>
                    loopF cfg cv i v ixv (usesContB b) (fun f l s => execTB cfg cv ei true b (i+1) f l base s) (f5 + 1) f5 l5 st5
                | o => o
              | o => o
        | o => o
      | o => o
def execTB (cfg : Config W) (cv : CallAt W) (ei : InclAt W) (inLoop : Bool) : List SStmt → Nat → Nat → Option Env → Option String → State W → TOut W
  | [], _, fuel, locals, _, st => .norm locals st fuel
  | s :: ss, i, fuel, locals, base, st =>
      match execTS cfg cv ei inLoop s i fuel locals base st with
      | .norm l1 st1 f1 => execTB cfg cv ei inLoop ss (cntS s i) f1 l1 base st1
      | o => o
def execTE (cfg : Config W) (cv : CallAt W) (ei : InclAt W) (inLoop : Bool) : SElse → Nat → Nat → Option Env → Option String → State W → TOut W
  | .none, _, fuel, locals, _, st => .norm locals st fuel
  | .els b, i, fuel, locals, base, st =>
      match execTB cfg cv ei inLoop b i fuel locals base st with
      | .norm l1 st1 f1 => stmtSkip cfg f1 l1 st1               -- label done
      | o => o
  | .elif c t e, i, fuel, locals, base, st =>
      stmtCond cfg cv (notE c) fuel locals st fun taken f st1 =>
        if taken then execTE cfg cv ei inLoop e (cntB t (i+1)) f locals base st1
        else
          match execTB cfg cv ei inLoop t (i+1) f locals base st1 with
          | .norm l2 st2 f2 => stmtSkip cfg f2 l2 st2
          | o => o
end

/-- a whole structured script, as `execute_script (parse_script text)` runs it -/
def runT (cfg : Config W) (fuel : Nat) (B : List SStmt) (base : Option String) (st : State W) : Res W :=
  match execTB cfg (callValue cfg) (execIncludes cfg) false B 0 fuel none base { st with count := 0 } with
  | .norm _ st' _ => .done st'
  | .brk _ st' _ => .done st'
  | .cont _ st' _ => .done st'
  | .ret v st' => .ret v st'
  | .err e st' => .err e st'
  | .oof => .oof

end Structured
