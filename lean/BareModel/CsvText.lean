import BareModel.Data

/-!
# CsvText — `dataParseCSV` at the level of the WHOLE TABLE TEXT, and an RFC-4180 style writer (property C19)

`BareModel.Data` starts from the cells `csv.DictReader` hands to `validate_data`.  This module models what happens before:

**Mirror layer** (shaped like library.py:432-451 and CPython 3.12 `Modules/_csv.c`, `Lib/csv.py`):

* `splitLines`     `_R_DATA_PARSE_CSV_LINES.split(arg)` with `(?<=\n)|(?<=\r)(?!\n)` and the `if line` filter: the text is cut
                   after every LF and after every CR that is not followed by LF; line ends are kept; no empty pieces
* `stepChar`/`stepEOL`   `parse_process_char` of `_csv.c` for the dialect `DictReader(lines, skipinitialspace=True)` uses:
                   delimiter `,`, quotechar `"`, doublequote, no escapechar, not strict, QUOTE_MINIMAL, skipinitialspace.
                   `parse_add_char` raises `field larger than field limit (131072)`.
* `events`/`run`   `Reader_iternext` for every record until the line iterator is exhausted: the characters of a line, then the
                   end-of-line event; a record is complete when the state is START_RECORD after a line; at the end of the
                   input a pending field (or an open quoted field) is saved
* `dictReader`     `csv.DictReader`: first record = field names, empty records skipped, `dict(zip(fieldnames, row))`,
                   short records filled with `None`, the surplus of a long record stored under the key `None`
* `parseArgs`      `_data_parse_csv`: null arguments skipped, lines of all arguments, DictReader, `validate_data(data, True)`
                   (`Data.validateData`)

**Spec layer**: `writeRecords`/`writeCsv` — an RFC 4180 writer: a field is quoted iff it contains a comma, a quote, CR or LF
(quotes doubled); a record that consists of one empty field is written `""` (an empty line is no record for any CSV reader;
`csv.writer` does the same); records separated by a line end.

No Mathlib.
-/

namespace CsvText
open Compare Data

/-! ## MIRROR: splitting the text into lines -/

/-- is there a cut after `c` when `rest` follows?  (`(?<=\n)` or `(?<=\r)(?!\n)`) -/
def isBreak (c : Char) (rest : List Char) : Bool := c == '\n' || (c == '\r' && rest.head? != some '\n')

/-- `[line for line in _R_DATA_PARSE_CSV_LINES.split(arg) if line]` -/
def splitLines : List Char → List (List Char)
  | [] => []
  | c :: rest =>
    if isBreak c rest then [c] :: splitLines rest
    else
      match splitLines rest with
      | [] => [[c]]
      | l :: ls => (c :: l) :: ls

/-! ## MIRROR: the `_csv` reader state machine -/

inductive St where
  | startRecord | startField | inField | inQuoted | quoteInQuoted | eatCrnl
deriving DecidableEq, Repr

inductive CsvError where
  /-- `_csv.Error: field larger than field limit (131072)` -/
  | fieldLimit
  /-- `_csv.Error: new-line character seen in unquoted field` (unreachable from `splitLines`, kept for faithfulness) -/
  | newlineInUnquoted
deriving DecidableEq, Repr

/-- `csv.field_size_limit()` default -/
def fieldLimit : Nat := 131072

/-- the reader object between two characters: completed fields of the record (`self->fields`), the field buffer
(`self->field`, held in reverse: the last character first, so that `parse_add_char` is constant time), the number of
characters in it (`self->field_len`), the state -/
structure Rd where
  fields : List (List Char)
  buf : List Char
  len : Nat
  st : St
deriving DecidableEq, Repr

/-- the field under construction -/
def Rd.field (r : Rd) : List Char := r.buf.reverse

/-- `parse_reset` -/
def Rd.reset : Rd := ⟨[], [], 0, .startRecord⟩

/-- `parse_add_char`, then the new state -/
def addChar (r : Rd) (c : Char) (st : St) : Except CsvError Rd :=
  if fieldLimit ≤ r.len then .error .fieldLimit else .ok ⟨r.fields, c :: r.buf, r.len + 1, st⟩

/-- `parse_save_field`, then the new state -/
def saveField (r : Rd) (st : St) : Rd := ⟨r.fields ++ [r.buf.reverse], [], 0, st⟩

/-- `case START_FIELD` (also reached by fall-through from START_RECORD) for a character -/
def startField (r : Rd) (c : Char) : Except CsvError Rd :=
  if c = '\n' ∨ c = '\r' then .ok (saveField r .eatCrnl)
  else if c = '"' then .ok ⟨r.fields, r.buf, r.len, .inQuoted⟩
  else if c = ' ' then .ok ⟨r.fields, r.buf, r.len, .startField⟩        -- skipinitialspace
  else if c = ',' then .ok (saveField r .startField)
  else addChar r c .inField

/-- `parse_process_char` for a character of the line -/
def stepChar (r : Rd) (c : Char) : Except CsvError Rd :=
  match r.st with
  | .startRecord => if c = '\n' ∨ c = '\r' then .ok ⟨r.fields, r.buf, r.len, .eatCrnl⟩ else startField r c
  | .startField => startField r c
  | .inField =>
    if c = '\n' ∨ c = '\r' then .ok (saveField r .eatCrnl)
    else if c = ',' then .ok (saveField r .startField)
    else addChar r c .inField
  | .inQuoted => if c = '"' then .ok ⟨r.fields, r.buf, r.len, .quoteInQuoted⟩ else addChar r c .inQuoted
  | .quoteInQuoted =>
    if c = '"' then addChar r c .inQuoted
    else if c = ',' then .ok (saveField r .startField)
    else if c = '\n' ∨ c = '\r' then .ok (saveField r .eatCrnl)
    else addChar r c .inField                                         -- not strict
  | .eatCrnl => if c = '\n' ∨ c = '\r' then .ok r else .error .newlineInUnquoted

/-- `parse_process_char(self, EOL)` after the last character of a line -/
def stepEOL (r : Rd) : Rd :=
  match r.st with
  | .startRecord => r                                   -- empty line: the record `[]`
  | .startField => saveField r .startRecord
  | .inField => saveField r .startRecord
  | .inQuoted => r                                      -- the record goes on in the next line
  | .quoteInQuoted => saveField r .startRecord
  | .eatCrnl => ⟨r.fields, r.buf, r.len, .startRecord⟩

/-- what the reader consumes: every character of every line, each line followed by the end-of-line event (`none`) -/
def events (lines : List (List Char)) : List (Option Char) := lines.flatMap (fun l => l.map some ++ [none])

/-- `list(csv.reader(lines, skipinitialspace=True))`: `Reader_iternext` repeated.  A record is returned when the state is
START_RECORD after a line (then `parse_reset`); when the lines are exhausted inside a record
(`field_len != 0 || state == IN_QUOTED_FIELD`) the pending field is saved and the record returned. -/
def run : Rd → List (Option Char) → Except CsvError (List (List (List Char)))
  | r, [] => .ok (if r.len ≠ 0 ∨ r.st = .inQuoted then [(saveField r .startRecord).fields] else [])
  | r, some c :: es =>
    match stepChar r c with
    | .error e => .error e
    | .ok r' => run r' es
  | r, none :: es =>
    if (stepEOL r).st = .startRecord then (run .reset es).map ((stepEOL r).fields :: ·) else run (stepEOL r) es

/-- the records of the lines -/
def readRecords (lines : List (List Char)) : Except CsvError (List (List String)) :=
  (run .reset (events lines)).map (fun recs => recs.map (fun r => r.map String.ofList))

/-! ## MIRROR: `csv.DictReader` -/

/-- one row of `DictReader`: the dict, and the list stored under the key `None` (`restkey`) for an overlong record -/
structure DictRow where
  row : Row
  rest : Option (List String)
deriving DecidableEq

/-- `d = dict(zip(fieldnames, row))`; `if lf < lr: d[None] = row[lf:]`; `elif lf > lr: for key in fieldnames[lr:]: d[key] = None` -/
def dictRow (hdr : List String) (rec : List String) : DictRow :=
  let d : Row := (hdr.zip rec).foldl (fun d p => rowSet p.1 (.str p.2) d) []
  if hdr.length < rec.length then ⟨d, some (rec.drop hdr.length)⟩
  else ⟨(hdr.drop rec.length).foldl (fun d k => rowSet k .null d) d, none⟩

/-- `list(csv.DictReader(lines))`: `fieldnames` (`none`: there was no record at all) and the rows; records `[]` (empty lines)
after the header are skipped -/
def dictReader : List (List String) → Option (List String) × List DictRow
  | [] => (none, [])
  | hdr :: recs => (some hdr, (recs.filter (fun r => !r.isEmpty)).map (dictRow hdr))

/-! ## MIRROR: `_data_parse_csv` -/

inductive ParseError where
  | csv (e : CsvError)          -- `_csv.Error`
  | field (e : FieldError)      -- `TypeError` of `validate_data`

/-- the result: `DictReader.fieldnames` and the validated rows -/
structure Parsed where
  header : Option (List String)
  rows : List DictRow

/-- `_data_parse_csv(args)` for string/null arguments (library.py:432-447) -/
def parseArgs (offU : Int → Int) (args : List (Option String)) : Except ParseError Parsed :=
  let lines := (args.filterMap id).flatMap (fun s => splitLines s.toList)
  match readRecords lines with
  | .error e => .error (.csv e)
  | .ok recs =>
    let d := dictReader recs
    match validateData true offU (d.2.map (·.row)) with
    | .error e => .error (.field e)
    | .ok t => .ok ⟨d.1, (t.zip d.2).map (fun p => ⟨p.1, p.2.rest⟩)⟩

/-- `dataParseCSV(text)` -/
def parseCsv (offU : Int → Int) (text : String) : Except ParseError Parsed := parseArgs offU [some text]

/-! ## SPEC: the writer -/

/-- must the field be quoted?  (comma, quote, CR, LF) -/
def needsQuote (s : List Char) : Bool := s.any (fun c => c == ',' || c == '"' || c == '\r' || c == '\n')

/-- every quote doubled -/
def escapeQuotes : List Char → List Char
  | [] => []
  | c :: cs => if c = '"' then '"' :: '"' :: escapeQuotes cs else c :: escapeQuotes cs

def quoteField (s : List Char) : List Char := '"' :: (escapeQuotes s ++ ['"'])

/-- one field; `force`: quote in any case -/
def fieldText (force : Bool) (s : List Char) : List Char := if force || needsQuote s then quoteField s else s

/-- the following fields, each preceded by the delimiter -/
def restText : List (List Char) → List Char
  | [] => []
  | g :: gs => ',' :: (fieldText false g ++ restText gs)

/-- one record; a record of one empty field is written `""` -/
def recordText : List (List Char) → List Char
  | [] => []
  | f :: fs => fieldText (fs.isEmpty && f.isEmpty) f ++ restText fs

inductive LineEnd where
  | lf | crlf | cr
deriving DecidableEq, Repr

def LineEnd.chars : LineEnd → List Char
  | .lf => ['\n']
  | .crlf => ['\r', '\n']
  | .cr => ['\r']

/-- records separated by the line end; `trailing`: also one after the last record -/
def joinRecords (le : LineEnd) (trailing : Bool) : List (List Char) → List Char
  | [] => []
  | [a] => if trailing then a ++ le.chars else a
  | a :: b :: rest => a ++ (le.chars ++ joinRecords le trailing (b :: rest))

def writeRecords (le : LineEnd) (trailing : Bool) (recs : List (List (List Char))) : List Char :=
  joinRecords le trailing (recs.map recordText)

/-- header and rows of cell texts -/
def writeCsvWith (le : LineEnd) (trailing : Bool) (header : List String) (rows : List (List String)) : String :=
  String.ofList (writeRecords le trailing ((header :: rows).map (fun r => r.map String.toList)))

/-- a typed table as CSV text: cells written with `Data.csvText` (numbers `value_string`, `true`/`false`, ISO datetimes in
the zone `offL`, nulls as `nullText`, strings as they are), records separated by LF, no LF after the last record -/
def writeCsv (nullText : String) (offL : Int → Int) (header : List String) (rows : List (List CsvVal)) : String :=
  writeCsvWith .lf false header (rows.map (fun r => r.map (csvText nullText offL)))

/-- the same with a chosen line end, optionally also after the last record -/
def writeCsvLE (le : LineEnd) (trailing : Bool) (nullText : String) (offL : Int → Int) (header : List String)
    (rows : List (List CsvVal)) : String :=
  writeCsvWith le trailing header (rows.map (fun r => r.map (csvText nullText offL)))

/-! ## SPEC: the side conditions of the round trip, as decidable (Boolean) predicates -/

/-- a field text the reader gives back unchanged: not longer than the field limit, and — because the reader skips blanks at
the start of a field (`skipinitialspace=True`) — not starting with a blank unless the writer quotes it anyway -/
def textOK (s : List Char) : Bool := decide (s.length ≤ fieldLimit) && (needsQuote s || s.head? != some ' ')

/-- the value a cell must come back as -/
def cellValue : CsvVal → PValue
  | .null => .null
  | .bool b => .bool b
  | .num (.int z) => .num z
  | .num (.float r) => .num ((NumText.decVal r).getD 0)     -- `cellOK` demands that the `repr` text denotes a number
  | .dt t => .dt (Datetime.toLocalMs t * 1000)
  | .str s => .str s

/-- the type of a typed cell, none for null -/
def valType : CsvVal → Option FieldType
  | .null => none
  | .bool _ => some .boolean
  | .num _ => some .number
  | .dt _ => some .datetime
  | .str _ => some .string

/-- the type of a column of typed cells: that of its first non-null cell; string if there is none -/
def colKind (col : List CsvVal) : FieldType := (col.findSome? valType).getD .string

def inFloatRange (q : Rat) : Bool := decide (-NumText.overflowBound < q) && decide (q < NumText.overflowBound)

/-- one cell of a column of type `k`: a non-null cell has the column's type; an `int` lies inside the double range; a `float`
is given by a text of the `repr` grammar denoting a number inside the range (C13's assumptions A1/A2) — that a number text is
never an ISO datetime is proved (`C19CsvText.parseDatetime_int/_float`); a datetime satisfies the hypotheses of C16's ISO
round trip (valid fields, whole-minute offset below a day,
the local time exists in the reading zone, the UTC instant is in range); a string is not `null`. -/
def cellOK (offL offU : Int → Int) (k : FieldType) (x : CsvVal) : Bool :=
  match x with
  | .null => true
  | .bool _ => k == .boolean
  | .num (.int z) => k == .number && inFloatRange z
  | .num (.float r) =>
    k == .number && decide (NumText.IsRepr r) && (match NumText.decVal r with | some q => inFloatRange q | none => false)
  | .dt t =>
    let tl := Datetime.toLocalMs t
    k == .datetime && decide t.Valid && decide (offL tl % 60 = 0) && decide (-86400 < offL tl) && decide (offL tl < 86400) &&
      decide (offU (tl - offL tl * 1000) = offL tl) && (Datetime.ofLocalMs (tl - offL tl * 1000)).isSome
  | .str s => k == .string && s != "null"

/-- a string column is typed string: its first cell text that is neither empty nor `null` is not read as a datetime, a
boolean or a number (all its other cells may look like anything) -/
def stringColOK (offU : Int → Int) (texts : List String) : Bool :=
  match texts.find? (fun c => c != "" && c != "null") with
  | none => true
  | some c => decide (detectType true offU (.str c) = some (some .string))

/-- the cell of the field `f` in a row laid out along `header` -/
def cellAt {α : Type} (header : List String) (f : String) (r : List α) : Option α := bucketLookup f (header.zip r)

/-- the column of the field `f` -/
def colAt {α : Type} (header : List String) (f : String) (rows : List (List α)) : List α := rows.filterMap (cellAt header f)

/-- the cell texts that are not fit for the reader by construction: strings, and `float` texts (the `repr` grammar does not
bound the length).  The texts of nulls, booleans, in-range `int`s and datetimes always are (`C19CsvText.cell_textOK`). -/
def cellTextOK (x : CsvVal) : Bool :=
  match x with
  | .str s => textOK s.toList
  | .num (.float r) => textOK (NumText.valueStringNum (.float r)).toList
  | _ => true

/-- one column: every cell is fine for the column's type and fit for the reader; a string column that contains nulls writes
them as `null` (an empty cell of a string column is the empty string), and a string column is typed string -/
def columnOK (nullText : String) (offL offU : Int → Int) (col : List CsvVal) : Bool :=
  col.all (fun x => cellOK offL offU (colKind col) x && cellTextOK x) &&
  (colKind col != .string ||
    ((nullText == "null" || col.all (fun x => (valType x).isSome)) && stringColOK offU (col.map (csvText nullText offL))))

/-- **the hypotheses of the round trip**: at least one column, field names pairwise different and fit for the reader, nulls
written as the empty cell or as `null`, every row as long as the header, every column fine -/
def tableOK (nullText : String) (offL offU : Int → Int) (header : List String) (rows : List (List CsvVal)) : Bool :=
  !header.isEmpty && decide header.Nodup && header.all (fun f => textOK f.toList) &&
  (nullText == "" || nullText == "null") &&
  rows.all (fun r => r.length == header.length) &&
  header.all (fun f => columnOK nullText offL offU (colAt header f rows))

/-- the rows the parse must return -/
def expectedRows (header : List String) (rows : List (List CsvVal)) : List DictRow :=
  rows.map (fun r => ⟨header.zip (r.map cellValue), none⟩)

end CsvText
