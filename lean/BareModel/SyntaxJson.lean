import BareModel.PJson
import BareModel.Syntax

/-! Protocol boundary (harness code, `partial` allowed here): the schema's JSON shape ⇄ `Expr` / `Stmt`. -/

/-! ## JSON boundary (protocol): the schema's JSON shape ⇄ `Expr` / `Stmt` -/

namespace Syntax
open PJson

def ratToJson (q : Rat) : PJson := .arr [.num q.num, .num q.den]

def ratOfJson : PJson → Option Rat
  | .arr [.num p, .num q] => if q > 0 then some (mkRat p q.toNat) else none
  | .num p => some (p : Rat)
  | _ => none

partial def exprToJson : Expr → PJson
  | .number q => mk [("number", ratToJson q)]
  | .string s => mk [("string", .str s)]
  | .variable n => mk [("variable", .str n.render)]
  | .function n args => mk [("function", mk [("args", .arr (args.map exprToJson)), ("name", .str n.render)])]
  | .binary op l r => mk [("binary", mk [("left", exprToJson l), ("op", .str op.text), ("right", exprToJson r)])]
  | .unary op e => mk [("unary", mk [("expr", exprToJson e), ("op", .str op.text)])]
  | .group e => mk [("group", exprToJson e)]

partial def exprOfJson (j : PJson) : Option Expr :=
  match j with
  | .obj [("number", v)] => (ratOfJson v).map .number
  | .obj [("string", .str s)] => some (.string s)
  | .obj [("variable", .str s)] => some (.variable (Name.ofString s))
  | .obj [("group", e)] => (exprOfJson e).map .group
  | .obj [("function", f)] => do
      let name ← (f.get? "name").bind asStr?
      let args ← (f.arrD "args").mapM exprOfJson
      pure (.function (Name.ofString name) args)
  | .obj [("binary", b)] => do
      let op ← ((b.get? "op").bind asStr?).bind BinOp.ofText
      let l ← (b.get? "left").bind exprOfJson
      let r ← (b.get? "right").bind exprOfJson
      pure (.binary op l r)
  | .obj [("unary", u)] => do
      let op ← (u.get? "op").bind asStr?
      let e ← (u.get? "expr").bind exprOfJson
      if op == "!" then pure (.unary .not e) else if op == "-" then pure (.unary .neg e) else none
  | _ => none

partial def stmtToJson : Stmt → PJson
  | .expr none e => mk [("expr", mk [("expr", exprToJson e)])]
  | .expr (some n) e => mk [("expr", mk [("expr", exprToJson e), ("name", .str n.render)])]
  | .jump l none => mk [("jump", mk [("label", .str l.render)])]
  | .jump l (some c) => mk [("jump", mk [("expr", exprToJson c), ("label", .str l.render)])]
  | .ret none => mk [("return", mk [])]
  | .ret (some e) => mk [("return", mk [("expr", exprToJson e)])]
  | .label l => mk [("label", .str l.render)]
  | .function _ n args laa isAsync body =>
      mk [("function", mk (
        (if args.isEmpty then [] else [("args", PJson.arr (args.map fun a => .str a.render))]) ++
        (if isAsync then [("async", PJson.bool true)] else []) ++
        (if laa then [("lastArgArray", PJson.bool true)] else []) ++
        [("name", .str n.render), ("statements", .arr (body.map stmtToJson))]))]
  | .include incs =>
      mk [("include", mk [("includes", .arr (incs.map fun i =>
        mk ((if i.system then [("system", PJson.bool true)] else []) ++ [("url", .str i.url)])))])]

partial def stmtOfJson (j : PJson) : Option Stmt :=
  match j with
  | .obj [("expr", e)] => do
      let ex ← (e.get? "expr").bind exprOfJson
      pure (.expr (((e.get? "name").bind asStr?).map Name.ofString) ex)
  | .obj [("jump", jj)] => do
      let l ← (jj.get? "label").bind asStr?
      match jj.get? "expr" with
      | none => pure (.jump (Name.ofString l) none)
      | some c => do let c ← exprOfJson c; pure (.jump (Name.ofString l) (some c))
  | .obj [("return", r)] =>
      match r.get? "expr" with
      | none => some (.ret none)
      | some e => (exprOfJson e).map (fun e => .ret (some e))
  | .obj [("label", .str l)] => some (.label (Name.ofString l))
  | .obj [("function", f)] => do
      let name ← (f.get? "name").bind asStr?
      let args ← (f.arrD "args").mapM asStr?
      let body ← (f.arrD "statements").mapM stmtOfJson
      pure (.function (f.natD "fid") (Name.ofString name) (args.map Name.ofString) (f.boolD "lastArgArray") (f.boolD "async") body)
  | .obj [("include", i)] => do
      let incs ← (i.arrD "includes").mapM fun x => do
        let url ← (x.get? "url").bind asStr?
        pure { url := url, system := x.boolD "system" : IncludeScript }
      pure (.include incs)
  | _ => none

def scriptToJson (ss : List Stmt) : PJson := mk [("statements", .arr (ss.map stmtToJson))]

def scriptOfJson (j : PJson) : Option (List Stmt) := (j.arrD "statements").mapM stmtOfJson

end Syntax
