import BareModel.Url

/-!
# Include — an abstract machine for `include` statements (runtime.py:101-145)

A *script* is a list of items: an include statement with its entries (consecutive `include` lines are ONE statement
with several entries, parser.py:384-393), an observable statement `stmt tag` (its effect on the global state is an
arbitrary function `eff tag`), a statement without observable effect `nop`, or `ret` (a `return` statement).
Files live in a virtual file map `String → File`; a file is a parsed text, `broken` (syntax error), `missing`
(`fetchFn` returns `None`) or `throws` (`fetchFn` raises).

**Mirror** `runScript` — shaped like `_execute_script_helper`: the options dictionary is a record that is threaded
through (`urlFn`, `statementCount`); an include entry is resolved (`resolveEntry`, runtime.py:110-114), fetched,
"parsed", and run with a *copy* of the options whose `urlFn` is `partial(url_file_relative, url)`; afterwards only
`statementCount` is copied back (runtime.py:140-145). The counter is incremented and tested at the head of every
statement (runtime.py:59-62). `gas` bounds the include nesting depth (structural recursion); `outOfGas` is a
model-only outcome.

**Spec** `expectedEvents` — shaped like the property: walk the include tree depth-first in program order; every
entry of every include statement reached (i.e. not behind a `return` of its own script) is fetched exactly once from
its location resolved against the *including file* (`specLocation`), its statements follow immediately.
`expectedFetches` is the fetch part of it.
-/

namespace Include
open Url

structure Entry where
  url : String
  system : Bool
deriving Repr, DecidableEq

inductive Item where
  | inc (entries : List Entry)
  | stmt (tag : String)
  | nop
  | ret
deriving Repr, DecidableEq

abbrev Script := List Item

inductive File where
  | text (s : Script)
  | broken
  | missing
  | throws
deriving Repr, DecidableEq

/-- `options['urlFn']`: `None` or `functools.partial(url_file_relative, file)` -/
inductive UrlFn where
  | none
  | relativeTo (file : String)
deriving Repr, DecidableEq

structure Config where
  systemPrefix : Option String
  /-- `options['fetchFn']` (`none`: not configured) -/
  fetch : Option (String → File)
  /-- `options['maxStatements']`; `0` = unlimited (runtime.py:61) -/
  maxStatements : Nat

/-- the part of the options dictionary that changes during execution -/
structure Options where
  urlFn : UrlFn
  statementCount : Nat
deriving Repr, DecidableEq

inductive Outcome where
  | ok
  | includeFailed (url : String)   -- BareScriptRuntimeError('Include of "<url>" failed')
  | parseError (url : String)      -- BareScriptParserError(..., prefix = 'Included from "<url>"')
  | exceeded                       -- BareScriptRuntimeError('Exceeded maximum script statements (n)')
  | outOfGas
deriving Repr, DecidableEq

/-- what the outside world sees, in order: requests to `fetchFn` and executed observable statements -/
inductive Event where
  | fetch (url : String)
  | exec (tag : String)
deriving Repr, DecidableEq

structure Res (σ : Type) where
  trace : List Event
  state : σ
  opts : Options
  outcome : Outcome

/-! ## mirror -/

def applyUrlFn : UrlFn → String → String
  | .none, u => u
  | .relativeTo f, u => urlFileRelative f u

/-- runtime.py:110-114 -/
def resolveEntry (cfg : Config) (uf : UrlFn) (e : Entry) : String :=
  match e.system, cfg.systemPrefix with
  | true, some p => urlFileRelative p e.url
  | _, _ => applyUrlFn uf e.url

section
variable {σ : Type} (cfg : Config) (eff : String → σ → σ)

/-- the `for include in statement['include']['includes']` loop; `rec` runs a nested script -/
def runEntries (rec : Options → Script → σ → Res σ) (o : Options) : List Entry → σ → Res σ
  | [], s => ⟨[], s, o, .ok⟩
  | e :: es, s =>
    let url := resolveEntry cfg o.urlFn e
    match cfg.fetch with
    | none => ⟨[], s, o, .includeFailed url⟩
    | some fs =>
      match fs url with
      | .missing => ⟨[.fetch url], s, o, .includeFailed url⟩
      | .throws => ⟨[.fetch url], s, o, .includeFailed url⟩
      | .broken => ⟨[.fetch url], s, o, .parseError url⟩
      | .text sc =>
        -- include_options = options.copy(); include_options['urlFn'] = partial(url_file_relative, url)
        let r := rec { o with urlFn := .relativeTo url } sc s
        -- finally: options['statementCount'] = include_options['statementCount']
        let o' : Options := { o with statementCount := r.opts.statementCount }
        match r.outcome with
        | .ok =>
          let r2 := runEntries rec o' es r.state
          ⟨.fetch url :: r.trace ++ r2.trace, r2.state, r2.opts, r2.outcome⟩
        | out => ⟨.fetch url :: r.trace, r.state, o', out⟩

/-- the statement loop of `_execute_script_helper` -/
def runItems (rec : Options → Script → σ → Res σ) : Options → Script → σ → Res σ
  | o, [], s => ⟨[], s, o, .ok⟩
  | o, it :: rest, s =>
    let o1 : Options := { o with statementCount := o.statementCount + 1 }
    if cfg.maxStatements > 0 && o1.statementCount > cfg.maxStatements then ⟨[], s, o1, .exceeded⟩
    else match it with
      | .ret => ⟨[], s, o1, .ok⟩
      | .nop => runItems rec o1 rest s
      | .stmt t =>
        let r := runItems rec o1 rest (eff t s)
        ⟨.exec t :: r.trace, r.state, r.opts, r.outcome⟩
      | .inc es =>
        let r := runEntries cfg rec o1 es s
        match r.outcome with
        | .ok =>
          let r2 := runItems rec r.opts rest r.state
          ⟨r.trace ++ r2.trace, r2.state, r2.opts, r2.outcome⟩
        | _ => r

/-- `_execute_script_helper(statements, options, None)` with include nesting bounded by `gas` -/
def runScript : Nat → Options → Script → σ → Res σ
  | 0, o, _, s => ⟨[], s, o, .outOfGas⟩
  | g + 1, o, sc, s => runItems cfg eff (runScript g) o sc s

/-- `execute_script(script, options)`: `statementCount` starts at 0 -/
def run (gas : Nat) (urlFn : UrlFn) (root : Script) (s0 : σ) : Res σ :=
  runScript cfg eff gas ⟨urlFn, 0⟩ root s0

end

/-- the driver's instance: the state is the log of executed tags -/
def runLog (cfg : Config) (gas : Nat) (urlFn : UrlFn) (root : Script) : Res (List String) :=
  run cfg (fun t l => l ++ [t]) gas urlFn root []

def fetchesOf (tr : List Event) : List String := tr.filterMap fun | .fetch u => some u | _ => none
def tagsOf (tr : List Event) : List String := tr.filterMap fun | .exec t => some t | _ => none

/-! ## spec -/

/-- the items of a script that are reached: everything before its first `return` -/
def live : Script → Script
  | [] => []
  | .ret :: _ => []
  | it :: rest => it :: live rest

/-- the file a running script was loaded from, as far as resolution is concerned -/
def selfOf : UrlFn → Option String
  | .none => none
  | .relativeTo f => some f

/-- where an include entry written in file `self` points: system includes against the configured system prefix,
everything else against the including file (verbatim if the top-level script has no location). -/
def specLocation (cfg : Config) (self : Option String) (e : Entry) : String :=
  match e.system, cfg.systemPrefix with
  | true, some p => resolveSpec p e.url
  | _, _ => match self with
    | none => e.url
    | some f => resolveSpec f e.url

def entryEvents (cfg : Config) (fs : String → File) (sub : Option String → Script → List Event) (self : Option String) :
    List Entry → List Event
  | [] => []
  | e :: es =>
    let u := specLocation cfg self e
    (.fetch u :: match fs u with
      | .text sc => sub (some u) sc
      | _ => []) ++ entryEvents cfg fs sub self es

def itemEvents (cfg : Config) (fs : String → File) (sub : Option String → Script → List Event) (self : Option String) :
    Script → List Event
  | [] => []
  | .inc es :: rest => entryEvents cfg fs sub self es ++ itemEvents cfg fs sub self rest
  | .stmt t :: rest => .exec t :: itemEvents cfg fs sub self rest
  | _ :: rest => itemEvents cfg fs sub self rest

/-- everything an error-free run of `script` (located at `self`) does, depth-first, in program order.
`fuel` bounds the depth of the tree that is unfolded from the file map. -/
def expectedEvents (cfg : Config) (fs : String → File) : Nat → Option String → Script → List Event
  | 0, _, _ => []
  | f + 1, self, sc => itemEvents cfg fs (expectedEvents cfg fs f) self (live sc)

def expectedFetches (cfg : Config) (fs : String → File) (fuel : Nat) (self : Option String) (sc : Script) : List String :=
  fetchesOf (expectedEvents cfg fs fuel self sc)

/-- a fetch request that cannot be turned into a script -/
def failing (fs : String → File) : Event → Bool
  | .fetch u => match fs u with
    | .text _ => false
    | _ => true
  | .exec _ => false

/-- a list up to and including its first element satisfying `p` -/
def cutAt {α : Type} (p : α → Bool) : List α → List α
  | [] => []
  | a :: l => if p a then [a] else a :: cutAt p l

/-- the outcome the property prescribes for an event sequence: the first location that cannot be loaded decides -/
def specOutcome (fs : String → File) (evs : List Event) : Outcome :=
  match evs.find? (failing fs) with
  | some (.fetch u) => match fs u with
    | .broken => .parseError u
    | _ => .includeFailed u
  | _ => .ok

end Include
