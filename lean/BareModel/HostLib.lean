import BareModel.HostImpl
import BareModel.Lib

/-!
# HostLib — the verified library model (`Lib`) as the library of the machine

`hostLib : Machine.Host LWorld` is a concrete host whose world holds the **`Lib.Heap`** (plus the log and the table of
partial applications of `HostImpl`) and whose `lib name args w` is, whenever `Lib` models the call, the one-node interaction
tree `LibTree.ret` of the outcome of running `Lib`'s effect description on that heap:

    Lib.lib name (args.map toLib) w.heap = (.ok v,  h')   ↦   .ret (.ok   (ofLib v)) { w with heap := h' }
    Lib.lib name (args.map toLib) w.heap = (.fail v, h')  ↦   .ret (.fail (ofLib v)) { w with heap := h' }

so that the theorems of `BareProofs/C15.lean` (about `Lib.lib` / `Lib.step`) speak about library calls issued by scripts
through `Machine.callValue` / `execM` (`BareProofs/HostLibBridge.lean`).

**Values.** `Machine.Value` and `Lib.Value` differ only in the payload of `fn`: `Machine.FnVal` (script id | library name |
other callable) versus a natural number.  `encFn`/`decFn` is a *bijection* `FnVal ≃ Nat` (residue mod 3 selects the
constructor; a library name is the bijective base-`nScalars` numeral of its Unicode scalar values), hence
`toLib`/`ofLib` is an isomorphism `Machine.Value ≃ Lib.Value` (`HostLib.ofLib_toLib`, `HostLib.toLib_ofLib`) and no
well-formedness side condition on heaps is needed anywhere.

**What is not `Lib`.**  When `Lib` answers `unmodelled` (a name outside its table, the match-function form of `arrayIndexOf`,
`arrayJoin` over non-integral numbers, a dangling reference, …):

* for the eight names of `hostKeeps` — `systemLog`, `systemGlobalGet`, `systemGlobalSet`, `systemPartial`, `arrayIndexOf`,
  `systemCompare`, `systemType`, `systemBoolean`, the functions that need call-backs, the globals, the log or the full
  `value_string`/`value_compare` — the tree is **HostImpl's tree**, transported along the projection `LWorld.toImpl`
  (`lift`): every world the HostImpl tree sees is the projection of the current `LWorld`, and every world it hands out is
  read back for its log and partials while the `Lib` heap is kept (none of the eight functions changes the heap);
* for every other name the call is `LibOut.fail .null` (what the call wrapper does with any exception), world unchanged.

`truthy`, `binop`, `neg` are HostImpl's, evaluated on the projection; `other` (partial applications) is HostImpl's tree
lifted; `newArray` allocates in the `Lib` heap; `notCallable`, `logFailure`, `builtin` as in HostImpl.
No Mathlib, no `partial`; definitions only (theorems: `BareProofs/HostLibBridge.lean`).
-/

namespace HostLib
open Machine

/-! ## `FnVal ≃ Nat` -/

/-- the number of Unicode scalar values (code points without the surrogate block) -/
def nScalars : Nat := 0x110000 - 0x800

/-- index of a character among the scalar values -/
def charIdx (c : Char) : Nat := if c.toNat < 0xD800 then c.toNat else c.toNat - 0x800

def idxChar (d : Nat) : Char := Char.ofNat (if d < 0xD800 then d else d + 0x800)

/-- bijective base-`nScalars` numeral (digits `1..nScalars`, least significant first): a bijection `List Char ≃ Nat` -/
def encChars : List Char → Nat
  | [] => 0
  | c :: cs => charIdx c + 1 + nScalars * encChars cs

/-- inverse of `encChars` (`fuel ≥ n` suffices: the argument at least halves … in fact drops by a factor `nScalars`) -/
def decChars : Nat → Nat → List Char
  | 0, _ => []
  | fuel+1, n => if n = 0 then [] else idxChar ((n - 1) % nScalars) :: decChars fuel ((n - 1) / nScalars)

def encStr (s : String) : Nat := encChars s.toList
def decStr (n : Nat) : String := String.ofList (decChars n n)

def encFn : FnVal → Nat
  | .script id => 3 * id
  | .other k => 3 * k + 1
  | .lib name => 3 * encStr name + 2

def decFn (n : Nat) : FnVal :=
  if n % 3 = 0 then .script (n / 3) else if n % 3 = 1 then .other (n / 3) else .lib (decStr (n / 3))

/-! ## `Machine.Value ≃ Lib.Value`, cells -/

def toLib : Value → Lib.Value
  | .null => .null
  | .bool b => .bool b
  | .num q => .num q
  | .str s => .str s
  | .dt ms => .dt ms
  | .arr r => .arr r
  | .obj r => .obj r
  | .fn f => .fn (encFn f)
  | .regex r => .regex r

def ofLib : Lib.Value → Value
  | .null => .null
  | .bool b => .bool b
  | .num q => .num q
  | .str s => .str s
  | .dt ms => .dt ms
  | .arr r => .arr r
  | .obj r => .obj r
  | .fn n => .fn (decFn n)
  | .regex r => .regex r

def cellOfLib : Lib.Cell → HostImpl.Cell
  | .arr xs => .arr (xs.map ofLib)
  | .obj kvs => .obj (kvs.map fun kv => (kv.1, ofLib kv.2))

def cellToLib : HostImpl.Cell → Lib.Cell
  | .arr xs => .arr (xs.map toLib)
  | .obj kvs => .obj (kvs.map fun kv => (kv.1, toLib kv.2))

/-! ## the world -/

structure LWorld where
  heap : Lib.Heap := []
  log : List String := []
  partials : List (Value × List Value) := []
deriving Repr, Inhabited

/-- the HostImpl view of the world: same cells (values converted), same log, same partials -/
def LWorld.toImpl (w : LWorld) : HostImpl.World :=
  { heap := w.heap.map cellOfLib, log := w.log, partials := w.partials }

/-- a HostImpl world as an `LWorld` (used by the drivers to load initial globals) -/
def LWorld.ofImpl (w : HostImpl.World) : LWorld :=
  { heap := w.heap.map cellToLib, log := w.log, partials := w.partials }

/-- write back what a HostImpl tree may have changed (log, partials) next to the `Lib` heap `h` -/
def putBack (h : Lib.Heap) (w : HostImpl.World) : LWorld := { heap := h, log := w.log, partials := w.partials }

/-- transport a HostImpl interaction tree to `LWorld`: requests are passed on unchanged; the world a call-back / the
machine hands back is projected for the HostImpl continuation and its heap is the `Lib` heap from then on -/
def lift : LibTree HostImpl.World → Lib.Heap → LibTree LWorld
  | .ret o w, h => .ret o (putBack h w)
  | .call f args w k, h => .call f args (putBack h w) fun v w' => lift (k v w'.toImpl) w'.heap
  | .globalGet n w k, h => .globalGet n (putBack h w) fun v w' => lift (k v w'.toImpl) w'.heap
  | .globalSet n v w k, h => .globalSet n v (putBack h w) fun w' => lift (k w'.toImpl) w'.heap

/-! ## the library -/

/-- the functions that keep their HostImpl trees when `Lib` does not model the call -/
def hostKeeps : List String :=
  ["systemLog", "systemGlobalGet", "systemGlobalSet", "systemPartial", "arrayIndexOf", "systemCompare", "systemType",
   "systemBoolean"]

/-- what the machine does with a call `Lib` does not model -/
def fallback (name : String) (args : List Value) (w : LWorld) : LibTree LWorld :=
  if hostKeeps.contains name then lift (HostImpl.lib name args w.toImpl) w.heap else .ret (.fail .null) w

/-- `SCRIPT_FUNCTIONS[name](args, options)` -/
def lib (name : String) (args : List Value) (w : LWorld) : LibTree LWorld :=
  match Lib.lib name (args.map toLib) w.heap with
  | (.ok v, h) => .ret (.ok (ofLib v)) { w with heap := h }
  | (.fail v, h) => .ret (.fail (ofLib v)) { w with heap := h }
  | (.unmodelled, _) => fallback name args w

def other (k : Nat) (args : List Value) (w : LWorld) : LibTree LWorld := lift (HostImpl.other k args w.toImpl) w.heap

def truthy (v : Value) (w : LWorld) : Bool := HostImpl.truthy v w.toImpl

def binop (op : BinOp) (a b : Value) (w : LWorld) : Value := HostImpl.binop op a b w.toImpl

def newArray (xs : List Value) (w : LWorld) : Value × LWorld :=
  (.arr w.heap.length, { w with heap := w.heap ++ [.arr (xs.map toLib)] })

def hostLib : Host LWorld where
  truthy := truthy
  binop := binop
  neg := HostImpl.neg
  lib := lib
  other := other
  notCallable := fun _ w => w
  logFailure := fun w => w
  newArray := newArray
  builtin := fun _ => none

/-- the names a driver binds in the globals: every function `Lib` has a body for, and HostImpl's -/
def libNames : List String :=
  let modelled := Lib.bodies.map (·.1) ++ Lib.rawBodies.map (·.1)
  modelled ++ HostImpl.libNames.filter (fun n => !modelled.contains n)

end HostLib
