import BareModel.Machine

/-!
# A concrete host for the correspondence drivers

World = heap of arrays/objects + log + table of partial applications.  The operators follow runtime.py (after the F4/F13
fixes); numbers are exact rationals (the generators of the `exec` streams keep arithmetic exactly representable).
The library is the small subset the control-flow streams use; each function follows library.py including its
argument validation and failure value.  This file is part of the *model* (definitions only, no theorems about it
beyond the `HostLaws` instance in BareProofs).
-/

namespace HostImpl
open Machine

inductive Cell where
  | arr (xs : List Value)
  | obj (kvs : List (String × Value))
deriving Repr, Inhabited

structure World where
  heap : List Cell := []
  log : List String := []
  partials : List (Value × List Value) := []
deriving Repr, Inhabited

def World.arr? (w : World) (r : Nat) : Option (List Value) :=
  match w.heap[r]? with | some (.arr xs) => some xs | _ => none

def World.obj? (w : World) (r : Nat) : Option (List (String × Value)) :=
  match w.heap[r]? with | some (.obj kvs) => some kvs | _ => none

def World.alloc (w : World) (c : Cell) : Nat × World := (w.heap.length, { w with heap := w.heap ++ [c] })

def World.setCell (w : World) (r : Nat) (c : Cell) : World := { w with heap := w.heap.set r c }

def typeName : Value → String
  | .null => "null" | .bool _ => "boolean" | .num _ => "number" | .str _ => "string" | .dt _ => "datetime"
  | .arr _ => "array" | .obj _ => "object" | .fn _ => "function" | .regex _ => "regex"

/-! ## number text (integers and terminating decimals; anything else is outside the driver's streams) -/

def digitsAfterPoint (num den : Nat) : Nat → String
  | 0 => ""
  | fuel+1 =>
    if num == 0 then "" else
      let d := num * 10 / den
      toString d ++ digitsAfterPoint (num * 10 % den) den fuel

def ratText (q : Rat) : String :=
  if q.den == 1 then toString q.num
  else
    let neg := q.num < 0
    let n := q.num.natAbs
    (if neg then "-" else "") ++ toString (n / q.den) ++ "." ++ digitsAfterPoint (n % q.den) q.den 40

/-! ## JSON / string forms (value.py value_string / value_json), heap traversal bounded by `fuel` -/

def hex4 (n : Nat) : String :=
  let h (d : Nat) : Char := if d < 10 then Char.ofNat (48 + d) else Char.ofNat (87 + d)
  String.ofList [h (n / 4096 % 16), h (n / 256 % 16), h (n / 16 % 16), h (n % 16)]

def jsonEscChar (c : Char) : String :=
  if c == '"' then "\\\"" else if c == '\\' then "\\\\" else if c == '\n' then "\\n" else if c == '\r' then "\\r"
  else if c == '\t' then "\\t" else if c.toNat == 8 then "\\b" else if c.toNat == 12 then "\\f"
  else if 0x20 ≤ c.toNat && c.toNat < 0x7f then String.singleton c
  else if c.toNat < 0x10000 then "\\u" ++ hex4 c.toNat
  else let m := c.toNat - 0x10000; "\\u" ++ hex4 (0xd800 + m / 1024) ++ "\\u" ++ hex4 (0xdc00 + m % 1024)

def jsonStr (s : String) : String := "\"" ++ String.join (s.toList.map jsonEscChar) ++ "\""

def insertSorted (kv : String × Value) : List (String × Value) → List (String × Value)
  | [] => [kv]
  | x :: xs => if kv.1 < x.1 then kv :: x :: xs else x :: insertSorted kv xs

def sortKeys (kvs : List (String × Value)) : List (String × Value) := kvs.foldl (fun acc kv => insertSorted kv acc) []

/-- `value_json`: `none` = "Circular reference detected" (a container re-entered while it is being encoded, json's
`markers` check) — the ValueError that the call wrapper / the operator block turn into null -/
def valueJson? (w : World) : Nat → List Nat → Value → Option String
  | 0, _, _ => none
  | fuel+1, path, v =>
    match v with
    | .null => some "null"
    | .bool b => some (if b then "true" else "false")
    | .num q => some (ratText q)
    | .str s => some (jsonStr s)
    | .dt ms => some (jsonStr ("<dt " ++ toString ms ++ ">"))
    | .fn _ => some "\"<function>\""
    | .regex _ => some "null"
    | .arr r =>
        if path.contains r then none else
        (((w.arr? r).getD []).mapM (valueJson? w fuel (r :: path))).map fun xs => "[" ++ String.intercalate "," xs ++ "]"
    | .obj r =>
        if path.contains r then none else
        ((sortKeys ((w.obj? r).getD [])).mapM fun kv => (valueJson? w fuel (r :: path) kv.2).map fun s => jsonStr kv.1 ++ ":" ++ s).map
          fun xs => "{" ++ String.intercalate "," xs ++ "}"

/-- `value_string`; `none` when stringification raises (self-containing container) -/
def valueString? (w : World) (v : Value) : Option String :=
  match v with
  | .null => some "null"
  | .bool b => some (if b then "true" else "false")
  | .num q => some (ratText q)
  | .str s => some s
  | .dt ms => some ("<dt " ++ toString ms ++ ">")
  | .fn _ => some "<function>"
  | .regex _ => some "<regex>"
  | v => valueJson? w (w.heap.length + 2) [] v

def valueString (w : World) (v : Value) : String := (valueString? w v).getD "null"

/-! ## truthiness and comparison -/

def truthy (v : Value) (w : World) : Bool :=
  match v with
  | .null => false
  | .str s => s != ""
  | .bool b => b
  | .num q => q != 0
  | .arr r => ((w.arr? r).getD []).length != 0
  | _ => true

def cmpOrd {α} [LT α] [DecidableEq α] [DecidableRel (α := α) (· < ·)] (a b : α) : Int :=
  if a < b then -1 else if a = b then 0 else 1

def boolNat (b : Bool) : Nat := if b then 1 else 0

mutual
/-- `value_compare`; `none` = the recursion never ends (a pair of self-containing containers): RecursionError in Python -/
def valueCompare (w : World) : Nat → Value → Value → Option Int
  | 0, _, _ => none
  | fuel+1, a, b =>
    match a, b with
    | .null, .null => some 0
    | .null, _ => some (-1)
    | _, .null => some 1
    | .str x, .str y => some (cmpOrd x y)
    | .bool x, .bool y => some (cmpOrd (boolNat x) (boolNat y))
    | .num x, .num y => some (if x < y then -1 else if x = y then 0 else 1)
    | .dt x, .dt y => some (cmpOrd x y)
    | .arr x, .arr y => compareLists w fuel ((w.arr? x).getD []) ((w.arr? y).getD [])
    | .obj x, .obj y => compareItems w fuel (sortKeys ((w.obj? x).getD [])) (sortKeys ((w.obj? y).getD []))
    | a, b => some (cmpOrd (typeName a) (typeName b))
def compareLists (w : World) : Nat → List Value → List Value → Option Int
  | _, [], [] => some 0
  | _, [], _ :: _ => some (-1)
  | _, _ :: _, [] => some 1
  | fuel, x :: xs, y :: ys =>
    match valueCompare w fuel x y with
    | none => none
    | some c => if c != 0 then some c else compareLists w fuel xs ys
def compareItems (w : World) : Nat → List (String × Value) → List (String × Value) → Option Int
  | _, [], [] => some 0
  | _, [], _ :: _ => some (-1)
  | _, _ :: _, [] => some 1
  | fuel, x :: xs, y :: ys =>
    let k := cmpOrd x.1 y.1
    if k != 0 then some k else
      match valueCompare w fuel x.2 y.2 with
      | none => none
      | some c => if c != 0 then some c else compareItems w fuel xs ys
end

/-- a path of more than (cells+1)² container pairs repeats a pair, hence never ends -/
def compare? (w : World) (a b : Value) : Option Int := valueCompare w ((w.heap.length + 1) * (w.heap.length + 1) + 2) a b

def compare (w : World) (a b : Value) : Int := (compare? w a b).getD 0

/-! ## operators (runtime.py:270-343) -/

def ratFloor (q : Rat) : Int := q.floor

/-- Python `%` on numbers: sign follows the divisor -/
def pyMod (a b : Rat) : Rat := a - b * (ratFloor (a / b) : Rat)

def ratPowNat (a : Rat) : Nat → Rat
  | 0 => 1
  | n+1 => a * ratPowNat a n

def binop (op : BinOp) (a b : Value) (w : World) : Value :=
  match op with
  | .add =>
      match a, b with
      | .num x, .num y => .num (x + y)
      | .str x, .str y => .str (x ++ y)
      | .str x, y => match valueString? w y with | some s => .str (x ++ s) | none => .null
      | x, .str y => match valueString? w x with | some s => .str (s ++ y) | none => .null
      | .dt x, .num y => if y.den == 1 then .dt (x + y.num) else .null      -- fractional ms: outside the driver
      | .num x, .dt y => if x.den == 1 then .dt (y + x.num) else .null
      | _, _ => .null
  | .sub =>
      match a, b with
      | .num x, .num y => .num (x - y)
      | .dt x, .dt y => .num (x - y : Int)
      | _, _ => .null
  | .mul => match a, b with | .num x, .num y => .num (x * y) | _, _ => .null
  | .div => match a, b with | .num x, .num y => if y = 0 then .null else .num (x / y) | _, _ => .null
  | .mod => match a, b with | .num x, .num y => if y = 0 then .null else .num (pyMod x y) | _, _ => .null
  | .pow =>
      match a, b with
      | .num x, .num y =>
          if y.den != 1 then .null                                            -- fractional exponent: outside the driver
          else if y.num ≥ 0 then .num (ratPowNat x y.num.toNat)
          else if x = 0 then .null else .num (1 / ratPowNat x y.num.natAbs)
      | _, _ => .null
  | .eq => match compare? w a b with | some c => .bool (c == 0) | none => .null
  | .ne => match compare? w a b with | some c => .bool (c != 0) | none => .null
  | .le => match compare? w a b with | some c => .bool (c ≤ 0) | none => .null
  | .lt => match compare? w a b with | some c => .bool (c < 0) | none => .null
  | .ge => match compare? w a b with | some c => .bool (c ≥ 0) | none => .null
  | .gt => match compare? w a b with | some c => .bool (c > 0) | none => .null
  | .and | .or => .null

def neg : Value → Value
  | .num x => .num (-x)
  | _ => .null

/-! ## library subset (library.py), each as an interaction tree -/

def ok (v : Value) (w : World) : LibTree World := .ret (.ok v) w
def fail (v : Value) (w : World) : LibTree World := .ret (.fail v) w

/-- an integral index argument `{'type': 'number', 'integer': True, 'gte': 0}` -/
def asIndex : Value → Option Nat
  | .num q => if q.den == 1 && q.num ≥ 0 then some q.num.toNat else none
  | _ => none

def objSet (kvs : List (String × Value)) (k : String) (v : Value) : List (String × Value) :=
  match kvs with
  | [] => [(k, v)]
  | (k', x) :: rest => if k' == k then (k', v) :: rest else (k', x) :: objSet rest k v

def objNew : List Value → List (String × Value) → Option (List (String × Value))
  | [], acc => some acc
  | [.str k], acc => some (objSet acc k .null)
  | .str k :: v :: rest, acc => objNew rest (objSet acc k v)
  | _, _ => none

/-- sequential search with a predicate call-back (arrayIndexOf with a function value) -/
def indexOfFn (f : Value) : List Value → Nat → World → LibTree World
  | [], _, w => ok (.num (-1)) w
  | x :: xs, i, w => .call f [x] w fun r w1 => if truthy r w1 then ok (.num (i : Int)) w1 else indexOfFn f xs (i+1) w1

def indexOfVal (w : World) (v : Value) : List Value → Nat → Option Int
  | [], _ => some (-1)
  | x :: xs, i => match compare? w x v with
    | none => none
    | some c => if c == 0 then some (i : Int) else indexOfVal w v xs (i+1)

def lib (name : String) (args : List Value) (w : World) : LibTree World :=
  match name, args with
  | "systemLog", [m] => match valueString? w m with
      | some s => ok .null { w with log := w.log ++ [s] }
      | none => fail .null w
  | "systemLog", [] => ok .null { w with log := w.log ++ ["null"] }
  | "systemLog", _ => fail .null w
  | "arrayNew", xs => let (r, w1) := w.alloc (.arr xs); ok (.arr r) w1
  | "arrayLength", [.arr r] => ok (.num ((w.arr? r).getD []).length) w
  | "arrayLength", _ => fail (.num 0) w
  | "arrayGet", [.arr r, i] =>
      match asIndex i with
      | some n => match ((w.arr? r).getD [])[n]? with | some v => ok v w | none => fail .null w
      | none => fail .null w
  | "arrayGet", _ => fail .null w
  | "arrayPush", .arr r :: vs => ok (.arr r) (w.setCell r (.arr (((w.arr? r).getD []) ++ vs)))
  | "arrayPush", _ => fail .null w
  | "arraySet", [.arr r, i, v] =>
      match asIndex i with
      | some n => let xs := (w.arr? r).getD []
                  if n < xs.length then ok v (w.setCell r (.arr (xs.set n v))) else fail .null w
      | none => fail .null w
  | "arraySet", [.arr r, i] =>
      match asIndex i with
      | some n => let xs := (w.arr? r).getD []
                  if n < xs.length then ok .null (w.setCell r (.arr (xs.set n .null))) else fail .null w
      | none => fail .null w
  | "arraySet", _ => fail .null w
  | "arrayPop", [.arr r] =>
      let xs := (w.arr? r).getD []
      match xs.getLast? with
      | some v => ok v (w.setCell r (.arr xs.dropLast))
      | none => fail .null w
  | "arrayPop", _ => fail .null w
  | "arrayCopy", [.arr r] => let (r', w1) := w.alloc (.arr ((w.arr? r).getD [])); ok (.arr r') w1
  | "arrayCopy", _ => fail .null w
  | "arrayIndexOf", [.arr r, v] =>
      let xs := (w.arr? r).getD []
      if xs.length == 0 then fail (.num (-1)) w                       -- index 0 >= len(array)
      else match v with
        | .fn _ => indexOfFn v xs 0 w
        | _ => match indexOfVal w v xs 0 with | some r => ok (.num r) w | none => fail .null w
  | "arrayIndexOf", [.arr r] =>
      let xs := (w.arr? r).getD []
      if xs.length == 0 then fail (.num (-1)) w
      else match indexOfVal w .null xs 0 with | some r => ok (.num r) w | none => fail .null w
  | "arrayIndexOf", _ => fail (.num (-1)) w
  | "objectNew", kvs =>
      match objNew kvs [] with
      | some o => let (r, w1) := w.alloc (.obj o); ok (.obj r) w1
      | none => fail .null w
  | "objectGet", [.obj r, .str k] => ok ((((w.obj? r).getD []).find? (·.1 == k)).map (·.2) |>.getD .null) w
  | "objectGet", [.obj r, .str k, d] => ok ((((w.obj? r).getD []).find? (·.1 == k)).map (·.2) |>.getD d) w
  | "objectGet", [_, _, d] => fail d w
  | "objectGet", _ => fail .null w
  | "objectSet", [.obj r, .str k, v] => ok v (w.setCell r (.obj (objSet ((w.obj? r).getD []) k v)))
  | "objectSet", _ => fail .null w
  | "systemGlobalGet", [.str n] => .globalGet (Name.ofString n) w fun v w1 => ok (v.getD .null) w1
  | "systemGlobalGet", [.str n, d] => .globalGet (Name.ofString n) w fun v w1 => ok (v.getD d) w1
  | "systemGlobalGet", _ => fail .null w
  | "systemGlobalSet", [.str n, v] => .globalSet (Name.ofString n) v w fun w1 => ok v w1
  | "systemGlobalSet", [.str n] => .globalSet (Name.ofString n) .null w fun w1 => ok .null w1
  | "systemGlobalSet", _ => fail .null w
  | "systemPartial", f :: a :: as =>
      match f with
      | .fn _ => ok (.fn (.other w.partials.length)) { w with partials := w.partials ++ [(f, a :: as)] }
      | _ => fail .null w
  | "systemPartial", _ => fail .null w
  | "systemCompare", [a, b] => match compare? w a b with | some c => ok (.num c) w | none => fail .null w
  | "systemCompare", [a] => match compare? w a .null with | some c => ok (.num c) w | none => fail .null w
  | "systemCompare", [] => ok (.num 0) w
  | "systemCompare", _ => fail .null w
  | "systemType", [v] => ok (.str (typeName v)) w
  | "systemType", [] => ok (.str "null") w                              -- missing untyped argument = null
  | "systemType", _ => fail .null w
  | "systemBoolean", [v] => ok (.bool (truthy v w)) w
  | "systemBoolean", [] => ok (.bool false) w
  | "systemBoolean", _ => fail .null w
  | _, _ => fail .null w

def libNames : List String :=
  ["systemLog", "arrayNew", "arrayLength", "arrayGet", "arrayPush", "arraySet", "arrayPop", "arrayCopy", "arrayIndexOf",
   "objectNew", "objectGet", "objectSet", "systemGlobalGet", "systemGlobalSet", "systemPartial", "systemCompare",
   "systemType", "systemBoolean"]

def other (k : Nat) (args : List Value) (w : World) : LibTree World :=
  match w.partials[k]? with
  | some (f, pre) => .call f (pre ++ args) w fun r w1 => ok r w1
  | none => fail .null w

def host : Host World where
  truthy := truthy
  binop := binop
  neg := neg
  lib := lib
  other := other
  notCallable := fun _ w => w
  logFailure := fun w => w
  newArray := fun xs w => let (r, w1) := w.alloc (.arr xs); (.arr r, w1)
  builtin := fun _ => none

end HostImpl
