import BareModel.Syntax

/-!
# HostPy — the operators and the call wrapper ONE LEVEL DOWN: Python exceptions are values

`Machine.Host.binop` is a *total* function; that totality is what property C05 ("only documented exceptions escape")
has to justify.  This module models the host level of `evaluate_expression` (runtime.py:255-355 and 238-250):

* `PyVal` — the Python values a BareScript value can be (`None`, `bool`, `int`, `float`, `str`, `date`/`datetime`,
  `list`, `dict`, callables, compiled regexes).  Unlike `Machine.Value` it distinguishes `int` from `float`, has
  arbitrary-precision ints, and non-finite floats.
* `PyFloat := fin q | inf neg | nan` — finite doubles are abstracted to the rational they denote (−0.0 is identified
  with 0.0: no exception depends on the sign of zero).  Rounding is the parameter `Libm.rnd : Rat → PyFloat` (it may
  overflow to `inf`); the libm `pow` on a positive finite base is the parameter `Libm.powPos`.  Where CPython *raises*
  instead of returning `inf` (`int → float` conversion, `int / int`, `float ** float`) the primitive returns
  `.error .overflow`.
* `HostExc` — the classes of host exception; the primitives `pyAdd … pyPow`, `pyStrInt`, `valueString`, `valueCompare`
  are PARTIAL (`Except HostExc _`).
* `binopPy` — the body of the `try:` block of runtime.py:273-347, branch by branch;
  `binopSafe` — that body under `except (ArithmeticError, ValueError, RecursionError): return None` (runtime.py:351,
  the handler after the fixes F4 and F25) and the `complex` test.
* `wrapCall` — the call wrapper runtime.py:238-250.

Nothing here is proved; the theorems are in `BareProofs/C05.lean`.  Everything is computable (driver `drv_c05`,
op `binopPy`, instantiates `Libm` with correctly rounded binary64 arithmetic).
-/

namespace HostPy

/-! ## values -/

inductive PyFloat where
  | fin (q : Rat)
  | inf (neg : Bool)
  | nan
deriving Repr, DecidableEq, Inhabited

/-- classes of host exception (`recursion` = RecursionError, `other` = any other `Exception` subclass) -/
inductive HostExc where
  | zeroDivision | overflow | typeError | valueError | keyError | indexError | recursion | other
deriving Repr, DecidableEq, Inhabited

/-- `isinstance(e, ArithmeticError)`: ZeroDivisionError, OverflowError (FloatingPointError is never raised by CPython) -/
def HostExc.isArithmetic : HostExc → Bool
  | .zeroDivision => true
  | .overflow => true
  | _ => false

def HostExc.pyName : HostExc → String
  | .zeroDivision => "ZeroDivisionError" | .overflow => "OverflowError" | .typeError => "TypeError"
  | .valueError => "ValueError" | .keyError => "KeyError" | .indexError => "IndexError"
  | .recursion => "RecursionError" | .other => "Exception"

/-- `datetime.date` (not a datetime), naive `datetime.datetime`, aware `datetime.datetime` -/
inductive DtKind where
  | date | naive | aware
deriving Repr, DecidableEq, Inhabited

/-- `dt k t`: `t` = microseconds since 0001-01-01T00:00 (local wall clock for `date`/`naive`, UTC instant for `aware`) -/
inductive PyVal where
  | none
  | bool (b : Bool)
  | int (n : Int)
  | float (x : PyFloat)
  | str (s : String)
  | dt (k : DtKind) (t : Int)
  | list (r : Nat)
  | dict (r : Nat)
  | callable (k : Nat)
  | regex (k : Nat)
deriving Repr, DecidableEq, Inhabited

inductive Cell where
  | list (xs : List PyVal)
  | dict (kvs : List (String × PyVal))
deriving Repr, Inhabited

/-- the heap of containers; a dangling reference reads as an empty container -/
abbrev Heap := List Cell

def Heap.listOf (h : Heap) (r : Nat) : List PyVal :=
  match h[r]? with | some (.list xs) => xs | _ => []

def Heap.dictOf (h : Heap) (r : Nat) : List (String × PyVal) :=
  match h[r]? with | some (.dict kvs) => kvs | _ => []

/-- outcome of `datetime.astimezone().isoformat()` on a normalised (naive, local) datetime: CPython raises
`ValueError("year 10000 is out of range")` within a day of `datetime.max`/`min` (OverflowError in some zones) -/
inductive IsoOut where
  | text (s : String)
  | valueError
  | overflow
deriving Repr, DecidableEq, Inhabited

/-- What is abstracted from CPython / libm / the OS zone database (DESIGN §6: modelled, not verified). -/
structure Libm where
  /-- round a real (here: rational) result to binary64; may overflow to `inf` -/
  rnd : Rat → PyFloat
  /-- libm `pow(x, y)` for finite `x > 0`, `x ≠ 1`, finite `y ≠ 0` (may overflow to `inf`, underflow to 0) -/
  powPos : Rat → Rat → PyFloat
  /-- microseconds of `datetime.timedelta(milliseconds=x)` for a finite float `x` (round-half-even of `1000·x`) -/
  usOfMillis : Rat → Int
  /-- `aware.astimezone().replace(tzinfo=None)`: local wall clock of a UTC instant, `none` = OverflowError (out of range) -/
  normAware : Int → Option Int
  /-- `naive.astimezone().isoformat()` with the millisecond clean-up of value.py:72-78 -/
  isoLocal : Int → IsoOut
  /-- `R_NUMBER_CLEANUP.sub('', str(x))` — `float.__repr__` never raises -/
  floatText : PyFloat → String
  /-- the interpreter's recursion limit seen by `value_compare` and by the JSON encoder -/
  recLimit : Nat

/-- the last representable instant: 9999-12-31T23:59:59.999999 -/
def maxUs : Int := 3652059 * 86400000000 - 1

def typeName : PyVal → String
  | .none => "null" | .str _ => "string" | .bool _ => "boolean" | .int _ => "number" | .float _ => "number"
  | .dt _ _ => "datetime" | .dict _ => "object" | .list _ => "array" | .callable _ => "function" | .regex _ => "regex"

/-- runtime.py:375 `_is_number`: `isinstance(value, (int, float)) and not isinstance(value, bool)` -/
def isNumber : PyVal → Bool
  | .int _ => true
  | .float _ => true
  | _ => false

def isStr : PyVal → Bool
  | .str _ => true
  | _ => false

def isDate : PyVal → Bool
  | .dt _ _ => true
  | _ => false

/-! ## float arithmetic (IEEE-754 special values exactly, finite results through `rnd`) -/

def ratAbs (q : Rat) : Rat := if q < 0 then -q else q

def PyFloat.neg : PyFloat → PyFloat
  | .fin q => .fin (-q)
  | .inf n => .inf (!n)
  | .nan => .nan

def fAdd (F : Libm) : PyFloat → PyFloat → PyFloat
  | .nan, _ => .nan
  | _, .nan => .nan
  | .inf a, .inf b => if a = b then .inf a else .nan
  | .inf a, .fin _ => .inf a
  | .fin _, .inf b => .inf b
  | .fin x, .fin y => F.rnd (x + y)

def fSub (F : Libm) (x y : PyFloat) : PyFloat := fAdd F x y.neg

def fMul (F : Libm) : PyFloat → PyFloat → PyFloat
  | .nan, _ => .nan
  | _, .nan => .nan
  | .inf a, .inf b => .inf (a != b)
  | .inf a, .fin y => if y = 0 then .nan else .inf (a != decide (y < 0))
  | .fin x, .inf b => if x = 0 then .nan else .inf (b != decide (x < 0))
  | .fin x, .fin y => F.rnd (x * y)

/-- `x == 0.0` -/
def PyFloat.isZero : PyFloat → Bool
  | .fin q => decide (q = 0)
  | _ => false

/-- `float_div`: a zero divisor raises before any IEEE rule applies -/
def fDiv (F : Libm) (x y : PyFloat) : Except HostExc PyFloat :=
  if y.isZero then .error .zeroDivision else
  match x, y with
  | .nan, _ => .ok .nan
  | _, .nan => .ok .nan
  | .inf _, .inf _ => .ok .nan
  | .inf a, .fin y => .ok (.inf (a != decide (y < 0)))
  | .fin _, .inf _ => .ok (.fin 0)
  | .fin x, .fin y => .ok (F.rnd (x / y))

/-- floor modulo on rationals: `x - y·⌊x/y⌋` (sign of the divisor) -/
def ratFloorMod (x y : Rat) : Rat := x - y * ((x / y).floor : Rat)

/-- `float_rem` (floatobject.c): `fmod` then the sign adjustment `mod += wx` -/
def fMod (F : Libm) (x y : PyFloat) : Except HostExc PyFloat :=
  if y.isZero then .error .zeroDivision else
  match x, y with
  | .nan, _ => .ok .nan
  | _, .nan => .ok .nan
  | .inf _, _ => .ok .nan
  | .fin x, .inf neg => .ok (if x = 0 then .fin 0 else if decide (x < 0) = neg then .fin x else .inf neg)
  | .fin x, .fin y => .ok (F.rnd (ratFloorMod x y))

/-- result of `**`: CPython returns a `complex` for a negative base with a non-integral exponent -/
inductive PowOut where
  | val (v : PyVal)
  | complex
deriving Repr, DecidableEq, Inhabited

def isIntegral (q : Rat) : Bool := q.den == 1

def isOddInt (q : Rat) : Bool := q.den == 1 && q.num % 2 != 0

/-- `pow(iv, iw)` for `iv > 0` finite: ERANGE overflow → OverflowError, underflow is silent -/
def powPosE (F : Libm) (a y : Rat) : Except HostExc PyFloat :=
  if a = 1 then .ok (.fin 1)
  else match F.powPos a y with
    | .fin q => .ok (.fin q)
    | .inf _ => .error .overflow
    | .nan => .ok .nan

/-- `float_pow` (floatobject.c), case by case in the order of the C code; `none` = complex result -/
def fPow (F : Libm) (x y : PyFloat) : Except HostExc (Option PyFloat) :=
  if y.isZero then .ok (some (.fin 1)) else                            -- iw == 0: 1.0, even for nan
  match x, y with
  | .nan, _ => .ok (some .nan)
  | x, .nan => .ok (some (if x = .fin 1 then .fin 1 else .nan))
  | .inf _, .inf yneg => .ok (some (if yneg then .fin 0 else .inf false))
  | .fin x, .inf yneg =>
      let a := ratAbs x
      .ok (some (if a = 1 then .fin 1 else if (!yneg) = decide (a > 1) then .inf false else .fin 0))
  | .inf xneg, .fin y =>
      if y > 0 then .ok (some (if isOddInt y then .inf xneg else .inf false)) else .ok (some (.fin 0))
  | .fin x, .fin y =>
      if x = 0 then (if y < 0 then .error .zeroDivision else .ok (some (.fin 0)))
      else if x < 0 then
        if !isIntegral y then                                           -- negative ** non-integer: complex pow,
          match F.powPos (-x) y with                                    -- whose modulus |x|**y may overflow:
          | .inf _ => .error .overflow                                  -- OverflowError("complex exponentiation")
          | _ => .ok none
        else match powPosE F (-x) y with
          | .ok r => .ok (some (if isOddInt y then r.neg else r))
          | .error e => .error e
      else match powPosE F x y with
        | .ok r => .ok (some r)
        | .error e => .error e

/-! ## the partial primitives on `PyVal` (the Python operators `+ - * / % ** -x` on numbers)

A non-number operand is a `TypeError` in Python; `binopPy` only calls these behind `_is_number` guards. -/

/-- `PyLong_AsDouble`: correctly rounded, OverflowError("int too large to convert to float") -/
def toFloat (F : Libm) (n : Int) : Except HostExc PyFloat :=
  match F.rnd (n : Rat) with
  | .fin q => .ok (.fin q)
  | _ => .error .overflow

/-- both operands as floats (the `CONVERT_TO_DOUBLE` of floatobject.c); bools never reach this -/
def asFloat (F : Libm) : PyVal → Except HostExc PyFloat
  | .int n => toFloat F n
  | .float x => .ok x
  | _ => .error .typeError

def pyAdd (F : Libm) : PyVal → PyVal → Except HostExc PyVal
  | .int a, .int b => .ok (.int (a + b))
  | a, b =>
    match asFloat F a with
    | .error e => .error e
    | .ok x => match asFloat F b with
      | .error e => .error e
      | .ok y => .ok (.float (fAdd F x y))

def pySub (F : Libm) : PyVal → PyVal → Except HostExc PyVal
  | .int a, .int b => .ok (.int (a - b))
  | a, b =>
    match asFloat F a with
    | .error e => .error e
    | .ok x => match asFloat F b with
      | .error e => .error e
      | .ok y => .ok (.float (fSub F x y))

def pyMul (F : Libm) : PyVal → PyVal → Except HostExc PyVal
  | .int a, .int b => .ok (.int (a * b))
  | a, b =>
    match asFloat F a with
    | .error e => .error e
    | .ok x => match asFloat F b with
      | .error e => .error e
      | .ok y => .ok (.float (fMul F x y))

/-- `long_true_divide` is the correctly rounded exact quotient; OverflowError("integer division result too large for a
float") when it rounds beyond the double range -/
def pyDiv (F : Libm) : PyVal → PyVal → Except HostExc PyVal
  | .int a, .int b =>
      if b = 0 then .error .zeroDivision
      else match F.rnd ((a : Rat) / (b : Rat)) with
        | .fin q => .ok (.float (.fin q))
        | _ => .error .overflow
  | a, b =>
    match asFloat F a with
    | .error e => .error e
    | .ok x => match asFloat F b with
      | .error e => .error e
      | .ok y => match fDiv F x y with
        | .error e => .error e
        | .ok z => .ok (.float z)

def pyMod (F : Libm) : PyVal → PyVal → Except HostExc PyVal
  | .int a, .int b => if b = 0 then .error .zeroDivision else .ok (.int (a.fmod b))
  | a, b =>
    match asFloat F a with
    | .error e => .error e
    | .ok x => match asFloat F b with
      | .error e => .error e
      | .ok y => match fMod F x y with
        | .error e => .error e
        | .ok z => .ok (.float z)

def floatPowOut (F : Libm) (x y : PyFloat) : Except HostExc PowOut :=
  match fPow F x y with
  | .error e => .error e
  | .ok (some z) => .ok (.val (.float z))
  | .ok none => .ok .complex

/-- `long_pow`: exact for a non-negative exponent; a negative exponent goes through `float_pow` -/
def pyPow (F : Libm) : PyVal → PyVal → Except HostExc PowOut
  | .int a, .int b =>
      if b ≥ 0 then .ok (.val (.int (a ^ b.toNat)))
      else match toFloat F a with
        | .error e => .error e
        | .ok x => match toFloat F b with
          | .error e => .error e
          | .ok y => floatPowOut F x y
  | a, b =>
    match asFloat F a with
    | .error e => .error e
    | .ok x => match asFloat F b with
      | .error e => .error e
      | .ok y => floatPowOut F x y

/-- the builtin `float(x)` applied to a number (runtime.py:312/346, fix F24) -/
def pyFloatOf (F : Libm) (v : PyVal) : Except HostExc PyVal :=
  match asFloat F v with
  | .ok x => .ok (.float x)
  | .error e => .error e

/-- `float(left) * right` -/
def pyMulF (F : Libm) (a b : PyVal) : Except HostExc PyVal :=
  match pyFloatOf F a with
  | .ok fa => pyMul F fa b
  | .error e => .error e

/-- `float(left) ** right` -/
def pyPowF (F : Libm) (a b : PyVal) : Except HostExc PowOut :=
  match pyFloatOf F a with
  | .ok fa => pyPow F fa b
  | .error e => .error e

def pyNeg : PyVal → Except HostExc PyVal
  | .int n => .ok (.int (-n))
  | .float x => .ok (.float x.neg)
  | _ => .error .typeError

/-- `str(int)`: ValueError above `sys.int_info.default_max_str_digits` = 4300 digits (finding F17) -/
def pyStrInt (n : Int) : Except HostExc String :=
  if n.natAbs ≥ 10 ^ 4300 then .error .valueError else .ok (toString n)

/-! ## comparisons of numbers (never raise: CPython compares `int` with `float` exactly) -/

def floatCmpLt : PyFloat → PyFloat → Bool
  | .nan, _ => false
  | _, .nan => false
  | .inf a, .inf b => a && !b
  | .inf a, .fin _ => a
  | .fin _, .inf b => !b
  | .fin x, .fin y => decide (x < y)

def floatCmpEq : PyFloat → PyFloat → Bool
  | .nan, _ => false
  | _, .nan => false
  | .inf a, .inf b => a == b
  | .fin x, .fin y => decide (x = y)
  | _, _ => false

/-- a number as an exact extended rational -/
def numExact : PyVal → PyFloat
  | .int n => .fin (n : Rat)
  | .float x => x
  | _ => .nan

/-- `-1 if left < right else (0 if left == right else 1)` -/
def cmp3 (lt eq : Bool) : Int := if lt then -1 else if eq then 0 else 1

def cmpStr (a b : String) : Int := cmp3 (decide (a < b)) (decide (a = b))

/-! ## datetimes -/

/-- value.py:524 `value_normalize_datetime` -/
def normalizeDt (F : Libm) (k : DtKind) (t : Int) : Except HostExc Int :=
  match k with
  | .aware => match F.normAware t with | some u => .ok u | none => .error .overflow
  | _ => .ok t

/-- `datetime.timedelta(milliseconds=v)` in microseconds: `nan` → ValueError("cannot convert float NaN to integer"),
`inf` → OverflowError; magnitudes beyond ±999999999 days raise OverflowError here, which the range test of the sum
subsumes (the whole datetime range is 3652059 days) -/
def timedeltaUs (F : Libm) : PyVal → Except HostExc Int
  | .int n => .ok (n * 1000)
  | .float (.fin q) => .ok (F.usOfMillis q)
  | .float (.inf _) => .error .overflow
  | .float .nan => .error .valueError
  | _ => .error .typeError

/-- `dt + timedelta`: OverflowError("date value out of range") -/
def dtPlus (F : Libm) (k : DtKind) (t : Int) (ms : PyVal) : Except HostExc PyVal :=
  match normalizeDt F k t with
  | .error e => .error e
  | .ok u => match timedeltaUs F ms with
    | .error e => .error e
    | .ok d => if 0 ≤ u + d ∧ u + d ≤ maxUs then .ok (.dt .naive (u + d)) else .error .overflow

/-- round half away from zero of `us / 1000` (value_round_number(x, 0) of a finite float: never raises) -/
def msRound (us : Int) : Int :=
  if us ≥ 0 then (us + 500) / 1000 else -((-us + 500) / 1000)

/-- runtime.py:303-306 -/
def dtMinus (F : Libm) (k1 : DtKind) (t1 : Int) (k2 : DtKind) (t2 : Int) : Except HostExc PyVal :=
  match normalizeDt F k1 t1 with
  | .error e => .error e
  | .ok u1 => match normalizeDt F k2 t2 with
    | .error e => .error e
    | .ok u2 => .ok (.float (F.rnd (msRound (u1 - u2) : Int)))

/-- the datetime branch of value_string (value.py:71-78) -/
def dtString (F : Libm) (k : DtKind) (t : Int) : Except HostExc String :=
  match normalizeDt F k t with
  | .error e => .error e
  | .ok u => match F.isoLocal u with
    | .text s => .ok s
    | .valueError => .error .valueError
    | .overflow => .error .overflow

/-! ## value_string / value_json (value.py:52-135) -/

def mapE {α β : Type} (f : α → Except HostExc β) : List α → Except HostExc (List β)
  | [] => .ok []
  | x :: xs =>
    match f x with
    | .error e => .error e
    | .ok y => match mapE f xs with
      | .error e => .error e
      | .ok ys => .ok (y :: ys)

def insertSorted (kv : String × PyVal) : List (String × PyVal) → List (String × PyVal)
  | [] => [kv]
  | x :: xs => if kv.1 < x.1 then kv :: x :: xs else x :: insertSorted kv xs

/-- `sorted(d.items())` / `sort_keys=True` (keys are strings, hence distinct and comparable) -/
def sortItems (kvs : List (String × PyVal)) : List (String × PyVal) := kvs.foldl (fun acc kv => insertSorted kv acc) []

def quote (s : String) : String := "\"" ++ s ++ "\""

/-- The JSON encoder behind `value_json` (`_JSONEncoder(allow_nan=False, sort_keys=True)`), as far as failure goes:
* `path` = the `markers` of the C encoder (ids of the containers being encoded): meeting one again is
  `ValueError("Circular reference detected")` (finding F18);
* `fuel` = the recursion limit: `RecursionError` when the nesting is deeper;
* a non-finite float is `ValueError("Out of range float values are not JSON compliant")` (`allow_nan=False`);
* an int goes through `int.__repr__` (digit limit, finding F17);
* dates and callables go through `default()` → `value_string`, anything else encodes as `null`. -/
def jsonVal (F : Libm) (h : Heap) : Nat → List Nat → PyVal → Except HostExc String
  | 0, _, _ => .error .recursion
  | fuel+1, path, v =>
    match v with
    | .none => .ok "null"
    | .bool b => .ok (if b then "true" else "false")
    | .int n => pyStrInt n
    | .float (.fin q) => .ok (F.floatText (.fin q))
    | .float _ => .error .valueError
    | .str s => .ok (quote s)
    | .dt k t => match dtString F k t with | .ok s => .ok (quote s) | .error e => .error e
    | .callable _ => .ok (quote "<function>")
    | .regex _ => .ok "null"
    | .list r =>
        if r ∈ path then .error .valueError
        else match mapE (jsonVal F h fuel (r :: path)) (h.listOf r) with
          | .error e => .error e
          | .ok parts => .ok ("[" ++ String.intercalate "," parts ++ "]")
    | .dict r =>
        if r ∈ path then .error .valueError
        else match mapE (fun kv => match jsonVal F h fuel (r :: path) kv.2 with
                                   | .ok s => .ok (quote kv.1 ++ ":" ++ s)
                                   | .error e => .error e) (sortItems (h.dictOf r)) with
          | .error e => .error e
          | .ok parts => .ok ("{" ++ String.intercalate "," parts ++ "}")

def valueJson (F : Libm) (h : Heap) (v : PyVal) : Except HostExc String := jsonVal F h F.recLimit [] v

/-- value.py:52 `value_string` -/
def valueString (F : Libm) (h : Heap) : PyVal → Except HostExc String
  | .none => .ok "null"
  | .str s => .ok s
  | .bool b => .ok (if b then "true" else "false")
  | .int n => pyStrInt n
  | .float x => .ok (F.floatText x)
  | .dt k t => dtString F k t
  | .dict r => valueJson F h (.dict r)
  | .list r => valueJson F h (.list r)
  | .callable _ => .ok "<function>"
  | .regex _ => .ok "<regex>"

/-! ## value_compare (value.py:183-229) -/

/-- the `for ix in range(min(len(left), len(right)))` loop of the list branch, then the length comparison -/
def cmpLists (f : PyVal → PyVal → Except HostExc Int) : List PyVal → List PyVal → Except HostExc Int
  | [], [] => .ok 0
  | [], _ :: _ => .ok (-1)
  | _ :: _, [] => .ok 1
  | x :: xs, y :: ys =>
    match f x y with
    | .error e => .error e
    | .ok c => if c != 0 then .ok c else cmpLists f xs ys

/-- the dict branch over the two sorted item lists: keys (strings) first, then values -/
def cmpItems (f : PyVal → PyVal → Except HostExc Int) : List (String × PyVal) → List (String × PyVal) → Except HostExc Int
  | [], [] => .ok 0
  | [], _ :: _ => .ok (-1)
  | _ :: _, [] => .ok 1
  | x :: xs, y :: ys =>
    let k := cmpStr x.1 y.1
    if k != 0 then .ok k
    else match f x.2 y.2 with
      | .error e => .error e
      | .ok c => if c != 0 then .ok c else cmpItems f xs ys

/-- `value_compare`; `fuel` = recursion limit (there is no cycle detection: a self-containing container recurses until
RecursionError, finding F18) -/
def cmpVal (F : Libm) (h : Heap) : Nat → PyVal → PyVal → Except HostExc Int
  | 0, _, _ => .error .recursion
  | fuel+1, a, b =>
    match a, b with
    | .none, .none => .ok 0
    | .none, _ => .ok (-1)
    | _, .none => .ok 1
    | .str x, .str y => .ok (cmpStr x y)
    | .bool x, .bool y => .ok (cmp3 (!x && y) (x == y))
    | .dt k1 t1, .dt k2 t2 =>
        match normalizeDt F k1 t1 with
        | .error e => .error e
        | .ok u1 => match normalizeDt F k2 t2 with
          | .error e => .error e
          | .ok u2 => .ok (cmp3 (decide (u1 < u2)) (decide (u1 = u2)))
    | .list x, .list y => cmpLists (cmpVal F h fuel) (h.listOf x) (h.listOf y)
    | .dict x, .dict y => cmpItems (cmpVal F h fuel) (sortItems (h.dictOf x)) (sortItems (h.dictOf y))
    | a, b =>
        if isNumber a && isNumber b then .ok (cmp3 (floatCmpLt (numExact a) (numExact b)) (floatCmpEq (numExact a) (numExact b)))
        else .ok (cmpStr (typeName a) (typeName b))

def valueCompare (F : Libm) (h : Heap) (a b : PyVal) : Except HostExc Int := cmpVal F h F.recLimit a b

/-! ## the binary-operator block, runtime.py:273-355, and its handler -/

def okVal (r : Except HostExc PyVal) : Except HostExc PowOut :=
  match r with
  | .ok v => .ok (.val v)
  | .error e => .error e

def cmpOp (F : Libm) (h : Heap) (a b : PyVal) (test : Int → Bool) : Except HostExc PowOut :=
  match valueCompare F h a b with
  | .ok c => .ok (.val (.bool (test c)))
  | .error e => .error e

/-- `str + value_string(x)` -/
def concatL (F : Libm) (h : Heap) (s : String) (v : PyVal) : Except HostExc PowOut :=
  match valueString F h v with
  | .ok t => .ok (.val (.str (s ++ t)))
  | .error e => .error e

def concatR (F : Libm) (h : Heap) (v : PyVal) (s : String) : Except HostExc PowOut :=
  match valueString F h v with
  | .ok t => .ok (.val (.str (t ++ s)))
  | .error e => .error e

/-- The body of the `try:` (runtime.py:274-347) — every `if/elif` in source order; falling out of the chain is the
`return None` of line 355.  `.ok .complex` is the complex result of `**` BEFORE the `isinstance(result, complex)` test. -/
def binopPy (F : Libm) (h : Heap) (op : BinOp) (a b : PyVal) : Except HostExc PowOut :=
  match op with
  | .add =>
      if isNumber a && isNumber b then okVal (pyAdd F a b)                      -- number + number
      else match a, b with
        | .str x, .str y => .ok (.val (.str (x ++ y)))                            -- string + string
        | .str x, y => concatL F h x y                                            -- string + <any>
        | x, .str y => concatR F h x y
        | .dt k t, y => if isNumber y then okVal (dtPlus F k t y) else .ok (.val .none)   -- datetime + number
        | x, .dt k t => if isNumber x then okVal (dtPlus F k t x) else .ok (.val .none)
        | _, _ => .ok (.val .none)
  | .sub =>
      if isNumber a && isNumber b then okVal (pySub F a b)
      else match a, b with
        | .dt k1 t1, .dt k2 t2 => okVal (dtMinus F k1 t1 k2 t2)                   -- datetime - datetime
        | _, _ => .ok (.val .none)
  | .mul => if isNumber a && isNumber b then okVal (pyMulF F a b) else .ok (.val .none)     -- float(left) * right
  | .div => if isNumber a && isNumber b then okVal (pyDiv F a b) else .ok (.val .none)
  | .eq => cmpOp F h a b (· == 0)
  | .ne => cmpOp F h a b (· != 0)
  | .le => cmpOp F h a b (· ≤ 0)
  | .lt => cmpOp F h a b (· < 0)
  | .ge => cmpOp F h a b (· ≥ 0)
  | .gt => cmpOp F h a b (· > 0)
  | .mod => if isNumber a && isNumber b then okVal (pyMod F a b) else .ok (.val .none)
  | .pow => if isNumber a && isNumber b then pyPowF F a b else .ok (.val .none)            -- float(left) ** right
  | .and => .ok (.val .none)        -- `&&` and `||` never reach the block (runtime.py:260-269)
  | .or => .ok (.val .none)

/-- The exception classes the handler of the operator block catches, runtime.py:351
`except (ArithmeticError, ValueError, RecursionError)` (fixes F4 + F25).  ONE definition: it is the line that changes
when the handler changes in /repo. -/
def caught (e : HostExc) : Bool := e.isArithmetic || e == .valueError || e == .recursion

/-- the handler before fix F25 (`except ArithmeticError`), kept to state what the fix closed -/
def caughtF4 (e : HostExc) : Bool := e.isArithmetic

/-- the block under a handler catching the classes `c`: `result if not isinstance(result, complex) else None`
(line 347) and `except …: return None`.  What is still `.error` here ESCAPES `evaluate_expression`. -/
def binopWith (c : HostExc → Bool) (F : Libm) (h : Heap) (op : BinOp) (a b : PyVal) : Except HostExc PyVal :=
  match binopPy F h op a b with
  | .ok (.val v) => .ok v
  | .ok .complex => .ok .none
  | .error e => if c e then .ok .none else .error e

/-- runtime.py:273-355 as a whole -/
def binopSafe (F : Libm) (h : Heap) (op : BinOp) (a b : PyVal) : Except HostExc PyVal := binopWith caught F h op a b

/-- unary minus, runtime.py:358-367: guarded by `_is_number`, no handler needed -/
def negSafe (v : PyVal) : PyVal :=
  if isNumber v then (match pyNeg v with | .ok r => r | .error _ => .none) else .none

/-- value.py:140 `value_boolean` (total: `len`, `!=` on built-in types never raise) -/
def truthy (h : Heap) : PyVal → Bool
  | .none => false
  | .str s => s != ""
  | .bool b => b
  | .int n => n != 0
  | .float x => x != .fin 0
  | .dt _ _ => true
  | .list r => (h.listOf r).length != 0
  | _ => true

/-! ## the call wrapper, runtime.py:238-250 -/

/-- how the callee `func_value(func_args, options)` ends -/
inductive CalleeOut where
  | ret (v : PyVal)                                   -- normal return
  | rtError (msg : String)                            -- raise BareScriptRuntimeError
  | parserError (msg : String)                        -- raise BareScriptParserError (an include inside a function, F21)
  | argsError (msg : String) (returnValue : PyVal)    -- raise ValueArgsError(..., return_value)
  | host (e : HostExc) (msg : String)                 -- any other `Exception` (incl. TypeError of a non-callable value)
deriving Repr, DecidableEq, Inhabited

/-- what `evaluate_expression` does with it: a value, or one of the two documented exceptions.
THERE IS NO CONSTRUCTOR FOR A HOST EXCEPTION. -/
inductive EvalOut where
  | value (v : PyVal)
  | raiseRuntime (msg : String)
  | raiseParser (msg : String)
deriving Repr, DecidableEq, Inhabited

structure WrapCfg where
  debug : Bool            -- options.get('debug')
  hasLogFn : Bool         -- options is not None and 'logFn' in options

def failureLine (name msg : String) : String :=
  "BareScript: Function \"" ++ name ++ "\" failed with error: " ++ msg

def logFailure (cfg : WrapCfg) (name msg : String) (log : List String) : List String :=
  if cfg.hasLogFn && cfg.debug then log ++ [failureLine name msg] else log

/-- runtime.py:240-250; `log` = everything passed to `logFn` so far (the callee's own lines included) -/
def wrapCall (cfg : WrapCfg) (name : String) (out : CalleeOut) (log : List String) : EvalOut × List String :=
  match out with
  | .ret v => (.value v, log)
  | .rtError m => (.raiseRuntime m, log)                              -- except (BareScriptRuntimeError, BareScriptParserError): raise
  | .parserError m => (.raiseParser m, log)
  | .argsError m rv => (.value rv, logFailure cfg name m log)         -- isinstance(error, ValueArgsError): return error.return_value
  | .host _ m => (.value .none, logFailure cfg name m log)            -- return None

/-! ## a concrete `Libm`: correctly rounded binary64, zone UTC (the driver `drv_c05` and the examples run this one) -/

def pow2 (k : Int) : Rat :=
  if k ≥ 0 then ((2 ^ k.toNat : Nat) : Rat) else 1 / ((2 ^ (-k).toNat : Nat) : Rat)

def roundHalfEven (x : Rat) : Int :=
  let f := x.floor
  let d := x - (f : Rat)
  if d < 1/2 then f else if d > 1/2 then f + 1 else if f % 2 = 0 then f else f + 1

/-- `⌊log₂ a⌋` for `a > 0` -/
def ilog2 (a : Rat) : Int :=
  let e0 : Int := (Nat.log2 a.num.natAbs : Int) - (Nat.log2 a.den : Int)
  if a < pow2 e0 then e0 - 1 else if a ≥ pow2 (e0 + 1) then e0 + 1 else e0

/-- round-to-nearest-even to binary64 (53-bit significand, subnormals, overflow to ±inf at 2^1024) -/
def roundBinary64 (q : Rat) : PyFloat :=
  if q = 0 then .fin 0 else
  let a := ratAbs q
  let e := ilog2 a
  let e' := if e < -1022 then -1022 else e
  let quantum := pow2 (e' - 52)
  let n := roundHalfEven (a / quantum)
  let r := (n : Rat) * quantum
  if r ≥ pow2 1024 then .inf (decide (q < 0)) else .fin (if q < 0 then -r else r)

def ratPowNat (a : Rat) : Nat → Rat
  | 0 => 1
  | n+1 => a * ratPowNat a n

def ratPowInt (a : Rat) (k : Int) : Rat := if k ≥ 0 then ratPowNat a k.toNat else 1 / ratPowNat a (-k).toNat

/-- what the driver knows about `pow(a, y)`, `a > 0`:
`exact` (integral exponent of moderate size: the exact power, then rounded), `sureFin` / `sureInf` (kind decided by
bracketing `a` between powers of two), `unknown` (the harness does not compare) -/
inductive PowKind where
  | exact | sureFin | sureInf | unknown
deriving Repr, DecidableEq, Inhabited

def powKind (a y : Rat) : PowKind :=
  if y.den == 1 && y.num.natAbs ≤ 2200 && a.num.natAbs < 2 ^ 64 && a.den < 2 ^ 64 then .exact
  else
    -- write the power with a base > 1
    let b := if a < 1 then 1 / a else a
    let z := if a < 1 then -y else y
    if b = 1 then .sureFin
    else if z < 0 then .sureFin
    else
      let e := ilog2 b                      -- 2^e ≤ b < 2^(e+1)
      if (e : Rat) * z ≥ 1025 then .sureInf
      else if ((e : Rat) + 1) * z < 1023 then .sureFin
      else .unknown

def ieeePowPos (a y : Rat) : PyFloat :=
  match powKind a y with
  | .exact => roundBinary64 (ratPowInt a y.num)
  | .sureInf => .inf false
  | _ => .fin 1                             -- placeholder value: only the KIND is meaningful (flagged by the driver)

def floatTextSimple : PyFloat → String
  | .fin q => if q.den == 1 then toString q.num else toString q.num ++ "/" ++ toString q.den
  | .inf neg => if neg then "-inf" else "inf"
  | .nan => "nan"

def dayUs : Int := 86400000000

/-- zone UTC: an aware datetime normalises to itself inside the range; `naive.astimezone()` raises ValueError within a
day of either end of the range (observed on CPython 3.12, TZ=UTC) -/
def ieee : Libm where
  rnd := roundBinary64
  powPos := ieeePowPos
  usOfMillis := fun q => roundHalfEven (q * 1000)
  normAware := fun t => if 0 ≤ t ∧ t ≤ maxUs then some t else none
  isoLocal := fun u => if dayUs ≤ u ∧ u ≤ maxUs - dayUs then .text ("<dt " ++ toString u ++ ">") else .valueError
  floatText := floatTextSimple
  recLimit := 1000

end HostPy
