import BareModel.Lib
import BareModel.LibSpec
import BareModel.Json
import BareModel.Compare

/-!
# LibMore — additive extension of the library model `Lib` (C15): fewer `unmodelled` answers

`Lib.lean` is left untouched (HostLib, the machine bridge and the C15 theorems build on it).  `effMore T f args h` first tries the
newly modelled cases and otherwise falls back to `Lib.eff`:

* `arrayJoin` over **every** element type — `Lib` answers only for null / booleans / strings / integral numbers / functions / regexes.
  New: non-integral numbers and datetimes (their text comes from the *text oracle* `T`, see below), nested arrays and objects
  (`value_string` = `value_json`: the `Json` model of C14 applied to the value read back from the heap, keys sorted, `ensure_ascii`
  escapes, number clean-up), a cyclic container (`json` raises `ValueError: Circular reference detected`, the call wrapper turns
  it into `null`: `Eff.fail .null`);
* `stringNew` (absent from `Lib`): `value_string` of one optional argument of any type;
* `arraySort` (absent from `Lib`) without a compare function: the stable sort by `value_compare`, in place, returns the array itself.

**Text oracle.**  `value_string` of a float goes through CPython's shortest round-trip `repr`, of a datetime through the local time
zone; neither is modelled here (C13 / C16 treat them, with assumptions).  They enter as a parameter
`T : TextFns` (`T.num q` = text of the number `q` when it is not a plain integer below 10^16, `T.dt ms` = text of a datetime), `none` =
"not known" (the call is then `unmodelled`).  Everything *around* those leaf texts — joining, JSON structure, key order, escaping,
clean-up, failure on cycles — is modelled.  The driver instantiates `T` by a table sent with the request.

Still unmodelled after this file (see `StillUnmodelled`, explicit and decidable): names outside the 42 functions; a container
argument that is not allocated / of the wrong kind (ill-formed heap, unreachable from a script); the match-function form of
`arrayIndexOf`/`arrayLastIndexOf` and `arraySort` with a compare function (call-backs); a comparison that cannot be evaluated with
fuel `|heap|+1` (cyclic heap); `stringLower`/`stringUpper` on non-ASCII text; `stringFromCharCode` of a surrogate; a leaf text the
oracle does not know.

Inherited from `Lib.valueString` (conservativity): where `Lib` itself answers an `arrayJoin` (all elements null / boolean / string /
integral number / function / regex) an integral number prints as its digits, which is what Python prints for an `int` and for a
`float` below 1e16; a *float* ≥ 1e16 prints as `1e+16` in Python.  In every newly modelled call such a number goes through the oracle.
No Mathlib.
-/

namespace LibMore
open Lib

/-! ## the text oracle -/

structure TextFns where
  /-- `value_string` of a number that is not a plain integer `|n| < 10^16` (float `repr` after `R_NUMBER_CLEANUP`, or the digits of a
  big `int`) -/
  num : Rat → Option String
  /-- `value_string` of a datetime given as epoch milliseconds (ISO text in the local zone) -/
  dt : Int → Option String

/-- knows nothing -/
def TextFns.none : TextFns := ⟨fun _ => .none, fun _ => .none⟩

/-- three-valued result of a text computation -/
inductive TRes (α : Type) where
  | ok (a : α)
  /-- the container reaches itself: `json` raises `ValueError` (circular reference) -/
  | cyc
  /-- outside the model: dangling reference, or the oracle does not know a leaf text -/
  | unk
deriving Repr, Inhabited

def TRes.map {α β} (f : α → β) : TRes α → TRes β
  | .ok a => .ok (f a)
  | .cyc => .cyc
  | .unk => .unk

def optT {α} : Option α → TRes α
  | some a => .ok a
  | .none => .unk

/-- left to right, the first problem decides -/
def mapT {α β} (f : α → TRes β) : List α → TRes (List β)
  | [] => .ok []
  | x :: xs =>
    match f x with
    | .ok y =>
      (match mapT f xs with
      | .ok ys => .ok (y :: ys)
      | .cyc => .cyc
      | .unk => .unk)
    | .cyc => .cyc
    | .unk => .unk

def mapKV {β} (f : Value → TRes β) : List (String × Value) → TRes (List (Json.Str × β))
  | [] => .ok []
  | (k, v) :: kvs =>
    match f v with
    | .ok y =>
      (match mapKV f kvs with
      | .ok ys => .ok ((k.toList, y) :: ys)
      | .cyc => .cyc
      | .unk => .unk)
    | .cyc => .cyc
    | .unk => .unk

/-- an integral number that `int.__repr__` and `float.__repr__` (+ clean-up) print alike: its digits -/
def plainInt (q : Rat) : Bool := q.den == 1 && decide (q.num.natAbs < 10000000000000000)

def numText (T : TextFns) (q : Rat) : Option String :=
  if plainInt q then some (toString q.num) else T.num q

/-- read a value back from the heap as a JSON tree, the way `json.JSONEncoder` walks it: datetimes and functions go through
`default` (their `value_string`, as a JSON string), a regex through `default` → `None` → `null`; `fuel` = nesting depth still
allowed (`|heap|+1` is enough for every acyclic heap; running out means a container was reached from itself) -/
def toJ (T : TextFns) : Nat → Heap → Value → TRes Json.JValue
  | 0, _, _ => .cyc
  | fuel + 1, h, v =>
    match v with
    | .null => .ok .null
    | .bool b => .ok (.bool b)
    | .num q =>
      if plainInt q then .ok (.num (.int q.num))
      else (optT (T.num q)).map fun s => .num (.dec s.toList)
    | .str s => .ok (.str s.toList)
    | .dt ms => (optT (T.dt ms)).map fun s => .str s.toList
    | .fn _ => .ok (.str "<function>".toList)
    | .regex _ => .ok .null
    | .arr r =>
      (match getArr h r with
      | some xs => (mapT (toJ T fuel h) xs).map .arr
      | .none => .unk)
    | .obj r =>
      (match getObj h r with
      | some kvs => (mapKV (toJ T fuel h) kvs).map .obj
      | .none => .unk)

/-- `value_json(value)` -/
def jsonText (T : TextFns) (h : Heap) (v : Value) : TRes String :=
  (toJ T (h.length + 1) h v).map fun j => String.ofList (Json.mirrorEncode j 0)

/-- `value_string(value)` -/
def textOf (T : TextFns) (h : Heap) : Value → TRes String
  | .null => .ok "null"
  | .str s => .ok s
  | .bool b => .ok (if b then "true" else "false")
  | .num q => optT (numText T q)
  | .dt ms => optT (T.dt ms)
  | .fn _ => .ok "<function>"
  | .regex _ => .ok "<regex>"
  | .arr r => jsonText T h (.arr r)
  | .obj r => jsonText T h (.obj r)

/-! ## the new bodies (after validation) -/

def textEff : TRes String → Eff
  | .ok s => .ret (.str s)
  | .cyc => .fail .null          -- ValueError inside the function: the call wrapper returns null
  | .unk => .unmodelled

/-- `separator.join(value_string(value) for value in array)`.  What `Lib` already answers (`joinStrs`: every element is null, a
boolean, a string, an integral number, a function or a regex) is kept as it is (conservativity); every other array is new -/
def arrayJoinM (T : TextFns) : List VArg → Heap → Eff
  | [.one (.arr r), .one (.str sep)], h =>
    (match getArr h r with
    | some xs =>
      (match joinStrs sep xs with
      | some s => .ret (.str s)
      | .none => textEff ((mapT (textOf T h) xs).map (String.intercalate sep)))
    | .none => .unmodelled)
  | _, _ => .unmodelled

def stringNewM (T : TextFns) : List VArg → Heap → Eff
  | [.one v], h => textEff (textOf T h v)
  | _, _ => .unmodelled

/-- every pair of elements can be compared (false only on a cyclic or ill-formed heap) -/
def comparable (h : Heap) (xs : List Value) : Bool :=
  xs.all fun x => xs.all fun y => (valueCompare h x y).isSome

/-- `value_compare` made total (`0` where it cannot be evaluated; never used there, see `comparable`) -/
def cmpD (h : Heap) (a b : Value) : Int := (valueCompare h a b).getD 0

/-- `list.sort(key=functools.cmp_to_key(value_compare))`: the stable sort that only asks `cmp(a, b) < 0`
(the insertion sort of `BareModel/Compare.lean`; `C11.sortBy_spec`: every stable sort returns this list) -/
def sortV (h : Heap) (xs : List Value) : List Value :=
  Compare.sortBy (fun a b => decide (cmpD h a b < 0)) xs

def arraySortM : List VArg → Heap → Eff
  | [.one (.arr r), .one .null], h =>
    (match getArr h r with
    | some xs => if comparable h xs then .store r (.arr (sortV h xs)) (.arr r) else .unmodelled
    | .none => .unmodelled)
  | _, _ => .unmodelled      -- a compare function (call-back)

/-- the functions modelled here instead of in `Lib` -/
def moreBodies (T : TextFns) : List (String × (List VArg → Heap → Eff)) :=
  [("arrayJoin", arrayJoinM T), ("arraySort", arraySortM), ("stringNew", stringNewM T)]

/-- one library call: the new cases first (validated against the generated argument model, exactly as `Lib.eff` does),
otherwise `Lib.eff` -/
def effMore (T : TextFns) (f : String) (args : List Value) (h : Heap) : Eff :=
  match (moreBodies T).lookup f with
  | .none => eff f args h
  | some b =>
    match Gen.libFns.lookup f with
    | .none => .unmodelled
    | some (modelName, failTxt) =>
      match Gen.argModels.lookup modelName, failValue failTxt args with
      | some ms, some fv =>
        (match validate h ms args with
        | .none => .fail fv
        | some va => b va h)
      | _, _ => .unmodelled

/-- one library call through the call wrapper -/
def libMore (T : TextFns) (f : String) (args : List Value) (h : Heap) : Res × Heap := (effMore T f args h).run h

/-! ## specification layer -/

/-- documented signatures of the three functions -/
def docSigMore : List (String × List Gen.ArgModel) := [
  ("arrayJoin", [Spec.arrP "array", Spec.strP "separator"]),
  ("arraySort", [Spec.arrP "array", { Spec.P "compareFn" (some "function") with nullable := true }]),
  ("stringNew", [Spec.anyP "value"])]

/-- one call by the documented contract: documented signature and failure value (`null` for the three functions); the reference
operations of the three functions are the bodies above (join of the element texts, JSON text, stable sort) — their contracts are
stated by `C15More.arraySort_contract`, `C15More.json_text_spec` -/
def specMore (T : TextFns) (f : String) (args : List Value) (h : Heap) : Eff :=
  match (moreBodies T).lookup f with
  | .none => Spec.specEff f args h
  | some b =>
    match docSigMore.lookup f with
    | .none => .unmodelled
    | some ms =>
      (match validate h ms args with
      | .none => .fail (Spec.docFail f args)
      | some va => b va h)

def specLibMore (T : TextFns) (f : String) (args : List Value) (h : Heap) : Res × Heap := (specMore T f args h).run h

/-! ## what is still unmodelled: an explicit decidable predicate -/

/-- the reference is not an allocated array / object -/
def dangA (h : Heap) (r : Nat) : Bool := (getArr h r).isNone
def dangO (h : Heap) (r : Nat) : Bool := (getObj h r).isNone

def uA : List VArg → Heap → Bool
  | .one (.arr r) :: _, h => dangA h r
  | _, _ => false

def uO : List VArg → Heap → Bool
  | .one (.obj r) :: _, h => dangO h r
  | _, _ => false

def uAA : List VArg → Heap → Bool
  | [.one (.arr r), .one (.arr r2)], h => dangA h r || dangA h r2
  | _, _ => false

def uOO : List VArg → Heap → Bool
  | [.one (.obj r), .one (.obj r2)], h => dangO h r || dangO h r2
  | _, _ => false

def uNever : List VArg → Heap → Bool := fun _ _ => false

/-- forward search: the container is dangling, or the start index is in range and the value is a function (call-back form) or
some comparison on the way to the first hit cannot be evaluated -/
def uIndexOf : List VArg → Heap → Bool
  | [.one (.arr r), .one v, .one (.num q)], h =>
    (match getArr h r with
    | .none => true
    | some xs => decide (Spec.nat q < xs.length) && (isFn v || (Spec.indexOfN h v (xs.drop (Spec.nat q)) (Spec.nat q)).isNone))
  | _, _ => false

def uLastIndexOf : List VArg → Heap → Bool
  | [.one (.arr r), .one v, .one ix], h =>
    (match getArr h r with
    | .none => true
    | some xs =>
      match Spec.lastStart xs.length ix with
      | .none => false
      | some .none => isFn v
      | some (some i) => decide (i < xs.length) && (isFn v || (Spec.lastIndexOfN h v xs (i + 1)).isNone))
  | _, _ => false

def uCase : List VArg → Heap → Bool
  | [.one (.str s)], _ => !(chars s).all (·.toNat < 128)
  | _, _ => false

def isUnk {α} : TRes α → Bool
  | .unk => true
  | _ => false

def uJoin (T : TextFns) : List VArg → Heap → Bool
  | [.one (.arr r), .one (.str sep)], h =>
    (match getArr h r with
    | .none => true
    | some xs => (joinStrs sep xs).isNone && isUnk (mapT (textOf T h) xs))
  | _, _ => false

def uNew (T : TextFns) : List VArg → Heap → Bool
  | [.one v], h => isUnk (textOf T h v)
  | _, _ => false

def uSort : List VArg → Heap → Bool
  | [.one (.arr r), .one .null], h =>
    (match getArr h r with
    | .none => true
    | some xs => !comparable h xs)
  | [.one (.arr _), .one (.fn _)], _ => true
  | _, _ => false

/-- per function: when the call is still unmodelled, on *validated* arguments -/
def stillBodies (T : TextFns) : List (String × (List VArg → Heap → Bool)) := [
  ("arrayCopy", uA), ("arrayDelete", uA), ("arrayExtend", uAA), ("arrayGet", uA),
  ("arrayIndexOf", uIndexOf), ("arrayJoin", uJoin T), ("arrayLastIndexOf", uLastIndexOf),
  ("arrayLength", uA), ("arrayNewSize", uNever), ("arrayPop", uA), ("arrayPush", uA),
  ("arraySet", uA), ("arrayShift", uA), ("arraySlice", uA), ("arraySort", uSort),
  ("objectAssign", uOO), ("objectCopy", uO), ("objectDelete", uO), ("objectGet", uO),
  ("objectHas", uO), ("objectKeys", uO), ("objectSet", uO),
  ("stringCharCodeAt", uNever), ("stringEndsWith", uNever), ("stringIndexOf", uNever),
  ("stringLastIndexOf", uNever), ("stringLength", uNever), ("stringLower", uCase), ("stringNew", uNew T),
  ("stringRepeat", uNever), ("stringReplace", uNever), ("stringSlice", uNever),
  ("stringSplit", uNever), ("stringStartsWith", uNever), ("stringTrim", uNever),
  ("stringUpper", uCase), ("regexEscape", uNever), ("urlEncode", uNever), ("urlEncodeComponent", uNever)]

/-- all documented signatures -/
def docSigAll : List (String × List Gen.ArgModel) := docSigMore ++ Spec.docSig

/-- `stringFromCharCode`: every code is acceptable to the argument test and to `chr`, and one of them is a surrogate -/
def surrogateOnly (args : List Value) : Bool :=
  args.all (fun v => charOfCode v != some .none) && args.any (fun v => charOfCode v == .none)

/-- **the remaining unmodelled class**: `effMore T f args h = .unmodelled` exactly on these calls
(`C15More.unmodelled_iff`).  A call whose arguments fail validation is never in it. -/
def StillUnmodelled (T : TextFns) (f : String) (args : List Value) (h : Heap) : Bool :=
  if f == "arrayNew" || f == "objectNew" then false
  else if f == "stringFromCharCode" then surrogateOnly args
  else
    match docSigAll.lookup f, (stillBodies T).lookup f with
    | some ms, some u =>
      (match validate h ms args with
      | .none => false
      | some va => u va h)
    | _, _ => true      -- not one of the 42 array*/object*/string*/regexEscape/urlEncode* functions

/-- the 42 names -/
def names : List String := "arrayNew" :: "objectNew" :: "stringFromCharCode" :: (stillBodies TextFns.none).map (·.1)

end LibMore
