import BareModel.Gen.Regex

/-!
# NumText — numbers as text (C13)

Mirror layer (shaped like the Python / CPython code it stands for):

* `stripDotZeros`      `R_NUMBER_CLEANUP.sub('', s)` with `R_NUMBER_CLEANUP = re.compile(r'\.0*$')`  (value.py:70,96)
* `valueStringNum`     the two number branches of `value_string` (value.py:66-70); a float carrier is represented by its
                        `repr` text, because CPython's shortest-round-trip `float.__repr__` is **not** modelled (assumption A1)
* `literal`            `_R_EXPR_NUMBER.match` + `float(group 1)` (parser.py:579-583, 623)
* `floatText`          the text grammar of CPython `float(str)` (Objects/floatobject.c `PyFloat_FromString`,
                        `_PyUnicode_TransformDecimalAndSpaceToASCII`, `_Py_string_to_number_with_underscores`,
                        `_Py_parse_inf_or_nan`, the decimal grammar of `_Py_dg_strtod`) — rounding is **not** modelled (A2): the result is
                        the exact rational denoted by the text
* `numberParseFloat`   `value_parse_number` (value.py:450-466): `float(text)`, `isnan/isinf` guard, `ValueError` → null
* `pyInt`              the text grammar of CPython `int(str, base)` (Objects/longobject.c `PyLong_FromUnicodeObject`,
                        `PyLong_FromString`, `long_from_string_base`) for 2 ≤ base ≤ 36, including the int/str digit limit
* `numberParseInt`     `_number_parse_int` (library.py:1060-1068) with its radix argument model

Spec layer (shaped like the property):

* `Tok`                a decimal literal taken apart: sign, integer digits, optional fraction, optional exponent
* `Tok.val`            the rational number it denotes;  `decVal : String → Option Rat`
* `IsRepr`             the output grammar of `repr(float)` for finite floats: `-?D+\.D+ | -?D(\.D+)?e[+-]DD+`

Everything works on `List Char` internally; the `String` functions are thin wrappers.
-/

namespace NumText

/-! ## characters -/

/-- `'0'..'9'` -/
def isAsciiDigit (c : Char) : Bool := decide (48 ≤ c.toNat ∧ c.toNat ≤ 57)

/-- Code points of the zero digit of every non-ASCII Unicode decimal-digit block (`unicodedata.decimal(ch) == 0`, Unicode 15.0,
each followed by its digits 1..9).  Checked against the running interpreter's `unicodedata` by the harness on every run. -/
def uniZeros : List Nat := [
  0x660, 0x6f0, 0x7c0, 0x966, 0x9e6, 0xa66, 0xae6, 0xb66, 0xbe6, 0xc66, 0xce6, 0xd66, 0xde6, 0xe50, 0xed0, 0xf20, 0x1040,
  0x1090, 0x17e0, 0x1810, 0x1946, 0x19d0, 0x1a80, 0x1a90, 0x1b50, 0x1bb0, 0x1c40, 0x1c50, 0xa620, 0xa8d0, 0xa900, 0xa9d0,
  0xa9f0, 0xaa50, 0xabf0, 0xff10, 0x104a0, 0x10d30, 0x11066, 0x110f0, 0x11136, 0x111d0, 0x112f0, 0x11450, 0x114d0, 0x11650,
  0x116c0, 0x11730, 0x118e0, 0x11950, 0x11c50, 0x11d50, 0x11da0, 0x11f50, 0x16a60, 0x16ac0, 0x16b50, 0x1d7ce, 0x1d7d8,
  0x1d7e2, 0x1d7ec, 0x1d7f6, 0x1e140, 0x1e2f0, 0x1e4f0, 0x1e950, 0x1fbf0]

/-- `Py_UNICODE_TODECIMAL`: the decimal digit value of a character (ASCII or any Unicode `Nd`) -/
def decDigit? (c : Char) : Option Nat :=
  if isAsciiDigit c then some (c.toNat - 48)
  else if c.toNat < 128 then none
  else (uniZeros.find? (fun z => decide (z ≤ c.toNat ∧ c.toNat < z + 10))).map (fun z => c.toNat - z)

/-- regex `\d` on `str` patterns / what `float()` and `int()` accept as a decimal digit -/
def isDig (c : Char) : Bool := (decDigit? c).isSome

def digVal (c : Char) : Nat := (decDigit? c).getD 0

/-- `Py_ISSPACE` (C locale independent): space, `\t \n \v \f \r` -/
def isPySpace (c : Char) : Bool := decide (c.toNat = 32 ∨ (9 ≤ c.toNat ∧ c.toNat ≤ 13))

/-- non-ASCII `Py_UNICODE_ISSPACE` -/
def isUniSpace (c : Char) : Bool :=
  let n := c.toNat
  decide (n = 0x85 ∨ n = 0xa0 ∨ n = 0x1680 ∨ (0x2000 ≤ n ∧ n ≤ 0x200a) ∨ n = 0x2028 ∨ n = 0x2029 ∨ n = 0x202f ∨ n = 0x205f
          ∨ n = 0x3000)

/-- regex `\s` on `str` patterns = `Py_UNICODE_ISSPACE` (ASCII part: `\t \n \v \f \r`, `\x1c..\x1f`, space) -/
def isReSpace (c : Char) : Bool :=
  decide (c.toNat = 32 ∨ (9 ≤ c.toNat ∧ c.toNat ≤ 13) ∨ (0x1c ≤ c.toNat ∧ c.toNat ≤ 0x1f)) || isUniSpace c

/-- value of a digit string, most significant first -/
def natOf (l : List Char) : Nat := l.foldl (fun a c => a * 10 + digVal c) 0

/-! ## `re.sub(r'\.0*$', '', s)` -/

/-- Does the text after a `.` consist of zeros only up to `$`?  `$` (no MULTILINE) matches at the very end and also just
before a final newline; the answer is what stays after the match (`""` or `"\n"`). -/
def zerosEnd : List Char → Option (List Char)
  | [] => some []
  | c :: cs => if c = '0' then zerosEnd cs else if c = '\n' ∧ cs = [] then some [c] else none

/-- Leftmost match of `\.0*$` removed.  (After a match only `""`/`"\n"` is left, which cannot match again, so `sub` performs at
most this one replacement.) -/
def stripL : List Char → List Char
  | [] => []
  | c :: cs =>
    if c = '.' then
      match zerosEnd cs with
      | some r => r
      | none => c :: stripL cs
    else c :: stripL cs

def stripDotZeros (s : String) : String := String.ofList (stripL s.toList)

/-! ## decimal literals taken apart -/

inductive Sign where
  | none | plus | minus
deriving DecidableEq, Repr

def Sign.text : Sign → List Char
  | .none => []
  | .plus => ['+']
  | .minus => ['-']

structure ExpPart where
  upper : Bool            -- written `E`
  sign : Sign
  digits : List Char
deriving DecidableEq, Repr

structure Tok where
  sign : Sign
  ip : List Char                    -- digits before the point
  frac : Option (List Char)         -- `some fp`: a point followed by the digits `fp` (possibly none)
  exp : Option ExpPart
deriving DecidableEq, Repr

def ExpPart.text (e : ExpPart) : List Char := (if e.upper then 'E' else 'e') :: (e.sign.text ++ e.digits)

def fracText : Option (List Char) → List Char
  | none => []
  | some fp => '.' :: fp

def expText : Option ExpPart → List Char
  | none => []
  | some e => e.text

def Tok.text (t : Tok) : List Char := t.sign.text ++ (t.ip ++ (fracText t.frac ++ expText t.exp))

def fracVal : Option (List Char) → Rat
  | none => 0
  | some fp => (natOf fp : Rat) / (10 : Rat) ^ fp.length

def ExpPart.val (e : ExpPart) : Int := if e.sign = .minus then - (natOf e.digits : Int) else (natOf e.digits : Int)

def expVal : Option ExpPart → Int
  | none => 0
  | some e => e.val

def signVal (s : Sign) : Rat := if s = .minus then -1 else 1

/-- the rational number a literal denotes -/
def Tok.val (t : Tok) : Rat := signVal t.sign * (((natOf t.ip : Nat) : Rat) + fracVal t.frac) * (10 : Rat) ^ expVal t.exp

/-! ## scanners -/

def scanSign : List Char → Sign × List Char
  | c :: cs => if c = '+' then (.plus, cs) else if c = '-' then (.minus, cs) else (.none, c :: cs)
  | [] => (.none, [])

/-- Exponent part.  `strict` = the source-literal regex `(?:e[+-]\d+)?` (lower-case `e`, sign mandatory);
otherwise `strtod`: `[eE][+-]?\d+`.  If no digit follows, nothing is consumed. -/
def scanExp (strict : Bool) (l : List Char) : Option ExpPart × List Char :=
  match l with
  | c :: cs =>
    if c = 'e' ∨ (c = 'E' ∧ strict = false) then
      let sr := scanSign cs
      let ds := sr.2.takeWhile isDig
      if ds ≠ [] ∧ (strict = true → sr.1 ≠ .none) then (some ⟨decide (c = 'E'), sr.1, ds⟩, sr.2.dropWhile isDig) else (none, l)
    else (none, l)
  | [] => (none, [])

def scanFrac : List Char → Option (List Char) × List Char
  | c :: cs => if c = '.' then (some (cs.takeWhile isDig), cs.dropWhile isDig) else (none, c :: cs)
  | [] => (none, [])

/-- Longest prefix that is a decimal literal, and the rest.
`strict = true`:  `[+-]?\d+(?:\.\d*)?(?:e[+-]\d+)?` (parser.py:623, without the leading `\s*`);
`strict = false`: the decimal grammar of `strtod`: `[+-]?(\d+\.?\d*|\.\d+)([eE][+-]?\d+)?`. -/
def scanTok (strict : Bool) (l : List Char) : Option (Tok × List Char) :=
  let sr := scanSign l
  let ip := sr.2.takeWhile isDig
  let fr := scanFrac (sr.2.dropWhile isDig)
  if ip = [] ∧ (strict = true ∨ fr.1.getD [] = []) then none
  else
    let er := scanExp strict fr.2
    some (⟨sr.1, ip, fr.1, er.1⟩, er.2)

def decValL (l : List Char) : Option Rat :=
  match scanTok false l with
  | some (t, []) => some t.val
  | _ => none

/-- the value denoted by a decimal literal `[+-]?(D+\.?D*|\.D+)([eE][+-]?D+)?` (whole string), `none` for any other text -/
def decVal (s : String) : Option Rat := decValL s.toList

/-! ## the `repr` grammar of finite floats -/

def allAscii (l : List Char) : Bool := l.all isAsciiDigit

/-- shape of `repr(x)` for a finite float: `-?D+\.D+` or `-?D(\.D+)?e[+-]DD+` (ASCII digits) -/
def Tok.reprShape (t : Tok) : Bool :=
  (t.sign != .plus) && allAscii t.ip && t.ip != [] &&
  (match t.frac with
   | none => true
   | some fp => allAscii fp && fp != []) &&
  (match t.exp with
   | none => t.frac != none
   | some e => t.ip.length == 1 && !e.upper && e.sign != .none && allAscii e.digits && decide (2 ≤ e.digits.length))

def isReprL (l : List Char) : Bool :=
  match scanTok false l with
  | some (t, []) => t.reprShape
  | _ => false

/-- `s` is in the output grammar of `repr(float)` for finite floats (decidable) -/
def IsRepr (s : String) : Prop := isReprL s.toList = true

instance (s : String) : Decidable (IsRepr s) := inferInstanceAs (Decidable (_ = true))

/-- `repr` of the non-finite floats -/
def IsReprNonFinite (s : String) : Prop := s = "inf" ∨ s = "-inf" ∨ s = "nan"

instance (s : String) : Decidable (IsReprNonFinite s) := inferInstanceAs (Decidable (_ ∨ _))

/-! ## `str(int)` and `value_string` on numbers -/

def natStrAux : Nat → Nat → List Char → List Char
  | 0, _, acc => acc
  | fuel + 1, n, acc =>
    let acc' := Char.ofNat (48 + n % 10) :: acc
    if n < 10 then acc' else natStrAux fuel (n / 10) acc'

/-- decimal digits of a natural number (no leading zeros, `0` ↦ "0") -/
def natStr (n : Nat) : List Char := natStrAux (n + 1) n []

def intStrL (n : Int) : List Char := if n < 0 then '-' :: natStr n.natAbs else natStr n.natAbs

/-- `str(n)` for a Python `int` (below the int/str digit limit) -/
def intStr (n : Int) : String := String.ofList (intStrL n)

/-- A BareScript number as the host holds it.  The float carrier is given by its `repr` text (A1). -/
inductive PyNum where
  | int (n : Int)
  | float (reprText : String)

/-- the `int` and `float` branches of `value_string` (value.py:66-70) -/
def valueStringNum : PyNum → String
  | .int n => intStr n
  | .float r => stripDotZeros r

/-! ## CPython `float(str)` — text part -/

/-- `_PyUnicode_TransformDecimalAndSpaceToASCII`: ASCII stays, Unicode spaces become `' '`, Unicode decimal digits become
ASCII digits, any other character makes the text unparsable (CPython writes a `'?'` there). -/
def pyTransform : List Char → Option (List Char)
  | [] => some []
  | c :: cs =>
    if c.toNat < 128 then (pyTransform cs).map (c :: ·)
    else if isUniSpace c then (pyTransform cs).map (' ' :: ·)
    else match decDigit? c with
      | some d => (pyTransform cs).map (Char.ofNat (48 + d) :: ·)
      | none => none

/-- strip `Py_ISSPACE` characters at both ends -/
def trimPy (l : List Char) : List Char := ((l.dropWhile isPySpace).reverse.dropWhile isPySpace).reverse

/-- `_Py_string_to_number_with_underscores`: an underscore is removed if it stands between two ASCII digits, any other
underscore is an error.  `prev` is the previous character (`'\0'` at the start). -/
def dropUnderscores : Char → List Char → Option (List Char)
  | prev, [] => if prev = '_' then none else some []
  | prev, c :: cs =>
    if c = '_' then (if isAsciiDigit prev then dropUnderscores '_' cs else none)
    else if prev = '_' ∧ isAsciiDigit c = false then none
    else (dropUnderscores c cs).map (c :: ·)

def lowerAscii (c : Char) : Char := if 65 ≤ c.toNat ∧ c.toNat ≤ 90 then Char.ofNat (c.toNat + 32) else c

/-- what the text of a Python float denotes before rounding -/
inductive FloatLit where
  | fin (q : Rat)
  | inf (neg : Bool)
  | nan
deriving DecidableEq, Repr

/-- `_Py_parse_inf_or_nan` + the full-consumption test: `[+-]?(inf|infinity|nan)`, any case -/
def parseInfNan (l : List Char) : Option FloatLit :=
  let sr := scanSign l
  let w := sr.2.map lowerAscii
  if w = ['i', 'n', 'f'] ∨ w = ['i', 'n', 'f', 'i', 'n', 'i', 't', 'y'] then some (.inf (decide (sr.1 = .minus)))
  else if w = ['n', 'a', 'n'] then some .nan
  else none

/-- the body `float()` hands to `strtod`: transformed, stripped, digit-group underscores removed -/
def floatBody (s : String) : Option (List Char) :=
  (pyTransform s.toList).bind (fun l => dropUnderscores (Char.ofNat 0) (trimPy l))

def floatLitOfBody (b : List Char) : Option FloatLit :=
  match parseInfNan b with
  | some r => some r
  | none =>
    match scanTok false b with
    | some (t, []) => some (.fin t.val)
    | _ => none

/-- `float(s)` up to rounding: `none` = `ValueError` -/
def floatText (s : String) : Option FloatLit := (floatBody s).bind floatLitOfBody

/-- Magnitudes from here on round to `inf` (round-half-even at `2^1024 - 2^970`).  Part of assumption A2. -/
def overflowBound : Rat := ((2 ^ 1024 - 2 ^ 970 : Nat) : Rat)

/-- `value_parse_number` / `numberParseFloat` (value.py:450-466): `float(text)`; NaN, ±inf and `ValueError` give null.
The result is the exact rational the text denotes (the double is its correct rounding — A2, not modelled). -/
def numberParseFloat (s : String) : Option Rat :=
  match floatText s with
  | some (.fin q) => if overflowBound ≤ q ∨ q ≤ -overflowBound then none else some q
  | _ => none

/-! ## source literals -/

inductive LitRes where
  | noMatch
  | number (consumed : Nat) (q : Rat)
  | floatRaises                         -- `float(group 1)` would raise / be non-finite text: shown unreachable (C13.literal_never_raises)
deriving DecidableEq, Repr

/-- `_R_EXPR_NUMBER.match(text)` then `float(match.group(1))`, `len(match.group(0))` (parser.py:579-583) -/
def literal (s : String) : LitRes :=
  let l := s.toList.dropWhile isReSpace
  match scanTok true l with
  | none => .noMatch
  | some (t, rest) =>
    match floatText (String.ofList t.text) with
    | some (.fin q) => .number (s.length - rest.length) q
    | _ => .floatRaises

/-! ## CPython `int(str, base)` -/

/-- `_PyLong_DigitValue` -/
def intDigit? (c : Char) : Option Nat :=
  let n := c.toNat
  if 48 ≤ n ∧ n ≤ 57 then some (n - 48)
  else if 97 ≤ n ∧ n ≤ 122 then some (n - 87)
  else if 65 ≤ n ∧ n ≤ 90 then some (n - 55)
  else none

/-- The scan loop of `long_from_string_base`: digits below the base with single underscores between them; not ending in an
underscore.  The text is already stripped, so the loop has to reach the end (anything else is "invalid literal"). -/
def intScan (base : Nat) : Char → List Char → Option (List Nat)
  | prev, [] => if prev = '_' then none else some []
  | prev, c :: cs =>
    if c = '_' then (if prev = '_' then none else intScan base '_' cs)
    else match intDigit? c with
      | some d => if d < base then (intScan base c cs).map (d :: ·) else none
      | none => none

/-- `0x`/`0o`/`0b` (either case) is skipped when the base is 16/8/2, and "one underscore allowed here" -/
def stripRadixPrefix (base : Nat) : List Char → List Char
  | c0 :: c :: cs =>
    if c0 = '0' ∧ ((base = 16 ∧ (c = 'x' ∨ c = 'X')) ∨ (base = 8 ∧ (c = 'o' ∨ c = 'O')) ∨ (base = 2 ∧ (c = 'b' ∨ c = 'B')))
    then (match cs with
          | c2 :: cs' => if c2 = '_' then cs' else c2 :: cs'
          | [] => [])
    else c0 :: c :: cs
  | l => l

def isPow2Base (b : Nat) : Bool := decide (b = 2 ∨ b = 4 ∨ b = 8 ∨ b = 16 ∨ b = 32)

def digitsVal (base : Nat) (ds : List Nat) : Nat := ds.foldl (fun a d => a * base + d) 0

/-- `int(s, base)` for `2 ≤ base ≤ 36`; `none` = `ValueError`.  `maxDigits` = `sys.get_int_max_str_digits()` (0 = no limit):
in a base that is not a power of two more digit characters than that raise `ValueError`. -/
def pyInt (maxDigits : Nat) (s : String) (base : Nat) : Option Int :=
  match pyTransform s.toList with
  | none => none
  | some l =>
    let sr := scanSign (trimPy l)
    let body := stripRadixPrefix base sr.2
    if body.head? = some '_' then none
    else match intScan base (Char.ofNat 0) body with
      | none => none
      | some ds =>
        if ds = [] then none
        else if isPow2Base base = false ∧ 0 < maxDigits ∧ maxDigits < ds.length then none
        else some (if sr.1 = .minus then - (digitsVal base ds : Int) else (digitsVal base ds : Int))

/-- `numberParseInt(string, radix)` (library.py:1060-1068): the radix argument must be an integral number in 2..36
(argument model), else the call returns null; `ValueError` of `int()` gives null. -/
def numberParseInt (maxDigits : Nat) (s : String) (radix : Rat) : Option Int :=
  if radix.den = 1 ∧ 2 ≤ radix.num ∧ radix.num ≤ 36 then pyInt maxDigits s radix.num.toNat else none

/-! ## tie to the generated regex table -/

def patternOf (name : String) : Option (String × Nat) := (Gen.regexes.find? (fun r => r.1 == name)).map (·.2)

end NumText
