/-!
# `BareScriptParserError.__init__` (parser.py:669-701) — the message formatter with long-line elision

**M** mirror.  Column and line numbers are Python `int`s (`Int` here: the arithmetic of the elision uses negative
intermediate values).  `display` is the part the caret theorem (`C06.caret_under_same_char`) is about.
-/

namespace ErrorMsg

/-- `line_length_max` -/
def lineLengthMax : Nat := 120
/-- `line_suffix` -/
def lineSuffix : List Char := " ...".toList
/-- `line_prefix` -/
def linePrefix : List Char := "... ".toList

/-- **M** parser.py:675-688: the displayed (possibly elided) line `line_error` and the caret column `line_column` -/
def displayL (line : List Char) (column : Int) : List Char × Int :=
  if line.length > lineLengthMax then
    let lineLeft : Int := column - 1 - (lineLengthMax / 2 : Nat)
    let lineRight : Int := lineLeft + lineLengthMax
    if lineLeft < 0 then
      -- line[:line_length_max] + line_suffix
      (line.take lineLengthMax ++ lineSuffix, column)
    else if lineRight > line.length then
      -- line_prefix + line[-line_length_max:]
      (linePrefix ++ line.drop (line.length - lineLengthMax),
       column - (lineLeft - linePrefix.length - (lineRight - line.length)))
    else
      -- line_prefix + line[line_left:line_right] + line_suffix
      (linePrefix ++ (line.drop lineLeft.toNat).take lineLengthMax ++ lineSuffix,
       column - (lineLeft - linePrefix.length))
  else (line, column)

/-- `' ' * (line_column - 1) + '^'` (a non-positive count gives the empty string) -/
def caretLineL (caretColumn : Int) : List Char := List.replicate (caretColumn - 1).toNat ' ' ++ ['^']

structure Formatted where
  displayedLine : String
  caretColumn : Int
  message : String
deriving Repr, DecidableEq, Inhabited

/-- **M** `BareScriptParserError(error, line, column_number=1, line_number=None, prefix=None)`:
`str(exception)` is `message`; `displayedLine`/`caretColumn` are the locals `line_error`/`line_column`. -/
def format (error : String) (line : String) (column : Int := 1) (lineNumber : Option Int := none)
    (pfx : Option String := none) : Formatted :=
  let d := displayL line.toList column
  let lineError := String.ofList d.1
  let msg :=
    (match pfx with | some p => p ++ "\n" | none => "") ++ error ++
    (match lineNumber with | some n => ", line number " ++ toString n | none => "") ++ ":\n" ++
    lineError ++ "\n" ++ String.ofList (caretLineL d.2) ++ "\n"
  { displayedLine := lineError, caretColumn := d.2, message := msg }

end ErrorMsg
