import BareModel.Line
import BareModel.Text

/-!
# Line classifier — the statement regex cascade of `parse_script` (parser.py:69-400, patterns 433-454)

**M** mirror, in two stages:

* `shape : Chars → Shape` — the `if/elif` cascade of anchored regexes, in the order of the code (assignment, function
  begin, function end, if, elif, else, endif, while, endwhile, for, endfor, break, continue, label, jump/jumpif, return,
  include `'…'`, include `<…>`, otherwise expression statement).  Each pattern is a hand-written recogniser over
  `List Char` (not a regex engine); the comments say why the backtracking of `re` cannot yield another match.
  A `Shape` carries the captured groups as raw text; for an expression group also `match.start(group)` (`off`).
* `classify parseExpr line` — parses the captured expression texts with the expression parser handed in as a
  parameter and re-bases its error column the way the code does (`match.start(group) + error.column_number`; for an
  expression statement the column is unchanged).  Statement-level errors ("No matching if statement", …) are raised by
  the lowering, not here.

Every pattern starts with `^\s*`: `shape` strips the leading white space once (`shapeS` works on the stripped line and
its offsets are re-based by `Shape.shift`).  Lines are assumed free of `'\n'` (see `Text`).
-/

namespace Scan
open Text

/-- `[A-Za-z_]\w*` (greedy; giving characters back never helps: what follows in every pattern is not a `\w`) -/
def ident? : Chars → Option (Chars × Chars)
  | c :: cs => if isIdStart c then some (c :: cs.takeWhile isWord, cs.dropWhile isWord) else none
  | [] => none

/-- a literal keyword -/
def keyword? (kw : String) (l : Chars) : Option Chars :=
  if kw.toList.isPrefixOf l then some (l.drop kw.length) else none

/-- `\s+` -/
def ws1? : Chars → Option Chars
  | c :: cs => if isSpace c then some (lstripL cs) else none
  | [] => none

/-- the raw result of the regex cascade for one line -/
inductive Shape where
  | assign (name : Chars) (off : Nat) (expr : Chars)
  | funcBegin (name : Chars) (args : List Chars) (lastArgArray : Bool) (isAsync : Bool)
  | funcEnd
  | ifBegin (off : Nat) (expr : Chars)
  | elif (off : Nat) (expr : Chars)
  | else_
  | endif
  | whileBegin (off : Nat) (expr : Chars)
  | endwhile
  | forBegin (value : Chars) (index : Option Chars) (off : Nat) (expr : Chars)
  | endfor
  | break_
  | continue_
  | label (name : Chars)
  | jump (name : Chars) (cond : Option (Nat × Chars))
  | ret (e : Option (Nat × Chars))
  | include (url : Chars) (system : Bool)
  | exprStmt
deriving Repr, DecidableEq, Inhabited

/-- add `k` to every `match.start(group)` -/
def Shape.shift (k : Nat) : Shape → Shape
  | .assign n off e => .assign n (off + k) e
  | .ifBegin off e => .ifBegin (off + k) e
  | .elif off e => .elif (off + k) e
  | .whileBegin off e => .whileBegin (off + k) e
  | .forBegin v i off e => .forBegin v i (off + k) e
  | .jump n (some (off, e)) => .jump n (some (off + k, e))
  | .ret (some (off, e)) => .ret (some (off + k, e))
  | s => s

/-! ## the patterns (on the line with its leading white space removed) -/

/-- `^\s*(?P<name>[A-Za-z_]\w*)\s*=\s*(?P<expr>.+)$`.  `(?P<expr>.+)` runs to the end of the line, so
`match.start('expr') = len(line) - len(expr)`.  After `=` the greedy `\s*` takes all blanks; if nothing else follows it
gives the last blank back to `.+` (so `a = ` is an assignment of the expression `' '`); `a =` is not an assignment.
`a == b` assigns the expression `= b`. -/
def assign? (s : Chars) : Option Shape :=
  match ident? s with
  | some (name, r1) =>
    match lstripL r1 with
    | '=' :: r3 =>
      match lstripL r3, r3.getLast? with
      | [], some c => some (.assign name (s.length - 1) [c])
      | [], none => none
      | e, _ => some (.assign name (s.length - e.length) e)
    | _ => none
  | none => none

/-- `(?:\s*,\s*[A-Za-z_]\w*)*` — each iteration needs a comma and an identifier, so the greedy loop is deterministic -/
def argsLoop : Nat → Chars → List Chars × Chars
  | 0, r => ([], r)
  | n + 1, r =>
    match lstripL r with
    | ',' :: r1 =>
      match ident? (lstripL r1) with
      | some (a, r2) => let (as, r3) := argsLoop n r2; (a :: as, r3)
      | none => ([], r)
    | _ => ([], r)

/-- `^(?P<async>\s*async)?\s*function\s+(?P<name>[A-Za-z_]\w*)\s*\(\s*(?P<args>[A-Za-z_]\w*(?:\s*,\s*[A-Za-z_]\w*)*)?`
`(?P<lastArgArray>\s*\.\.\.)?\s*\)\s*:\s*$`.  If the optional `async` group matches and the rest fails, the retry
without it needs `function` where `async` stands: it fails too.  Note `asyncfunction f():` matches (`\s*` may be empty).
`args` is the captured text split by `_R_SCRIPT_FUNCTION_ARG_SPLIT` (`\s*,\s*`), i.e. the identifiers. -/
def funcBegin? (s : Chars) : Option Shape :=
  let (isAsync, s1) := match keyword? "async" s with
    | some r => (true, lstripL r)
    | none => (false, s)
  match keyword? "function" s1 with
  | none => none
  | some r =>
    match ws1? r with
    | none => none
    | some r =>
      match ident? r with
      | none => none
      | some (name, r) =>
        match lstripL r with
        | '(' :: r =>
          let r := lstripL r
          let (args, r) := match ident? r with
            | some (a, r') => let (as, r'') := argsLoop r'.length r'; (a :: as, r'')
            | none => ([], r)
          let (laa, r) := match keyword? "..." (lstripL r) with
            | some r' => (true, r')
            | none => (false, r)
          match lstripL r with
          | ')' :: r =>
            match lstripL r with
            | ':' :: r => if allSpace r then some (.funcBegin name args laa isAsync) else none
            | _ => none
          | _ => none
        | _ => none

/-- `^\s*kw\s*$` -/
def kwOnly? (kw : String) (sh : Shape) (s : Chars) : Option Shape :=
  match keyword? kw s with
  | some r => if allSpace r then some sh else none
  | none => none

/-- `\s+(?P<expr>.+)\s*:\s*$` on the text after a keyword → (`len` of the blanks before the expression, expression).
The line must end (blanks aside) with `:`; the greedy `.+` takes everything up to that *last* colon (including blanks
in front of it: `\s*` then matches empty).  The greedy `\s+` takes all blanks after the keyword unless nothing else
stands before the colon: then it gives its last blank to `.+` (`if   :` has the expression `' '`; `if :` does not match). -/
def exprColon? (r : Chars) : Option (Nat × Chars) :=
  match r.reverse.dropWhile isSpace with
  | ':' :: revBefore =>
    let before := revBefore.reverse
    let w := before.takeWhile isSpace
    match before.dropWhile isSpace, w.getLast? with
    | _, none => none
    | [], some c => if w.length ≥ 2 then some (w.length - 1, [c]) else none
    | e, some _ => some (w.length, e)
  | _ => none

/-- `^\s*kw\s+(?P<expr>.+)\s*:\s*$` (if / elif / while) -/
def kwExprColon? (kw : String) (mk : Nat → Chars → Shape) (s : Chars) : Option Shape :=
  match keyword? kw s with
  | some r =>
    match exprColon? r with
    | some (n, e) => some (mk (kw.length + n) e)
    | none => none
  | none => none

/-- `^\s*else\s*:\s*$` -/
def else? (s : Chars) : Option Shape :=
  match keyword? "else" s with
  | some r =>
    match lstripL r with
    | ':' :: r => if allSpace r then some .else_ else none
    | _ => none
  | none => none

/-- `^\s*for\s+(?P<value>[A-Za-z_]\w*)(?:\s*,\s*(?P<index>[A-Za-z_]\w*))?\s+in\s+(?P<values>.+)\s*:\s*$`.
If the optional index group fails half-way or the rest fails after it, the retry without it needs `\s+in` where the
comma stands: it fails too. -/
def for? (s : Chars) : Option Shape :=
  match keyword? "for" s with
  | none => none
  | some r =>
    match ws1? r with
    | none => none
    | some r =>
      match ident? r with
      | none => none
      | some (value, r) =>
        let (index, r) := match lstripL r with
          | ',' :: r1 =>
            match ident? (lstripL r1) with
            | some (ix, r2) => (some ix, r2)
            | none => (none, r)
          | _ => (none, r)
        match ws1? r with
        | none => none
        | some r =>
          match keyword? "in" r with
          | none => none
          | some r =>
            match exprColon? r with
            | some (n, e) => some (.forBegin value index (s.length - r.length + n) e)
            | none => none

/-- `^\s*(?P<name>[A-Za-z_]\w*)\s*:\s*$` -/
def label? (s : Chars) : Option Shape :=
  match ident? s with
  | some (name, r) =>
    match lstripL r with
    | ':' :: r => if allSpace r then some (.label name) else none
    | _ => none
  | none => none

/-- `\s+(?P<name>[A-Za-z_]\w*)\s*$` -/
def wsNameEnd? (r : Chars) : Option Chars :=
  match ws1? r with
  | some r =>
    match ident? r with
    | some (name, r) => if allSpace r then some name else none
    | none => none
  | none => none

/-- split at the last `)`: `(before, after)` -/
def splitLastParen (r : Chars) : Option (Chars × Chars) :=
  let rev := r.reverse
  match rev.dropWhile (· != ')') with
  | _ :: beforeRev => some (beforeRev.reverse, (rev.takeWhile (· != ')')).reverse)
  | [] => none

/-- `^(?P<jump>\s*(?:jump|jumpif\s*\((?P<expr>.+)\)))\s+(?P<name>[A-Za-z_]\w*)\s*$`.  Alternative `jump` first; it
cannot succeed on `jumpif…` (`\s+` would have to match `i`).  In the second alternative the text after the closing
parenthesis is blanks, an identifier, blanks — it contains no `)` — so the greedy `.+` ends at the **last** `)` of the
line.  `len(group 'jump') - len(expr) - 1 = match.start('expr')`. -/
def jump? (s : Chars) : Option Shape :=
  match keyword? "jump" s with
  | none => none
  | some r =>
    match wsNameEnd? r with
    | some name => some (.jump name none)
    | none =>
      match keyword? "if" r with
      | none => none
      | some r =>
        match lstripL r with
        | '(' :: r2 =>
          match splitLastParen r2 with
          | some (e, tail) =>
            if e.isEmpty then none
            else match wsNameEnd? tail with
              | some name => some (.jump name (some (s.length - r2.length, e)))
              | none => none
          | none => none
        | _ => none

/-- `^(?P<return>\s*return(?:\s+(?P<expr>\S.*))?)\s*$` (the pattern after fix F22: the expression starts with a
non-blank).  The expression runs to the end of the line, `len(group 'return') - len(expr) = match.start('expr')`. -/
def return? (s : Chars) : Option Shape :=
  match keyword? "return" s with
  | none => none
  | some r =>
    if allSpace r then some (.ret none)
    else match r with
      | c :: _ => if isSpace c then let e := lstripL r; some (.ret (some (s.length - e.length, e))) else none
      | [] => none

/-- the text matches `(?:\\'|[^'])*`: every quote is preceded by a backslash (that backslash can always be paired
with it) -/
def quotesEscaped : Chars → Bool
  | [] => true
  | '\'' :: _ => false
  | '\\' :: '\'' :: r => quotesEscaped r
  | _ :: r => quotesEscaped r

/-- `_R_EXPR_STRING_ESCAPE.sub('\\1', url)`, pattern `\\([\\'])`, left to right, non-overlapping -/
def unescapeQuote : Chars → Chars
  | [] => []
  | '\\' :: '\\' :: r => '\\' :: unescapeQuote r
  | '\\' :: '\'' :: r => '\'' :: unescapeQuote r
  | c :: r => c :: unescapeQuote r

/-- `^\s*include\s+(?P<delim>\')(?P<url>(?:\\\'|[^\'])*)\'\s*$`, then `^\s*include\s+(?P<delim><)(?P<url>[^>]*)>\s*$`.
The closing quote is the last non-blank character of the line. -/
def include? (s : Chars) : Option Shape :=
  match keyword? "include" s with
  | none => none
  | some r =>
    match ws1? r with
    | some ('\'' :: t) =>
      match t.reverse.dropWhile isSpace with
      | '\'' :: bodyRev =>
        let body := bodyRev.reverse
        if quotesEscaped body then some (.include (unescapeQuote body) false) else none
      | _ => none
    | some ('<' :: t) =>
      match t.dropWhile (· != '>') with
      | _ :: tail => if allSpace tail then some (.include (t.takeWhile (· != '>')) true) else none
      | [] => none
    | _ => none

/-- the cascade, in the order of parser.py:69-400, on a line without leading white space -/
def shapeS (s : Chars) : Shape :=
  (assign? s <|> funcBegin? s <|> kwOnly? "endfunction" .funcEnd s <|>
   kwExprColon? "if" .ifBegin s <|> kwExprColon? "elif" .elif s <|> else? s <|> kwOnly? "endif" .endif s <|>
   kwExprColon? "while" .whileBegin s <|> kwOnly? "endwhile" .endwhile s <|>
   for? s <|> kwOnly? "endfor" .endfor s <|> kwOnly? "break" .break_ s <|> kwOnly? "continue" .continue_ s <|>
   label? s <|> jump? s <|> return? s <|> include? s).getD .exprStmt

/-- **M** the regex cascade for one line -/
def shape (line : Chars) : Shape :=
  let s := lstripL line
  (shapeS s).shift (line.length - s.length)

/-! ## classify: parse the captured expressions -/

/-- re-base an expression error: `match.start(group) + error.column_number` -/
def shiftErr {α} (k : Nat) : Except ParseErr α → Except ParseErr α
  | .ok a => .ok a
  | .error e => .error { e with column := e.column + k }

def nameOf (cs : Chars) : Name := Name.ofString (String.ofList cs)

/-- **M** `classifyL parseExpr line` -/
def classifyL (parseExpr : String → Except ParseErr Expr) (line : Chars) : Except ParseErr Line :=
  let ex (off : Nat) (e : Chars) : Except ParseErr Expr := shiftErr off (parseExpr (String.ofList e))
  match shape line with
  | .assign n off e => (ex off e).map (Line.assign (nameOf n))
  | .funcBegin n args laa isAsync => .ok (.funcBegin (nameOf n) (args.map nameOf) laa isAsync)
  | .funcEnd => .ok .funcEnd
  | .ifBegin off e => (ex off e).map Line.ifBegin
  | .elif off e => (ex off e).map Line.elif
  | .else_ => .ok .else_
  | .endif => .ok .endif
  | .whileBegin off e => (ex off e).map Line.whileBegin
  | .endwhile => .ok .endwhile
  | .forBegin v i off e => (ex off e).map (Line.forBegin (nameOf v) (i.map nameOf))
  | .endfor => .ok .endfor
  | .break_ => .ok .break_
  | .continue_ => .ok .continue_
  | .label n => .ok (.label (nameOf n))
  | .jump n none => .ok (.jump (nameOf n) none)
  | .jump n (some (off, e)) => (ex off e).map (fun c => Line.jump (nameOf n) (some c))
  | .ret none => .ok (.ret none)
  | .ret (some (off, e)) => (ex off e).map (fun c => Line.ret (some c))
  | .include url sys => .ok (.include (String.ofList url) sys)
  | .exprStmt => (parseExpr (String.ofList line)).map Line.exprStmt

/-- **M** the line classifier, parametric in the expression parser (`ExprParse.parseExpr`) -/
def classify (parseExpr : String → Except ParseErr Expr) (line : String) : Except ParseErr Line :=
  classifyL parseExpr line.toList

end Scan
