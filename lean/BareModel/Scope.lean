import BareModel.Machine

/-!
# Scoping: library injection and the documented calling convention (spec layer of `Machine.bindArgs`)

* `inject lib host` — the model of `execute_script`'s

      globals_.update(name_func for name_func in SCRIPT_FUNCTIONS.items() if name_func[0] not in globals_)

  over an arbitrary library table: the caller's entries are kept (values *and* insertion order), a library name is appended
  only if it is not bound yet.  (`Drv/ExecJson.injectLib` is this function on the driver's library table —
  `C04.injectLib_eq_inject`.)
* `injectSpec` — the same thing written the way the property reads: host entries, then the library entries whose name the
  host does not bind.
* `bindSpec` — the documented parameter binding of a script function as a direct function of
  (parameters, `lastArgArray`, arguments): parameter `i` ↦ argument `i` (null when missing), the last parameter of a
  `...` function ↦ a fresh array of the remaining arguments; the locals dictionary is built by assigning the parameters
  in order (so a duplicate parameter name keeps the value of its LAST position, as a Python dict does).
-/

namespace Scope
open Machine

/-! ## library injection -/

/-- `execute_script`: every library entry whose name is not bound yet is appended (first binding of a name wins) -/
def inject (lib : List (Name × Value)) (host : Env) : Env :=
  lib.foldl (fun acc kv => if acc.contains kv.1 then acc else acc ++ [kv]) host

/-- the property's reading: the caller's globals, followed by the library entries the caller did not bind -/
def injectSpec (lib : List (Name × Value)) (host : Env) : Env :=
  host ++ lib.filter (fun kv => !host.contains kv.1)

/-- names of a table are pairwise distinct (true of a Python dict such as `SCRIPT_FUNCTIONS`) -/
def DistinctKeys (lib : List (Name × Value)) : Prop := (lib.map (·.1)).Nodup

/-! ## the calling convention -/

variable {W : Type}

/-- Python dict built by assigning the pairs in order: `d = {}; for k, v in kvs: d[k] = v` -/
def fromPairs (kvs : List (Name × Value)) : Env := kvs.foldl (fun e kv => e.set kv.1 kv.2) []

/-- the value bound to the parameter at position `i` of `n` parameters: the collected array for the last parameter of a
`...` function, else argument `i`, else null -/
def paramValue (laa : Bool) (n : Nat) (as : List Value) (rest : Value) (i : Nat) : Value :=
  if laa ∧ i + 1 = n then rest else (as[i]?).getD .null

/-- the arguments a `...` parameter collects: everything from position `n-1` on (empty when there are fewer) -/
def restArgs (n : Nat) (as : List Value) : List Value := as.drop (n - 1)

/-- **the documented binding.**  The world changes only by the allocation of the one fresh array of a `...` function. -/
def bindSpec (host : Host W) (laa : Bool) (ps : List Name) (as : List Value) (w : W) : Env × W :=
  if laa ∧ ps ≠ [] then
    let fresh := host.newArray (restArgs ps.length as) w
    (fromPairs (ps.zipIdx.map fun pi => (pi.1, paramValue true ps.length as fresh.1 pi.2)), fresh.2)
  else
    (fromPairs (ps.zipIdx.map fun pi => (pi.1, paramValue false ps.length as .null pi.2)), w)

end Scope
