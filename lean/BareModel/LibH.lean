import BareModel.Gen.Args

/-!
# LibH — host-level model of the library functions that use a number as index / count / size / radix / char code

BareScript has one number type; CPython has two (`int`, `float`) and several primitives accept only `int`:
`list[i]`, slices, `range`, `str * n`, `chr`, `int(text, radix)`, `str.find(sub, start)`.  Inside a library function a
`TypeError` is swallowed by the call wrapper (runtime.py:241-251) and the call silently evaluates to null.

* `PyNum := int n | float q` — a host number with its spelling (a float holding an integral value is `float (n : Rat)`).
* host primitives are **partial** and typed the way Python types them (`Except HostErr`).
* `…H` functions: the library functions written the way library.py / data.py write them *now*: where the code says
  `int(index)` the model says `toInt`, where it does not, the model does not.
* `…A` functions: the abstract one-number-type versions over `Rat`.
* `PyNum.abs` forgets the spelling.  Theorems relating the two layers are in `BareProofs/C12.lean`.

By-value model: arrays are lists; the post-call contents of the argument objects are returned explicitly
(`Out.args`).  Aliasing between arguments is not expressible here (covered by the implementation-side oracle).
-/

namespace LibH

/-! ## numbers -/

inductive PyNum where
  | int (n : Int)
  | float (q : Rat)
deriving DecidableEq, Repr

/-- forget the spelling -/
def PyNum.abs : PyNum → Rat
  | .int n => (n : Rat)
  | .float q => q

/-- truncation toward zero (`int(x)` on a float) -/
def ratTrunc (q : Rat) : Int := Int.tdiv q.num (q.den : Int)

/-- Python `int(x)` for a number (total on finite numbers) -/
def toInt : PyNum → Int
  | .int n => n
  | .float q => ratTrunc q

inductive HostErr where
  | typeError | valueError | indexError | overflowError | attributeError
deriving DecidableEq, Repr

/-! Python's mixed comparisons are exact on the values (each case written out, the float/int cases convert the
    *int* exactly — this is the assumption of DESIGN §6) -/

def pyEq : PyNum → PyNum → Bool
  | .int a, .int b => a == b
  | .int a, .float q => ((a : Rat) == q)
  | .float q, .int b => (q == (b : Rat))
  | .float p, .float q => p == q

/-- `x < b` for an integer bound -/
def pyLtI : PyNum → Int → Bool
  | .int a, b => decide (a < b)
  | .float q, b => decide (q < (b : Rat))

/-- `x <= b` -/
def pyLeI : PyNum → Int → Bool
  | .int a, b => decide (a ≤ b)
  | .float q, b => decide (q ≤ (b : Rat))

/-! ## values -/

inductive Val (N : Type) where
  | null
  | bool (b : Bool)
  | num (n : N)
  | str (s : String)
  | arr (xs : List (Val N))
  | obj (kvs : List (String × Val N))
  | opaque (kind : String) (id : Int)      -- datetime (id = epoch ms), function, regex
deriving Repr, Inhabited

mutual
def Val.map {N M : Type} (f : N → M) : Val N → Val M
  | .null => .null
  | .bool b => .bool b
  | .num n => .num (f n)
  | .str s => .str s
  | .arr xs => .arr (Val.mapL f xs)
  | .obj kvs => .obj (Val.mapKV f kvs)
  | .opaque k i => .opaque k i
def Val.mapL {N M : Type} (f : N → M) : List (Val N) → List (Val M)
  | [] => []
  | x :: xs => Val.map f x :: Val.mapL f xs
def Val.mapKV {N M : Type} (f : N → M) : List (String × Val N) → List (String × Val M)
  | [] => []
  | (k, v) :: r => (k, Val.map f v) :: Val.mapKV f r
end

abbrev HVal := Val PyNum
abbrev AVal := Val Rat

/-- forget the spelling of every number, at every depth -/
def absV : HVal → AVal := Val.map PyNum.abs

/-- `value_type` -/
def typeName {N : Type} : Val N → String
  | .null => "null" | .bool _ => "boolean" | .num _ => "number" | .str _ => "string"
  | .arr _ => "array" | .obj _ => "object" | .opaque k _ => k

/-! ## value_compare(a, b) == 0 and the bucket-key equality of data.py, generic in the number equality -/

/-- insertion of a key/value pair into a key-sorted list (`sorted(d.items())`) -/
def insertKV {V : Type} (p : String × V) : List (String × V) → List (String × V)
  | [] => [p]
  | q :: r => if p.1 < q.1 then p :: q :: r else q :: insertKV p r

def sortKV {V : Type} : List (String × V) → List (String × V)
  | [] => []
  | p :: r => insertKV p (sortKV r)

/-- structural "compares equal": `strict = false` is `value_compare(a, b) == 0` (two functions / two regexes compare equal by
    type name), `strict = true` is equality of `_bucket_key` (those are keyed by identity). Objects are compared through
    their key-sorted item lists, which the caller provides already sorted at every level (`sortDeep`). -/
def eqFuel {N : Type} (numEq : N → N → Bool) (strict : Bool) : Nat → Val N → Val N → Bool
  | 0, _, _ => false
  | _ + 1, .null, .null => true
  | _ + 1, .bool a, .bool b => a == b
  | _ + 1, .num a, .num b => numEq a b
  | _ + 1, .str a, .str b => a == b
  | _ + 1, .opaque k i, .opaque k' i' => k == k' && (if strict || k == "datetime" then i == i' else true)
  | f + 1, .arr xs, .arr ys => xs.length == ys.length && (List.zipWith (eqFuel numEq strict f) xs ys).all id
  | f + 1, .obj a, .obj b =>
      let a' := sortKV a
      let b' := sortKV b
      a'.length == b'.length && (List.zipWith (fun p q => p.1 == q.1 && eqFuel numEq strict f p.2 q.2) a' b').all id
  | _ + 1, _, _ => false

mutual
def Val.size {N : Type} : Val N → Nat
  | .arr xs => 1 + Val.sizeL xs
  | .obj kvs => 1 + Val.sizeKV kvs
  | _ => 1
def Val.sizeL {N : Type} : List (Val N) → Nat
  | [] => 0
  | x :: xs => Val.size x + Val.sizeL xs
def Val.sizeKV {N : Type} : List (String × Val N) → Nat
  | [] => 0
  | (_, v) :: r => Val.size v + Val.sizeKV r
end

/-- `value_compare(a, b) == 0` -/
def cmpEq {N : Type} (numEq : N → N → Bool) (a b : Val N) : Bool := eqFuel numEq false (Val.size a + 1) a b
/-- `_bucket_key(a) == _bucket_key(b)` -/
def keyEq {N : Type} (numEq : N → N → Bool) (a b : Val N) : Bool := eqFuel numEq true (Val.size a + 1) a b

/-! ## host primitives (partial, typed as CPython types them) -/

/-- index normalisation of `seq[i]` for an `int` index -/
def normIndex (len : Nat) (i : Int) : Option Nat :=
  if 0 ≤ i then (if i < (len : Int) then some i.toNat else none)
  else (if -(len : Int) ≤ i then some (i + (len : Int)).toNat else none)

/-- `xs[i]` -/
def listIndex {α : Type} (xs : List α) : PyNum → Except HostErr α
  | .float _ => .error .typeError
  | .int i =>
    match (normIndex xs.length i).bind (xs[·]?) with
    | some x => .ok x
    | none => .error .indexError

/-- `xs[i] = v` -/
def listSet {α : Type} (xs : List α) (v : α) : PyNum → Except HostErr (List α)
  | .float _ => .error .typeError
  | .int i =>
    match normIndex xs.length i with
    | some k => .ok (xs.set k v)
    | none => .error .indexError

/-- `del xs[i]` -/
def listDel {α : Type} (xs : List α) : PyNum → Except HostErr (List α)
  | .float _ => .error .typeError
  | .int i =>
    match normIndex xs.length i with
    | some k => .ok (xs.eraseIdx k)
    | none => .error .indexError

/-- slice bound clamping -/
def sliceBound (len : Nat) (i : Int) : Nat :=
  if i < 0 then (i + (len : Int)).toNat else min i.toNat len

def sliceI {α : Type} (xs : List α) (s e : Int) : List α :=
  let s' := sliceBound xs.length s
  let e' := sliceBound xs.length e
  (xs.drop s').take (e' - s')

/-- `xs[s:e]` (slice indices must be integers) -/
def listSlice {α : Type} (xs : List α) : PyNum → PyNum → Except HostErr (List α)
  | .int s, .int e => .ok (sliceI xs s e)
  | _, _ => .error .typeError

/-- `len(range(n))` — `range(float)` is a TypeError -/
def rangeLen : PyNum → Except HostErr Nat
  | .float _ => .error .typeError
  | .int n => .ok n.toNat

/-- the ints `s, s+1, …, stop-1` -/
def upFrom (s : Int) (stop : Nat) : List Int := (List.range ((stop : Int) - s).toNat).map (fun (k : Nat) => s + (k : Int))
/-- the ints `s, s-1, …, 0` -/
def downFrom (s : Int) : List Int := (List.range (s + 1).toNat).map (fun (k : Nat) => s - (k : Int))

/-- `range(start, stop)` with an int `stop` known to be a length -/
def rangeUp : PyNum → Nat → Except HostErr (List Int)
  | .float _, _ => .error .typeError
  | .int s, stop => .ok (upFrom s stop)

/-- `range(start, -1, -1)` -/
def rangeDown : PyNum → Except HostErr (List Int)
  | .float _ => .error .typeError
  | .int s => .ok (downFrom s)

/-- `s * n` -/
def strRepeat (s : String) : PyNum → Except HostErr String
  | .float _ => .error .typeError
  | .int n => .ok (String.join (List.replicate n.toNat s))

/-- `chr(n)`; surrogate code points are not representable in a Lean `Char` and are reported as `valueError`
    (excluded from the correspondence) -/
def pyChr : PyNum → Except HostErr Char
  | .float _ => .error .typeError
  | .int n =>
    if 0 ≤ n ∧ n < 0x110000 ∧ ¬ (0xd800 ≤ n ∧ n < 0xe000) then .ok (Char.ofNat n.toNat) else .error .valueError

def isPrefix : List Char → List Char → Bool
  | [], _ => true
  | _ :: _, [] => false
  | a :: as, b :: bs => a == b && isPrefix as bs

/-- first `i ≥ start` (as offsets into `s`) at which `sub` occurs; `fuel` = remaining length + 1 -/
def findFrom (sub : List Char) : List Char → Nat → Option Nat
  | [], i => if sub.isEmpty then some i else none
  | c :: cs, i => if isPrefix sub (c :: cs) then some i else findFrom sub cs (i + 1)

def findI (s sub : List Char) (start : Int) : Int :=
  let st := sliceBound s.length start
  if start.toNat > s.length ∧ 0 ≤ start then -1 else
  match findFrom sub (s.drop st) st with
  | some i => i
  | none => -1

/-- `s.find(sub, start)` (slice indices must be integers) -/
def strFind (s sub : String) : PyNum → Except HostErr Int
  | .float _ => .error .typeError
  | .int start => .ok (findI s.toList sub.toList start)

/-- last occurrence of `sub` in `s` lying entirely inside `s[0:e]` -/
def rfindI (s sub : List Char) (e : Int) : Int :=
  let e' := sliceBound s.length e
  let window := s.take e'
  if sub.length > window.length then -1 else
  match ((List.range (window.length - sub.length + 1)).reverse).find? (fun i => isPrefix sub (window.drop i)) with
  | some i => i
  | none => -1

/-- `s.rfind(sub, 0, end)` -/
def strRFind (s sub : String) : PyNum → Except HostErr Int
  | .float _ => .error .typeError
  | .int e => .ok (rfindI s.toList sub.toList e)

def digitVal (c : Char) : Option Nat :=
  let n := c.toNat
  if 48 ≤ n ∧ n ≤ 57 then some (n - 48)
  else if 97 ≤ n ∧ n ≤ 122 then some (n - 87)
  else if 65 ≤ n ∧ n ≤ 90 then some (n - 55)
  else none

def parseDigits (radix : Nat) : List Char → Nat → Option Nat
  | [], acc => some acc
  | c :: cs, acc =>
    match digitVal c with
    | some d => if d < radix then parseDigits radix cs (acc * radix + d) else none
    | none => none

def isWs (c : Char) : Bool := c == ' ' || c == '\t' || c == '\n' || c == '\r' || c.toNat == 11 || c.toNat == 12

def stripWs (cs : List Char) : List Char := ((cs.dropWhile isWs).reverse.dropWhile isWs).reverse

/-- `int(text, radix)` for an int radix in 2..36 on `[ws][sign]digits[ws]` (no underscores / prefixes); `none` = ValueError -/
def parseIntText (text : String) (radix : Nat) : Option Int :=
  let cs := stripWs text.toList
  let (neg, ds) := match cs with
    | '-' :: r => (true, r)
    | '+' :: r => (false, r)
    | r => (false, r)
  if ds.isEmpty then none else
  match parseDigits radix ds 0 with
  | some n => some (if neg then -(n : Int) else (n : Int))
  | none => none

/-- `int(text, radix)`: a float radix is a TypeError; a radix outside 2..36 a ValueError (0 = auto-detect is not reachable
    behind the argument model and is modelled as ValueError) -/
def intRadix (text : String) : PyNum → Except HostErr Int
  | .float _ => .error .typeError
  | .int r =>
    if 2 ≤ r ∧ r ≤ 36 then
      match parseIntText text r.toNat with
      | some n => .ok n
      | none => .error .valueError
    else .error .valueError

/-! ## value_args_validate (value.py:237-329), generic table-driven; number checks host-typed / abstract -/

/-- a library call fails either through `ValueArgsError` (carrying the function's failure value) or a host exception -/
inductive Fail (N : Type) where
  | args (ret : Val N)
  | host (e : HostErr)

/-- outcome of a wrapped call: value of the call expression + post-call contents of the argument objects -/
structure Out (N : Type) where
  result : Val N
  args : List (Val N)

/-- `value_boolean` -/
def truthy {N : Type} (nonzero : N → Bool) : Val N → Bool
  | .null => false
  | .str s => s != ""
  | .bool b => b
  | .num n => nonzero n
  | .arr xs => !xs.isEmpty
  | _ => true

def pyNonzero : PyNum → Bool
  | .int n => n != 0
  | .float q => q != 0

/-- the default value texts that occur in library.py (JSON text from `Gen.argModels`) -/
def parseDefault (N : Type) (ofInt : Int → N) (t : String) : Val N :=
  if t == "false" then .bool false
  else if t == "true" then .bool true
  else if t == "\"\"" then .str ""
  else match t.toInt? with
    | some n => .num (ofInt n)
    | none => .null

/-- the type test of value.py:303-309 -/
def typeOk {N : Type} (t : String) (v : Val N) : Bool :=
  if t == "function" then typeName v == "function" else typeName v == t

/-- number constraints, host level (value.py:318-322): `int(x) != x`, `x < lt`, … -/
def numOkH (m : Gen.ArgModel) (x : PyNum) : Bool :=
  !(m.integer && !(pyEq (.int (toInt x)) x)) &&
  (match m.lt with | some b => pyLtI x b | none => true) &&
  (match m.lte with | some b => pyLeI x b | none => true) &&
  (match m.gt with | some b => !(pyLeI x b) | none => true) &&
  (match m.gte with | some b => !(pyLtI x b) | none => true)

/-- number constraints, one number type -/
def numOkA (m : Gen.ArgModel) (x : Rat) : Bool :=
  !(m.integer && !(((ratTrunc x : Int) : Rat) == x)) &&
  (match m.lt with | some b => decide (x < (b : Rat)) | none => true) &&
  (match m.lte with | some b => decide (x ≤ (b : Rat)) | none => true) &&
  (match m.gt with | some b => !(decide (x ≤ (b : Rat))) | none => true) &&
  (match m.gte with | some b => !(decide (x < (b : Rat))) | none => true)

/-- one present argument against its model entry; `none` = ValueArgsError -/
def checkArg {N : Type} (nonzero : N → Bool) (numOk : Gen.ArgModel → N → Bool) (m : Gen.ArgModel) (v : Val N) : Option (Val N) :=
  match m.type with
  | none => some v
  | some t =>
    if t == "boolean" then some (.bool (truthy nonzero v))
    else match v with
      | .null => if m.nullable then some .null else none
      | .num x => if t == "number" then (if numOk m x then some v else none) else none
      | v => if t != "number" && typeOk t v then some v else none

/-- a missing argument -/
def missingArg {N : Type} (ofInt : Int → N) (m : Gen.ArgModel) : Option (Val N) :=
  if m.lastArgArray then some (.arr [])
  else match m.default with
    | some t => some (parseDefault N ofInt t)
    | none =>
      if m.type == some "boolean" then some (.bool false)
      else if m.type == none || m.nullable then some .null
      else none

/-- `value_args_validate`; `none` = ValueArgsError (every failure carries the same failure value) -/
def validate {N : Type} (nonzero : N → Bool) (numOk : Gen.ArgModel → N → Bool) (ofInt : Int → N) :
    List Gen.ArgModel → List (Val N) → Option (List (Val N))
  | [], [] => some []
  | [], _ :: _ => none
  | m :: ms, [] => do
      let v ← missingArg ofInt m
      let rest ← validate nonzero numOk ofInt ms []
      pure (v :: rest)
  | m :: ms, a :: as =>
      if m.lastArgArray then do
        let rest ← validate nonzero numOk ofInt ms []
        pure (.arr (a :: as) :: rest)
      else do
        let v ← checkArg nonzero numOk m a
        let rest ← validate nonzero numOk ofInt ms as
        pure (v :: rest)

def validateH := validate pyNonzero numOkH PyNum.int
def validateA := validate (fun (q : Rat) => q != 0) numOkA (fun (n : Int) => (n : Rat))

def argModel (name : String) : List Gen.ArgModel :=
  match Gen.argModels.find? (·.1 == name) with
  | some p => p.2
  | none => []

/-! ## the function bodies, host level — written as library.py / data.py write them now

Every body first unpacks the validated argument list (`a, b = value_args_validate(...)`; a wrong arity is Python's
"too many values to unpack", a `ValueError` → null) and the argument kinds the argument model guarantees. -/

/-- result of a body: value + (for the two mutators) the new contents of argument 0 -/
abbrev BodyR (N : Type) := Val N × Option (List (Val N))

def hostE {N α : Type} : Except HostErr α → Except (Fail N) α
  | .ok a => .ok a
  | .error e => .error (.host e)

/-- an unpacking that cannot fail behind the argument model; a failure would be a host exception -/
def req {N α : Type} : Option α → Except (Fail N) α
  | some a => .ok a
  | none => .error (.host .typeError)

def list2 {α : Type} : List α → Option (α × α)
  | [a, b] => some (a, b)
  | _ => none

def list3 {α : Type} : List α → Option (α × α × α)
  | [a, b, c] => some (a, b, c)
  | _ => none

def Val.asArr? {N : Type} : Val N → Option (List (Val N)) | .arr xs => some xs | _ => none
def Val.asNum? {N : Type} : Val N → Option N | .num n => some n | _ => none
def Val.asStr? {N : Type} : Val N → Option String | .str s => some s | _ => none
/-- a nullable number argument: `none` = not a number or null -/
def Val.asOptNum? {N : Type} : Val N → Option (Option N) | .null => some none | .num n => some (some n) | _ => none

/-- `x >= n` / `x > n` against a length -/
def geLen (x : PyNum) (n : Nat) : Bool := !(pyLtI x n)
def gtLen (x : PyNum) (n : Nat) : Bool := !(pyLeI x n)

def badShape {N : Type} : Except (Fail N) (BodyR N) := .error (.host .typeError)

/-- library.py:55-60 -/
def arrayDeleteH (v : List HVal) : Except (Fail PyNum) (BodyR PyNum) := do
  let (a, i) ← req (list2 v)
  let xs ← req a.asArr?
  let index ← req i.asNum?
  if geLen index xs.length then throw (.args .null)
  let xs' ← hostE (listDel xs (.int (toInt index)))
  pure (.null, some xs')

/-- library.py:91-96 -/
def arrayGetH (v : List HVal) : Except (Fail PyNum) (BodyR PyNum) := do
  let (a, i) ← req (list2 v)
  let xs ← req a.asArr?
  let index ← req i.asNum?
  if geLen index xs.length then throw (.args .null)
  let x ← hostE (listIndex xs (.int (toInt index)))
  pure (x, none)

/-- library.py:264-270 -/
def arraySetH (v : List HVal) : Except (Fail PyNum) (BodyR PyNum) := do
  let (a, i, value) ← req (list3 v)
  let xs ← req a.asArr?
  let index ← req i.asNum?
  if geLen index xs.length then throw (.args .null)
  let xs' ← hostE (listSet xs value (.int (toInt index)))
  pure (value, some xs')

/-- the same function before the fix of F1 (`array[index] = value`): kept to show what the theorem excludes -/
def arraySetUnfixedH (v : List HVal) : Except (Fail PyNum) (BodyR PyNum) := do
  let (a, i, value) ← req (list3 v)
  let xs ← req a.asArr?
  let index ← req i.asNum?
  if geLen index xs.length then throw (.args .null)
  let xs' ← hostE (listSet xs value index)
  pure (value, some xs')

/-- library.py:305-314 -/
def arraySliceH (v : List HVal) : Except (Fail PyNum) (BodyR PyNum) := do
  let (a, s, e) ← req (list3 v)
  let xs ← req a.asArr?
  let start ← req s.asNum?
  let e' ← req e.asOptNum?
  let stop := e'.getD (PyNum.int xs.length)
  if gtLen start xs.length then throw (.args .null)
  if gtLen stop xs.length then throw (.args .null)
  let r ← hostE (listSlice xs (.int (toInt start)) (.int (toInt stop)))
  pure (.arr r, none)

/-- library.py:213-215 -/
def arrayNewSizeH (v : List HVal) : Except (Fail PyNum) (BodyR PyNum) := do
  let (s, value) ← req (list2 v)
  let size ← req s.asNum?
  let n ← hostE (rangeLen (.int (toInt size)))
  pure (.arr (List.replicate n value), none)

/-- the search loop of arrayIndexOf / arrayLastIndexOf over a list of int indices -/
def searchH (xs : List HVal) (value : HVal) : List Int → Except (Fail PyNum) Int
  | [] => pure (-1)
  | ix :: rest => do
      let x ← hostE (listIndex xs (.int ix))
      if cmpEq pyEq x value then pure ix else searchH xs value rest

/-- library.py:111-126 (non-function search value; the match-function variant is not modelled) -/
def arrayIndexOfH (v : List HVal) : Except (Fail PyNum) (BodyR PyNum) := do
  let (a, value, i) ← req (list3 v)
  let xs ← req a.asArr?
  let index ← req i.asNum?
  if geLen index xs.length then throw (.args (.num (.int (-1))))
  if typeName value == "function" then throw (.host .typeError)
  let ixs ← hostE (rangeUp (.int (toInt index)) xs.length)
  let r ← searchH xs value ixs
  pure (.num (.int r), none)

/-- library.py:158-175 (non-function search value) -/
def arrayLastIndexOfH (v : List HVal) : Except (Fail PyNum) (BodyR PyNum) := do
  let (a, value, i) ← req (list3 v)
  let xs ← req a.asArr?
  let i' ← req i.asOptNum?
  let index := i'.getD (PyNum.int ((xs.length : Int) - 1))
  if geLen index xs.length then throw (.args (.num (.int (-1))))
  if typeName value == "function" then throw (.host .typeError)
  let ixs ← hostE (rangeDown (.int (toInt index)))
  let r ← searchH xs value ixs
  pure (.num (.int r), none)

/-- library.py:1495-1500 -/
def stringCharCodeAtH (v : List HVal) : Except (Fail PyNum) (BodyR PyNum) := do
  let (a, i) ← req (list2 v)
  let s ← req a.asStr?
  let index ← req i.asNum?
  if geLen index s.length then throw (.args .null)
  let c ← hostE (listIndex s.toList (.int (toInt index)))
  pure (.num (.int c.toNat), none)

/-- the per-code check of library.py:1530-1532 -/
def charCodeOkH : HVal → Except (Fail PyNum) PyNum
  | .num x => if !(pyEq (.int (toInt x)) x) || pyLtI x 0 then throw (Fail.args .null) else pure x
  | _ => throw (Fail.args .null)

/-- library.py:1529-1534 (no argument model: the checks are in the body) -/
def stringFromCharCodeH (codes : List HVal) : Except (Fail PyNum) (BodyR PyNum) := do
  let nums ← codes.mapM charCodeOkH
  let cs ← nums.mapM (fun x => hostE (pyChr (.int (toInt x))))
  pure (.str (String.ofList cs), none)

/-- library.py:1544-1549 -/
def stringIndexOfH (v : List HVal) : Except (Fail PyNum) (BodyR PyNum) := do
  let (a, b, i) ← req (list3 v)
  let s ← req a.asStr?
  let search ← req b.asStr?
  let index ← req i.asNum?
  if geLen index s.length then throw (.args (.num (.int (-1))))
  let r ← hostE (strFind s search (.int (toInt index)))
  pure (.num (.int r), none)

/-- library.py:1565-1571 -/
def stringLastIndexOfH (v : List HVal) : Except (Fail PyNum) (BodyR PyNum) := do
  let (a, b, i) ← req (list3 v)
  let s ← req a.asStr?
  let search ← req b.asStr?
  let i' ← req i.asOptNum?
  let index := i'.getD (PyNum.int ((s.length : Int) - 1))
  if geLen index s.length then throw (.args (.num (.int (-1))))
  let r ← hostE (strRFind s search (.int (toInt index + search.length)))
  pure (.num (.int r), none)

/-- library.py:1628-1630 -/
def stringRepeatH (v : List HVal) : Except (Fail PyNum) (BodyR PyNum) := do
  let (a, c) ← req (list2 v)
  let s ← req a.asStr?
  let count ← req c.asNum?
  let r ← hostE (strRepeat s (.int (toInt count)))
  pure (.str r, none)

/-- library.py:1663-1671 -/
def stringSliceH (v : List HVal) : Except (Fail PyNum) (BodyR PyNum) := do
  let (a, st, e) ← req (list3 v)
  let s ← req a.asStr?
  let start ← req st.asNum?
  let e' ← req e.asOptNum?
  let stop := e'.getD (PyNum.int s.length)
  if gtLen start s.length then throw (.args .null)
  if gtLen stop s.length then throw (.args .null)
  let r ← hostE (listSlice s.toList (.int (toInt start)) (.int (toInt stop)))
  pure (.str (String.ofList r), none)

/-- library.py:1063-1065 + value.py:469-484 (`ValueError` is caught there and becomes null; `TypeError` is not) -/
def numberParseIntH (v : List HVal) : Except (Fail PyNum) (BodyR PyNum) := do
  let (a, r) ← req (list2 v)
  let s ← req a.asStr?
  let radix ← req r.asNum?
  match intRadix s (.int (toInt radix)) with
  | .ok n => pure (.num (.int n), none)
  | .error .valueError => pure (.null, none)
  | .error e => throw (.host e)

/-- `row.get(field)` -/
def rowGet {N : Type} (row : Val N) (field : Val N) : Except (Fail N) (Val N) :=
  match row with
  | .obj kvs =>
    match field with
    | .str k => pure (match kvs.find? (·.1 == k) with | some p => p.2 | none => .null)
    | .arr _ => throw (.host .typeError)       -- unhashable
    | .obj _ => throw (.host .typeError)
    | _ => pure .null
  | _ => throw (.host .attributeError)

/-- the first-seen categories -/
def firstSeen {N : Type} (numEq : N → N → Bool) : List (Val N) → List (Val N) → List (Val N)
  | acc, [] => acc
  | acc, k :: ks => if acc.any (fun c => keyEq numEq c k) then firstSeen numEq acc ks else firstSeen numEq (acc ++ [k]) ks

/-- bucket rows by category key (first-seen order), keep the first `n` of each bucket (data.py:488-504) -/
def topRows {N : Type} (numEq : N → N → Bool) (n : Nat) (keyed : List (Val N × Val N)) : List (Val N) :=
  (firstSeen numEq [] (keyed.map (·.1))).flatMap
    (fun c => ((keyed.filter (fun p => keyEq numEq c p.1)).take n).map (·.2))

def rowKey {N : Type} (fields : List (Val N)) (r : Val N) : Except (Fail N) (Val N × Val N) := do
  let ks ← fields.mapM (rowGet r)
  pure (Val.arr ks, r)

def categoryKeys {N : Type} (rows : List (Val N)) : Val N → Except (Fail N) (List (Val N × Val N))
  | .null => pure (rows.map (fun r => (Val.str "", r)))
  | .arr fields => rows.mapM (rowKey fields)
  | _ => throw (.host .typeError)

/-- library.py:473-475 + data.py:473-504: `range(min(int(count), len(rows)))` -/
def dataTopH (v : List HVal) : Except (Fail PyNum) (BodyR PyNum) := do
  let (a, c, cf) ← req (list3 v)
  let rows ← req a.asArr?
  let count ← req c.asNum?
  let keyed ← categoryKeys rows cf
  let n ← hostE (rangeLen (.int (toInt count)))      -- the `min` with the bucket size is the `take`
  pure (.arr (topRows pyEq n keyed), none)

/-! ## the same functions over one number type (`Rat`) -/

def geLenA (x : Rat) (n : Nat) : Bool := !(decide (x < ((n : Int) : Rat)))
def gtLenA (x : Rat) (n : Nat) : Bool := !(decide (x ≤ ((n : Int) : Rat)))
def ratEq (a b : Rat) : Bool := a == b
def ofI (n : Int) : AVal := .num (n : Rat)

def idxA {α : Type} (xs : List α) (i : Int) : Except (Fail Rat) α :=
  match (normIndex xs.length i).bind (xs[·]?) with
  | some x => pure x
  | none => throw (.host .indexError)

def atIndexA (len : Nat) (i : Int) : Except (Fail Rat) Nat :=
  match normIndex len i with
  | some k => pure k
  | none => throw (.host .indexError)

def arrayDeleteA (v : List AVal) : Except (Fail Rat) (BodyR Rat) := do
  let (a, i) ← req (list2 v)
  let xs ← req a.asArr?
  let index ← req i.asNum?
  if geLenA index xs.length then throw (.args .null)
  let k ← atIndexA xs.length (ratTrunc index)
  pure (.null, some (xs.eraseIdx k))

def arrayGetA (v : List AVal) : Except (Fail Rat) (BodyR Rat) := do
  let (a, i) ← req (list2 v)
  let xs ← req a.asArr?
  let index ← req i.asNum?
  if geLenA index xs.length then throw (.args .null)
  let x ← idxA xs (ratTrunc index)
  pure (x, none)

def arraySetA (v : List AVal) : Except (Fail Rat) (BodyR Rat) := do
  let (a, i, value) ← req (list3 v)
  let xs ← req a.asArr?
  let index ← req i.asNum?
  if geLenA index xs.length then throw (.args .null)
  let k ← atIndexA xs.length (ratTrunc index)
  pure (value, some (xs.set k value))

def arraySliceA (v : List AVal) : Except (Fail Rat) (BodyR Rat) := do
  let (a, s, e) ← req (list3 v)
  let xs ← req a.asArr?
  let start ← req s.asNum?
  let e' ← req e.asOptNum?
  let stop := e'.getD ((xs.length : Int) : Rat)
  if gtLenA start xs.length then throw (.args .null)
  if gtLenA stop xs.length then throw (.args .null)
  pure (.arr (sliceI xs (ratTrunc start) (ratTrunc stop)), none)

def arrayNewSizeA (v : List AVal) : Except (Fail Rat) (BodyR Rat) := do
  let (s, value) ← req (list2 v)
  let size ← req s.asNum?
  pure (.arr (List.replicate (ratTrunc size).toNat value), none)

def searchA (xs : List AVal) (value : AVal) : List Int → Except (Fail Rat) Int
  | [] => pure (-1)
  | ix :: rest => do
      let x ← idxA xs ix
      if cmpEq ratEq x value then pure ix else searchA xs value rest

def arrayIndexOfA (v : List AVal) : Except (Fail Rat) (BodyR Rat) := do
  let (a, value, i) ← req (list3 v)
  let xs ← req a.asArr?
  let index ← req i.asNum?
  if geLenA index xs.length then throw (.args (ofI (-1)))
  if typeName value == "function" then throw (.host .typeError)
  let r ← searchA xs value (upFrom (ratTrunc index) xs.length)
  pure (ofI r, none)

def arrayLastIndexOfA (v : List AVal) : Except (Fail Rat) (BodyR Rat) := do
  let (a, value, i) ← req (list3 v)
  let xs ← req a.asArr?
  let i' ← req i.asOptNum?
  let index := i'.getD ((((xs.length : Int) - 1 : Int)) : Rat)
  if geLenA index xs.length then throw (.args (ofI (-1)))
  if typeName value == "function" then throw (.host .typeError)
  let r ← searchA xs value (downFrom (ratTrunc index))
  pure (ofI r, none)

def stringCharCodeAtA (v : List AVal) : Except (Fail Rat) (BodyR Rat) := do
  let (a, i) ← req (list2 v)
  let s ← req a.asStr?
  let index ← req i.asNum?
  if geLenA index s.length then throw (.args .null)
  let c ← idxA s.toList (ratTrunc index)
  pure (ofI c.toNat, none)

def chrA (n : Int) : Except (Fail Rat) Char :=
  if 0 ≤ n ∧ n < 0x110000 ∧ ¬ (0xd800 ≤ n ∧ n < 0xe000) then pure (Char.ofNat n.toNat) else throw (.host .valueError)

def charCodeOkA : AVal → Except (Fail Rat) Rat
  | .num x => if !(((ratTrunc x : Int) : Rat) == x) || decide (x < ((0 : Int) : Rat)) then throw (Fail.args .null) else pure x
  | _ => throw (Fail.args .null)

def stringFromCharCodeA (codes : List AVal) : Except (Fail Rat) (BodyR Rat) := do
  let nums ← codes.mapM charCodeOkA
  let cs ← nums.mapM (fun x => chrA (ratTrunc x))
  pure (.str (String.ofList cs), none)

def stringIndexOfA (v : List AVal) : Except (Fail Rat) (BodyR Rat) := do
  let (a, b, i) ← req (list3 v)
  let s ← req a.asStr?
  let search ← req b.asStr?
  let index ← req i.asNum?
  if geLenA index s.length then throw (.args (ofI (-1)))
  pure (ofI (findI s.toList search.toList (ratTrunc index)), none)

def stringLastIndexOfA (v : List AVal) : Except (Fail Rat) (BodyR Rat) := do
  let (a, b, i) ← req (list3 v)
  let s ← req a.asStr?
  let search ← req b.asStr?
  let i' ← req i.asOptNum?
  let index := i'.getD ((((s.length : Int) - 1 : Int)) : Rat)
  if geLenA index s.length then throw (.args (ofI (-1)))
  pure (ofI (rfindI s.toList search.toList (ratTrunc index + search.length)), none)

def stringRepeatA (v : List AVal) : Except (Fail Rat) (BodyR Rat) := do
  let (a, c) ← req (list2 v)
  let s ← req a.asStr?
  let count ← req c.asNum?
  pure (.str (String.join (List.replicate (ratTrunc count).toNat s)), none)

def stringSliceA (v : List AVal) : Except (Fail Rat) (BodyR Rat) := do
  let (a, st, e) ← req (list3 v)
  let s ← req a.asStr?
  let start ← req st.asNum?
  let e' ← req e.asOptNum?
  let stop := e'.getD ((s.length : Int) : Rat)
  if gtLenA start s.length then throw (.args .null)
  if gtLenA stop s.length then throw (.args .null)
  pure (.str (String.ofList (sliceI s.toList (ratTrunc start) (ratTrunc stop))), none)

def numberParseIntA (v : List AVal) : Except (Fail Rat) (BodyR Rat) := do
  let (a, r) ← req (list2 v)
  let s ← req a.asStr?
  let radix ← req r.asNum?
  let r := ratTrunc radix
  if 2 ≤ r ∧ r ≤ 36 then
    match parseIntText s r.toNat with
    | some n => pure (ofI n, none)
    | none => pure (.null, none)
  else pure (.null, none)

def dataTopA (v : List AVal) : Except (Fail Rat) (BodyR Rat) := do
  let (a, c, cf) ← req (list3 v)
  let rows ← req a.asArr?
  let count ← req c.asNum?
  let keyed ← categoryKeys rows cf
  pure (.arr (topRows ratEq (ratTrunc count).toNat keyed), none)

/-! ## the call wrapper (runtime.py:241-251) around validate + body -/

/-- names of the modelled functions, their failure value (third argument of `value_args_validate`) -/
def failInt (name : String) : Bool :=
  name == "arrayIndexOf" || name == "arrayLastIndexOf" || name == "stringIndexOf" || name == "stringLastIndexOf"

def modelled : List String :=
  ["arrayDelete", "arrayGet", "arraySet", "arraySlice", "arrayNewSize", "arrayIndexOf", "arrayLastIndexOf", "stringCharCodeAt",
   "stringFromCharCode", "stringIndexOf", "stringLastIndexOf", "stringRepeat", "stringSlice", "numberParseInt", "dataTop"]

/-- the `_*_ARGS` table each function validates against (`none`: the function has no argument model) -/
def modelName : String → Option String
  | "arrayDelete" => some "_ARRAY_DELETE_ARGS"
  | "arrayGet" => some "_ARRAY_GET_ARGS"
  | "arraySet" => some "_ARRAY_SET_ARGS"
  | "arraySlice" => some "_ARRAY_SLICE_ARGS"
  | "arrayNewSize" => some "_ARRAY_NEW_SIZE_ARGS"
  | "arrayIndexOf" => some "_ARRAY_INDEX_OF_ARGS"
  | "arrayLastIndexOf" => some "_ARRAY_LAST_INDEX_OF_ARGS"
  | "stringCharCodeAt" => some "_STRING_CHAR_CODE_AT_ARGS"
  | "stringIndexOf" => some "_STRING_INDEX_OF_ARGS"
  | "stringLastIndexOf" => some "_STRING_LAST_INDEX_OF_ARGS"
  | "stringRepeat" => some "_STRING_REPEAT_ARGS"
  | "stringSlice" => some "_STRING_SLICE_ARGS"
  | "numberParseInt" => some "_NUMBER_PARSE_INT_ARGS"
  | "dataTop" => some "_DATA_TOP_ARGS"
  | _ => none

def bodyH : String → List HVal → Except (Fail PyNum) (BodyR PyNum)
  | "arrayDelete" => arrayDeleteH
  | "arrayGet" => arrayGetH
  | "arraySet" => arraySetH
  | "arraySlice" => arraySliceH
  | "arrayNewSize" => arrayNewSizeH
  | "arrayIndexOf" => arrayIndexOfH
  | "arrayLastIndexOf" => arrayLastIndexOfH
  | "stringCharCodeAt" => stringCharCodeAtH
  | "stringFromCharCode" => stringFromCharCodeH
  | "stringIndexOf" => stringIndexOfH
  | "stringLastIndexOf" => stringLastIndexOfH
  | "stringRepeat" => stringRepeatH
  | "stringSlice" => stringSliceH
  | "numberParseInt" => numberParseIntH
  | "dataTop" => dataTopH
  | _ => fun _ => badShape

def bodyA : String → List AVal → Except (Fail Rat) (BodyR Rat)
  | "arrayDelete" => arrayDeleteA
  | "arrayGet" => arrayGetA
  | "arraySet" => arraySetA
  | "arraySlice" => arraySliceA
  | "arrayNewSize" => arrayNewSizeA
  | "arrayIndexOf" => arrayIndexOfA
  | "arrayLastIndexOf" => arrayLastIndexOfA
  | "stringCharCodeAt" => stringCharCodeAtA
  | "stringFromCharCode" => stringFromCharCodeA
  | "stringIndexOf" => stringIndexOfA
  | "stringLastIndexOf" => stringLastIndexOfA
  | "stringRepeat" => stringRepeatA
  | "stringSlice" => stringSliceA
  | "numberParseInt" => numberParseIntA
  | "dataTop" => dataTopA
  | _ => fun _ => badShape

/-- the call wrapper: `ValueArgsError` → its failure value, any other exception → null; on failure the arguments are untouched
    (every modelled mutator mutates as its last step) -/
def wrap {N : Type} (args : List (Val N)) : Except (Fail N) (BodyR N) → Out N
  | .ok (r, none) => ⟨r, args⟩
  | .ok (r, some xs') => ⟨r, args.set 0 (.arr xs')⟩
  | .error (.args ret) => ⟨ret, args⟩
  | .error (.host _) => ⟨.null, args⟩

/-- a library call with a given argument-model table and body -/
def callWith {N : Type} (validateN : List Gen.ArgModel → List (Val N) → Option (List (Val N))) (failRet : Val N)
    (table : Option (List Gen.ArgModel)) (body : List (Val N) → Except (Fail N) (BodyR N)) (args : List (Val N)) : Out N :=
  match table with
  | none => wrap args (body args)
  | some ms =>
    match validateN ms args with
    | none => ⟨failRet, args⟩
    | some vargs => wrap args (body vargs)

/-- host-level library call through the call wrapper -/
def callH (name : String) (args : List HVal) : Out PyNum :=
  callWith validateH (if failInt name then .num (.int (-1)) else .null) ((modelName name).map argModel) (bodyH name) args

/-- one-number-type library call -/
def callA (name : String) (args : List AVal) : Out Rat :=
  callWith validateA (if failInt name then ofI (-1) else .null) ((modelName name).map argModel) (bodyA name) args

def absOut (o : Out PyNum) : Out Rat := ⟨absV o.result, o.args.map absV⟩

/-! ## value_round_number (value.py:434-447) with IEEE rounding as an abstract function `rnd` -/

/-- `10 ** digits`: an exact int for an int digit count, the double nearest to it for a float one -/
def pow10H (rnd : Rat → Rat) : PyNum → PyNum
  | .int d => if 0 ≤ d then .int (10 ^ d.toNat) else .float (rnd (1 / (10 ^ (-d).toNat : Int)))
  | .float d => .float (rnd (if 0 ≤ ratTrunc d then ((10 ^ (ratTrunc d).toNat : Int) : Rat) else 1 / ((10 ^ (-(ratTrunc d)).toNat : Int) : Rat)))

/-- `a * b` : int*int exact, otherwise the ints are converted (rounded) first and the product is rounded -/
def mulH (rnd : Rat → Rat) : PyNum → PyNum → PyNum
  | .int a, .int b => .int (a * b)
  | a, b => .float (rnd (rnd a.abs * rnd b.abs))

/-- `a + 0.5` / `a - 0.5` (always a float) -/
def addHalfH (rnd : Rat → Rat) (a : PyNum) (h : Rat) : Rat := rnd (rnd a.abs + h)

/-- `n / m` for an int `n`: int/int is the correctly rounded exact quotient, int/float converts first -/
def divH (rnd : Rat → Rat) (n : Int) : PyNum → Rat
  | .int m => rnd ((n : Rat) / (m : Rat))
  | .float m => rnd (rnd (n : Rat) / m)

/-- `int(value * multiplier + (0.5 if value >= 0 else -0.5)) / multiplier` -/
def roundNumberH (rnd : Rat → Rat) (value digits : PyNum) : Rat :=
  let m := pow10H rnd digits
  let h : Rat := if 0 ≤ value.abs then 1 / 2 else -(1 / 2)
  divH rnd (ratTrunc (addHalfH rnd (mulH rnd value m) h)) m

/-- the same over one number type: every operation rounds its exact result once -/
def roundNumberA (rnd : Rat → Rat) (value digits : Rat) : Rat :=
  let m : Rat := if 0 ≤ ratTrunc digits then ((10 ^ (ratTrunc digits).toNat : Int) : Rat) else 1 / ((10 ^ (-(ratTrunc digits)).toNat : Int) : Rat)
  let h : Rat := if 0 ≤ value then 1 / 2 else -(1 / 2)
  rnd ((ratTrunc (rnd (rnd (value * m) + h)) : Rat) / m)

/-! ## the operators `*` and `**` (runtime.py: `float(left_value) * right_value`, `float(left_value) ** right_value`) -/

/-- `float(x)`, and the implicit conversion of an int operand of a float operation: an int is rounded to the nearest double -/
def toFloatH (rnd : Rat → Rat) : PyNum → Rat
  | .int n => rnd (n : Rat)
  | .float q => q

/-- `l * r` as the runtime computes it now: always a float product -/
def opMulH (rnd : Rat → Rat) (a b : PyNum) : Rat := rnd (toFloatH rnd a * toFloatH rnd b)
def opMulA (rnd : Rat → Rat) (a b : Rat) : Rat := rnd (rnd a * rnd b)

/-- before the fix (F24): int * int was an exact arbitrary-precision integer -/
def opMulUnfixedH (rnd : Rat → Rat) : PyNum → PyNum → Rat
  | .int a, .int b => ((a * b : Int) : Rat)
  | a, b => rnd (toFloatH rnd a * toFloatH rnd b)

/-- `l ** r` over an abstract double power function (`none` = OverflowError / ZeroDivisionError / complex → null) -/
def opPowH (pw : Rat → Rat → Option Rat) (rnd : Rat → Rat) (a b : PyNum) : Option Rat := pw (toFloatH rnd a) (toFloatH rnd b)
def opPowA (pw : Rat → Rat → Option Rat) (rnd : Rat → Rat) (a b : Rat) : Option Rat := pw (rnd a) (rnd b)

/-- a host float holds a double -/
def IsDouble (rnd : Rat → Rat) : PyNum → Prop
  | .int _ => True
  | .float q => rnd q = q

end LibH
