import BareModel.Syntax
import BareModel.ExprScan
import BareModel.ExprParse

/-!
# Canonical printer for expressions, and the class of trees it can print

`printExpr : Expr → String` writes a tree as BareScript expression text; `printable : Expr → Bool`
(`C02.Printable e := printable e = true`) says for which trees that text is parsed back to the same tree by
`ExprParse.parseExpr` (theorem `C02.parse_print` in `BareProofs/C02Print.lean`, for all printable trees of any size).
Every condition of `printable` is forced by what `parse_expression` (parser.py) does; each one is justified where it is
defined.  `C02.parse_in_image` shows that every tree the parser returns on *any* text satisfies all of them except one
(`bracketOk`'s "the name does not end in a backslash", see there), so the class is the parser's image up to that single
context-dependent corner (`C02.printable_of_parse_partial`).

Layout of the canonical text:

* binary node: `left ++ " " ++ op ++ " " ++ right`; no parentheses are ever invented — a source parenthesis is an
  explicit `group` node of the tree, printed `"(" ++ inner ++ ")"`;
* unary node: `op ++ operand` (`!x`, `-x`, `--x`, `-5`);
* call: `name(arg, arg, …)`, `name()` without arguments;
* variable: the identifier itself if it matches `[A-Za-z_]\w*` (Unicode `\w`), otherwise the bracketed form `[name]` with `\` and
  `]` escaped by a backslash;
* number: decimal numeral of the exact rational: `123`, `1.5`, `0.001` (no sign, no exponent, shortest fraction);
* string: single quotes, `\` and `'` escaped by a backslash (every other character, newline included, verbatim).
-/

namespace Print
open ExprScan ExprParse

/-! ## numbers -/

/-- the decimal digit character of `d < 10` (core's `Nat.digitChar`) -/
abbrev digitChar (d : Nat) : Char := Nat.digitChar d

/-- decimal digits of a natural number, most significant first, no leading zero (`0` is `"0"`): core's `Nat.toDigits 10`,
i.e. the characters of `toString n` -/
def natDigits (n : Nat) : List Char := Nat.toDigits 10 n

/-- exactly `k` decimal digits of `x` (the `k` low-order ones), most significant first, zero-padded -/
def fixDigits : Nat → Nat → List Char
  | 0, _ => []
  | k + 1, x => fixDigits k (x / 10) ++ [digitChar (x % 10)]

/-- least `j ≥ k` with `den ∣ 10 ^ j`, searching at most `fuel + 1` candidates -/
def decExpFrom (den : Nat) : Nat → Nat → Option Nat
  | 0, k => if 10 ^ k % den = 0 then some k else none
  | f + 1, k => if 10 ^ k % den = 0 then some k else decExpFrom den f (k + 1)

/-- the number of fraction digits of the shortest finite decimal expansion of `q`, if `q ≥ 0` and it has one.
`den ∣ 10 ^ k` forces `den = 2^a·5^b` with `a, b ≤ log₂ den`, so `log₂ den` is a sufficient search bound
(`C02.decExp_complete`). -/
def decExp (q : Rat) : Option Nat :=
  if q.num < 0 then none else decExpFrom q.den q.den.log2 0

/-- A number literal.  `_R_EXPR_NUMBER` is `[+-]?\d+(?:\.\d*)?(?:e[+-]\d+)?`, but `_parse_unary_expression` tries the unary
operator `-` *before* the number pattern, so a literal is never negative (`-5` is `unary - (number 5)`), and its value is
`digits · 10^e`: a non-negative rational with a finite decimal expansion.  Those are printed `ip` or `ip.fp` with the
shortest fraction; anything else (not printable) is written `num/den`, which is not a literal. -/
def printNum (q : Rat) : List Char :=
  match decExp q with
  | some 0 => natDigits q.num.toNat
  | some (k + 1) =>
    let m := q.num.toNat * (10 ^ (k + 1) / q.den)
    natDigits (m / 10 ^ (k + 1)) ++ '.' :: fixDigits (k + 1) (m % 10 ^ (k + 1))
  | none => (if q.num < 0 then ['-'] else []) ++ natDigits q.num.natAbs ++ '/' :: natDigits q.den

/-- printable numbers: exactly the values of unsigned literals (`C02.numOk_decVal`) -/
def numOk (q : Rat) : Bool := (decExp q).isSome

/-! ## strings and names -/

/-- inverse of `ExprScan.unescape q` (`re.sub(r'\\([\\q])', r'\1', …)`): a backslash in front of every backslash and
every `q` -/
def escape (q : Char) : List Char → List Char
  | [] => []
  | c :: t => if c = '\\' || c = q then '\\' :: c :: escape q t else c :: escape q t

/-- `'…'` with `\` and `'` escaped; `_R_EXPR_STRING` accepts every other character (newlines too) verbatim, so every
string is printable -/
def printStr (s : String) : List Char := '\'' :: (escape '\'' s.toList ++ ['\''])

/-- `[A-Za-z_]\w*` (Unicode `\w`, as in `ExprScan`) -/
def isIdent : List Char → Bool
  | [] => false
  | c :: w => isIdStart c && w.all isWord

/-- Names that can be written `[name]` (pattern `\[\s*((?:\\\]|[^\]])+)\s*\]`, then `\\([\\\]])` → `\1`):
* not empty (`+`; `[]` is a syntax error);
* not starting with a white-space character, because the `\s*` behind `[` swallows it — except that a name that *is*
  one white-space character is what `[ ]` denotes (the engine gives one character back to the group);
* not ending in a backslash: the pattern has the alternative `\\\]` but **no** alternative `\\\\`, so in `[a\\]` the
  second backslash pairs with the `]` whenever another `]` follows anywhere later in the text
  (`ff([a\\], [b])` is a call with ONE argument, the variable `a\], [b`); only when no `]` follows does the engine
  backtrack and `[a\\]` (or `[a\]`) mean the name `a\`.  Such names are in the parser's image but cannot be written
  in a context-independent way, so they are excluded here (this is the one condition `C02.parse_in_image` does not
  give; `bracketImg` is `bracketOk` without it). -/
def bracketOk : List Char → Bool
  | [] => false
  | [c] => c != '\\'
  | c :: t => !isPySpace c && t.getLast? != some '\\'

/-- `bracketOk` without its last condition: exactly the names `_R_EXPR_VARIABLE_EX` can yield (`C02.parse_in_image`) -/
def bracketImg : List Char → Bool
  | [] => false
  | [_] => true
  | c :: _ => !isPySpace c

/-- Identifiers are `Name`s: the parser applies `Name.ofString` to the scanned text, which turns the spelling of a
generated name (`__bareScriptIf7`) into `Name.gen`; so `Name.user "__bareScriptIf7"` is never produced, and a name is
printable only if its rendering reads back as itself. -/
def nameOk (n : Name) : Bool := decide (Name.ofString n.render = n)

/-- A variable is an identifier (`null`, `true`, `false`, `if`, … included: the expression parser has no keywords, they
all parse to `variable`) or a bracketed name. -/
def varOk (n : Name) : Bool := nameOk n && (isIdent n.render.toList || bracketOk n.render.toList)

/-- the variable names in the parser's image (`varOk` plus the bracketed names that end in a backslash) -/
def varImg (n : Name) : Bool := nameOk n && (isIdent n.render.toList || bracketImg n.render.toList)

/-- A function name must match `[A-Za-z_]\w*` of `_R_EXPR_FUNCTION_OPEN` (there is no bracketed form for calls). -/
def fnOk (n : Name) : Bool := nameOk n && isIdent n.render.toList

def printVar (n : Name) : List Char :=
  let cs := n.render.toList
  if isIdent cs then cs else '[' :: (escape ']' cs ++ [']'])

/-! ## trees -/

mutual
/-- the canonical text of a tree, as a character list -/
def printL : Expr → List Char
  | .number q => printNum q
  | .string s => printStr s
  | .variable n => printVar n
  | .function n args => n.render.toList ++ '(' :: (printArgsL args ++ [')'])
  | .binary op l r => printL l ++ ' ' :: (op.text.toList ++ ' ' :: printL r)
  | .unary op e => op.text.toList ++ printL e
  | .group e => '(' :: (printL e ++ [')'])
/-- arguments: the first one bare … -/
def printArgsL : List Expr → List Char
  | [] => []
  | a :: rest => printL a ++ printMoreL rest
/-- … every further one behind `", "` -/
def printMoreL : List Expr → List Char
  | [] => []
  | a :: rest => ',' :: ' ' :: (printL a ++ printMoreL rest)
end

/-- the canonical text of a tree -/
def printExpr (e : Expr) : String := String.ofList (printL e)

/-! ### the same token sequence with a pad of blanks in front of every token (inhabitants of `C02.Spaced`; the
correspondence stream sends these texts to the real parser too) -/

mutual
/-- the canonical token sequence with the pad `p` in front of *every* token -/
def printPad (p : List Char) : Expr → List Char
  | .number q => p ++ printNum q
  | .string s => p ++ printStr s
  | .variable n => p ++ printVar n
  | .function n args => p ++ (n.render.toList ++ (p ++ '(' :: printPadArgs p args))
  | .binary op l r => printPad p l ++ (p ++ (op.text.toList ++ printPad p r))
  | .unary op e => p ++ (op.text.toList ++ printPad p e)
  | .group e => p ++ '(' :: (printPad p e ++ (p ++ [')']))
def printPadArgs (p : List Char) : List Expr → List Char
  | [] => p ++ [')']
  | a :: rest => printPad p a ++ printPadMore p rest
def printPadMore (p : List Char) : List Expr → List Char
  | [] => p ++ [')']
  | a :: rest => p ++ ',' :: (printPad p a ++ printPadMore p rest)
end

/-- a chain operand: what `_parse_unary_expression` can return (never a bare binary node) -/
def isOperandB : Expr → Bool
  | .binary _ _ _ => false
  | _ => true

/-- left child of a binary node: a bare binary child must have precedence ≥ the node's (left associativity:
`a - b - c` is `(a - b) - c`; the re-ordering loop of `_parse_binary_expression` never leaves a lower-precedence
operator below a higher one, `C02.chain_wf`) -/
def precOkL (op : BinOp) : Expr → Bool
  | .binary q _ _ => decide (prec op ≤ prec q)
  | _ => true

/-- right child of a binary node: a bare binary child must have strictly higher precedence (a tree `a - (b - c)` without
a `group` node is not the parse of any text: parentheses in the source always become `group` nodes) -/
def precOkR (op : BinOp) : Expr → Bool
  | .binary q _ _ => decide (prec op < prec q)
  | _ => true

mutual
/-- the trees `printExpr` prints faithfully: number / variable / function names as above; at every binary node the
precedence conditions of `ExprParse.WFPrec`; the operand of a unary operator is a chain operand (`-a ** b` is
`(-a) ** b`, so `unary - (binary ** a b)` is not the parse of any text); everything hereditarily (inside groups, call
arguments, unary operands). -/
def printable : Expr → Bool
  | .number q => numOk q
  | .string _ => true
  | .variable n => varOk n
  | .function n args => fnOk n && printableArgs args
  | .binary op l r => printable l && printable r && precOkL op l && precOkR op r
  | .unary _ e => isOperandB e && printable e
  | .group e => printable e
def printableArgs : List Expr → Bool
  | [] => true
  | a :: rest => printable a && printableArgs rest
end

end Print

namespace C02

/-- `e` is in the printable class (decidable: it is a Boolean computation) -/
def Printable (e : Expr) : Prop := Print.printable e = true

instance (e : Expr) : Decidable (Printable e) := inferInstanceAs (Decidable (Print.printable e = true))

end C02
