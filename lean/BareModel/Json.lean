/-!
# Json — model of `value_json` / `jsonStringify` / `jsonParse` (property C14)

Strings are `List Char` (`Str`): every Lean `Char` is a Unicode *scalar value*, so lone surrogates — which a Python
`str` can hold and `json.dumps` escapes as a single `\udXXX` — are outside the model (generators exclude them).

Numbers (`JNum`) are modelled by what `float.__repr__` / `int.__repr__` print, without modelling the shortest
round-trip algorithm itself (trusted base):

* `int n`        a Python `int`                                        — stage-1 text `-?D+`
* `fint neg n`   an integral `float` with |x| < 1e16 (incl. `-0.0`)     — stage-1 text `-?D+.0`
* `dec t`        any other finite `float`; `t` is its `repr`            — stage-1 text `t`, grammar `reprDec`

Two layers:

* **mirror** — exactly the two stages of `value_json`: stage 1 `json.dumps(sort_keys, ensure_ascii, separators, indent)`
  with numbers written by `repr` (`stage1`), stage 2 the clean-up substitution
  `("(?:[^"\\]|\\.)*")|\.0+(?=[,}\]\s]|$)` as a hand-written three-mode scanner (`clean`); `mirrorEncode = clean ∘ stage1`.
* **spec** — `specEncode` writes integral numbers without a fraction directly; `decode` is a standard JSON reader
  (RFC 8259 grammar, `\uXXXX` + surrogate pairs, integers to `Int`, every other number kept as its decimal text).
-/

namespace Json

abbrev Str := List Char

inductive JNum where
  | int (n : Int)
  | fint (neg : Bool) (n : Nat)
  | dec (text : Str)
deriving DecidableEq, Repr

inductive JValue where
  | null
  | bool (b : Bool)
  | num (n : JNum)
  | str (s : Str)
  | arr (xs : List JValue)
  | obj (kvs : List (Str × JValue))
deriving Repr

/-! ## number text -/

def natText (n : Nat) : Str := Nat.toDigits 10 n

def intText : Int → Str
  | .ofNat n => natText n
  | .negSucc n => '-' :: natText (n + 1)

def signText (neg : Bool) : Str := if neg then ['-'] else []

/-- what `repr` prints (stage 1): integral floats carry `.0` -/
def numRepr : JNum → Str
  | .int n => intText n
  | .fint neg n => signText neg ++ natText n ++ ['.', '0']
  | .dec t => t

/-- what the property asks for: integral numbers without a fraction -/
def numSpec : JNum → Str
  | .int n => intText n
  | .fint neg n => signText neg ++ natText n
  | .dec t => t

/-- the value a number denotes, as far as the property needs it: an integer, or the decimal text of a non-integer
(`repr` is injective on floats — shortest round trip — so equal text ⇔ equal float) -/
def normNum : JNum → JNum
  | .int n => .int n
  | .fint neg n => .int (if neg then -(n : Int) else (n : Int))
  | .dec t => .dec t

def isDigit (c : Char) : Bool := c.isDigit

def takeDigits : Str → Str × Str
  | [] => ([], [])
  | c :: cs => if isDigit c then ((takeDigits cs).1.cons c, (takeDigits cs).2) else ([], c :: cs)

def allDigits : Str → Bool
  | [] => true
  | c :: cs => isDigit c && allDigits cs

/-- JSON `int` part: `0 | [1-9]D*` -/
def validInt : Str → Bool
  | [] => false
  | [c] => isDigit c
  | c :: d :: ds => isDigit c && c != '0' && allDigits (d :: ds)

def stripSign : Str → Str
  | [] => []
  | c :: r => if c = '-' then r else c :: r

/-- `e[+-]DD+` — the exponent as `repr` prints it -/
def reprExp : Str → Bool
  | e :: s :: d1 :: d2 :: ds => e == 'e' && (s == '+' || s == '-') && isDigit d1 && isDigit d2 && allDigits ds
  | _ => false

/-- what may follow the integer digits: `\.D+` (non-zero fraction) or, after a single digit, `(\.D+)?e[+-]DD+` -/
def reprTail (one : Bool) : Str → Bool
  | [] => false
  | c :: r =>
    if c = '.' then
      !(takeDigits r).1.isEmpty &&
        (if (takeDigits r).2.isEmpty then (takeDigits r).1.any (· != '0') else one && reprExp (takeDigits r).2)
    else if c = 'e' then one && reprExp (c :: r)
    else false

/-- grammar of the `repr` of a finite float that is *not* printed as `D+.0`:
`-?D+\.D+` with a non-zero fraction digit, or `-?D(\.D+)?e[+-]DD+` (assumption of the trusted base) -/
def reprDec (t : Str) : Bool :=
  validInt (takeDigits (stripSign t)).1 &&
    reprTail ((takeDigits (stripSign t)).1.length == 1) (takeDigits (stripSign t)).2

/-! ## strings: `ensure_ascii` escaping -/

def hexDigit (n : Nat) : Char :=
  if n < 10 then Char.ofNat (48 + n) else Char.ofNat (87 + n)

def hex4 (n : Nat) : Str :=
  [hexDigit (n / 4096 % 16), hexDigit (n / 256 % 16), hexDigit (n / 16 % 16), hexDigit (n % 16)]

/-- `json.encoder.ESCAPE_ASCII`: everything outside `' '..'~'`, and `"` and `\`, is escaped -/
def escChar (c : Char) : Str :=
  if c = '"' then ['\\', '"']
  else if c = '\\' then ['\\', '\\']
  else if c = '\n' then ['\\', 'n']
  else if c = '\r' then ['\\', 'r']
  else if c = '\t' then ['\\', 't']
  else if c = Char.ofNat 8 then ['\\', 'b']
  else if c = Char.ofNat 12 then ['\\', 'f']
  else if 0x20 ≤ c.toNat ∧ c.toNat < 0x7f then [c]
  else if c.toNat < 0x10000 then '\\' :: 'u' :: hex4 c.toNat
  else '\\' :: 'u' :: hex4 (0xd800 + (c.toNat - 0x10000) / 1024) ++ '\\' :: 'u' :: hex4 (0xdc00 + (c.toNat - 0x10000) % 1024)

def escBody : Str → Str
  | [] => []
  | c :: cs => escChar c ++ escBody cs

def encStr (s : Str) : Str := '"' :: escBody s ++ ['"']

/-! ## stage 1: `json.dumps(sort_keys=True, ensure_ascii=True, separators, indent)` -/

def insertKey {α} (p : Str × α) : List (Str × α) → List (Str × α)
  | [] => [p]
  | q :: qs => if q.1 < p.1 then q :: insertKey p qs else p :: q :: qs

/-- `sorted(dct.items())` — keys are unique, so only keys are compared; code-point order like Python `str`;
stable (an inserted pair goes before later pairs with an equal key) -/
def sortKeys {α} : List (Str × α) → List (Str × α)
  | [] => []
  | p :: ps => insertKey p (sortKeys ps)

/-- newline + indentation of one level (`indent = 0` models `None`/non-positive: compact form) -/
def nl (ind lvl : Nat) : Str := if ind = 0 then [] else '\n' :: List.replicate (ind * lvl) ' '

def colon (ind : Nat) : Str := if ind = 0 then [':'] else [':', ' ']

def joinItems (sep : Str) : List Str → Str
  | [] => []
  | [x] => x
  | x :: y :: xs => x ++ sep ++ joinItems sep (y :: xs)

def member (ind : Nat) (p : Str × Str) : Str := encStr p.1 ++ colon ind ++ p.2

mutual
def encWith (f : JNum → Str) (ind : Nat) : Nat → JValue → Str
  | _, .null => ['n', 'u', 'l', 'l']
  | _, .bool true => ['t', 'r', 'u', 'e']
  | _, .bool false => ['f', 'a', 'l', 's', 'e']
  | _, .num n => f n
  | _, .str s => encStr s
  | _, .arr [] => ['[', ']']
  | lvl, .arr (x :: xs) =>
      '[' :: nl ind (lvl + 1) ++ joinItems (',' :: nl ind (lvl + 1)) (encList f ind (lvl + 1) (x :: xs)) ++ nl ind lvl ++ [']']
  | _, .obj [] => ['{', '}']
  | lvl, .obj (p :: ps) =>
      '{' :: nl ind (lvl + 1) ++
        joinItems (',' :: nl ind (lvl + 1)) ((sortKeys (encMembers f ind (lvl + 1) (p :: ps))).map (member ind)) ++
        nl ind lvl ++ ['}']
def encList (f : JNum → Str) (ind : Nat) : Nat → List JValue → List Str
  | _, [] => []
  | lvl, x :: xs => encWith f ind lvl x :: encList f ind lvl xs
def encMembers (f : JNum → Str) (ind : Nat) : Nat → List (Str × JValue) → List (Str × Str)
  | _, [] => []
  | lvl, (k, v) :: kvs => (k, encWith f ind lvl v) :: encMembers f ind lvl kvs
end

/-- stage 1 of `value_json` -/
def stage1 (v : JValue) (ind : Nat) : Str := encWith numRepr ind 0 v

/-- **spec encoder** -/
def specEncode (v : JValue) (ind : Nat) : Str := encWith numSpec ind 0 v

/-! ## stage 2: the clean-up substitution as a scanner

`re.sub(r'("(?:[^"\\]|\\.)*")|\.0+(?=[,}\]\s]|$)', lambda m: m.group(1) or '', text)`:
at every position first try a whole string literal (copied), then `.0+` before a terminator (deleted), else copy
one character.  Both alternatives are deterministic (disjoint first characters; `0+` is greedy and the lookahead
cannot succeed after fewer zeros), so three modes and two pure lookaheads are exact. -/

/-- Python's `\s` for `str` patterns -/
def isSpace (c : Char) : Bool :=
  let n := c.toNat
  (9 ≤ n && n ≤ 13) || (28 ≤ n && n ≤ 32) || n == 0x85 || n == 0xa0 || n == 0x1680 || (0x2000 ≤ n && n ≤ 0x200a) ||
  n == 0x2028 || n == 0x2029 || n == 0x202f || n == 0x205f || n == 0x3000

def isTerm (c : Char) : Bool := c == ',' || c == '}' || c == ']' || isSpace c

/-- after an opening quote: does `(?:[^"\\]|\\.)*"` match?  (`esc`: the previous character was an unescaped backslash;
`.` does not match a newline) -/
def litClosesAux : Bool → Str → Bool
  | _, [] => false
  | true, c :: cs => if c = '\n' then false else litClosesAux false cs
  | false, c :: cs => if c = '"' then true else if c = '\\' then litClosesAux true cs else litClosesAux false cs

def litCloses (cs : Str) : Bool := litClosesAux false cs

/-- after the zeros: end of text or a terminator -/
def afterZeros : Str → Bool
  | [] => true
  | c :: cs => if c = '0' then afterZeros cs else isTerm c

/-- after a `.`: does `0+(?=[,}\]\s]|$)` match? -/
def dotZeroMatch : Str → Bool
  | [] => false
  | c :: cs => if c = '0' then afterZeros cs else false

inductive Mode where
  | out     -- between tokens
  | lit     -- inside a string literal that is known to close
  | esc     -- inside such a literal, after a backslash
  | zeros   -- deleting the zeros of a matched `.0+`
deriving DecidableEq, Repr

def clean : Mode → Str → Str
  | _, [] => []
  | .out, c :: cs =>
    if c = '"' then (if litCloses cs then '"' :: clean .lit cs else '"' :: clean .out cs)
    else if c = '.' then (if dotZeroMatch cs then clean .zeros cs else '.' :: clean .out cs)
    else c :: clean .out cs
  | .lit, c :: cs =>
    if c = '"' then '"' :: clean .out cs
    else if c = '\\' then '\\' :: clean .esc cs
    else c :: clean .lit cs
  | .esc, c :: cs => c :: clean .lit cs
  | .zeros, c :: cs => if c = '0' then clean .zeros cs else c :: clean .out cs

/-- **mirror encoder**: `value_json(v, indent)` -/
def mirrorEncode (v : JValue) (ind : Nat) : Str := clean .out (stage1 v ind)

/-! ## decoder (spec): standard JSON -/

def isWs (c : Char) : Bool := c == ' ' || c == '\n' || c == '\r' || c == '\t'

def skipWs : Str → Str
  | [] => []
  | c :: cs => if isWs c then skipWs cs else c :: cs

def hexVal (c : Char) : Option Nat :=
  let n := c.toNat
  if 48 ≤ n ∧ n ≤ 57 then some (n - 48)
  else if 97 ≤ n ∧ n ≤ 102 then some (n - 87)
  else if 65 ≤ n ∧ n ≤ 70 then some (n - 55)
  else none

def hex4Val (a b c d : Char) : Option Nat :=
  match hexVal a, hexVal b, hexVal c, hexVal d with
  | some a, some b, some c, some d => some (a * 4096 + b * 256 + c * 16 + d)
  | _, _, _, _ => none

def simpleEsc (e : Char) : Option Char :=
  if e = '"' then some '"' else if e = '\\' then some '\\' else if e = '/' then some '/'
  else if e = 'n' then some '\n' else if e = 'r' then some '\r' else if e = 't' then some '\t'
  else if e = 'b' then some (Char.ofNat 8) else if e = 'f' then some (Char.ofNat 12) else none

def consFst (c : Char) (r : Option (Str × Str)) : Option (Str × Str) :=
  match r with
  | some (s, rest) => some (c :: s, rest)
  | none => none

/-- second half of a surrogate pair: `\uXXXX` with a low surrogate; anything else would leave a lone surrogate, which has
no `Char` (outside the model) -/
def lowEsc (hi : Nat) : Str → Option (Char × Str)
  | x :: y :: a :: b :: c :: d :: cs3 =>
    if x = '\\' ∧ y = 'u' then
      match hex4Val a b c d with
      | none => none
      | some lo =>
        if 0xdc00 ≤ lo ∧ lo < 0xe000 then some (Char.ofNat (0x10000 + (hi - 0xd800) * 1024 + (lo - 0xdc00)), cs3)
        else none
    else none
  | _ => none

/-- after `\u` -/
def uEsc : Str → Option (Char × Str)
  | a :: b :: c :: d :: cs2 =>
    match hex4Val a b c d with
    | none => none
    | some hi =>
      if 0xd800 ≤ hi ∧ hi < 0xdc00 then lowEsc hi cs2
      else if 0xdc00 ≤ hi ∧ hi < 0xe000 then none
      else some (Char.ofNat hi, cs2)
  | _ => none

/-- one character or one escape sequence at the head of a literal body (the head is not the closing quote).
Raw control characters are rejected (`json.loads` is strict). -/
def escStep : Str → Option (Char × Str)
  | [] => none
  | c :: cs =>
    if c = '\\' then
      match cs with
      | [] => none
      | e :: cs1 =>
        if e = 'u' then uEsc cs1
        else match simpleEsc e with
          | some ch => some (ch, cs1)
          | none => none
    else if c.toNat < 0x20 then none
    else some (c, cs)

def unescF : Nat → Str → Option (Str × Str)
  | 0, _ => none
  | _ + 1, [] => none
  | f + 1, c :: cs =>
    if c = '"' then some ([], cs)
    else match escStep (c :: cs) with
      | none => none
      | some (ch, rest) => consFst ch (unescF f rest)

/-- the inside of a string literal after the opening quote → (decoded string, text after the closing quote);
every step consumes at least one character, so the length is enough fuel -/
def unesc (cs : Str) : Option (Str × Str) := unescF cs.length cs

def isNumChar (c : Char) : Bool := isDigit c || c == '-' || c == '+' || c == '.' || c == 'e' || c == 'E'

def spanNum : Str → Str × Str
  | [] => ([], [])
  | c :: cs => if isNumChar c then ((spanNum cs).1.cons c, (spanNum cs).2) else ([], c :: cs)

/-- `[eE][+-]?D+` -/
def jsonExp : Str → Bool
  | [] => false
  | e :: r =>
    (e == 'e' || e == 'E') &&
      match r with
      | [] => false
      | s :: ds => if s == '+' || s == '-' then (!ds.isEmpty && allDigits ds) else allDigits (s :: ds)

/-- `(\.D+)?([eE][+-]?D+)?` non-empty, whole text -/
def jsonTail : Str → Bool
  | [] => false
  | c :: r =>
    if c = '.' then !(takeDigits r).1.isEmpty && ((takeDigits r).2.isEmpty || jsonExp (takeDigits r).2)
    else jsonExp (c :: r)

/-- a whole number token `-?(0|[1-9]D*)(\.D+)?([eE][+-]?D+)?` → integer or decimal text -/
def parseNum (t : Str) : Option JNum :=
  if validInt (takeDigits (stripSign t)).1 then
    if (takeDigits (stripSign t)).2.isEmpty then
      some (.int (if t.head? = some '-' then -(Nat.ofDigitChars 10 (takeDigits (stripSign t)).1 0 : Int)
                  else (Nat.ofDigitChars 10 (takeDigits (stripSign t)).1 0 : Int)))
    else if jsonTail (takeDigits (stripSign t)).2 then some (.dec t) else none
  else none

/-- `null`, `true`, `false`, string, number — on text whose leading whitespace is already skipped -/
def parseAtom (cs : Str) : Option (JValue × Str) :=
  match cs with
  | [] => none
  | c :: r =>
    if c = 'n' then (match r with | 'u' :: 'l' :: 'l' :: r' => some (.null, r') | _ => none)
    else if c = 't' then (match r with | 'r' :: 'u' :: 'e' :: r' => some (.bool true, r') | _ => none)
    else if c = 'f' then (match r with | 'a' :: 'l' :: 's' :: 'e' :: r' => some (.bool false, r') | _ => none)
    else if c = '"' then
      match unesc r with
      | some (s, rest) => some (.str s, rest)
      | none => none
    else
      match parseNum (spanNum (c :: r)).1 with
      | some n => some (.num n, (spanNum (c :: r)).2)
      | none => none

mutual
/-- fuel bounds the nesting (one unit per container and per element) -/
def parseVal : Nat → Str → Option (JValue × Str)
  | 0, cs => parseAtom (skipWs cs)
  | f + 1, cs =>
    match skipWs cs with
    | c :: r =>
      if c = '[' then
        match skipWs r with
        | c' :: r' =>
          if c' = ']' then some (.arr [], r')
          else match parseElems f (c' :: r') with
            | some (xs, rest) => some (.arr xs, rest)
            | none => none
        | [] => none
      else if c = '{' then
        match skipWs r with
        | c' :: r' =>
          if c' = '}' then some (.obj [], r')
          else match parseMembers f (c' :: r') with
            | some (kvs, rest) => some (.obj kvs, rest)
            | none => none
        | [] => none
      else parseAtom (c :: r)
    | [] => none
def parseElems : Nat → Str → Option (List JValue × Str)
  | 0, _ => none
  | f + 1, cs =>
    match parseVal f cs with
    | none => none
    | some (v, r) =>
      match skipWs r with
      | c :: r' =>
        if c = ',' then
          match parseElems f r' with
          | some (vs, rest) => some (v :: vs, rest)
          | none => none
        else if c = ']' then some ([v], r')
        else none
      | [] => none
def parseMembers : Nat → Str → Option (List (Str × JValue) × Str)
  | 0, _ => none
  | f + 1, cs =>
    match skipWs cs with
    | q :: r =>
      if q = '"' then
        match unesc r with
        | none => none
        | some (k, r1) =>
          match skipWs r1 with
          | c1 :: r2 =>
            if c1 = ':' then
              match parseVal f r2 with
              | none => none
              | some (v, r3) =>
                match skipWs r3 with
                | c :: r4 =>
                  if c = ',' then
                    match parseMembers f r4 with
                    | some (kvs, rest) => some ((k, v) :: kvs, rest)
                    | none => none
                  else if c = '}' then some ([(k, v)], r4)
                  else none
                | [] => none
            else none
          | [] => none
      else none
    | [] => none
end

/-- **decoder**: the whole text is one JSON value (members in text order) -/
def decode (text : Str) : Option JValue :=
  match parseVal (text.length + 1) text with
  | some (v, rest) => if (skipWs rest).isEmpty then some v else none
  | none => none

/-! ## the equality the property speaks about -/

mutual
/-- canonical form: numbers by value (`fint` → `int`, `-0` → `0`), object members sorted by key -/
def norm : JValue → JValue
  | .null => .null
  | .bool b => .bool b
  | .num n => .num (normNum n)
  | .str s => .str s
  | .arr xs => .arr (normList xs)
  | .obj kvs => .obj (sortKeys (normMembers kvs))
def normList : List JValue → List JValue
  | [] => []
  | x :: xs => norm x :: normList xs
def normMembers : List (Str × JValue) → List (Str × JValue)
  | [] => []
  | (k, v) :: kvs => (k, norm v) :: normMembers kvs
end

/-- `v ≈ w`: equal as BareScript values (`value_compare v w = 0`): same shape, numbers equal in value, objects equal as
key → value maps -/
def Equiv (v w : JValue) : Prop := norm v = norm w

mutual
/-- well-formed: `dec` texts are in the `repr` grammar, object keys are unique -/
def WF : JValue → Prop
  | .null => True
  | .bool _ => True
  | .num (.dec t) => reprDec t = true
  | .num _ => True
  | .str _ => True
  | .arr xs => WFList xs
  | .obj kvs => (kvs.map Prod.fst).Nodup ∧ WFMembers kvs
def WFList : List JValue → Prop
  | [] => True
  | x :: xs => WF x ∧ WFList xs
def WFMembers : List (Str × JValue) → Prop
  | [] => True
  | (_, v) :: kvs => WF v ∧ WFMembers kvs
end

mutual
/-- every object's members are in ascending key order -/
def KeysSorted : JValue → Prop
  | .arr xs => KeysSortedList xs
  | .obj kvs => kvs.Pairwise (fun a b => a.1 ≤ b.1) ∧ KeysSortedMembers kvs
  | _ => True
def KeysSortedList : List JValue → Prop
  | [] => True
  | x :: xs => KeysSorted x ∧ KeysSortedList xs
def KeysSortedMembers : List (Str × JValue) → Prop
  | [] => True
  | (_, v) :: kvs => KeysSorted v ∧ KeysSortedMembers kvs
end

end Json
