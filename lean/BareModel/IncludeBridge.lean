import BareModel.Machine
import BareModel.Include

/-!
# IncludeBridge — the include model of C17 (`Include.runScript`) and the statement machine (`Machine.execM`) are ONE machine

`Machine.execM` / `execIncludes` are parametric in `cfg.resolve` and `cfg.fetch`.  This module

* **instantiates** them with C17's functions (`instCfg`): `resolve base inc := Include.resolveEntry` (system prefix,
  `Url.urlFileRelative` against the including file) and `fetch` from a virtual file map `String → VFile` whose files are
  statement lists / broken / missing / throwing (`Machine.FetchRes` does not distinguish "returned None" from "raised":
  both are `.missing`, exactly like `Include.runEntries` gives both the same outcome);
* defines the **abstraction** `itemsOf : List Stmt → Include.Script` (include statement ↦ `inc entries`, `return` ↦ `ret`,
  every other statement ↦ `stmt (tag s)`) and `fileOf` / `icfgOf` for file maps and configurations;
* defines the **traced machine** `execMT` / `execIncludesT`: `Machine.execM` / `execIncludes` line by line, additionally
  returning the list of `Include.Event`s of the *script tree*: `fetch url` for every request to `cfg.fetch` made by an
  include statement, `exec (tag s)` for every other statement (except `return`) that is started.  Calls made by
  expressions go through the untraced `Machine.callValue`: an include statement executed inside a *function body* is not
  in the trace (the machine runs function bodies with `base = none`, DESIGN finding F42 — outside the bridge).
  `C17Bridge.execMT_res` proves that the traced machine computes exactly the results of `execM`, for ALL programs.

`inc` records whether an error was raised by an include statement of the script tree (as opposed to a plain statement,
possibly an include inside a called function), `stopOf` classifies a result accordingly.
-/

namespace IncludeBridge
open Machine

/-- a file of the virtual file system, at machine level -/
inductive VFile where
  | stmts (ss : List Stmt)       -- fetchFn returns a text that parses to these statements
  | broken                       -- fetchFn returns a text that does not parse
  | missing                      -- fetchFn returns None
  | throws                       -- fetchFn raises
deriving Repr, Inhabited

def entryOf (i : IncludeScript) : Include.Entry := ⟨i.url, i.system⟩

/-- the machine's `base` (file the running script came from) as the include model's `urlFn` -/
def urlFnOf : Option String → Include.UrlFn
  | none => .none
  | some f => .relativeTo f

/-- `cfg.resolve` := the resolution of C17 (runtime.py:110-114); only `systemPrefix` of the include configuration matters -/
def resolveOf (sp : Option String) (base : Option String) (i : IncludeScript) : String :=
  Include.resolveEntry ⟨sp, none, 0⟩ (urlFnOf base) (entryOf i)

/-- `cfg.fetch` := look the location up in the virtual file map -/
def fetchOf (fs : String → VFile) (u : String) : FetchRes :=
  match fs u with
  | .stmts ss => .script ss
  | .broken => .broken
  | .missing => .missing
  | .throws => .missing

/-- the instantiation: any machine configuration with C17's resolution and a virtual file map -/
def instCfg {W : Type} (cfg : Config W) (sp : Option String) (fs : String → VFile) : Config W :=
  { cfg with resolve := resolveOf sp, fetch := fetchOf fs }

/-! ## the abstraction -/

def itemOf (tag : Stmt → String) : Stmt → Include.Item
  | .include incs => .inc (incs.map entryOf)
  | .ret _ => .ret
  | s => .stmt (tag s)

def itemsOf (tag : Stmt → String) (P : List Stmt) : Include.Script := P.map (itemOf tag)

def fileOf (tag : Stmt → String) : VFile → Include.File
  | .stmts ss => .text (itemsOf tag ss)
  | .broken => .broken
  | .missing => .missing
  | .throws => .throws

/-- the include model's configuration: same system prefix, the abstracted file map, NO statement budget of its own
(the machine's counter also counts the statements of called functions; a run cut by the machine's budget is a run that
stops in a plain statement, see `Stop.stmt`) -/
def icfgOf (tag : Stmt → String) (sp : Option String) (fs : String → VFile) : Include.Config :=
  { systemPrefix := sp, fetch := some (fun u => fileOf tag (fs u)), maxStatements := 0 }

/-- the programs the bridge to `Include.runScript` covers: no jump statements (`Include.Item` has no jumps) -/
def straight : Stmt → Bool
  | .jump _ _ => false
  | _ => true

def Straight (P : List Stmt) : Bool := P.all straight

/-- a finite virtual file system -/
def ofList (files : List (String × VFile)) : String → VFile :=
  fun u => ((files.find? (·.1 == u)).map (·.2)).getD .missing

/-- decidable form of "every file is jump-free" for a finite file system -/
def filesStraight (files : List (String × VFile)) : Bool :=
  files.all fun f => match f.2 with
    | .stmts ss => Straight ss
    | _ => true

/-! ## the traced machine -/

structure TRes (W : Type) where
  trace : List Include.Event
  res : Res W
  /-- the error in `res` was raised by an include statement of the script tree -/
  inc : Bool

/-- how a run ended, from the point of view of the script tree -/
inductive Stop where
  | fin                          -- the list ran off its end or returned
  | incFailed (url : String)     -- an include statement of the tree: Include of "<url>" failed
  | incParse (url : String)      -- an include statement of the tree: parser error, Included from "<url>"
  | stmt                         -- a plain statement failed (any runtime error, the statement budget, or an include
                                 --   failure inside a function it called)
  | oof                          -- model only: out of fuel
deriving Repr, DecidableEq

def stopOf {W : Type} : Res W → Bool → Stop
  | .done _, _ => .fin
  | .ret _ _, _ => .fin
  | .err (.includeFailed u) _, true => .incFailed u
  | .err (.includeParse u) _, true => .incParse u
  | .err _ _, _ => .stmt
  | .oof, _ => .oof

def TRes.stop {W : Type} (r : TRes W) : Stop := stopOf r.res r.inc

def TRes.cons {W : Type} (ev : Include.Event) (r : TRes W) : TRes W := { r with trace := ev :: r.trace }
def TRes.app {W : Type} (tr : List Include.Event) (r : TRes W) : TRes W := { r with trace := tr ++ r.trace }

variable {W : Type}

mutual
/-- `Machine.execM`, returning the events of the script tree as well -/
def execMT (tag : Stmt → String) (cfg : Config W) :
    Nat → List Stmt → Option Env → Option String → Cache → Nat → State W → TRes W
  | fuel, P, locals, base, cache, pc, st =>
    match P[pc]? with
    | none => ⟨[], .done st, false⟩
    | some s =>
      match fuel with
      | 0 => ⟨[], .oof, false⟩
      | fuel+1 =>
        let st1 : State W := { st with count := st.count + 1 }
        if cfg.maxStatements > 0 && st1.count > cfg.maxStatements then ⟨[], .err (.exceeded cfg.maxStatements) st1, false⟩
        else
        let ev : Include.Event := .exec (tag s)
        match s with
        | .expr name e =>
            match evalExpr cfg (callValue cfg fuel) locals e st1 with
            | .ok v st2 =>
                match name, locals with
                | none, _ => (execMT tag cfg fuel P locals base cache (pc+1) st2).cons ev
                | some n, some l => (execMT tag cfg fuel P (some (l.set n v)) base cache (pc+1) st2).cons ev
                | some n, none =>
                    (execMT tag cfg fuel P none base cache (pc+1) { st2 with globals := st2.globals.set n v }).cons ev
            | .err e st2 => ⟨[ev], .err e st2, false⟩
            | .oof => ⟨[ev], .oof, false⟩
        | .jump l none =>
            match jumpTarget P cache l with
            | some (cache', i) => (execMT tag cfg fuel P locals base cache' (i+1) st1).cons ev
            | none => ⟨[ev], .err (.unknownLabel l) st1, false⟩
        | .jump l (some c) =>
            match evalExpr cfg (callValue cfg fuel) locals c st1 with
            | .ok v st2 =>
                if cfg.host.truthy v st2.world then
                  match jumpTarget P cache l with
                  | some (cache', i) => (execMT tag cfg fuel P locals base cache' (i+1) st2).cons ev
                  | none => ⟨[ev], .err (.unknownLabel l) st2, false⟩
                else (execMT tag cfg fuel P locals base cache (pc+1) st2).cons ev
            | .err e st2 => ⟨[ev], .err e st2, false⟩
            | .oof => ⟨[ev], .oof, false⟩
        | .ret none => ⟨[], .ret .null st1, false⟩
        | .ret (some e) =>
            match evalExpr cfg (callValue cfg fuel) locals e st1 with
            | .ok v st2 => ⟨[], .ret v st2, false⟩
            | .err e st2 => ⟨[], .err e st2, false⟩
            | .oof => ⟨[], .oof, false⟩
        | .label _ => (execMT tag cfg fuel P locals base cache (pc+1) st1).cons ev
        | .function fid name _ _ _ _ =>
            (execMT tag cfg fuel P locals base cache (pc+1)
              { st1 with globals := st1.globals.set name (.fn (.script fid)) }).cons ev
        | .include incs =>
            let mi := execIncludesT tag cfg fuel base incs st1
            match mi.res with
            | .done st2 => (execMT tag cfg fuel P locals base cache (pc+1) st2).app mi.trace
            | _ => mi

/-- `Machine.execIncludes`, returning the events as well: every request to `cfg.fetch` is an event -/
def execIncludesT (tag : Stmt → String) (cfg : Config W) :
    Nat → Option String → List IncludeScript → State W → TRes W
  | _, _, [], st => ⟨[], .done st, false⟩
  | fuel, base, inc :: rest, st =>
      let url := cfg.resolve base inc
      match cfg.fetch url with
      | .missing => ⟨[.fetch url], .err (.includeFailed url) st, true⟩
      | .broken => ⟨[.fetch url], .err (.includeParse url) st, true⟩
      | .script stmts =>
          match fuel with
          | 0 => ⟨[.fetch url], .oof, false⟩
          | fuel'+1 =>
            let m := execMT tag cfg fuel' stmts none (some url) [] 0 st
            match m.res with
            | .done st' => (execIncludesT tag cfg fuel' base rest st').app (.fetch url :: m.trace)
            | .ret _ st' => (execIncludesT tag cfg fuel' base rest st').app (.fetch url :: m.trace)
            | _ => m.cons (.fetch url)
end

/-- `Machine.execute` with the events: counter reset, global scope -/
def executeT (tag : Stmt → String) (cfg : Config W) (fuel : Nat) (P : List Stmt) (base : Option String) (st : State W) :
    TRes W :=
  execMT tag cfg fuel P none base [] 0 { st with count := 0 }

end IncludeBridge
