import BareModel.Machine
import BareModel.Lower
import BareModel.Structured

/-!
# The plain source-level big-step semantics `execS` (Lean counterpart of `RefInterp` in harness/progen.py)

The *direct reading* of a structured program: blocks, `if` chains, loops, `break` / `continue` / `return` as outcomes.
No statement counter (`State.count` is never touched), no statement budget, no hidden loop variables:

* `ite c t e` evaluates the conditions themselves, in order, and runs exactly the first branch whose condition is truthy
  (else the `else` block, if any);
* `while c b` tests `c` before **every** iteration, also after `continue`;
* `for v ix vals b` evaluates `vals` once, takes its length once by calling whatever `arrayLength` is in scope, and
  fetches each element with whatever `arrayGet` is in scope (the `for` statement is *defined* in terms of these two
  functions, as in the implementation); the once-evaluated array value, its length and — when the source names no index
  variable — the index are held by the interpreter, not in variables.  A named index variable is a real variable: it is
  assigned 0, read at the start of each iteration, incremented after the body with the host's `+` and the loop goes on
  while the host's `<` says `index < length`.  The interpreter's own index is a `Value` advanced with the same host `+`
  and tested with the same host `<` (for the concrete host: 0, 1, 2, …); a variable is read as the expression
  `.variable x` reads it (`readVar`).
* `include` and raw `label` / `jump` have no structured meaning (error outcome).

`fuel` only makes the definitions structurally recursive (every recursive call is on `fuel`, given `fuel+1`): it bounds
the *depth* of the evaluation and is not threaded through; the theorems (C01Erase) speak about every sufficiently large
fuel.
Script function values are indices into a table `sfuns` of *structured* definitions; library functions are the same
interaction trees as on the machine side (`Machine.runTree`), with call-backs into `callS`.
-/

namespace StructuredS
open Machine Lower

variable {W : Type}

/-- a function definition with a structured body -/
structure SFuncDef where
  name : Name
  args : List Name
  lastArgArray : Bool
  body : List SStmt
deriving Inhabited

structure SConfig (W : Type) where
  host : Host W
  sfuns : FnId → Option SFuncDef
  builtins : Bool := false
  debug : Bool := false

/-- the part of a machine configuration the expression evaluator and the library runner look at (`host`, `builtins`,
`debug`); no function table, no statement budget -/
def SConfig.toConfig (s : SConfig W) : Config W :=
  { host := s.host, funs := fun _ => none, maxStatements := 0, builtins := s.builtins, debug := s.debug }

/-- outcome of a structured statement / block -/
inductive SOut (W : Type) where
  | norm (locals : Option Env) (st : State W)
  | brk (locals : Option Env) (st : State W)
  | cont (locals : Option Env) (st : State W)
  | ret (v : Value) (st : State W)
  | err (e : RtErr) (st : State W)
  | oof
deriving Repr

/-- reading a named variable as the expression `.variable x` does (the three keyword constants are not variables) -/
def readVar (locals : Option Env) (globals : Env) (x : Name) : Value :=
  if x = kwNull then .null
  else if x = kwFalse then .bool false
  else if x = kwTrue then .bool true
  else lookupVar locals globals x

mutual
/-- calling a function value: script functions run their *structured* body -/
def callS (scfg : SConfig W) : Nat → CallFn W
  | 0, _, _, _ => .oof
  | fuel+1, f, args, st =>
      match f with
      | .fn (.script id) =>
          match scfg.sfuns id with
          | some fd =>
              let (loc, w1) := bindArgs scfg.host fd.lastArgArray fd.args args [] st.world
              match execSB scfg fuel fd.body (some loc) { st with world := w1 } with
              | .norm _ st' => .ok .null st'
              | .brk _ st' => .ok .null st'          -- cannot happen for well-nested bodies
              | .cont _ st' => .ok .null st'
              | .ret v st' => .ok v st'
              | .err e st' => .err e st'
              | .oof => .oof
          | none => .ok .null { st with world := scfg.host.notCallable f st.world }
      | .fn (.lib name) => runTree scfg.toConfig (callS scfg fuel) (scfg.host.lib name args st.world) st
      | .fn (.other k) => runTree scfg.toConfig (callS scfg fuel) (scfg.host.other k args st.world) st
      | v => .ok .null { st with world := scfg.host.notCallable v st.world }

def execSS (scfg : SConfig W) : Nat → SStmt → Option Env → State W → SOut W
  | 0, _, _, _ => .oof
  | fuel+1, .expr name e, locals, st =>
      match evalExpr scfg.toConfig (callS scfg fuel) locals e st with
      | .ok v st2 =>
          match name with
          | none => .norm locals st2
          | some n => .norm (Structured.assign locals st2 n v).1 (Structured.assign locals st2 n v).2
      | .err e st2 => .err e st2
      | .oof => .oof
  | _+1, .ret none, _, st => .ret .null st
  | fuel+1, .ret (some e), locals, st =>
      match evalExpr scfg.toConfig (callS scfg fuel) locals e st with
      | .ok v st2 => .ret v st2
      | .err e st2 => .err e st2
      | .oof => .oof
  | _+1, .func fid n _ _ _ _, locals, st =>
      .norm locals { st with globals := st.globals.set n (.fn (.script fid)) }
  | fuel+1, .ite c t e, locals, st =>
      match evalExpr scfg.toConfig (callS scfg fuel) locals c st with
      | .ok v st2 =>
          if scfg.host.truthy v st2.world then execSB scfg fuel t locals st2
          else execSE scfg fuel e locals st2
      | .err e st2 => .err e st2
      | .oof => .oof
  | fuel+1, .while c b, locals, st =>
      match evalExpr scfg.toConfig (callS scfg fuel) locals c st with
      | .ok v st2 =>
          if scfg.host.truthy v st2.world then
            match execSB scfg fuel b locals st2 with
            | .norm l1 st3 => execSS scfg fuel (.while c b) l1 st3
            | .cont l1 st3 => execSS scfg fuel (.while c b) l1 st3      -- `continue`: back to the test
            | .brk l1 st3 => .norm l1 st3
            | o => o
          else .norm locals st2
      | .err e st2 => .err e st2
      | .oof => .oof
  | fuel+1, .for v ix vals b, locals, st =>
      match evalExpr scfg.toConfig (callS scfg fuel) locals vals st with      -- the array expression, once
      | .ok a st1 =>
          match lookupFunc scfg.toConfig locals st1.globals fnArrayLength with
          | some .null => .err (.undefinedFunction fnArrayLength) st1
          | none => .err (.undefinedFunction fnArrayLength) st1
          | some fv =>
              match callS scfg fuel fv [a] st1 with                           -- its length, once
              | .ok n st2 =>
                  if scfg.host.truthy n st2.world then
                    match ix with
                    | some x => forS scfg fuel v ix b a n (.num 0) (Structured.assign locals st2 x (.num 0)).1
                                  (Structured.assign locals st2 x (.num 0)).2
                    | none => forS scfg fuel v ix b a n (.num 0) locals st2
                  else .norm locals st2
              | .err e st2 => .err e st2
              | .oof => .oof
      | .err e st1 => .err e st1
      | .oof => .oof
  | _+1, .brk, locals, st => .brk locals st
  | _+1, .cont, locals, st => .cont locals st
  | _+1, .label l, _, st => .err (.unknownLabel l) st                        -- no structured meaning
  | _+1, .jump l _, _, st => .err (.unknownLabel l) st
  | _+1, .include _, _, st => .err (.includeFailed "") st

/-- the iterations of `for`: `a` the once-evaluated array value, `n` its once-taken length, `c` the interpreter's own
index (used when the source names no index variable) -/
def forS (scfg : SConfig W) : Nat → Name → Option Name → List SStmt → Value → Value → Value → Option Env → State W → SOut W
  | 0, _, _, _, _, _, _, _, _ => .oof
  | fuel+1, v, ix, b, a, n, c, locals, st =>
      let idx : Value := match ix with | some x => readVar locals st.globals x | none => c
      match lookupFunc scfg.toConfig locals st.globals fnArrayGet with
      | some .null => .err (.undefinedFunction fnArrayGet) st
      | none => .err (.undefinedFunction fnArrayGet) st
      | some fv =>
          match callS scfg fuel fv [a, idx] st with
          | .ok x st1 =>
              let footer (l2 : Option Env) (st2 : State W) : SOut W :=
                match ix with
                | some xn =>
                    let nxt := scfg.host.binop .add (readVar l2 st2.globals xn) (.num 1) st2.world
                    let l3 := (Structured.assign l2 st2 xn nxt).1
                    let st3 := (Structured.assign l2 st2 xn nxt).2
                    if scfg.host.truthy (scfg.host.binop .lt (readVar l3 st3.globals xn) n st3.world) st3.world
                    then forS scfg fuel v ix b a n c l3 st3
                    else .norm l3 st3
                | none =>
                    let nxt := scfg.host.binop .add c (.num 1) st2.world
                    if scfg.host.truthy (scfg.host.binop .lt nxt n st2.world) st2.world
                    then forS scfg fuel v ix b a n nxt l2 st2
                    else .norm l2 st2
              match execSB scfg fuel b (Structured.assign locals st1 v x).1 (Structured.assign locals st1 v x).2 with
              | .norm l2 st2 => footer l2 st2
              | .cont l2 st2 => footer l2 st2                                -- `continue`: on to the increment
              | .brk l2 st2 => .norm l2 st2
              | o => o
          | .err e st1 => .err e st1
          | .oof => .oof

def execSB (scfg : SConfig W) : Nat → List SStmt → Option Env → State W → SOut W
  | 0, _, _, _ => .oof
  | _+1, [], locals, st => .norm locals st
  | fuel+1, s :: ss, locals, st =>
      match execSS scfg fuel s locals st with
      | .norm l1 st1 => execSB scfg fuel ss l1 st1
      | o => o

def execSE (scfg : SConfig W) : Nat → SElse → Option Env → State W → SOut W
  | 0, _, _, _ => .oof
  | _+1, .none, locals, st => .norm locals st
  | fuel+1, .els b, locals, st => execSB scfg fuel b locals st
  | fuel+1, .elif c t e, locals, st =>
      match evalExpr scfg.toConfig (callS scfg fuel) locals c st with
      | .ok v st2 =>
          if scfg.host.truthy v st2.world then execSB scfg fuel t locals st2
          else execSE scfg fuel e locals st2
      | .err e st2 => .err e st2
      | .oof => .oof
end

/-- a whole structured script in global scope: the pure reading of `execute_script (parse_script text)` -/
def runS (scfg : SConfig W) (fuel : Nat) (B : List SStmt) (st : State W) : Res W :=
  match execSB scfg fuel B none st with
  | .norm _ st' => .done st'
  | .brk _ st' => .done st'
  | .cont _ st' => .done st'
  | .ret v st' => .ret v st'
  | .err e st' => .err e st'
  | .oof => .oof

end StructuredS
