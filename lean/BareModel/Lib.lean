import BareModel.Gen.Args
import BareModel.Gen.LibFns

/-!
# Lib — heap model of the array*, object*, string*, regexEscape and urlEncode* library functions (C15)

*Mirror layer* of `library.py` + `value.value_args_validate` + the call wrapper of `runtime.evaluate_expression`
(runtime.py:238-250: any host exception inside a library function → `null`, a `ValueArgsError` → its `return_value`).

* values are `Value`; arrays and objects live in a `Heap` (a list of `Cell`s, allocation = append, a reference is the
  index of its cell), so that aliasing, mutation through an alias and freshness of copies are expressible;
* every function is `List Value → Heap → Res × Heap` (`lib`), obtained by running an *effect description* `Eff`
  (`ret`, `fail`, `store r cell result`, `alloc cell`, `unmodelled`) computed by `eff`;
* the argument models come from the generated table `Gen.argModels` (re-emitted from the `_*_ARGS` lists of library.py
  on every run) and the per-function failure value and model name from `Gen.libFns`; `validate` mirrors
  `value_args_validate` once;
* the bodies are written the way the Python is written: indices arrive as numbers (`Rat`, every finite Python int/float is
  one), `int(index)` is truncation, explicit range tests come first, `list[i]`/`del list[i]`/`list[i] = v` are the Python
  primitives `pyGetItem`/`pyDelItem`/`pySetItem` (negative indices wrap, out of range = `IndexError` = `none`),
  slices clamp (`pySlice`), `str.find`/`str.rfind`/`str.split`/`str.replace`/`str.strip` are modelled over code points.

What is *not* modelled (the function answers `Eff.unmodelled`, the correspondence harness skips the result of that call):
the match-function form of `arrayIndexOf`/`arrayLastIndexOf`; `arrayJoin` over elements whose `value_string` needs float
`repr`, the time zone or JSON (non-integral numbers, datetimes, arrays, objects); `stringLower`/`stringUpper` on
non-ASCII text; `stringFromCharCode` of a surrogate code point (not a Lean `Char`); comparison through a heap that is
cyclic or has dangling references (finding F18); `arraySort`, `stringNew` and everything outside the five groups.
No Mathlib. Everything is total and computable (`Drv/C15.lean` links it).
-/

namespace Lib

/-! ## values, heap -/

inductive Value where
  | null
  | bool (b : Bool)
  /-- a finite number: the exact rational value of the Python `int` or `float` -/
  | num (q : Rat)
  /-- a string: a sequence of code points (lone surrogates are outside the model) -/
  | str (s : String)
  /-- a datetime: epoch milliseconds -/
  | dt (ms : Int)
  /-- an array: reference to a heap cell -/
  | arr (r : Nat)
  /-- an object: reference to a heap cell -/
  | obj (r : Nat)
  | fn (id : Nat)
  | regex (id : Nat)
deriving DecidableEq, Repr, Inhabited

/-- a heap cell: a Python `list`, or a Python `dict` (insertion order, unique keys) -/
inductive Cell where
  | arr (xs : List Value)
  | obj (kvs : List (String × Value))
deriving DecidableEq, Repr, Inhabited

abbrev Heap := List Cell

def getArr (h : Heap) (r : Nat) : Option (List Value) :=
  match h[r]? with
  | some (.arr xs) => some xs
  | _ => none

def getObj (h : Heap) (r : Nat) : Option (List (String × Value)) :=
  match h[r]? with
  | some (.obj kvs) => some kvs
  | _ => none

/-- what the call wrapper hands back -/
inductive Res where
  /-- the function returned `v` -/
  | ok (v : Value)
  /-- the function raised; the wrapper returns `v` (the `ValueArgsError.return_value`, or null for any other exception) -/
  | fail (v : Value)
  /-- outside the model (see the module comment) -/
  | unmodelled
deriving DecidableEq, Repr, Inhabited

/-- effect description of one call -/
inductive Eff where
  | ret (v : Value)
  | fail (v : Value)
  | unmodelled
  /-- overwrite cell `r` with `c`, return `v` -/
  | store (r : Nat) (c : Cell) (v : Value)
  /-- allocate a new cell, return the reference to it -/
  | alloc (c : Cell)
deriving Repr, Inhabited

def refOf (c : Cell) (r : Nat) : Value :=
  match c with
  | .arr _ => .arr r
  | .obj _ => .obj r

def Eff.run : Eff → Heap → Res × Heap
  | .ret v, h => (.ok v, h)
  | .fail v, h => (.fail v, h)
  | .unmodelled, h => (.unmodelled, h)
  | .store r c v, h => (.ok v, h.set r c)
  | .alloc c, h => (.ok (refOf c h.length), h ++ [c])

/-! ## numbers (exact; comparison by cross-multiplication, denominators are positive) -/

def rle (a b : Rat) : Bool := decide (a.num * b.den ≤ b.num * a.den)
def rlt (a b : Rat) : Bool := decide (a.num * b.den < b.num * a.den)
def rcmp (a b : Rat) : Int := if rlt a b then -1 else if rlt b a then 1 else 0
def ofNat (n : Nat) : Rat := Rat.ofInt n
def numI (n : Int) : Value := .num (Rat.ofInt n)
def numN (n : Nat) : Value := .num (Rat.ofInt n)

/-- Python `int(x)`: truncation toward zero -/
def pyInt (q : Rat) : Int := q.num.tdiv q.den
/-- `int(x) == x` — a reduced fraction is integral iff its denominator is 1 -/
def isIntegral (q : Rat) : Bool := q.den == 1

/-! ## Python sequence primitives -/

/-- `xs[i]` (negative indices count from the end; `none` = IndexError) -/
def pyGetItem {α} (xs : List α) (i : Int) : Option α :=
  if i < 0 then (if (-i).toNat ≤ xs.length then xs[xs.length - (-i).toNat]? else none) else xs[i.toNat]?

/-- the position `xs[i]`, `xs[i] = v` and `del xs[i]` touch (`none` = IndexError) -/
def pyIdx (len : Nat) (i : Int) : Option Nat :=
  if i < 0 then (if (-i).toNat ≤ len then some (len - (-i).toNat) else none)
  else (if i.toNat < len then some i.toNat else none)

def pySetItem {α} (xs : List α) (i : Int) (v : α) : Option (List α) := (pyIdx xs.length i).map (xs.set · v)
def pyDelItem {α} (xs : List α) (i : Int) : Option (List α) := (pyIdx xs.length i).map xs.eraseIdx

/-- slice index adjustment: negative counts from the end, everything clamps into `0..len` -/
def pyAdj (len : Nat) (i : Int) : Nat := if i < 0 then (i + len).toNat else min i.toNat len

/-- `xs[s:e]` -/
def pySlice {α} (xs : List α) (s e : Int) : List α :=
  (xs.drop (pyAdj xs.length s)).take (pyAdj xs.length e - pyAdj xs.length s)

/-- `range(a, b)` -/
def pyRange (a b : Int) : List Int := (List.range (b - a).toNat).map (fun (k : Nat) => a + (k : Int))
/-- `range(a, -1, -1)` -/
def pyRangeDown (a : Int) : List Int := (List.range (a + 1).toNat).map (fun (k : Nat) => a - (k : Int))

/-! ## strings as code point sequences -/

def strCmp : List Char → List Char → Int
  | [], [] => 0
  | [], _ :: _ => -1
  | _ :: _, [] => 1
  | a :: as, b :: bs => if a.toNat < b.toNat then -1 else if b.toNat < a.toNat then 1 else strCmp as bs

/-- first index `≥ i` (counting from `i` at the head of the remaining text) at which `sub` occurs -/
def findFrom (sub : List Char) : List Char → Nat → Option Nat
  | [], i => if sub.isEmpty then some i else none
  | c :: cs, i => if sub.isPrefixOf (c :: cs) then some i else findFrom sub cs (i + 1)

/-- last index at which `sub` occurs in the text -/
def lastMatch (sub : List Char) : List Char → Nat → Option Nat
  | [], i => if sub.isEmpty then some i else none
  | c :: cs, i =>
    match lastMatch sub cs (i + 1) with
    | some j => some j
    | none => if sub.isPrefixOf (c :: cs) then some i else none

def optIdx : Option Nat → Int
  | some i => i
  | none => -1

/-- `s.find(sub, start)` -/
def pyFind (s sub : List Char) (start : Int) : Int :=
  let st := if start < 0 then (start + s.length).toNat else start.toNat
  if s.length < st then -1 else optIdx (findFrom sub (s.drop st) st)

/-- `s.rfind(sub, 0, end)` -/
def pyRFind (s sub : List Char) (stop : Int) : Int :=
  optIdx (lastMatch sub (s.take (pyAdj s.length stop)) 0)

/-- `s.split(sep)` for a non-empty `sep`: `skip` = characters of an already matched separator still to be dropped -/
def splitAux (sep : List Char) : List Char → Nat → List Char → List (List Char)
  | [], _, cur => [cur.reverse]
  | _ :: cs, skip + 1, cur => splitAux sep cs skip cur
  | c :: cs, 0, cur =>
    if sep.isPrefixOf (c :: cs) then cur.reverse :: splitAux sep cs (sep.length - 1) []
    else splitAux sep cs 0 (c :: cur)

def pySplit (s sep : List Char) : List (List Char) := splitAux sep s 0 []

/-- `s.replace(old, new)` for a non-empty `old` -/
def replaceAux (old new : List Char) : List Char → Nat → List Char
  | [], _ => []
  | _ :: cs, skip + 1 => replaceAux old new cs skip
  | c :: cs, 0 =>
    if old.isPrefixOf (c :: cs) then new ++ replaceAux old new cs (old.length - 1)
    else c :: replaceAux old new cs 0

/-- `s.replace(old, new)`; an empty `old` matches before every character and at the end -/
def pyReplace (s old new : List Char) : List Char :=
  if old.isEmpty then new ++ s.flatMap (fun c => c :: new) else replaceAux old new s 0

def isSpace (c : Char) : Bool := Gen.pySpace.contains c.toNat

/-- `s.strip()` -/
def pyStrip (s : List Char) : List Char := ((s.dropWhile isSpace).reverse.dropWhile isSpace).reverse

def asciiLower (c : Char) : Char := if 65 ≤ c.toNat ∧ c.toNat ≤ 90 then Char.ofNat (c.toNat + 32) else c
def asciiUpper (c : Char) : Char := if 97 ≤ c.toNat ∧ c.toNat ≤ 122 then Char.ofNat (c.toNat - 32) else c

/-! ### regexEscape, urlEncode -/

def isSpecial (c : Char) : Bool := Gen.reEscapeSpecial.contains c.toNat

/-- `re.escape` -/
def reEscape : List Char → List Char
  | [] => []
  | c :: cs => if isSpecial c then '\\' :: c :: reEscape cs else c :: reEscape cs

/-- UTF-8 encoding of one code point -/
def utf8 (c : Char) : List Nat :=
  let n := c.toNat
  if n < 0x80 then [n]
  else if n < 0x800 then [0xC0 + n / 64, 0x80 + n % 64]
  else if n < 0x10000 then [0xE0 + n / 4096, 0x80 + n / 64 % 64, 0x80 + n % 64]
  else [0xF0 + n / 262144, 0x80 + n / 4096 % 64, 0x80 + n / 64 % 64, 0x80 + n % 64]

def utf8Bytes (s : List Char) : List Nat := s.flatMap utf8

def hexU (n : Nat) : Char := if n < 10 then Char.ofNat (48 + n) else Char.ofNat (55 + n)

/-- the byte values `urllib.parse.quote` leaves alone for a given `safe` string -/
def safeBytes (safe : String) : List Nat := Gen.quoteAlwaysSafe ++ (safe.toList.map Char.toNat).filter (· < 128)

def quoteByte (safe : List Nat) (b : Nat) : List Char :=
  if safe.contains b then [Char.ofNat b] else ['%', hexU (b / 16), hexU (b % 16)]

/-- `urllib.parse.quote(s, safe=…)` -/
def pyQuote (safe : List Nat) (s : List Char) : List Char := (utf8Bytes s).flatMap (quoteByte safe)

/-! ## value_boolean, value_string (subset), value_compare -/

/-- value.value_boolean -/
def truthy (h : Heap) : Value → Bool
  | .null => false
  | .str s => s != ""
  | .bool b => b
  | .num q => q.num != 0
  | .dt _ => true
  | .arr r => match getArr h r with
    | some xs => !xs.isEmpty
    | none => true
  | _ => true

def typeName : Value → String
  | .null => "null" | .str _ => "string" | .bool _ => "boolean" | .num _ => "number" | .dt _ => "datetime"
  | .obj _ => "object" | .arr _ => "array" | .fn _ => "function" | .regex _ => "regex"

/-- value.value_string on the values whose text does not depend on float `repr`, the time zone or JSON -/
def valueString : Value → Option String
  | .null => some "null"
  | .str s => some s
  | .bool b => some (if b then "true" else "false")
  | .num q => if q.den == 1 then some (toString q.num) else none
  | .fn _ => some "<function>"
  | .regex _ => some "<regex>"
  | _ => none

def lcmpWith (c : Value → Value → Option Int) : List Value → List Value → Option Int
  | [], [] => some 0
  | [], _ :: _ => some (-1)
  | _ :: _, [] => some 1
  | x :: xs, y :: ys =>
    match c x y with
    | none => none
    | some r => if r = 0 then lcmpWith c xs ys else some r

def ocmpWith (c : Value → Value → Option Int) : List (String × Value) → List (String × Value) → Option Int
  | [], [] => some 0
  | [], _ :: _ => some (-1)
  | _ :: _, [] => some 1
  | (k1, v1) :: xs, (k2, v2) :: ys =>
    let kc := strCmp k1.toList k2.toList
    if kc != 0 then some kc else
    match c v1 v2 with
    | none => none
    | some r => if r = 0 then ocmpWith c xs ys else some r

def insertKV (kv : String × Value) : List (String × Value) → List (String × Value)
  | [] => [kv]
  | x :: xs => if strCmp kv.1.toList x.1.toList < 0 then kv :: x :: xs else x :: insertKV kv xs

/-- `sorted(d.items())` (keys are unique, so only keys are ever compared) -/
def sortKV (kvs : List (String × Value)) : List (String × Value) := kvs.foldr insertKV []

/-- value.value_compare with recursion depth `fuel` through the heap (`none`: fuel exhausted or dangling reference) -/
def vcmp : Nat → Heap → Value → Value → Option Int
  | 0, _, _, _ => none
  | fuel + 1, h, a, b =>
    match a, b with
    | .null, .null => some 0
    | .null, _ => some (-1)
    | _, .null => some 1
    | .str x, .str y => some (strCmp x.toList y.toList)
    | .bool x, .bool y => some (if x == y then 0 else if x then 1 else -1)
    | .num x, .num y => some (rcmp x y)
    | .dt x, .dt y => some (if x < y then -1 else if x == y then 0 else 1)
    | .arr r1, .arr r2 =>
      match getArr h r1, getArr h r2 with
      | some xs, some ys => lcmpWith (vcmp fuel h) xs ys
      | _, _ => none
    | .obj r1, .obj r2 =>
      match getObj h r1, getObj h r2 with
      | some xs, some ys => ocmpWith (vcmp fuel h) (sortKV xs) (sortKV ys)
      | _, _ => none
    | a, b => some (strCmp (typeName a).toList (typeName b).toList)

/-- comparison as the library sees it: enough fuel for every acyclic heap -/
def valueCompare (h : Heap) (a b : Value) : Option Int := vcmp (h.length + 1) h a b

/-! ## value_args_validate -/

/-- a validated argument: a value, or the list collected by `lastArgArray` -/
inductive VArg where
  | one (v : Value)
  | many (vs : List Value)
deriving Repr, Inhabited

def digitsVal : List Char → Nat → Option Nat
  | [], acc => some acc
  | c :: cs, acc => if c.isDigit then digitsVal cs (acc * 10 + (c.toNat - 48)) else none

/-- the default of an argument model (JSON text in `Gen.argModels`): integers, booleans, escape-free strings;
`null` and anything else count as "no default" (`default_value is not None`) -/
def parseDefault (s : String) : Option Value :=
  match s.toList with
  | ['t', 'r', 'u', 'e'] => some (.bool true)
  | ['f', 'a', 'l', 's', 'e'] => some (.bool false)
  | '-' :: d :: ds => (digitsVal (d :: ds) 0).map fun n => numI (-(Int.ofNat n))
  | '"' :: rest =>
    match rest.reverse with
    | '"' :: body => if body.contains '\\' then none else some (.str (String.ofList body.reverse))
    | _ => none
  | d :: ds => (digitsVal (d :: ds) 0).map numN
  | [] => none

def isNum : Value → Bool | .num _ => true | _ => false
def isStr : Value → Bool | .str _ => true | _ => false
def isArr : Value → Bool | .arr _ => true | _ => false
def isObj : Value → Bool | .obj _ => true | _ => false
def isDt : Value → Bool | .dt _ => true | _ => false
def isRegex : Value → Bool | .regex _ => true | _ => false
def isFn : Value → Bool | .fn _ => true | _ => false

/-- the type test of value.py:303-309 (booleans are not numbers, fix F14) -/
def typeBad (t : String) (v : Value) : Bool :=
  (t == "number" && !isNum v) || (t == "string" && !isStr v) || (t == "array" && !isArr v) ||
  (t == "object" && !isObj v) || (t == "datetime" && !isDt v) || (t == "regex" && !isRegex v) ||
  (t == "function" && !isFn v)

def boundBad (o : Option Int) (ok : Rat → Rat → Bool) (q : Rat) : Bool :=
  match o with
  | none => false
  | some b => !(ok q (Rat.ofInt b))

/-- the number constraints of value.py:313-323 -/
def numBad (m : Gen.ArgModel) (q : Rat) : Bool :=
  (m.integer && !isIntegral q) || boundBad m.lt rlt q || boundBad m.lte rle q ||
  boundBad m.gt (fun a b => rlt b a) q || boundBad m.gte (fun a b => rle b a) q

/-- one present argument (value.py:285-323); `none` = ValueArgsError -/
def checkArg (h : Heap) (m : Gen.ArgModel) (a : Value) : Option Value :=
  match m.type with
  | none => some a
  | some t =>
    if t == "boolean" then some (.bool (truthy h a))
    else match a with
      | .null => if m.nullable then some .null else none
      | .num q => if typeBad t (.num q) then none else if t == "number" && numBad m q then none else some (.num q)
      | a => if typeBad t a then none else some a

/-- one missing argument (value.py:254-277) -/
def missingArg (m : Gen.ArgModel) : Option VArg :=
  if m.lastArgArray then some (.many [])
  else match m.default.bind parseDefault with
    | some d => some (.one d)
    | none =>
      if m.type == some "boolean" then some (.one (.bool false))
      else if m.type == none || m.nullable then some (.one .null)
      else none

/-- value.value_args_validate; `none` = ValueArgsError (carrying the function's failure value) -/
def validate (h : Heap) : List Gen.ArgModel → List Value → Option (List VArg)
  | [], [] => some []
  | [], _ :: _ => none
  | m :: ms, [] =>
    match missingArg m with
    | none => none
    | some a => (validate h ms []).map (a :: ·)
  | m :: ms, a :: as =>
    if m.lastArgArray then (validate h ms []).map (.many (a :: as) :: ·)
    else match checkArg h m a with
      | none => none
      | some v => (validate h ms as).map (.one v :: ·)

/-! ## dict primitives (insertion-ordered, unique keys) -/

def dictGet (kvs : List (String × Value)) (k : String) : Option Value := kvs.lookup k
def dictHas (kvs : List (String × Value)) (k : String) : Bool := (kvs.lookup k).isSome

/-- `d[k] = v`: an existing key keeps its position -/
def dictSet : List (String × Value) → String → Value → List (String × Value)
  | [], k, v => [(k, v)]
  | (k', v') :: rest, k, v => if k' == k then (k, v) :: rest else (k', v') :: dictSet rest k v

/-- `del d[k]` -/
def dictDel (kvs : List (String × Value)) (k : String) : List (String × Value) := kvs.filter (fun p => !(p.1 == k))

/-- `d.update(d2)` -/
def dictUpdate (kvs kvs2 : List (String × Value)) : List (String × Value) :=
  kvs2.foldl (fun acc p => dictSet acc p.1 p.2) kvs

/-! ## the function bodies (after validation) -/

def arrayCopyB : List VArg → Heap → Eff
  | [.one (.arr r)], h => match getArr h r with
    | some xs => .alloc (.arr xs)
    | none => .unmodelled
  | _, _ => .unmodelled

def arrayDeleteB : List VArg → Heap → Eff
  | [.one (.arr r), .one (.num q)], h => match getArr h r with
    | some xs =>
      if rle (ofNat xs.length) q then .fail .null
      else match pyDelItem xs (pyInt q) with
        | some xs' => .store r (.arr xs') .null
        | none => .fail .null
    | none => .unmodelled
  | _, _ => .unmodelled

def arrayExtendB : List VArg → Heap → Eff
  | [.one (.arr r), .one (.arr r2)], h => match getArr h r, getArr h r2 with
    | some xs, some ys => .store r (.arr (xs ++ ys)) (.arr r)
    | _, _ => .unmodelled
  | _, _ => .unmodelled

def arrayGetB : List VArg → Heap → Eff
  | [.one (.arr r), .one (.num q)], h => match getArr h r with
    | some xs =>
      if rle (ofNat xs.length) q then .fail .null
      else match pyGetItem xs (pyInt q) with
        | some v => .ret v
        | none => .fail .null
    | none => .unmodelled
  | _, _ => .unmodelled

/-- the search loop of `_array_index_of` / `_array_last_index_of` over a list of indices:
`none` = the comparison could not be evaluated, `some none` = not found -/
def searchIdx (h : Heap) (xs : List Value) (v : Value) : List Int → Option (Option Int)
  | [] => some none
  | i :: is =>
    match pyGetItem xs i with
    | none => none
    | some x =>
      match valueCompare h x v with
      | none => none
      | some c => if c = 0 then some (some i) else searchIdx h xs v is

def searchRes : Option (Option Int) → Eff
  | none => .unmodelled
  | some none => .ret (numI (-1))
  | some (some i) => .ret (numI i)

def arrayIndexOfB : List VArg → Heap → Eff
  | [.one (.arr r), .one v, .one (.num q)], h => match getArr h r with
    | some xs =>
      if rle (ofNat xs.length) q then .fail (numI (-1))
      else match v with
        | .fn _ => .unmodelled
        | v => searchRes (searchIdx h xs v (pyRange (pyInt q) (xs.length : Int)))
    | none => .unmodelled
  | _, _ => .unmodelled

/-- `index if index is not None else len - 1` -/
def idxOr (len : Nat) : Value → Option Rat
  | .null => some (Rat.ofInt ((len : Int) - 1))
  | .num q => some q
  | _ => none

def arrayLastIndexOfB : List VArg → Heap → Eff
  | [.one (.arr r), .one v, .one ix], h => match getArr h r with
    | some xs => match idxOr xs.length ix with
      | none => .unmodelled
      | some q =>
        if rle (ofNat xs.length) q then .fail (numI (-1))
        else match v with
          | .fn _ => .unmodelled
          | v => searchRes (searchIdx h xs v (pyRangeDown (pyInt q)))
    | none => .unmodelled
  | _, _ => .unmodelled

def joinStrs (sep : String) (xs : List Value) : Option String :=
  (xs.mapM valueString).map (String.intercalate sep)

def arrayJoinB : List VArg → Heap → Eff
  | [.one (.arr r), .one (.str sep)], h => match getArr h r with
    | some xs => match joinStrs sep xs with
      | some s => .ret (.str s)
      | none => .unmodelled
    | none => .unmodelled
  | _, _ => .unmodelled

def arrayLengthB : List VArg → Heap → Eff
  | [.one (.arr r)], h => match getArr h r with
    | some xs => .ret (numN xs.length)
    | none => .unmodelled
  | _, _ => .unmodelled

def arrayNewSizeB : List VArg → Heap → Eff
  | [.one (.num q), .one v], _ => .alloc (.arr (List.replicate (pyInt q).toNat v))
  | _, _ => .unmodelled

def arrayPopB : List VArg → Heap → Eff
  | [.one (.arr r)], h => match getArr h r with
    | some xs => match xs.getLast? with
      | none => .fail .null
      | some v => .store r (.arr xs.dropLast) v
    | none => .unmodelled
  | _, _ => .unmodelled

def arrayPushB : List VArg → Heap → Eff
  | [.one (.arr r), .many vs], h => match getArr h r with
    | some xs => .store r (.arr (xs ++ vs)) (.arr r)
    | none => .unmodelled
  | _, _ => .unmodelled

def arraySetB : List VArg → Heap → Eff
  | [.one (.arr r), .one (.num q), .one v], h => match getArr h r with
    | some xs =>
      if rle (ofNat xs.length) q then .fail .null
      else match pySetItem xs (pyInt q) v with
        | some xs' => .store r (.arr xs') v
        | none => .fail .null
    | none => .unmodelled
  | _, _ => .unmodelled

def arrayShiftB : List VArg → Heap → Eff
  | [.one (.arr r)], h => match getArr h r with
    | some [] => .fail .null
    | some (x :: xs) => .store r (.arr xs) x
    | none => .unmodelled
  | _, _ => .unmodelled

/-- `end if end is not None else len` -/
def endOr (len : Nat) : Value → Option Rat
  | .null => some (ofNat len)
  | .num q => some q
  | _ => none

def arraySliceB : List VArg → Heap → Eff
  | [.one (.arr r), .one (.num s), .one e], h => match getArr h r with
    | some xs => match endOr xs.length e with
      | none => .unmodelled
      | some e =>
        if rlt (ofNat xs.length) s then .fail .null
        else if rlt (ofNat xs.length) e then .fail .null
        else .alloc (.arr (pySlice xs (pyInt s) (pyInt e)))
    | none => .unmodelled
  | _, _ => .unmodelled

def objectAssignB : List VArg → Heap → Eff
  | [.one (.obj r), .one (.obj r2)], h => match getObj h r, getObj h r2 with
    | some kvs, some kvs2 => .store r (.obj (dictUpdate kvs kvs2)) (.obj r)
    | _, _ => .unmodelled
  | _, _ => .unmodelled

def objectCopyB : List VArg → Heap → Eff
  | [.one (.obj r)], h => match getObj h r with
    | some kvs => .alloc (.obj kvs)
    | none => .unmodelled
  | _, _ => .unmodelled

def objectDeleteB : List VArg → Heap → Eff
  | [.one (.obj r), .one (.str k)], h => match getObj h r with
    | some kvs => if dictHas kvs k then .store r (.obj (dictDel kvs k)) .null else .ret .null
    | none => .unmodelled
  | _, _ => .unmodelled

def objectGetB : List VArg → Heap → Eff
  | [.one (.obj r), .one (.str k), .one d], h => match getObj h r with
    | some kvs => .ret ((dictGet kvs k).getD d)
    | none => .unmodelled
  | _, _ => .unmodelled

def objectHasB : List VArg → Heap → Eff
  | [.one (.obj r), .one (.str k)], h => match getObj h r with
    | some kvs => .ret (.bool (dictHas kvs k))
    | none => .unmodelled
  | _, _ => .unmodelled

def objectKeysB : List VArg → Heap → Eff
  | [.one (.obj r)], h => match getObj h r with
    | some kvs => .alloc (.arr (kvs.map fun p => .str p.1))
    | none => .unmodelled
  | _, _ => .unmodelled

def objectSetB : List VArg → Heap → Eff
  | [.one (.obj r), .one (.str k), .one v], h => match getObj h r with
    | some kvs => .store r (.obj (dictSet kvs k v)) v
    | none => .unmodelled
  | _, _ => .unmodelled

def chars (s : String) : List Char := s.toList
def mkStr (cs : List Char) : Value := .str (String.ofList cs)

def stringCharCodeAtB : List VArg → Heap → Eff
  | [.one (.str s), .one (.num q)], _ =>
    if rle (ofNat (chars s).length) q then .fail .null
    else match pyGetItem (chars s) (pyInt q) with
      | some c => .ret (numN c.toNat)
      | none => .fail .null
  | _, _ => .unmodelled

def stringEndsWithB : List VArg → Heap → Eff
  | [.one (.str s), .one (.str t)], _ => .ret (.bool ((chars t).isSuffixOf (chars s)))
  | _, _ => .unmodelled

def stringStartsWithB : List VArg → Heap → Eff
  | [.one (.str s), .one (.str t)], _ => .ret (.bool ((chars t).isPrefixOf (chars s)))
  | _, _ => .unmodelled

def stringIndexOfB : List VArg → Heap → Eff
  | [.one (.str s), .one (.str t), .one (.num q)], _ =>
    if rle (ofNat (chars s).length) q then .fail (numI (-1))
    else .ret (numI (pyFind (chars s) (chars t) (pyInt q)))
  | _, _ => .unmodelled

def stringLastIndexOfB : List VArg → Heap → Eff
  | [.one (.str s), .one (.str t), .one ix], _ =>
    match idxOr (chars s).length ix with
    | none => .unmodelled
    | some q =>
      if rle (ofNat (chars s).length) q then .fail (numI (-1))
      else .ret (numI (pyRFind (chars s) (chars t) (pyInt q + (chars t).length)))
  | _, _ => .unmodelled

def stringLengthB : List VArg → Heap → Eff
  | [.one (.str s)], _ => .ret (numN (chars s).length)
  | _, _ => .unmodelled

def stringLowerB : List VArg → Heap → Eff
  | [.one (.str s)], _ => if (chars s).all (·.toNat < 128) then .ret (mkStr ((chars s).map asciiLower)) else .unmodelled
  | _, _ => .unmodelled

def stringUpperB : List VArg → Heap → Eff
  | [.one (.str s)], _ => if (chars s).all (·.toNat < 128) then .ret (mkStr ((chars s).map asciiUpper)) else .unmodelled
  | _, _ => .unmodelled

def stringRepeatB : List VArg → Heap → Eff
  | [.one (.str s), .one (.num q)], _ => .ret (mkStr (List.replicate (pyInt q).toNat (chars s)).flatten)
  | _, _ => .unmodelled

def stringReplaceB : List VArg → Heap → Eff
  | [.one (.str s), .one (.str old), .one (.str new)], _ => .ret (mkStr (pyReplace (chars s) (chars old) (chars new)))
  | _, _ => .unmodelled

def stringSliceB : List VArg → Heap → Eff
  | [.one (.str s), .one (.num b), .one e], _ =>
    match endOr (chars s).length e with
    | none => .unmodelled
    | some e =>
      if rlt (ofNat (chars s).length) b then .fail .null
      else if rlt (ofNat (chars s).length) e then .fail .null
      else .ret (mkStr (pySlice (chars s) (pyInt b) (pyInt e)))
  | _, _ => .unmodelled

def stringSplitB : List VArg → Heap → Eff
  | [.one (.str s), .one (.str sep)], _ =>
    if (chars sep).isEmpty then .fail .null   -- ValueError: empty separator
    else .alloc (.arr ((pySplit (chars s) (chars sep)).map mkStr))
  | _, _ => .unmodelled

def stringTrimB : List VArg → Heap → Eff
  | [.one (.str s)], _ => .ret (mkStr (pyStrip (chars s)))
  | _, _ => .unmodelled

def regexEscapeB : List VArg → Heap → Eff
  | [.one (.str s)], _ => .ret (mkStr (reEscape (chars s)))
  | _, _ => .unmodelled

def urlEncodeB (safe : List Nat) : List VArg → Heap → Eff
  | [.one (.str s)], _ => .ret (mkStr (pyQuote safe (chars s)))
  | _, _ => .unmodelled

/-! ### functions that do not go through `value_args_validate` -/

/-- `_array_new`: the (fresh) argument list itself -/
def arrayNewR (args : List Value) (_ : Heap) : Eff := .alloc (.arr args)

/-- the loop of `_object_new` -/
def objectNewLoop : List Value → List (String × Value) → Option (List (String × Value))
  | [], acc => some acc
  | [.str k], acc => some (dictSet acc k .null)
  | .str k :: v :: rest, acc => objectNewLoop rest (dictSet acc k v)
  | _, _ => none

def objectNewR (args : List Value) (_ : Heap) : Eff :=
  match objectNewLoop args [] with
  | some kvs => .alloc (.obj kvs)
  | none => .fail .null

/-- `_string_from_char_code`: every code must be a non-negative integral number (else ValueArgsError → null), `chr` must
accept it (else ValueError → null); surrogates are valid for `chr` but are not Lean characters → unmodelled -/
def charOfCode : Value → Option (Option Char)
  | .num q =>
    if isIntegral q && decide (0 ≤ q.num) then
      let n := q.num.toNat
      if n < 0xD800 then some (some (Char.ofNat n))
      else if n < 0xE000 then none
      else if n < 0x110000 then some (some (Char.ofNat n))
      else some none
    else some none
  | _ => some none

def fromCodes : List Value → List Char → Eff
  | [], acc => .ret (mkStr acc.reverse)
  | v :: vs, acc =>
    match charOfCode v with
    | none => if vs.all (fun w => (charOfCode w) != some none) then .unmodelled else .fail .null
    | some none => .fail .null
    | some (some c) => fromCodes vs (c :: acc)

def stringFromCharCodeR (args : List Value) (_ : Heap) : Eff := fromCodes args []

/-! ## dispatch -/

/-- validated-argument bodies by script function name -/
def bodies : List (String × (List VArg → Heap → Eff)) := [
  ("arrayCopy", arrayCopyB), ("arrayDelete", arrayDeleteB), ("arrayExtend", arrayExtendB), ("arrayGet", arrayGetB),
  ("arrayIndexOf", arrayIndexOfB), ("arrayJoin", arrayJoinB), ("arrayLastIndexOf", arrayLastIndexOfB),
  ("arrayLength", arrayLengthB), ("arrayNewSize", arrayNewSizeB), ("arrayPop", arrayPopB), ("arrayPush", arrayPushB),
  ("arraySet", arraySetB), ("arrayShift", arrayShiftB), ("arraySlice", arraySliceB),
  ("objectAssign", objectAssignB), ("objectCopy", objectCopyB), ("objectDelete", objectDeleteB), ("objectGet", objectGetB),
  ("objectHas", objectHasB), ("objectKeys", objectKeysB), ("objectSet", objectSetB),
  ("stringCharCodeAt", stringCharCodeAtB), ("stringEndsWith", stringEndsWithB), ("stringIndexOf", stringIndexOfB),
  ("stringLastIndexOf", stringLastIndexOfB), ("stringLength", stringLengthB), ("stringLower", stringLowerB),
  ("stringRepeat", stringRepeatB), ("stringReplace", stringReplaceB), ("stringSlice", stringSliceB),
  ("stringSplit", stringSplitB), ("stringStartsWith", stringStartsWithB), ("stringTrim", stringTrimB),
  ("stringUpper", stringUpperB), ("regexEscape", regexEscapeB),
  ("urlEncode", urlEncodeB (safeBytes ((Gen.urlSafe.lookup "urlEncode").getD ""))),
  ("urlEncodeComponent", urlEncodeB (safeBytes ((Gen.urlSafe.lookup "urlEncodeComponent").getD "")))]

/-- bodies of the functions that take the raw argument list -/
def rawBodies : List (String × (List Value → Heap → Eff)) := [
  ("arrayNew", arrayNewR), ("objectNew", objectNewR), ("stringFromCharCode", stringFromCharCodeR)]

/-- the failure value a function passes to `value_args_validate` (JSON text of `Gen.libFns`); `<dynamic>` is
`_object_get`'s `args[2] if len(args) >= 3 else None` -/
def failValue (txt : String) (args : List Value) : Option Value :=
  if txt == "null" then some .null
  else if txt == "<dynamic>" then some (args[2]?.getD .null)
  else parseDefault txt

/-- one library call, as an effect description -/
def eff (f : String) (args : List Value) (h : Heap) : Eff :=
  match Gen.libFns.lookup f with
  | none => .unmodelled
  | some (modelName, failTxt) =>
    if modelName == "" then
      match rawBodies.lookup f with
      | some b => b args h
      | none => .unmodelled
    else
      match Gen.argModels.lookup modelName, bodies.lookup f, failValue failTxt args with
      | some ms, some b, some fv =>
        match validate h ms args with
        | none => .fail fv
        | some va => b va h
      | _, _, _ => .unmodelled

/-- one library call through the call wrapper -/
def lib (f : String) (args : List Value) (h : Heap) : Res × Heap := (eff f args h).run h

/-! ## histories of calls issued from a script: `v_k = f(args…)`, one per statement -/

inductive Arg where
  | lit (v : Value)
  | var (i : Nat)
deriving Repr, Inhabited

structure Call where
  fn : String
  args : List Arg
deriving Repr, Inhabited

structure St where
  env : List Value
  heap : Heap
deriving Repr, Inhabited, DecidableEq

/-- an unbound variable evaluates to null -/
def evalArg (env : List Value) : Arg → Value
  | .lit v => v
  | .var i => env[i]?.getD .null

def Res.val : Res → Value
  | .ok v => v
  | .fail v => v
  | .unmodelled => .null

abbrev LibT := String → List Value → Heap → Res × Heap

/-- execute `v_(env.length) = c.fn(c.args…)` -/
def step (L : LibT) (s : St) (c : Call) : St :=
  let r := L c.fn (c.args.map (evalArg s.env)) s.heap
  ⟨s.env ++ [r.1.val], r.2⟩

def runHistory (L : LibT) (cs : List Call) (s : St) : St := cs.foldl (step L) s

end Lib
