import BareModel.Text
import BareModel.Scan
import BareModel.ExprParse
import BareModel.Lower

/-!
# `parse_script` assembled (mirror of parser.py:11-403)

logical lines (`Text.scriptLines`) → per line: regex cascade (`Scan.shape`), expression parsing (`ExprParse.parseExpr`),
lowering step (`Lower.stepLine`) → end-of-input checks.  Every failure is a `ParserError` carrying what
`BareScriptParserError` carries: error text, line text, 1-based column, line number.

Order of checks per line as in the code: an `elif` tests the block structure *before* parsing its expression, every
other statement kind parses its expression first.  `Missing end…` errors report the line that opened the block.
-/

namespace Parser
open Lower

structure ParserError where
  error : String
  line : String
  column : Nat
  lineNumber : Nat
deriving Repr, DecidableEq, Inhabited

/-- source position of the line that opened each entry of `PState.defs` (innermost first) and of the open function -/
structure Where where
  defs : List (String × Nat) := []
  func : Option (String × Nat) := none
deriving Repr, Inhabited

abbrev St := PState × Where

def dummyExpr : Expr := .variable (.user "")

/-- one logical line `(ix, line)`; `start` = `start_line_number` -/
def stepLogical (start : Nat) (s : St) (ix : Nat) (line : String) : Except ParserError St :=
  let ps := s.1
  let wh := s.2
  let ln := start + ix
  let structural (e : LowerErr) : ParserError :=
    match e with
    | .missingEnd _ =>
        -- raised by `endfunction` with an open block: reports the block's opening line
        match wh.defs with
        | (dl, dn) :: _ => ⟨e.text, dl, 1, dn⟩
        | [] => ⟨e.text, line, 1, ln⟩
    | _ => ⟨e.text, line, 1, ln⟩
  -- `elif`: block structure is checked before the expression is parsed
  let pre : Except ParserError Unit :=
    match Scan.shape line.toList with
    | .elif _ _ =>
        match stepLine ps (.elif dummyExpr) with
        | .error e => .error (structural e)
        | .ok _ => .ok ()
    | _ => .ok ()
  match pre with
  | .error e => .error e
  | .ok () =>
    match Scan.classify ExprParse.parseExpr line with
    | .error pe => .error ⟨pe.error, line, pe.column, ln⟩
    | .ok cl =>
      match stepLine ps cl with
      | .error e => .error (structural e)
      | .ok ps' =>
        let defs' :=
          if ps'.defs.length = ps.defs.length + 1 then (line, ln) :: wh.defs
          else if ps'.defs.length + 1 = ps.defs.length then wh.defs.tail
          else wh.defs
        let func' :=
          match ps.func, ps'.func with
          | none, some _ => some (line, ln)
          | _, none => none
          | some _, some _ => wh.func
        .ok (ps', { defs := defs', func := func' })

def stepAll (start : Nat) : St → List (Nat × String) → Except ParserError St
  | s, [] => .ok s
  | s, (ix, line) :: rest =>
      match stepLogical start s ix line with
      | .ok s' => stepAll start s' rest
      | .error e => .error e

/-- end of input (parser.py:396-411): dangling continuation, then open blocks, then an open function -/
def finishAll (start : Nat) (s : St) (dangling : Option Text.LineErr) : Except ParserError (List Stmt) :=
  match dangling with
  | some d => .error ⟨d.error, d.line, d.column, start + d.ixLine⟩
  | none =>
    match s.1.defs, s.2.defs with
    | d :: _, (dl, dn) :: _ => .error ⟨(LowerErr.missingEnd d.kind).text, dl, 1, dn⟩
    | d :: _, [] => .error ⟨(LowerErr.missingEnd d.kind).text, "", 1, start⟩        -- unreachable: the stacks move together
    | [], _ =>
      match s.1.func, s.2.func with
      | some _, some (fl, fn) => .error ⟨(LowerErr.missingEnd "function").text, fl, 1, fn⟩
      | some _, none => .error ⟨(LowerErr.missingEnd "function").text, "", 1, start⟩   -- unreachable
      | none, _ => .ok s.1.stmts

/-- `parse_script(chunks, start_line_number)` -/
def parseScript (chunks : List String) (start : Nat := 1) : Except ParserError (List Stmt) :=
  let ll := Text.scriptLines chunks
  match stepAll start (PState.init, {}) ll.1 with
  | .error e => .error e
  | .ok s => finishAll start s ll.2

end Parser
