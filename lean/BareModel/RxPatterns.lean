import BareModel.Rx
import BareModel.Scan

/-!
# RxPatterns — the regular expressions of parser.py as `Rx` ASTs (extension C06X)

One AST per module-level pattern of `bare_script/parser.py` (`_R_SCRIPT_*`: the statement cascade and the text layer;
`_R_EXPR_*`: the expression tokens).  `C06Regex.sources_pinned` proves, for every entry of `patterns`, that
`render ast` is character for character the source regenerated from the working tree into `Gen.regexes` (flags 32) — a
changed pattern in parser.py breaks that obligation; nothing here is trusted as a copy.
-/

namespace RxPatterns
open Rx

def dotPlus : Rx := .plus (.one .dot)

/-- `^\s*kw\s*$` -/
def kwOnly (w : String) : Rx := .bol ⬝ ws ⬝ kw w.toList ⬝ ws ⬝ .eol

/-- `^\s*kw\s+(?P<expr>.+)\s*:\s*$` -/
def kwExprColon (w : String) : Rx :=
  .bol ⬝ ws ⬝ kw w.toList ⬝ ws1 ⬝ .cap 1 (some "expr") dotPlus ⬝ ws ⬝ lit ':' ⬝ ws ⬝ .eol

/-- `^\s*(?P<name>[A-Za-z_]\w*)\s*=\s*(?P<expr>.+)$` -/
def assignment : Rx :=
  .bol ⬝ ws ⬝ .cap 1 (some "name") ident ⬝ ws ⬝ lit '=' ⬝ ws ⬝ .cap 2 (some "expr") dotPlus ⬝ .eol

def break_ : Rx := kwOnly "break"
def continue_ : Rx := kwOnly "continue"
def forEnd : Rx := kwOnly "endfor"
def functionEnd : Rx := kwOnly "endfunction"
def ifEnd : Rx := kwOnly "endif"
def whileEnd : Rx := kwOnly "endwhile"

/-- `^\s*(?:#.*)?$` -/
def comment : Rx := .bol ⬝ ws ⬝ .opt (.ncg (lit '#' ⬝ .star (.one .dot))) ⬝ .eol

/-- `\\\s*$` -/
def continuation : Rx := elit '\\' ⬝ ws ⬝ .eol

/-- `^\s*for\s+(?P<value>[A-Za-z_]\w*)(?:\s*,\s*(?P<index>[A-Za-z_]\w*))?\s+in\s+(?P<values>.+)\s*:\s*$` -/
def forBegin : Rx :=
  .bol ⬝ ws ⬝ kw "for".toList ⬝ ws1 ⬝ .cap 1 (some "value") ident ⬝
    .opt (.ncg (ws ⬝ lit ',' ⬝ ws ⬝ .cap 2 (some "index") ident)) ⬝
    ws1 ⬝ kw "in".toList ⬝ ws1 ⬝ .cap 3 (some "values") dotPlus ⬝ ws ⬝ lit ':' ⬝ ws ⬝ .eol

/-- `\s*,\s*` -/
def functionArgSplit : Rx := ws ⬝ lit ',' ⬝ ws

/-- `^(?P<async>\s*async)?\s*function\s+(?P<name>[A-Za-z_]\w*)\s*\(\s*(?P<args>[A-Za-z_]\w*(?:\s*,\s*[A-Za-z_]\w*)*)?`
`(?P<lastArgArray>\s*\.\.\.)?\s*\)\s*:\s*$` -/
def functionBegin : Rx :=
  .bol ⬝ .opt (.cap 1 (some "async") (ws ⬝ kw "async".toList)) ⬝ ws ⬝ kw "function".toList ⬝ ws1 ⬝
    .cap 2 (some "name") ident ⬝ ws ⬝ elit '(' ⬝ ws ⬝
    .opt (.cap 3 (some "args") (ident ⬝ .star (.ncg (ws ⬝ lit ',' ⬝ ws ⬝ ident)))) ⬝
    .opt (.cap 4 (some "lastArgArray") (ws ⬝ elit '.' ⬝ elit '.' ⬝ elit '.')) ⬝
    ws ⬝ elit ')' ⬝ ws ⬝ lit ':' ⬝ ws ⬝ .eol

def ifBegin : Rx := kwExprColon "if"
def ifElseIf : Rx := kwExprColon "elif"
def whileBegin : Rx := kwExprColon "while"

/-- `^\s*else\s*:\s*$` -/
def ifElse : Rx := .bol ⬝ ws ⬝ kw "else".toList ⬝ ws ⬝ lit ':' ⬝ ws ⬝ .eol

/-- `^\s*include\s+(?P<delim>\')(?P<url>(?:\\\'|[^\'])*)\'\s*$` -/
def include_ : Rx :=
  .bol ⬝ ws ⬝ kw "include".toList ⬝ ws1 ⬝ .cap 1 (some "delim") (elit '\'') ⬝
    .cap 2 (some "url") (.star (.ncg (.alt (elit '\\' ⬝ elit '\'') (.one (.cls true [.ch true '\'']))))) ⬝
    elit '\'' ⬝ ws ⬝ .eol

/-- `^\s*include\s+(?P<delim><)(?P<url>[^>]*)>\s*$` -/
def includeSystem : Rx :=
  .bol ⬝ ws ⬝ kw "include".toList ⬝ ws1 ⬝ .cap 1 (some "delim") (lit '<') ⬝
    .cap 2 (some "url") (.star (.one (.cls true [.ch false '>']))) ⬝ lit '>' ⬝ ws ⬝ .eol

/-- `^(?P<jump>\s*(?:jump|jumpif\s*\((?P<expr>.+)\)))\s+(?P<name>[A-Za-z_]\w*)\s*$` -/
def jump : Rx :=
  .bol ⬝ .cap 1 (some "jump") (ws ⬝ .ncg (.alt (kw "jump".toList)
      (kw "jumpif".toList ⬝ ws ⬝ elit '(' ⬝ .cap 2 (some "expr") dotPlus ⬝ elit ')'))) ⬝
    ws1 ⬝ .cap 3 (some "name") ident ⬝ ws ⬝ .eol

/-- `^\s*(?P<name>[A-Za-z_]\w*)\s*:\s*$` -/
def label : Rx := .bol ⬝ ws ⬝ .cap 1 (some "name") ident ⬝ ws ⬝ lit ':' ⬝ ws ⬝ .eol

/-- `\r?\n` -/
def lineSplit : Rx := .opt (.one (.ctrl 'r')) ⬝ .one (.ctrl 'n')

/-- `^(?P<return>\s*return(?:\s+(?P<expr>\S.*))?)\s*$` -/
def return_ : Rx :=
  .bol ⬝ .cap 1 (some "return") (ws ⬝ kw "return".toList ⬝
      .opt (.ncg (ws1 ⬝ .cap 2 (some "expr") (.one .nspace ⬝ .star (.one .dot))))) ⬝ ws ⬝ .eol

/-! ### expression tokens -/

def alts : Rx → List Rx → Rx
  | a, [] => a
  | a, b :: bs => .alt a (alts b bs)

/-- `^\s*(\*\*|\*|\/|%|\+|-|<=|<|>=|>|==|!=|&&|\|\|)` -/
def exprBinaryOp : Rx :=
  .bol ⬝ ws ⬝ .cap 1 none (alts (elit '*' ⬝ elit '*') [elit '*', elit '/', lit '%', elit '+', lit '-', lit '<' ⬝ lit '=',
    lit '<', lit '>' ⬝ lit '=', lit '>', lit '=' ⬝ lit '=', lit '!' ⬝ lit '=', lit '&' ⬝ lit '&', elit '|' ⬝ elit '|'])

/-- `^\s*\)` -/
def exprClose : Rx := .bol ⬝ ws ⬝ elit ')'
/-- `^\s*([A-Za-z_]\w*)\s*\(` -/
def exprFunctionOpen : Rx := .bol ⬝ ws ⬝ .cap 1 none ident ⬝ ws ⬝ elit '('
/-- `^\s*,` -/
def exprFunctionSeparator : Rx := .bol ⬝ ws ⬝ lit ','
/-- `^\s*\(` -/
def exprGroupOpen : Rx := .bol ⬝ ws ⬝ elit '('

def signCls : Rx := .one (.cls false [.ch false '+', .ch false '-'])
def digits1 : Rx := .plus (.one .digit)

/-- `^\s*([+-]?\d+(?:\.\d*)?(?:e[+-]\d+)?)` -/
def exprNumber : Rx :=
  .bol ⬝ ws ⬝ .cap 1 none (.opt signCls ⬝ digits1 ⬝ .opt (.ncg (elit '.' ⬝ .star (.one .digit))) ⬝
    .opt (.ncg (lit 'e' ⬝ signCls ⬝ digits1)))

/-- `^\s*'((?:\\\\|\\'|[^'])*)'` (and the same with `"`) -/
def exprStringQ (q : Char) : Rx :=
  .bol ⬝ ws ⬝ lit q ⬝ .cap 1 none (.star (.ncg (alts (elit '\\' ⬝ elit '\\') [elit '\\' ⬝ lit q, .one (.cls true [.ch false q])]))) ⬝
    lit q

def exprString : Rx := exprStringQ '\''
def exprStringDouble : Rx := exprStringQ '"'

/-- `\\([\\\'])` -/
def exprStringEscape : Rx := elit '\\' ⬝ .cap 1 none (.one (.cls false [.ch true '\\', .ch true '\'']))
/-- `\\([\\"])` -/
def exprStringDoubleEscape : Rx := elit '\\' ⬝ .cap 1 none (.one (.cls false [.ch true '\\', .ch false '"']))

/-- `^\s*(!|-)` -/
def exprUnaryOp : Rx := .bol ⬝ ws ⬝ .cap 1 none (.alt (lit '!') (lit '-'))

/-- `^\s*([A-Za-z_]\w*)` -/
def exprVariable : Rx := .bol ⬝ ws ⬝ .cap 1 none ident

/-- `^\s*\[\s*((?:\\\]|[^\]])+)\s*\]` -/
def exprVariableEx : Rx :=
  .bol ⬝ ws ⬝ elit '[' ⬝ ws ⬝ .cap 1 none (.plus (.ncg (.alt (elit '\\' ⬝ elit ']') (.one (.cls true [.ch true ']']))))) ⬝
    ws ⬝ elit ']'

/-- `\\([\\\]])` -/
def exprVariableExEscape : Rx := elit '\\' ⬝ .cap 1 none (.one (.cls false [.ch true '\\', .ch true ']']))

/-- every pattern of parser.py, by the name it has in `Gen.regexes` -/
def patterns : List (String × Rx) := [
  ("parser._R_EXPR_BINARY_OP", exprBinaryOp),
  ("parser._R_EXPR_FUNCTION_CLOSE", exprClose),
  ("parser._R_EXPR_FUNCTION_OPEN", exprFunctionOpen),
  ("parser._R_EXPR_FUNCTION_SEPARATOR", exprFunctionSeparator),
  ("parser._R_EXPR_GROUP_CLOSE", exprClose),
  ("parser._R_EXPR_GROUP_OPEN", exprGroupOpen),
  ("parser._R_EXPR_NUMBER", exprNumber),
  ("parser._R_EXPR_STRING", exprString),
  ("parser._R_EXPR_STRING_DOUBLE", exprStringDouble),
  ("parser._R_EXPR_STRING_DOUBLE_ESCAPE", exprStringDoubleEscape),
  ("parser._R_EXPR_STRING_ESCAPE", exprStringEscape),
  ("parser._R_EXPR_UNARY_OP", exprUnaryOp),
  ("parser._R_EXPR_VARIABLE", exprVariable),
  ("parser._R_EXPR_VARIABLE_EX", exprVariableEx),
  ("parser._R_EXPR_VARIABLE_EX_ESCAPE", exprVariableExEscape),
  ("parser._R_SCRIPT_ASSIGNMENT", assignment),
  ("parser._R_SCRIPT_BREAK", break_),
  ("parser._R_SCRIPT_COMMENT", comment),
  ("parser._R_SCRIPT_CONTINUATION", continuation),
  ("parser._R_SCRIPT_CONTINUE", continue_),
  ("parser._R_SCRIPT_FOR_BEGIN", forBegin),
  ("parser._R_SCRIPT_FOR_END", forEnd),
  ("parser._R_SCRIPT_FUNCTION_ARG_SPLIT", functionArgSplit),
  ("parser._R_SCRIPT_FUNCTION_BEGIN", functionBegin),
  ("parser._R_SCRIPT_FUNCTION_END", functionEnd),
  ("parser._R_SCRIPT_IF_BEGIN", ifBegin),
  ("parser._R_SCRIPT_IF_ELSE", ifElse),
  ("parser._R_SCRIPT_IF_ELSE_IF", ifElseIf),
  ("parser._R_SCRIPT_IF_END", ifEnd),
  ("parser._R_SCRIPT_INCLUDE", include_),
  ("parser._R_SCRIPT_INCLUDE_SYSTEM", includeSystem),
  ("parser._R_SCRIPT_JUMP", jump),
  ("parser._R_SCRIPT_LABEL", label),
  ("parser._R_SCRIPT_LINE_SPLIT", lineSplit),
  ("parser._R_SCRIPT_RETURN", return_),
  ("parser._R_SCRIPT_WHILE_BEGIN", whileBegin),
  ("parser._R_SCRIPT_WHILE_END", whileEnd)
]

/-! ## what parser.py reads from a match (the right-hand sides of the theorems of `BareProofs/C06Regex.lean`)

Each `rx…` below is `pattern.match(line)` by `Rx.matchAt` on the AST followed by exactly the group accesses of the
corresponding branch of `parse_script` (group texts, `match.start(group)` or the `len(..) - len(..)` arithmetic of the
code), packed into the `Scan.Shape` the hand-written scanner returns. -/

open Scan Text

/-- `re.sub(pattern, r'\1', s)` for a pattern that cannot match the empty string: left to right, non-overlapping -/
def sub1Aux (r : Rx) : Nat → List Char → List Char
  | 0, s => s
  | _ + 1, [] => []
  | fuel + 1, c :: t =>
    match matchFrom r 0 (c :: t) with
    | some st =>
      if st.pos = 0 then c :: sub1Aux r fuel t
      else ((st.group (c :: t) 1).getD []) ++ sub1Aux r fuel st.rest
    | none => c :: sub1Aux r fuel t

def sub1 (r : Rx) (s : List Char) : List Char := sub1Aux r s.length s

/-- `pattern.split(s)` for a pattern without groups that cannot match the empty string -/
def splitAux (r : Rx) : Nat → List Char → List Char → List (List Char)
  | 0, cur, s => [cur.reverse ++ s]
  | _ + 1, cur, [] => [cur.reverse]
  | fuel + 1, cur, c :: t =>
    match matchFrom r 0 (c :: t) with
    | some st =>
      if st.pos = 0 then splitAux r fuel (c :: cur) t
      else cur.reverse :: splitAux r fuel [] st.rest
    | none => splitAux r fuel (c :: cur) t

def split (r : Rx) (s : List Char) : List (List Char) := splitAux r s.length [] s

/-- `^\s*kw\s*$` matched? -/
def rxKwOnly (w : String) (sh : Shape) (line : Chars) : Option Shape :=
  (matchAt (kwOnly w) line).map fun _ => sh

/-- `_R_SCRIPT_COMMENT.match(line) is not None` -/
def rxComment (line : Chars) : Bool := (matchAt comment line).isSome

/-- the text before the match of `_R_SCRIPT_CONTINUATION.search(line)` -/
def rxContBody (line : Chars) : Option Chars := (search continuation line).map fun m => line.take m.1

/-- parser.py:352-354 -/
def rxLabel (line : Chars) : Option Shape :=
  (matchAt label line).bind fun st => (st.group line 1).map Shape.label

/-- parser.py:179 -/
def rxElse (line : Chars) : Option Shape := (matchAt ifElse line).map fun _ => Shape.else_

/-- parser.py:70-83: `name`, `expr`, column base `len(line) - len(expr)` -/
def rxAssign (line : Chars) : Option Shape :=
  (matchAt assignment line).bind fun st =>
    (st.group line 1).bind fun name => (st.group line 2).map fun expr =>
      Shape.assign name (line.length - expr.length) expr

/-- parser.py:129/150/217 with `_parse_expression_group`: `expr`, column base `match.start('expr')` -/
def rxKwExprColon (w : String) (mk : Nat → Chars → Shape) (line : Chars) : Option Shape :=
  (matchAt (kwExprColon w) line).bind fun st =>
    (st.span 1).map fun ab => mk ab.1 (slice line ab)

/-- parser.py:254-266 -/
def rxFor (line : Chars) : Option Shape :=
  (matchAt forBegin line).bind fun st =>
    (st.group line 1).bind fun value => (st.span 3).map fun ab =>
      Shape.forBegin value (st.group line 2) ab.1 (slice line ab)

/-- parser.py:358-366: `if match.group('expr')`, column base `len(jump) - len(expr) - 1` -/
def rxJump (line : Chars) : Option Shape :=
  (matchAt jump line).bind fun st =>
    (st.group line 3).bind fun name => (st.group line 1).map fun j =>
      Shape.jump name (match st.group line 2 with
        | some (c :: e) => some (j.length - (c :: e).length - 1, c :: e)
        | _ => none)

/-- parser.py:371-379: `if match.group('expr')`, column base `len(return) - len(expr)` -/
def rxReturn (line : Chars) : Option Shape :=
  (matchAt return_ line).bind fun st =>
    (st.group line 1).map fun r =>
      Shape.ret (match st.group line 2 with
        | some (c :: e) => some (r.length - (c :: e).length, c :: e)
        | _ => none)

/-- parser.py:384-387: `_R_SCRIPT_INCLUDE.match(line) or _R_SCRIPT_INCLUDE_SYSTEM.match(line)`, the quoted url through
`_R_EXPR_STRING_ESCAPE.sub('\\1', url)` -/
def rxInclude (line : Chars) : Option Shape :=
  ((matchAt include_ line).bind fun st => (st.group line 2).map fun url => Shape.include (sub1 exprStringEscape url) false) <|>
  ((matchAt includeSystem line).bind fun st => (st.group line 2).map fun url => Shape.include url true)

/-- parser.py:86-107: `args` split by `_R_SCRIPT_FUNCTION_ARG_SPLIT` -/
def rxFunction (line : Chars) : Option Shape :=
  (matchAt functionBegin line).bind fun st =>
    (st.group line 2).map fun name =>
      Shape.funcBegin name (match st.group line 3 with | some a => split functionArgSplit a | none => [])
        (st.span 4).isSome (st.span 1).isSome

/-- the cascade of `parse_script` (parser.py:69-400), every test by `Rx.matchAt` on the pattern's AST -/
def rxShape (line : Chars) : Shape :=
  (rxAssign line <|> rxFunction line <|> rxKwOnly "endfunction" .funcEnd line <|>
   rxKwExprColon "if" .ifBegin line <|> rxKwExprColon "elif" .elif line <|> rxElse line <|> rxKwOnly "endif" .endif line <|>
   rxKwExprColon "while" .whileBegin line <|> rxKwOnly "endwhile" .endwhile line <|>
   rxFor line <|> rxKwOnly "endfor" .endfor line <|> rxKwOnly "break" .break_ line <|> rxKwOnly "continue" .continue_ line <|>
   rxLabel line <|> rxJump line <|> rxReturn line <|> rxInclude line).getD .exprStmt

end RxPatterns
