import BareModel.LibH2
import BareModel.Json
import BareModel.NumText

/-!
# LibH3 — number PRODUCERS and more consumers at host level, and HISTORIES of library calls / operators (property C12, extension)

Same style and types as `LibH` / `LibH2` (`PyNum = int | float`, `Val`, `Fail`, `Out`, `validateH/A`):

* producers, with the host type CPython gives the number they make:
  `jsonParse` (`json.loads`: a number token without fraction / exponent is an `int`, any other a `float` = the double nearest to the
  decimal value; objects are dicts: a repeated key keeps its first position and its last value), `numberParseFloat` (`float`),
  `datetimeYear/Month/Day/Hour/Minute/Second/Millisecond` (`int`), `objectKeys` (no numbers);
  (the producers `numberParseInt`, `arrayLength`, `stringLength`, `arrayIndexOf`, `stringIndexOf`, `stringCharCodeAt`,
  `mathFloor/Ceil` (int), `mathRound` (float), `systemCompare`, `arrayPush` are bodies of `LibH` / `LibH2` and are part of the single
  dispatch `callAllH` below);
* consumers: `objectGet/Set/Has/Delete/Assign/Copy/New` with number VALUES inside (keys must be strings: a number key is a failure in
  either spelling; `objectGet`'s failure value is its third argument), `systemType` / `systemBoolean` / `systemIs`
  (`number` and truthiness for `0` and `0.0`; `value_is` compares two numbers with `==`), `arraySort` without a compare function (stable
  sort by `value_compare`, the elements keep their spelling).

Every body is written ONCE, generically in the number type, over the record `NumOps` of the primitives that look at a number
(`!= 0`, `==`, three-way compare, "make a host int", "make a host float"): the host instance `hOps` uses Python's mixed int/float
primitives, the one-number-type instance `aOps` the rationals.

## Histories

`Step` = a library call or an operator application whose operands are variables of a pool; the result is appended to the pool, the
post-call contents of the argument objects are written back to the variables they came from (by-value model: no aliasing between pool
slots; the harness gives every slot its own copy).  `runH` / `runA` produce the pool after every step.

`stepOkB` is the per-step hypothesis of the history theorem (a `Bool`, so decidable): the magnitude conditions of the per-call theorems on
the ACTUAL operands of the step.  `stepModelledB` says whether the model claims to describe the implementation on this step (identity
comparisons of `systemIs`, datetime arithmetic and compare-function call-backs are outside).
-/

namespace LibH3
open LibH LibH2

/-! ## the primitives that look at a number -/

structure NumOps (N : Type) where
  nonzero : N → Bool
  cmp : N → N → Int
  eq : N → N → Bool
  /-- a number CPython makes as an `int` -/
  ofInt : Int → N
  /-- a number CPython makes as a `float` holding this value -/
  ofFloat : Rat → N

def hOps : NumOps PyNum := ⟨pyNonzero, pyCmp, pyEq, PyNum.int, PyNum.float⟩
def aOps : NumOps Rat := ⟨fun q => q != 0, ratCmp, ratEq, fun n => (n : Rat), fun q => q⟩

/-- result of a body: value + the new contents of argument 0 (for the mutators) -/
abbrev BodyR3 (N : Type) := Val N × Option (Val N)

def badShape3 {N : Type} : Except (Fail N) (BodyR3 N) := .error (.host .typeError)

def _root_.LibH.Val.asObj? {N : Type} : Val N → Option (List (String × Val N)) | .obj kvs => some kvs | _ => none

/-! ## dict primitives on insertion-ordered key/value lists -/

/-- `d[k] = v`: an existing key keeps its position -/
def objSet {V : Type} (k : String) (v : V) : List (String × V) → List (String × V)
  | [] => [(k, v)]
  | p :: r => if p.1 == k then (k, v) :: r else p :: objSet k v r

/-- `d.get(k)` -/
def objGet? {V : Type} (k : String) (kvs : List (String × V)) : Option V := (kvs.find? (fun p => p.1 == k)).map (·.2)

/-- `d.update(d2)` -/
def objUpdate {V : Type} (d d2 : List (String × V)) : List (String × V) := d2.foldl (fun acc p => objSet p.1 p.2 acc) d

/-! ## object functions (library.py:1109-1240) -/

/-- library.py:1109-1112 -/
def objectAssignG {N : Type} (v : List (Val N)) : Except (Fail N) (BodyR3 N) := do
  let (a, b) ← req (list2 v)
  let d ← req a.asObj?
  let d2 ← req b.asObj?
  pure (.obj (objUpdate d d2), some (.obj (objUpdate d d2)))

/-- library.py:1125-1127 -/
def objectCopyG {N : Type} (v : List (Val N)) : Except (Fail N) (BodyR3 N) := do
  let a ← req (list1 v)
  let d ← req a.asObj?
  pure (.obj d, none)

/-- library.py:1139-1142 -/
def objectDeleteG {N : Type} (v : List (Val N)) : Except (Fail N) (BodyR3 N) := do
  let (a, k) ← req (list2 v)
  let d ← req a.asObj?
  let key ← req k.asStr?
  pure (.null, some (.obj (d.filter (fun p => !(p.1 == key)))))

/-- library.py:1157-1160 (validated list: object, key, defaultValue) -/
def objectGetG {N : Type} (v : List (Val N)) : Except (Fail N) (BodyR3 N) := do
  let (a, k, dflt) ← req (list3 v)
  let d ← req a.asObj?
  let key ← req k.asStr?
  pure ((objGet? key d).getD dflt, none)

/-- library.py:1175-1177 -/
def objectHasG {N : Type} (v : List (Val N)) : Except (Fail N) (BodyR3 N) := do
  let (a, k) ← req (list2 v)
  let d ← req a.asObj?
  let key ← req k.asStr?
  pure (.bool (d.any (fun p => p.1 == key)), none)

/-- library.py:1190-1192 -/
def objectKeysG {N : Type} (v : List (Val N)) : Except (Fail N) (BodyR3 N) := do
  let a ← req (list1 v)
  let d ← req a.asObj?
  pure (.arr (d.map (fun p => Val.str p.1)), none)

/-- the loop of library.py:1206-1212: `value_type(key) != 'string'` raises `ValueArgsError('keyValues', key)` (failure value null) -/
def objectNewLoop {N : Type} : List (Val N) → List (String × Val N) → Except (Fail N) (List (String × Val N))
  | [], acc => pure acc
  | [k], acc =>
    match k.asStr? with
    | some s => pure (objSet s .null acc)
    | none => throw (.args .null)
  | k :: value :: r, acc =>
    match k.asStr? with
    | some s => objectNewLoop r (objSet s value acc)
    | none => throw (.args .null)

/-- library.py:1204-1213 (no argument model) -/
def objectNewG {N : Type} (v : List (Val N)) : Except (Fail N) (BodyR3 N) := do
  let d ← objectNewLoop v []
  pure (.obj d, none)

/-- library.py:1222-1225 -/
def objectSetG {N : Type} (v : List (Val N)) : Except (Fail N) (BodyR3 N) := do
  let (a, k, value) ← req (list3 v)
  let d ← req a.asObj?
  let key ← req k.asStr?
  pure (value, some (.obj (objSet key value d)))

/-! ## system functions -/

/-- library.py:1969-1971 + value.py:27-47 -/
def systemTypeG {N : Type} (v : List (Val N)) : Except (Fail N) (BodyR3 N) := do
  let a ← req (list1 v)
  pure (.str (typeName a), none)

/-- library.py:1754-1756 + value.py:138-157 -/
def systemBooleanG {N : Type} (O : NumOps N) (v : List (Val N)) : Except (Fail N) (BodyR3 N) := do
  let a ← req (list1 v)
  pure (.bool (truthy O.nonzero a), none)

/-- `value_is` (value.py:160-174): two numbers (booleans are not numbers) compare with `==`; `None`, `True`, `False` are singletons;
    values of different kinds are never the same object.  Two strings / arrays / objects / opaque values: object identity, which a
    by-value model cannot express (`identityFree` is false there, the answer given here is `false`). -/
def isSame {N : Type} (O : NumOps N) : Val N → Val N → Bool
  | .num a, .num b => O.eq a b
  | .null, .null => true
  | .bool a, .bool b => a == b
  | _, _ => false

/-- the answer of `value_is` does not depend on object identity -/
def identityFree {N : Type} : Val N → Val N → Bool
  | .str _, .str _ => false
  | .arr _, .arr _ => false
  | .obj _, .obj _ => false
  | .opaque _ _, .opaque _ _ => false
  | _, _ => true

/-- library.py:1903-1905 -/
def systemIsG {N : Type} (O : NumOps N) (v : List (Val N)) : Except (Fail N) (BodyR3 N) := do
  let (a, b) ← req (list2 v)
  pure (.bool (isSame O a b), none)

/-! ## arraySort without a compare function (library.py:329-335): `array.sort(key=cmp_to_key(value_compare))`, stable -/

/-- insert `x` (which stood before every element of the sorted list) keeping equal elements behind it -/
def insSorted {α : Type} (cmp : α → α → Int) (x : α) : List α → List α
  | [] => [x]
  | y :: r => if cmp y x < 0 then y :: insSorted cmp x r else x :: y :: r

def sortVals {α : Type} (cmp : α → α → Int) : List α → List α
  | [] => []
  | x :: r => insSorted cmp x (sortVals cmp r)

def arraySortG {N : Type} (O : NumOps N) (v : List (Val N)) : Except (Fail N) (BodyR3 N) := do
  let (a, cf) ← req (list2 v)
  let xs ← req a.asArr?
  match cf with
  | .null => pure (.arr (sortVals (valCmp O.cmp) xs), some (.arr (sortVals (valCmp O.cmp) xs)))
  | _ => throw (.host .typeError)        -- the compare-function call-back is not modelled (`stepModelledB` is false)

/-! ## datetime getters (library.py:515-730): `value_normalize_datetime(dt).year` … — host ints -/

def datetimeFieldG {N : Type} (O : NumOps N) (f : Datetime.DT → Int) (v : List (Val N)) : Except (Fail N) (BodyR3 N) := do
  let a ← req (list1 v)
  match a with
  | .opaque _ i =>
    match Datetime.ofLocalMs i with
    | some t => pure (.num (O.ofInt (f t)), none)
    | none => throw (.host .valueError)
  | _ => badShape3

/-! ## numberParseFloat (library.py:1052-1054 + value.py:450-466): always a `float` -/

def numberParseFloatG {N : Type} (O : NumOps N) (rnd : Rat → Rat) (v : List (Val N)) : Except (Fail N) (BodyR3 N) := do
  let a ← req (list1 v)
  let s ← req a.asStr?
  match NumText.numberParseFloat s with
  | some q => pure (.num (O.ofFloat (rnd q)), none)
  | none => pure (.null, none)

/-! ## jsonParse (library.py:743-745): the host typing of JSON number tokens -/

mutual
/-- the Python value `json.loads` builds from a decoded document -/
def ofJ {N : Type} (O : NumOps N) (rnd : Rat → Rat) : Json.JValue → Val N
  | .null => .null
  | .bool b => .bool b
  | .num n =>
    match n with
    | .int k => .num (O.ofInt k)                                              -- `-?(0|[1-9]D*)`: `int(token)`
    | .fint neg k => .num (O.ofFloat (if neg then -(k : Rat) else (k : Rat)))  -- (the decoder never produces this form)
    | .dec t => .num (O.ofFloat (rnd ((NumText.decValL t).getD 0)))           -- a fraction or an exponent: `float(token)`
  | .str s => .str (String.ofList s)
  | .arr xs => .arr (ofJL O rnd xs)
  | .obj kvs => .obj (ofJM O rnd kvs [])
def ofJL {N : Type} (O : NumOps N) (rnd : Rat → Rat) : List Json.JValue → List (Val N)
  | [] => []
  | x :: r => ofJ O rnd x :: ofJL O rnd r
def ofJM {N : Type} (O : NumOps N) (rnd : Rat → Rat) : List (Json.Str × Json.JValue) → List (String × Val N) → List (String × Val N)
  | [], acc => acc
  | (k, x) :: r, acc => ofJM O rnd r (objSet (String.ofList k) (ofJ O rnd x) acc)
end

/-- `json.loads(string)`; a `JSONDecodeError` is a `ValueError`: swallowed by the call wrapper -/
def jsonParseG {N : Type} (O : NumOps N) (rnd : Rat → Rat) (v : List (Val N)) : Except (Fail N) (BodyR3 N) := do
  let a ← req (list1 v)
  let s ← req a.asStr?
  match Json.decode s.toList with
  | some j => pure (ofJ O rnd j, none)
  | none => throw (.host .valueError)

/-! ## the call wrapper -/

def modelled3 : List String :=
  ["objectAssign", "objectCopy", "objectDelete", "objectGet", "objectHas", "objectKeys", "objectNew", "objectSet",
   "systemType", "systemBoolean", "systemIs", "arraySort",
   "datetimeYear", "datetimeMonth", "datetimeDay", "datetimeHour", "datetimeMinute", "datetimeSecond", "datetimeMillisecond",
   "numberParseFloat", "jsonParse"]

def modelName3 : String → Option String
  | "objectAssign" => some "_OBJECT_ASSIGN_ARGS"
  | "objectCopy" => some "_OBJECT_COPY_ARGS"
  | "objectDelete" => some "_OBJECT_DELETE_ARGS"
  | "objectGet" => some "_OBJECT_GET_ARGS"
  | "objectHas" => some "_OBJECT_HAS_ARGS"
  | "objectKeys" => some "_OBJECT_KEYS_ARGS"
  | "objectSet" => some "_OBJECT_SET_ARGS"
  | "systemType" => some "_SYSTEM_TYPE_ARGS"
  | "systemBoolean" => some "_SYSTEM_BOOLEAN_ARGS"
  | "systemIs" => some "_SYSTEM_IS_ARGS"
  | "arraySort" => some "_ARRAY_SORT_ARGS"
  | "datetimeYear" => some "_DATETIME_YEAR_ARGS"
  | "datetimeMonth" => some "_DATETIME_MONTH_ARGS"
  | "datetimeDay" => some "_DATETIME_DAY_ARGS"
  | "datetimeHour" => some "_DATETIME_HOUR_ARGS"
  | "datetimeMinute" => some "_DATETIME_MINUTE_ARGS"
  | "datetimeSecond" => some "_DATETIME_SECOND_ARGS"
  | "datetimeMillisecond" => some "_DATETIME_MILLISECOND_ARGS"
  | "numberParseFloat" => some "_NUMBER_PARSE_FLOAT_ARGS"
  | "jsonParse" => some "_JSON_PARSE_ARGS"
  | _ => none

def bodyG3 {N : Type} (O : NumOps N) (rnd : Rat → Rat) : String → List (Val N) → Except (Fail N) (BodyR3 N)
  | "objectAssign" => objectAssignG
  | "objectCopy" => objectCopyG
  | "objectDelete" => objectDeleteG
  | "objectGet" => objectGetG
  | "objectHas" => objectHasG
  | "objectKeys" => objectKeysG
  | "objectNew" => objectNewG
  | "objectSet" => objectSetG
  | "systemType" => systemTypeG
  | "systemBoolean" => systemBooleanG O
  | "systemIs" => systemIsG O
  | "arraySort" => arraySortG O
  | "datetimeYear" => datetimeFieldG O (·.year)
  | "datetimeMonth" => datetimeFieldG O (·.month)
  | "datetimeDay" => datetimeFieldG O (·.day)
  | "datetimeHour" => datetimeFieldG O (·.hour)
  | "datetimeMinute" => datetimeFieldG O (·.minute)
  | "datetimeSecond" => datetimeFieldG O (·.second)
  | "datetimeMillisecond" => datetimeFieldG O (·.ms)
  | "numberParseFloat" => numberParseFloatG O rnd
  | "jsonParse" => jsonParseG O rnd
  | _ => fun _ => badShape3

/-- the third argument of `value_args_validate`: `objectGet` passes its own third argument, `objectHas` false -/
def failRet3 {N : Type} (name : String) (args : List (Val N)) : Val N :=
  if name == "objectGet" then args.getD 2 .null
  else if name == "objectHas" then .bool false
  else .null

/-- the call wrapper (runtime.py:241-251); on failure the arguments are untouched (every modelled mutator mutates in one step) -/
def wrap3 {N : Type} (args : List (Val N)) : Except (Fail N) (BodyR3 N) → Out N
  | .ok (r, none) => ⟨r, args⟩
  | .ok (r, some a0) => ⟨r, args.set 0 a0⟩
  | .error (.args ret) => ⟨ret, args⟩
  | .error (.host _) => ⟨.null, args⟩

def callWith3 {N : Type} (validateN : List Gen.ArgModel → List (Val N) → Option (List (Val N))) (failRet : Val N)
    (table : Option (List Gen.ArgModel)) (body : List (Val N) → Except (Fail N) (BodyR3 N)) (args : List (Val N)) : Out N :=
  match table with
  | none => wrap3 args (body args)
  | some ms =>
    match validateN ms args with
    | none => ⟨failRet, args⟩
    | some vargs => wrap3 args (body vargs)

def callH3 (rnd : Rat → Rat) (name : String) (args : List HVal) : Out PyNum :=
  callWith3 validateH (failRet3 name args) ((modelName3 name).map argModel) (bodyG3 hOps rnd name) args

def callA3 (rnd : Rat → Rat) (name : String) (args : List AVal) : Out Rat :=
  callWith3 validateA (failRet3 name args) ((modelName3 name).map argModel) (bodyG3 aOps rnd name) args

/-- the argument list a `LibH3` body receives -/
def validated3 (name : String) (args : List HVal) : Option (List HVal) :=
  match (modelName3 name).map argModel with
  | none => some args
  | some ms => validateH ms args

/-! ## ONE dispatch over the three libraries -/

def callAllH (E : Env) (name : String) (args : List HVal) : Out PyNum :=
  if LibH.modelled.contains name then LibH.callH name args
  else if modelled2.contains name then callH2 E name args
  else callH3 E.rnd name args

def callAllA (E : Env) (name : String) (args : List AVal) : Out Rat :=
  if LibH.modelled.contains name then LibH.callA name args
  else if modelled2.contains name then callA2 E name args
  else callA3 E.rnd name args

def modelledAll : List String := LibH.modelled ++ modelled2 ++ modelled3

/-! ## operators on values (runtime.py:262-365) -/

inductive BinOp where
  | add | sub | mul | div | mod | eq | ne | lt | le | gt | ge | and | or
deriving DecidableEq, Repr

inductive UnOp where
  | neg | not
deriving DecidableEq, Repr

/-- `+`: number + number, string + string, string + any / any + string (`value_string`); datetime + number is not modelled -/
def opAddVH (E : Env) : HVal → HVal → HVal
  | .num a, .num b => .num (opAddH E.rnd a b)
  | .str a, r => .str (a ++ valueStringH E r)
  | l, .str b => .str (valueStringH E l ++ b)
  | _, _ => .null

def opAddVA (E : Env) : AVal → AVal → AVal
  | .num a, .num b => .num (opAddA E.rnd a b)
  | .str a, r => .str (a ++ valueStringA E r)
  | l, .str b => .str (valueStringA E l ++ b)
  | _, _ => .null

def arithH (E : Env) : BinOp → PyNum → PyNum → HVal
  | .sub, a, b => .num (opSubH E.rnd a b)
  | .mul, a, b => .num (.float (opMulH E.rnd a b))
  | .div, a, b => match opDivH E.rnd a b with | some q => .num (.float q) | none => .null
  | .mod, a, b => match opModH E.rnd a b with | some x => .num x | none => .null
  | _, _, _ => .null

def arithA (E : Env) : BinOp → Rat → Rat → AVal
  | .sub, a, b => .num (opSubA E.rnd a b)
  | .mul, a, b => .num (opMulA E.rnd a b)
  | .div, a, b => match opDivA E.rnd a b with | some q => .num q | none => .null
  | .mod, a, b => match opModA E.rnd a b with | some x => .num x | none => .null
  | _, _, _ => .null

def isArith : BinOp → Bool
  | .sub | .mul | .div | .mod => true
  | _ => false

/-- the relational operators on the sign of `value_compare` -/
def relOf : BinOp → Int → Bool
  | .eq, c => c == 0
  | .ne, c => c != 0
  | .lt, c => decide (c < 0)
  | .le, c => decide (c ≤ 0)
  | .gt, c => decide (c > 0)
  | _, c => decide (c ≥ 0)

def opBinH (E : Env) (op : BinOp) (l r : HVal) : HVal :=
  if op = .add then opAddVH E l r
  else if isArith op then (match l, r with | .num a, .num b => arithH E op a b | _, _ => .null)
  else if op = .and then (if truthy pyNonzero l then r else l)
  else if op = .or then (if truthy pyNonzero l then l else r)
  else .bool (relOf op (valCmp pyCmp l r))

def opBinA (E : Env) (op : BinOp) (l r : AVal) : AVal :=
  if op = .add then opAddVA E l r
  else if isArith op then (match l, r with | .num a, .num b => arithA E op a b | _, _ => .null)
  else if op = .and then (if truthy (fun (q : Rat) => q != 0) l then r else l)
  else if op = .or then (if truthy (fun (q : Rat) => q != 0) l then l else r)
  else .bool (relOf op (valCmp ratCmp l r))

def opUnH : UnOp → HVal → HVal
  | .neg, .num a => .num (opNegH a)
  | .neg, _ => .null
  | .not, v => .bool (!(truthy pyNonzero v))

def opUnA : UnOp → AVal → AVal
  | .neg, .num a => .num (-a)
  | .neg, _ => .null
  | .not, v => .bool (!(truthy (fun (q : Rat) => q != 0) v))

/-! ## per-step hypotheses (all `Bool`) -/

/-- |n| < 1e15 -/
def smallIntB (n : Int) : Bool := decide (-(10 ^ 15 : Int) < n ∧ n < (10 ^ 15 : Int))

/-- the value is a double -/
def dblB (E : Env) (x : PyNum) : Bool := decide (E.rnd x.abs = x.abs)

/-- a small int, or a float that holds a double -/
def numOkB (E : Env) : PyNum → Bool
  | .int n => smallIntB n
  | .float q => decide (E.rnd q = q)

/-- an integral digit count 0..22 -/
def digitsOkB (d : PyNum) : Bool :=
  decide (((ratTrunc d.abs : Int) : Rat) = d.abs ∧ 0 ≤ ratTrunc d.abs ∧ ratTrunc d.abs ≤ 22)

/-- a value whose text is taken directly: a host int must be small -/
def textOkB : HVal → Bool
  | .num (.int n) => smallIntB n
  | _ => true

/-- the exact result `f m n` of an operation on two host ints is a double -/
def intResB (E : Env) (f : Int → Int → Int) : PyNum → PyNum → Bool
  | .int m, .int n => decide (E.rnd ((f m n : Int) : Rat) = ((f m n : Int) : Rat))
  | _, _ => true

/-- what the bodies of `LibH2` that print or round a number need of their VALIDATED argument list -/
def argsOkB (E : Env) : String → List HVal → Bool
  | "stringNew", [a] => textOkB a
  | "arrayJoin", [.arr xs, _] => xs.all textOkB
  | "mathRound", [.num x, .num d] => numOkB E x && digitsOkB d
  | "numberToFixed", [.num x, .num d, _] => numOkB E x && digitsOkB d
  | _, _ => true

def callOkB (E : Env) (name : String) (args : List HVal) : Bool :=
  if LibH.modelled.contains name then true
  else if modelled2.contains name then
    (match validated2 name args with
     | none => true
     | some v => argsOkB E name v)
  else true

def opOkB (E : Env) : BinOp → HVal → HVal → Bool
  | .add, .num a, .num b => dblB E a && dblB E b && intResB E (· + ·) a b
  | .add, .str _, r => textOkB r
  | .add, l, .str _ => textOkB l
  | .sub, .num a, .num b => dblB E a && dblB E b && intResB E (· - ·) a b
  | .mul, .num a, .num b => dblB E a && dblB E b
  | .div, .num a, .num b => dblB E a && dblB E b
  | .mod, .num a, .num b => dblB E a && dblB E b && intResB E (fun m n => Int.tmod m n + n) a b
  | _, _, _ => true

/-! ## histories -/

inductive Step where
  | call (fn : String) (args : List Nat)
  | bin (op : BinOp) (a b : Nat)
  | un (op : UnOp) (a : Nat)
deriving Repr

abbrev Pool (N : Type) := List (Val N)

/-- an undefined variable evaluates to null -/
def getVar {N : Type} (p : Pool N) (i : Nat) : Val N := p.getD i .null

/-- store the post-call contents of the argument objects in the variables they came from (argument 0, which the mutators change, last) -/
def writeBack {N : Type} (p : Pool N) : List Nat → List (Val N) → Pool N
  | i :: is, v :: vs => (writeBack p is vs).set i v
  | _, _ => p

def stepH (E : Env) (p : Pool PyNum) : Step → Pool PyNum
  | .call fn ixs => writeBack p ixs (callAllH E fn (ixs.map (getVar p))).args ++ [(callAllH E fn (ixs.map (getVar p))).result]
  | .bin op a b => p ++ [opBinH E op (getVar p a) (getVar p b)]
  | .un op a => p ++ [opUnH op (getVar p a)]

def stepA (E : Env) (p : Pool Rat) : Step → Pool Rat
  | .call fn ixs => writeBack p ixs (callAllA E fn (ixs.map (getVar p))).args ++ [(callAllA E fn (ixs.map (getVar p))).result]
  | .bin op a b => p ++ [opBinA E op (getVar p a) (getVar p b)]
  | .un op a => p ++ [opUnA op (getVar p a)]

/-- the pool after every step -/
def runH (E : Env) : List Step → Pool PyNum → List (Pool PyNum)
  | [], _ => []
  | s :: r, p => stepH E p s :: runH E r (stepH E p s)

def runA (E : Env) : List Step → Pool Rat → List (Pool Rat)
  | [], _ => []
  | s :: r, p => stepA E p s :: runA E r (stepA E p s)

/-- the hypothesis of one step, on the operands the step actually receives -/
def stepOkB (E : Env) (p : Pool PyNum) : Step → Bool
  | .call fn ixs => callOkB E fn (ixs.map (getVar p))
  | .bin op a b => opOkB E op (getVar p a) (getVar p b)
  | .un _ _ => true

/-- the per-step hypothesis along the host-level run -/
def histOkB (E : Env) : List Step → Pool PyNum → Bool
  | [], _ => true
  | s :: r, p => stepOkB E p s && histOkB E r (stepH E p s)

def isDt {N : Type} : Val N → Bool | .opaque k _ => k == "datetime" | _ => false
def isNumV {N : Type} : Val N → Bool | .num _ => true | _ => false
def isOpaque {N : Type} : Val N → Bool | .opaque _ _ => true | _ => false

/-- does the model claim to describe the implementation on this step?  Outside: object identity (`systemIs` on two strings / containers),
    compare-function call-backs, datetime arithmetic, unknown function names, `arrayIndexOf` with a match function, and opaque values
    whose text would be taken. -/
def stepModelledB (p : Pool PyNum) : Step → Bool
  | .call fn ixs =>
    modelledAll.contains fn &&
    (if fn == "systemIs" then identityFree (getVar p (ixs.getD 0 p.length)) (getVar p (ixs.getD 1 p.length)) else true) &&
    (if fn == "arraySort" then !(isOpaque (getVar p (ixs.getD 1 p.length))) else true) &&
    (if fn == "arrayIndexOf" || fn == "arrayLastIndexOf" then !(isOpaque (getVar p (ixs.getD 1 p.length))) else true)
  | .bin op a b =>
    if op = .add then !(isDt (getVar p a) && isNumV (getVar p b)) && !(isNumV (getVar p a) && isDt (getVar p b))
    else if op = .sub then !(isDt (getVar p a) && isDt (getVar p b))
    else true
  | .un _ _ => true

end LibH3
