import BareModel.Syntax

/-!
# The runtime: expression evaluator and jump machine (mirror of runtime.py)

* `Value` is concrete (the evaluator needs truthiness, function dispatch and variables); the *world* `W` (heap of arrays
  and objects, log, fetch trace, …) is abstract and reached only through a `Host W` record: operators on values, and the
  library as *interaction trees* (`LibTree`): a library function may call back into script functions (arraySort
  comparators, predicates, partials) any finite number of times, but it cannot touch the statement counter, the
  globals or the control state except through those call-backs and the two `sys*` requests.
* The statement counter `count` lives in `State`; it is incremented exactly where runtime.py:59 increments
  `options['statementCount']` and compared with `maxStatements` right there.
* `fuel` makes every definition structurally recursive: one unit per statement started and one per call.  It is a
  model artefact (`oof` = out of fuel is not a Python outcome).  `C09.fuel_sufficient` shows that a positive
  `maxStatements` bounds the fuel a run can need.
* Script function values are indices `FnId` into a static table of function definitions (BareScript functions capture
  nothing: `functools.partial(_script_function, function_model)`), see DESIGN §3.2.
-/

namespace Machine

abbrev FnId := Nat

inductive FnVal where
  | script (id : FnId)
  | lib (name : String)
  | other (k : Nat)            -- any other host callable (systemPartial results, host-supplied functions)
deriving Repr, DecidableEq, Inhabited

inductive Value where
  | null
  | bool (b : Bool)
  | num (q : Rat)
  | str (s : String)
  | dt (ms : Int)
  | arr (r : Nat)
  | obj (r : Nat)
  | fn (f : FnVal)
  | regex (r : Nat)
deriving Repr, DecidableEq, Inhabited

/-- insertion-ordered dictionary (a Python dict keyed by identifier) -/
abbrev Env := List (Name × Value)

def Env.get? (e : Env) (n : Name) : Option Value := (e.find? (·.1 == n)).map (·.2)

def Env.contains (e : Env) (n : Name) : Bool := e.any (·.1 == n)

/-- `d[n] = v`: update in place if present, else append -/
def Env.set : Env → Name → Value → Env
  | [], n, v => [(n, v)]
  | (k, x) :: rest, n, v => if k == n then (k, v) :: rest else (k, x) :: Env.set rest n v

inductive RtErr where
  | unknownLabel (l : Name)            -- Unknown jump label "<l>"
  | exceeded (max : Nat)               -- Exceeded maximum script statements (<max>)
  | undefinedFunction (n : Name)       -- Undefined function "<n>"
  | includeFailed (url : String)       -- Include of "<url>" failed
  | includeParse (url : String)        -- BareScriptParserError … Included from "<url>"
  | host (msg : String)                -- a BareScriptRuntimeError raised by a host function
deriving Repr, DecidableEq, Inhabited

structure State (W : Type) where
  globals : Env
  world : W
  count : Nat
deriving Repr

/-- what a call evaluates to -/
inductive Out (W : Type) where
  | ok (v : Value) (st : State W)
  | err (e : RtErr) (st : State W)
  | oof                                   -- out of fuel (model only)
deriving Repr

/-- Result of a library / host function body: `ok v` normal return, `fail v` an exception swallowed by the call wrapper
(v = null or the function's documented failure value, runtime.py:241-247), `rt` a BareScriptRuntimeError. -/
inductive LibOut where
  | ok (v : Value)
  | fail (v : Value)
  | rt (msg : String)
deriving Repr, DecidableEq

/-- A library function as an interaction tree over the world. -/
inductive LibTree (W : Type) where
  | ret (out : LibOut) (w : W)
  | call (f : Value) (args : List Value) (w : W) (k : Value → W → LibTree W)        -- call back `f(args)`
  | globalGet (name : Name) (w : W) (k : Option Value → W → LibTree W)               -- systemGlobalGet
  | globalSet (name : Name) (v : Value) (w : W) (k : W → LibTree W)                  -- systemGlobalSet

structure FuncDef where
  name : Name
  args : List Name
  lastArgArray : Bool
  body : List Stmt
deriving Repr, Inhabited

inductive FetchRes where
  | missing                       -- fetchFn absent, returned None or raised
  | broken                        -- text fetched but parse_script raised
  | script (stmts : List Stmt)
deriving Repr, Inhabited

structure Host (W : Type) where
  truthy : Value → W → Bool                               -- value_boolean
  binop : BinOp → Value → Value → W → Value               -- the 12 strict binary operators
  neg : Value → Value                                     -- unary minus
  lib : String → List Value → W → LibTree W               -- SCRIPT_FUNCTIONS[name](args, options)
  other : Nat → List Value → W → LibTree W                -- any other callable value
  notCallable : Value → W → W                             -- `func_value(...)` on a non-callable: TypeError, swallowed
  logFailure : W → W                                      -- debug-mode log line of a swallowed failure
  newArray : List Value → W → Value × W                   -- `args[ix_arg:]` / `[]` for a lastArgArray parameter
  builtin : Name → Option FnVal                           -- EXPRESSION_FUNCTIONS (only consulted when `builtins`)

structure Config (W : Type) where
  host : Host W
  funs : FnId → Option FuncDef
  maxStatements : Nat                                     -- 0 = unlimited
  builtins : Bool := false
  debug : Bool := false
  resolve : Option String → IncludeScript → String := fun _ i => i.url     -- systemPrefix / urlFn resolution
  fetch : String → FetchRes := fun _ => .missing

/-- result of evaluating an argument list -/
inductive ArgsOut (W : Type) where
  | ok (vs : List Value) (st : State W)
  | err (e : RtErr) (st : State W)
  | oof

/-- `call f args st` : how the evaluator invokes a function value -/
abbrev CallFn (W : Type) := Value → List Value → State W → Out W

variable {W : Type}

/-! ## expression evaluation (runtime.py:167-359) -/

def lookupVar (locals : Option Env) (globals : Env) (n : Name) : Value :=
  match locals with
  | some l => if l.contains n then (l.get? n).getD .null else (globals.get? n).getD .null
  | none => (globals.get? n).getD .null

def lookupFunc (cfg : Config W) (locals : Option Env) (globals : Env) (n : Name) : Option Value :=
  let viaGlobals : Option Value :=
    if globals.contains n then globals.get? n
    else if cfg.builtins then (cfg.host.builtin n).map Value.fn else none
  match locals with
  | some l => if l.contains n then l.get? n else viaGlobals
  | none => viaGlobals

def kwNull : Name := .user "null"
def kwTrue : Name := .user "true"
def kwFalse : Name := .user "false"
def kwIf : Name := .user "if"

mutual
def evalExpr (cfg : Config W) (call : CallFn W) (locals : Option Env) : Expr → State W → Out W
  | .number q, st => .ok (.num q) st
  | .string s, st => .ok (.str s) st
  | .variable n, st =>
      if n = kwNull then .ok .null st
      else if n = kwFalse then .ok (.bool false) st
      else if n = kwTrue then .ok (.bool true) st
      else .ok (lookupVar locals st.globals n) st
  | .function n args, st =>
      if n = kwIf then evalIf cfg call locals args st
      else
        match evalArgs cfg call locals args st with
        | .ok vs st1 =>
            match lookupFunc cfg locals st1.globals n with
            | some .null => .err (.undefinedFunction n) st1          -- `if func_value is not None` fails
            | some fv => call fv vs st1                              -- wrapper: see `callValue`
            | none => .err (.undefinedFunction n) st1
        | .err e st1 => .err e st1
        | .oof => .oof
  | .binary .and l r, st =>
      match evalExpr cfg call locals l st with
      | .ok lv st1 => if cfg.host.truthy lv st1.world then evalExpr cfg call locals r st1 else .ok lv st1
      | o => o
  | .binary .or l r, st =>
      match evalExpr cfg call locals l st with
      | .ok lv st1 => if cfg.host.truthy lv st1.world then .ok lv st1 else evalExpr cfg call locals r st1
      | o => o
  | .binary op l r, st =>
      match evalExpr cfg call locals l st with
      | .ok lv st1 =>
          match evalExpr cfg call locals r st1 with
          | .ok rv st2 => .ok (cfg.host.binop op lv rv st2.world) st2
          | o => o
      | o => o
  | .unary .not e, st =>
      match evalExpr cfg call locals e st with
      | .ok v st1 => .ok (.bool (!cfg.host.truthy v st1.world)) st1
      | o => o
  | .unary .neg e, st =>
      match evalExpr cfg call locals e st with
      | .ok v st1 => .ok (cfg.host.neg v) st1
      | o => o
  | .group e, st => evalExpr cfg call locals e st

/-- argument lists: left to right, each exactly once; result as `Out` carrying a dummy value is awkward, so a
dedicated result type is used -/
def evalArgs (cfg : Config W) (call : CallFn W) (locals : Option Env) : List Expr → State W → ArgsOut W
  | [], st => .ok [] st
  | a :: as, st =>
      match evalExpr cfg call locals a st with
      | .ok v st1 =>
          match evalArgs cfg call locals as st1 with
          | .ok vs st2 => .ok (v :: vs) st2
          | o => o
      | .err e st1 => .err e st1
      | .oof => .oof

/-- the `if` built-in (runtime.py:214-222): only the selected branch is evaluated; arguments after the third are ignored -/
def evalIf (cfg : Config W) (call : CallFn W) (locals : Option Env) : List Expr → State W → Out W
  | [], st => .ok .null st                                         -- value False, no false-branch
  | [c], st =>
      match evalExpr cfg call locals c st with
      | .ok _ st1 => .ok .null st1
      | o => o
  | [c, t], st =>
      match evalExpr cfg call locals c st with
      | .ok v st1 => if cfg.host.truthy v st1.world then evalExpr cfg call locals t st1 else .ok .null st1
      | o => o
  | c :: t :: f :: _, st =>
      match evalExpr cfg call locals c st with
      | .ok v st1 => if cfg.host.truthy v st1.world then evalExpr cfg call locals t st1 else evalExpr cfg call locals f st1
      | o => o
end

/-! ## calls: the wrapper of runtime.py:235-249, library interaction trees, script functions (runtime.py:151-164) -/

/-- run a library interaction tree; call-backs go through `call` (supplied by `callValue`, one level less fuel) -/
def runTree (cfg : Config W) (call : CallFn W) : LibTree W → State W → Out W
  | .ret (.ok v) w, st => .ok v { st with world := w }
  | .ret (.fail v) w, st => .ok v { st with world := if cfg.debug then cfg.host.logFailure w else w }
  | .ret (.rt msg) w, st => .err (.host msg) { st with world := w }
  | .call f args w k, st =>
      match call f args { st with world := w } with
      | .ok v st1 => runTree cfg call (k v st1.world) st1
      | o => o
  | .globalGet n w k, st => runTree cfg call (k (st.globals.get? n) w) { st with world := w }
  | .globalSet n v w k, st => runTree cfg call (k w) { st with globals := st.globals.set n v, world := w }

/-- parameter binding of `_script_function` (runtime.py:152-163): positional, missing → null, surplus ignored,
the last parameter of a `lastArgArray` function collects the remaining arguments in a fresh array; a duplicate
parameter name is overwritten by the later position (dict assignment) -/
def bindArgs (host : Host W) (laa : Bool) : List Name → List Value → Env → W → Env × W
  | [], _, env, w => (env, w)
  | [p], as, env, w =>
      if laa then
        let (arr, w1) := host.newArray as w
        (env.set p arr, w1)
      else (env.set p (as.head?.getD .null), w)
  | p :: q :: ps, as, env, w => bindArgs host laa (q :: ps) as.tail (env.set p (as.head?.getD .null)) w

/-! ## the statement machine (runtime.py:47-147) -/

inductive Res (W : Type) where
  | done (st : State W)                       -- fell off the end: the script/function result is null
  | ret (v : Value) (st : State W)
  | err (e : RtErr) (st : State W)
  | oof
deriving Repr

def isLabel (l : Name) : Stmt → Bool
  | .label l' => l' == l
  | _ => false

/-- `next((ix for ix, stmt in enumerate(statements) if stmt.get('label') == jump_label), -1)` -/
def findLabel (P : List Stmt) (l : Name) : Option Nat :=
  let i := P.findIdx (isLabel l)
  if i < P.length then some i else none

/-- `label_indexes`: created empty for every invocation of `_execute_script_helper` -/
abbrev Cache := List (Name × Nat)

def Cache.get? (c : Cache) (l : Name) : Option Nat := (c.find? (·.1 == l)).map (·.2)

/-- result of a jump that is taken: new cache and the index of the label -/
def jumpTarget (P : List Stmt) (cache : Cache) (l : Name) : Option (Cache × Nat) :=
  match cache.get? l with
  | some i => some (cache, i)
  | none =>
    match findLabel P l with
    | some i => some ((l, i) :: cache, i)
    | none => none

mutual
/-- the call wrapper + `_script_function`; `fuel+1` → callee and call-backs run with `fuel` -/
def callValue (cfg : Config W) : Nat → CallFn W
  | 0, _, _, _ => .oof
  | fuel+1, f, args, st =>
      match f with
      | .fn (.script id) =>
          match cfg.funs id with
          | some fd =>
              let (loc, w1) := bindArgs cfg.host fd.lastArgArray fd.args args [] st.world
              match execM cfg fuel fd.body (some loc) none [] 0 { st with world := w1 } with
              | .done st' => .ok .null st'
              | .ret v st' => .ok v st'
              | .err e st' => .err e st'
              | .oof => .oof
          | none => .ok .null { st with world := cfg.host.notCallable f st.world }
      | .fn (.lib name) => runTree cfg (callValue cfg fuel) (cfg.host.lib name args st.world) st
      | .fn (.other k) => runTree cfg (callValue cfg fuel) (cfg.host.other k args st.world) st
      | v => .ok .null { st with world := cfg.host.notCallable v st.world }

/-- `_execute_script_helper(statements, options, locals_)` from statement index `pc`, with the label cache of this
invocation; `base` is the file the running script came from (`urlFn`), used to resolve includes -/
def execM (cfg : Config W) : Nat → List Stmt → Option Env → Option String → Cache → Nat → State W → Res W
  | fuel, P, locals, base, cache, pc, st =>
    match P[pc]? with
    | none => .done st
    | some s =>
      match fuel with
      | 0 => .oof
      | fuel+1 =>
        let st1 : State W := { st with count := st.count + 1 }
        if cfg.maxStatements > 0 && st1.count > cfg.maxStatements then .err (.exceeded cfg.maxStatements) st1
        else
        match s with
        | .expr name e =>
            match evalExpr cfg (callValue cfg fuel) locals e st1 with
            | .ok v st2 =>
                match name, locals with
                | none, _ => execM cfg fuel P locals base cache (pc+1) st2
                | some n, some l => execM cfg fuel P (some (l.set n v)) base cache (pc+1) st2
                | some n, none => execM cfg fuel P none base cache (pc+1) { st2 with globals := st2.globals.set n v }
            | .err e st2 => .err e st2
            | .oof => .oof
        | .jump l none =>
            match jumpTarget P cache l with
            | some (cache', i) => execM cfg fuel P locals base cache' (i+1) st1
            | none => .err (.unknownLabel l) st1
        | .jump l (some c) =>
            match evalExpr cfg (callValue cfg fuel) locals c st1 with
            | .ok v st2 =>
                if cfg.host.truthy v st2.world then
                  match jumpTarget P cache l with
                  | some (cache', i) => execM cfg fuel P locals base cache' (i+1) st2
                  | none => .err (.unknownLabel l) st2
                else execM cfg fuel P locals base cache (pc+1) st2
            | .err e st2 => .err e st2
            | .oof => .oof
        | .ret none => .ret .null st1
        | .ret (some e) =>
            match evalExpr cfg (callValue cfg fuel) locals e st1 with
            | .ok v st2 => .ret v st2
            | .err e st2 => .err e st2
            | .oof => .oof
        | .label _ => execM cfg fuel P locals base cache (pc+1) st1
        | .function fid name _ _ _ _ =>
            execM cfg fuel P locals base cache (pc+1) { st1 with globals := st1.globals.set name (.fn (.script fid)) }
        | .include incs =>
            match execIncludes cfg fuel base incs st1 with
            | .done st2 => execM cfg fuel P locals base cache (pc+1) st2
            | o => o

/-- the entries of one include statement, in order (runtime.py:107-142) -/
def execIncludes (cfg : Config W) : Nat → Option String → List IncludeScript → State W → Res W
  | _, _, [], st => .done st
  | fuel, base, inc :: rest, st =>
      let url := cfg.resolve base inc
      match cfg.fetch url with
      | .missing => .err (.includeFailed url) st
      | .broken => .err (.includeParse url) st
      | .script stmts =>
          match fuel with
          | 0 => .oof
          | fuel'+1 =>
            match execM cfg fuel' stmts none (some url) [] 0 st with
            | .done st' => execIncludes cfg fuel' base rest st'
            | .ret _ st' => execIncludes cfg fuel' base rest st'      -- `return` ends only the included script
            | o => o
end

/-- `execute_script`: counter reset, global scope, no base file -/
def execute (cfg : Config W) (fuel : Nat) (P : List Stmt) (base : Option String) (st : State W) : Res W :=
  execM cfg fuel P none base [] 0 { st with count := 0 }

end Machine
