import BareModel.Syntax

/-!
# Classified source lines — the interface between the line scanner (`Scan`) and the lowering (`Lower`)

One constructor per branch of the `if/elif` cascade of `parse_script` (parser.py:67-394), in that order, with the
expressions already parsed.  `ParseErr` is what the scanner can report for one line: an error text and a 1-based column
inside the line (the caller adds the line text and the line number).
-/

inductive Line where
  | assign (name : Name) (e : Expr)
  | funcBegin (name : Name) (args : List Name) (lastArgArray : Bool) (isAsync : Bool)
  | funcEnd
  | ifBegin (c : Expr)
  | elif (c : Expr)
  | else_
  | endif
  | whileBegin (c : Expr)
  | endwhile
  | forBegin (value : Name) (index : Option Name) (values : Expr)
  | endfor
  | break_
  | continue_
  | label (n : Name)
  | jump (n : Name) (c : Option Expr)
  | ret (e : Option Expr)
  | include (url : String) (system : Bool)
  | exprStmt (e : Expr)
deriving Repr, Inhabited

structure ParseErr where
  error : String
  column : Nat
deriving Repr, DecidableEq, Inhabited
