import BareModel.Machine

/-!
# The documented jump-level semantics, without the label cache (spec layer of `Machine`)

`execM₀` is `Machine.execM` with `jumpTarget P cache l` replaced by `findLabel P l`.  `C08.cache_transparent` proves
`execM = execM₀` for every valid cache (in particular the empty one each invocation starts with), so the control-flow
theorems (C01, C09) are stated on `execM₀` and transfer.
-/

namespace Machine
variable {W : Type}

mutual
/-- the call wrapper + `_script_function`; `fuel+1` → callee and call-backs run with `fuel` -/
def callValue₀ (cfg : Config W) : Nat → CallFn W
  | 0, _, _, _ => .oof
  | fuel+1, f, args, st =>
      match f with
      | .fn (.script id) =>
          match cfg.funs id with
          | some fd =>
              let (loc, w1) := bindArgs cfg.host fd.lastArgArray fd.args args [] st.world
              match execM₀ cfg fuel fd.body (some loc) none 0 { st with world := w1 } with
              | .done st' => .ok .null st'
              | .ret v st' => .ok v st'
              | .err e st' => .err e st'
              | .oof => .oof
          | none => .ok .null { st with world := cfg.host.notCallable f st.world }
      | .fn (.lib name) => runTree cfg (callValue₀ cfg fuel) (cfg.host.lib name args st.world) st
      | .fn (.other k) => runTree cfg (callValue₀ cfg fuel) (cfg.host.other k args st.world) st
      | v => .ok .null { st with world := cfg.host.notCallable v st.world }

/-- the documented statement semantics: as `execM`, but every taken jump looks its label up afresh (first `label l`
of the same list) — no cache -/
def execM₀ (cfg : Config W) : Nat → List Stmt → Option Env → Option String → Nat → State W → Res W
  | fuel, P, locals, base, pc, st =>
    match P[pc]? with
    | none => .done st
    | some s =>
      match fuel with
      | 0 => .oof
      | fuel+1 =>
        let st1 : State W := { st with count := st.count + 1 }
        if cfg.maxStatements > 0 && st1.count > cfg.maxStatements then .err (.exceeded cfg.maxStatements) st1
        else
        match s with
        | .expr name e =>
            match evalExpr cfg (callValue₀ cfg fuel) locals e st1 with
            | .ok v st2 =>
                match name, locals with
                | none, _ => execM₀ cfg fuel P locals base (pc+1) st2
                | some n, some l => execM₀ cfg fuel P (some (l.set n v)) base (pc+1) st2
                | some n, none => execM₀ cfg fuel P none base (pc+1) { st2 with globals := st2.globals.set n v }
            | .err e st2 => .err e st2
            | .oof => .oof
        | .jump l none =>
            match findLabel P l with
            | some i => execM₀ cfg fuel P locals base (i+1) st1
            | none => .err (.unknownLabel l) st1
        | .jump l (some c) =>
            match evalExpr cfg (callValue₀ cfg fuel) locals c st1 with
            | .ok v st2 =>
                if cfg.host.truthy v st2.world then
                  match findLabel P l with
                  | some i => execM₀ cfg fuel P locals base (i+1) st2
                  | none => .err (.unknownLabel l) st2
                else execM₀ cfg fuel P locals base (pc+1) st2
            | .err e st2 => .err e st2
            | .oof => .oof
        | .ret none => .ret .null st1
        | .ret (some e) =>
            match evalExpr cfg (callValue₀ cfg fuel) locals e st1 with
            | .ok v st2 => .ret v st2
            | .err e st2 => .err e st2
            | .oof => .oof
        | .label _ => execM₀ cfg fuel P locals base (pc+1) st1
        | .function fid name _ _ _ _ =>
            execM₀ cfg fuel P locals base (pc+1) { st1 with globals := st1.globals.set name (.fn (.script fid)) }
        | .include incs =>
            match execIncludes₀ cfg fuel base incs st1 with
            | .done st2 => execM₀ cfg fuel P locals base (pc+1) st2
            | o => o

/-- the entries of one include statement, in order (runtime.py:107-142) -/
def execIncludes₀ (cfg : Config W) : Nat → Option String → List IncludeScript → State W → Res W
  | _, _, [], st => .done st
  | fuel, base, inc :: rest, st =>
      let url := cfg.resolve base inc
      match cfg.fetch url with
      | .missing => .err (.includeFailed url) st
      | .broken => .err (.includeParse url) st
      | .script stmts =>
          match fuel with
          | 0 => .oof
          | fuel'+1 =>
            match execM₀ cfg fuel' stmts none (some url) 0 st with
            | .done st' => execIncludes₀ cfg fuel' base rest st'
            | .ret _ st' => execIncludes₀ cfg fuel' base rest st'      -- `return` ends only the included script
            | o => o
end

/-- `execute_script` on the cache-free machine -/
def execute₀ (cfg : Config W) (fuel : Nat) (P : List Stmt) (base : Option String) (st : State W) : Res W :=
  execM₀ cfg fuel P none base 0 { st with count := 0 }

end Machine
