import BareModel.Datetime

/-!
# IsoText — ISO date / datetime TEXT at character level (property C16, text part)

`BareModel/Datetime.lean` already has the mirror of `value_string` / `value_parse_datetime` (`isoFormatUs`, `isoParse`)
with the zone abstracted.  This module adds the layer between *text* and *field record* on its own, with nothing of
the zone in it, and the two regular expressions as data:

* `Re`            a small regex AST (exactly the constructs `_R_DATE` / `_R_DATETIME` use), `Re.render` (the Python source
                  spelling) and `Re.rests` / `Re.fullMatch` (a total backtracking matcher: all remainders after a matched
                  prefix; the explicit decidable language predicate)
* `dateRe`, `dateTimeRe`, `patSource`   the two patterns as AST; `'^' ++ render ++ '\Z'` is pinned against the generated
                  table in `C16Text.iso_regex_sources_pinned`
* `Raw`, `scanRaw`   the hand-written recogniser of `_R_DATETIME`: purely syntactic, no range check (what the regex match
                  denotes: six numbers, the fraction right-padded to microseconds, the offset in minutes; `Z` = `+00:00`)
* `Fields`, `validate`, `parseChars`, `parseText`   … followed by the range checks of `datetime.fromisoformat`
                  (`ValueError` → `None`) and the final cut to the millisecond
* `parseDateChars`, `parseDateText`   the same for `_R_DATE` + `datetime.datetime(y, m, d)`
* `formatChars`, `formatText`, `formatDateChars`, `formatDateText`   what `value_string` / `date.isoformat()` print for a
                  field record: `%04d-%02d-%02dT%02d:%02d:%02d`, `.mmm` iff the microsecond field is non-zero, `±HH:MM`
                  (UTC prints `+00:00`, never `Z`)
* `toZone`        the zone step of `value_parse_datetime` (`.astimezone().replace(tzinfo=None)`), so that
                  `Datetime.isoParse` factors as date ∨ (`parseChars` then `toZone`) — proved in `C16Text`.
-/

namespace IsoText
open Datetime

/-! ## the regex AST -/

/-- the regex constructs that occur in `_R_DATE` / `_R_DATETIME` (flags `re.ASCII`) -/
inductive Re where
  /-- a literal character (rendered with a backslash when it is a metacharacter) -/
  | lit (c : Char)
  /-- `\d` under `re.ASCII`: `[0-9]` -/
  | digit
  /-- a character class `[…]` of singletons `(c, c)` and ranges `(lo, hi)` -/
  | cls (items : List (Char × Char))
  | seq (a b : Re)
  /-- `a|b` -/
  | alt (a b : Re)
  /-- `a?` -/
  | opt (a : Re)
  /-- `a{n}` -/
  | rep (a : Re) (n : Nat)
  /-- `a{m,n}` -/
  | repmn (a : Re) (m n : Nat)
  /-- `(?:a)` -/
  | ncg (a : Re)
  /-- `(?P<name>a)` -/
  | named (name : String) (a : Re)
deriving Repr

infixr:65 " ⬝ " => Re.seq

/-- ASCII decimal digit -/
def isDigit (c : Char) : Bool := decide (48 ≤ c.toNat ∧ c.toNat ≤ 57)

/-- membership in a character class -/
def inCls (items : List (Char × Char)) (c : Char) : Bool :=
  items.any fun p => decide (p.1.toNat ≤ c.toNat ∧ c.toNat ≤ p.2.toNat)

/-- characters `re` requires to be escaped outside a class -/
def metaChars : List Char := ['.', '^', '$', '*', '+', '?', '{', '}', '[', ']', '\\', '|', '(', ')']

def renderLit (c : Char) : List Char := if c ∈ metaChars then ['\\', c] else [c]

def renderItem (p : Char × Char) : List Char := if p.1 = p.2 then [p.1] else [p.1, '-', p.2]

/-- the Python source spelling of the pattern -/
def Re.render : Re → List Char
  | .lit c => renderLit c
  | .digit => ['\\', 'd']
  | .cls items => '[' :: (items.flatMap renderItem ++ [']'])
  | .seq a b => a.render ++ b.render
  | .alt a b => a.render ++ '|' :: b.render
  | .opt a => a.render ++ ['?']
  | .rep a n => a.render ++ '{' :: (Nat.toDigits 10 n ++ ['}'])
  | .repmn a m n => a.render ++ '{' :: (Nat.toDigits 10 m ++ ',' :: (Nat.toDigits 10 n ++ ['}']))
  | .ncg a => '(' :: '?' :: ':' :: (a.render ++ [')'])
  | .named nm a => '(' :: '?' :: 'P' :: '<' :: (nm.toList ++ '>' :: (a.render ++ [')']))

/-- match one character satisfying `p`: the remainders -/
def one (p : Char → Bool) : List Char → List (List Char)
  | [] => []
  | c :: t => if p c then [t] else []

/-- `k` consecutive matches of `f` -/
def pow (f : List Char → List (List Char)) : Nat → List Char → List (List Char)
  | 0, s => [s]
  | k + 1, s => (f s).flatMap (pow f k)

/-- all remainders of `s` after a prefix matched by the pattern (total backtracking matcher; groups are transparent) -/
def Re.rests : Re → List Char → List (List Char)
  | .lit c => one (· == c)
  | .digit => one isDigit
  | .cls items => one (inCls items)
  | .seq a b => fun s => (a.rests s).flatMap b.rests
  | .alt a b => fun s => a.rests s ++ b.rests s
  | .opt a => fun s => a.rests s ++ [s]
  | .rep a n => pow a.rests n
  | .repmn a m n => fun s => (List.range (n + 1 - m)).flatMap fun j => pow a.rests (m + j) s
  | .ncg a => a.rests
  | .named _ a => a.rests

/-- `^body\Z` matches the whole text (`re.match` anchors at the start anyway; `\Z` is the very end of the string,
not "before a trailing newline" like `$`) — the explicit decidable language predicate -/
def Re.fullMatch (r : Re) (s : List Char) : Bool := (r.rests s).any List.isEmpty

/-- the source of the anchored pattern `^body\Z` -/
def patSource (body : Re) : List Char := '^' :: (body.render ++ ['\\', 'Z'])

def d2 : Re := .rep .digit 2
def d4 : Re := .rep .digit 4

/-- `_R_DATE` without the anchors -/
def dateRe : Re := .named "year" d4 ⬝ .lit '-' ⬝ .named "month" d2 ⬝ .lit '-' ⬝ .named "day" d2

/-- `(?:\.\d{1,6})?` -/
def fracRe : Re := .opt (.ncg (.lit '.' ⬝ .repmn .digit 1 6))

/-- `(?:Z|[+-]\d{2}:[0-5]\d)` -/
def zoneRe : Re := .ncg (.alt (.lit 'Z') (.cls [('+', '+'), ('-', '-')] ⬝ d2 ⬝ .lit ':' ⬝ .cls [('0', '5')] ⬝ .digit))

/-- `_R_DATETIME` without the anchors -/
def dateTimeRe : Re :=
  d4 ⬝ .lit '-' ⬝ d2 ⬝ .lit '-' ⬝ d2 ⬝ .lit 'T' ⬝ d2 ⬝ .lit ':' ⬝ d2 ⬝ .lit ':' ⬝ d2 ⬝ fracRe ⬝ zoneRe

/-- the decidable language predicates of the two anchored patterns -/
def isDateText (cs : List Char) : Bool := dateRe.fullMatch cs
def isDateTimeText (cs : List Char) : Bool := dateTimeRe.fullMatch cs

/-! ## the hand-written recogniser of `_R_DATETIME` (syntax only) -/

/-- what a match of `_R_DATETIME` denotes before any range check: `us` = the fraction right-padded to microseconds,
`off` = the written UTC offset in minutes (`Z` and `-00:00` are 0) -/
structure Raw where
  year : Nat
  month : Nat
  day : Nat
  hour : Nat
  minute : Nat
  second : Nat
  us : Nat
  off : Int
deriving DecidableEq, Repr

/-- `(?:Z|[+-]\d{2}:[0-5]\d)\Z` → offset in minutes -/
def scanZone : List Char → Option Int
  | ['Z'] => some 0
  | [sg, h1, h2, ':', m1, m2] =>
    if sg = '+' ∨ sg = '-' then
      if inCls [('0', '5')] m1 then do
        let hh ← num2? h1 h2
        let mm ← num2? m1 m2
        let o : Int := (hh * 60 + mm : Nat)
        pure (if sg = '-' then -o else o)
      else none
    else none
  | _ => none

/-- `(?:\.\d{1,6})?(?:Z|[+-]\d{2}:[0-5]\d)\Z` → (microseconds, offset minutes) -/
def scanFracZone : List Char → Option (Nat × Int)
  | [] => none
  | c :: rest =>
    if c = '.' then
      let ds := rest.takeWhile isDigit
      let tl := rest.dropWhile isDigit
      do let us ← frac? ds; let o ← scanZone tl; pure (us, o)
    else (scanZone (c :: rest)).map fun o => (0, o)

/-- the recogniser of `_R_DATETIME`: `some` exactly on the language of the pattern (`C16Text.scanRaw_isSome_iff`) -/
def scanRaw : List Char → Option Raw
  | y1 :: y2 :: y3 :: y4 :: '-' :: m1 :: m2 :: '-' :: d1 :: d2 :: 'T' :: h1 :: h2 :: ':' :: i1 :: i2 :: ':' :: s1 :: s2 :: rest => do
    let y ← num4? y1 y2 y3 y4
    let mo ← num2? m1 m2
    let d ← num2? d1 d2
    let h ← num2? h1 h2
    let mi ← num2? i1 i2
    let s ← num2? s1 s2
    let (us, o) ← scanFracZone rest
    pure ⟨y, mo, d, h, mi, s, us, o⟩
  | _ => none

/-! ## field records, validation (`datetime.fromisoformat`), parsing -/

/-- the field record of an ISO datetime text: local fields (millisecond resolution) + the written UTC offset in minutes -/
structure Fields where
  year : Nat
  month : Nat
  day : Nat
  hour : Nat
  minute : Nat
  second : Nat
  ms : Nat
  off : Int
deriving DecidableEq, Repr

/-- the naive datetime of the fields -/
def Fields.dt (f : Fields) : DT := ⟨f.year, f.month, f.day, f.hour, f.minute, f.second, f.ms⟩

/-- a well-formed record: a valid calendar datetime in years 1..9999 and |offset| < 24 h -/
def Fields.Valid (f : Fields) : Prop := f.dt.Valid ∧ -1440 < f.off ∧ f.off < 1440

instance (f : Fields) : Decidable f.Valid := by unfold Fields.Valid; exact inferInstance

/-- `datetime.fromisoformat` on text that matched `_R_DATETIME`: the field checks of the constructor and
"offset must be strictly between −24 h and 24 h"; `none` = `ValueError`. The microseconds are cut to milliseconds
(`result.replace(microsecond=(result.microsecond // 1000) * 1000)`; the zone shift in between is by whole seconds). -/
def validate (r : Raw) : Option Fields :=
  match mkDT r.year r.month r.day r.hour r.minute r.second ((r.us / 1000 : Nat) : Int) with
  | none => none
  | some _ =>
    if -1440 < r.off ∧ r.off < 1440 then some ⟨r.year, r.month, r.day, r.hour, r.minute, r.second, r.us / 1000, r.off⟩
    else none

/-- text → field record: `_R_DATETIME.match` + `fromisoformat` + millisecond cut -/
def parseChars (cs : List Char) : Option Fields := (scanRaw cs).bind validate

def parseText (s : String) : Option Fields := parseChars s.toList

/-- `_R_DATE.match` + `datetime.datetime(year, month, day)` (`ValueError` → `none`) -/
def parseDateChars (cs : List Char) : Option (Nat × Nat × Nat) :=
  (scanDate cs).bind fun p => (mkDT p.1 p.2.1 p.2.2 0 0 0 0).map fun _ => p

def parseDateText (s : String) : Option (Nat × Nat × Nat) := parseDateChars s.toList

/-! ## formatting -/

/-- `value_string` of the aware datetime with these fields: `isoformat()` with the microsecond field
`ms * 1000 + sub` (`sub` < 1000: `datetimeNow()` and the host can supply it; 0 for everything made inside
BareScript) cut to three digits; a fraction is printed iff the microsecond field is non-zero -/
def formatChars (f : Fields) (sub : Nat := 0) : List Char :=
  pad4 f.year ++ '-' :: (pad2 f.month ++ '-' :: (pad2 f.day ++ 'T' :: (pad2 f.hour ++ ':' :: (pad2 f.minute ++ ':' ::
    (pad2 f.second ++ ((if f.ms = 0 ∧ sub = 0 then [] else '.' :: pad3 f.ms) ++
      (if f.off < 0 then '-' else '+') :: (pad2 (f.off.natAbs / 60) ++ ':' :: pad2 (f.off.natAbs % 60))))))))

def formatText (f : Fields) (sub : Nat := 0) : String := String.ofList (formatChars f sub)

/-- `datetime.date(y, m, d).isoformat()` = `'%04d-%02d-%02d'` -/
def formatDateChars (y m d : Nat) : List Char := pad4 y ++ '-' :: (pad2 m ++ '-' :: pad2 d)

def formatDateText (y m d : Nat) : String := String.ofList (formatDateChars y m d)

/-! ## the zone step, and `value_parse_datetime` / `value_string` on strings -/

/-- `.astimezone().replace(tzinfo=None)` of the aware datetime `f`: subtract its own offset (→ UTC; `OverflowError`
outside years 1..9999), add the zone's offset at that instant (`offU`, seconds; again `OverflowError`) -/
def toZone (offU : Int → Int) (f : Fields) : Option DT :=
  let u := toLocalMs f.dt - f.off * 60 * 1000
  match ofLocalMs u with
  | none => none
  | some _ => ofLocalMs (u + offU u * 1000)

/-- `value_parse_datetime` on a string (zone abstracted as in `Datetime.isoParse`) -/
def isoParseText (offU : Int → Int) (s : String) : Option DT := isoParse offU s.toList

/-- `value_string` of a naive local datetime, as a string -/
def isoFormatText (offL : Int → Int) (t : DT) : String := String.ofList (isoFormat offL t)

end IsoText
