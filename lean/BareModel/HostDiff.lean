import BareModel.HostLib
import BareModel.Diff
import BareModel.Gen.DiffBare

/-!
# HostDiff — `hostLib` plus the two regex functions `include/diff.bare` calls (C20, program level)

`Lib` has no regex engine, so `regexNew` / `regexSplit` are not among its functions and `hostLib` answers them with the call
wrapper's `null`.  `hostDiff` is `hostLib` with exactly these two library entries replaced:

* `regexNew(pattern)` — a regex *value that remembers its pattern*: `Value.regex (encStr pattern)`, where `HostLib.encStr` is
  the bijection `String ≃ Nat` of `HostLib` (`decStr (encStr p) = p`, `HostLibBridge.decStr_encStr`).  No world change.
* `regexSplit(regex, string)` — **only for the pattern `\r?\n`** (`lineSplitPattern`, the one pattern diff.bare builds as
  `stringFromCharCode(13) + '?' + stringFromCharCode(10)`): a fresh array holding `Diff.splitLines string`.
  Every other pattern, arity or argument type: `fail null` (the wrapper's answer for "not modelled here").

**Modelled assumption** (not proved — there is no model of CPython's `re` here): `re.split('\r?\n', s)` is `Diff.splitLines s`
("cut at every LF; a CR directly before the LF belongs to the separator").  It is correspondence-checked against the real
interpreter by the `diff-inputs` stream of `harness/props/C20.py`.

Everything else (`truthy`, `binop`, `neg`, `other`, `newArray`, every other library function) is `hostLib`'s.
Also here: the function table of a parsed script (`topFuns`/`tableOf`) and the configuration `diffCfg` that runs the generated
statement list `Gen.diffBare` on this host.  Definitions only; theorems in `BareProofs/C20Prog*.lean`.
-/

namespace HostDiff
open Machine HostLib

/-- the only pattern `regexSplit` is modelled for: `\r?\n` -/
def lineSplitPattern : String := "\r?\n"

def lib (name : String) (args : List Value) (w : LWorld) : LibTree LWorld :=
  if name = "regexNew" then
    match args with
    | [.str p] => .ret (.ok (.regex (encStr p))) w
    | _ => .ret (.fail .null) w
  else if name = "regexSplit" then
    match args with
    | [.regex r, .str s] =>
        if decStr r = lineSplitPattern then
          .ret (.ok (.arr w.heap.length)) { w with heap := w.heap ++ [.arr ((Diff.splitLines s).map Lib.Value.str)] }
        else .ret (.fail .null) w
    | _ => .ret (.fail .null) w
  else HostLib.lib name args w

def hostDiff : Host LWorld := { hostLib with lib := lib }

/-- the library names diff.bare uses (a caller's globals bind each to its library function, as `execute_script` does) -/
def usedLib : List String :=
  ["systemGlobalGet", "schemaParse", "arrayNew", "systemType", "arrayLength", "arrayGet", "arrayExtend", "regexSplit",
   "arraySlice", "objectNew", "arrayPush", "regexNew", "stringFromCharCode"]

/-- the function definitions at the top level of a statement list, keyed by their script-wide `fid`
(BareScript has no nested function definitions) -/
def topFuns : List Stmt → List (Nat × FuncDef)
  | [] => []
  | .function fid n args laa _ body :: rest =>
      (fid, { name := n, args := args, lastArgArray := laa, body := body }) :: topFuns rest
  | _ :: rest => topFuns rest

def tableOf (fs : List (Nat × FuncDef)) : Nat → Option FuncDef := fun id => (fs.find? (·.1 == id)).map (·.2)

/-- the configuration that runs the shipped diff.bare: the generated statement list's function table, no statement limit -/
def diffCfg : Config LWorld := { host := hostDiff, funs := tableOf (topFuns Gen.diffBare), maxStatements := 0 }

/-- the globals `execute_script` starts a script with, restricted to what diff.bare needs: every used library name bound -/
def libGlobals : Env := usedLib.map fun n => (.user n, .fn (.lib n))

end HostDiff
