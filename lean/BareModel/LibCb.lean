import BareModel.HostLib
import BareModel.LibMore

/-!
# LibCb — the CALL-BACK forms of `arrayIndexOf` / `arrayLastIndexOf` / `arraySort` (C15)

`Lib` / `LibMore` answer `unmodelled` for `arrayIndexOf(array, fn [, index])`, `arrayLastIndexOf(array, fn [, index])` and
`arraySort(array, compareFn)` (`LibMore.StillUnmodelled`).  This module models them as *interaction trees* (`Machine.LibTree`) over the
world `HostLib.LWorld` (the `Lib` heap + log + partial applications), and assembles a machine host `LibCb.host` whose library is
`LibMore` (42 functions, `Lib` heap) + the three call-back forms + HostImpl's `system*` functions.

Mirror of library.py (`_array_index_of`, `_array_last_index_of`, `_array_sort`):

* **index searches.**  After `value_args_validate` and the range test `index >= len(array)` (failure value `-1`; both are `Lib`'s, the
  call-back form is entered only afterwards), `range(int(index), len(array))` (resp. `range(int(index), -1, -1)`) is computed ONCE; each
  iteration reads `array[ix]` from the LIVE list (a call-back that shrinks the array makes this an `IndexError` = the wrapper's `null`; one
  that grows it does not lengthen the scan), calls `fn([array[ix]], options)` and stops at the first result with `value_boolean` true.
* **arraySort with a compare function** = `array.sort(key=functools.cmp_to_key(lambda v1, v2: compare_fn([v1, v2], options)))` as CPython
  3.12 runs it (`Objects/listobject.c`): the list is EMPTIED for the duration of the sort (call-backs see `arrayLength(array) == 0`), the key
  objects are built without any call-back, every comparison the algorithm asks is `K(x) < K(y)` = `compare_fn([x, y]) < 0`
  (`ltZero`: a number by its sign, a boolean is never `< 0`, anything else is a `TypeError`), and for fewer than 64 elements
  (`minrun = n`) the algorithm is `count_run` (first `a[1] < a[0]`, then the longest non-descending / STRICTLY descending prefix, the latter
  reversed) followed by `binarysort` (binary insertion of every further element, `p = l + ((r - l) >> 1)`, `pivot < a[p] ? r = p : l = p+1`)
  — `pySort`, written once as a computation that *asks* comparisons (`Ask`) so that the same definition is run with call-backs
  (`sortTree`), purely (`Ask.eval`) and for its question trace (`Ask.questions`).  When a comparison raises, CPython puts the partially
  sorted list back (`cur` in every `Ask.ask` node = the list contents at that moment); when the sort finishes and the (apparently empty)
  list was appended to meanwhile, the sorted contents are stored all the same and `ValueError: list modified during sort` is raised
  (the wrapper's `null`).  For 64 or more elements CPython merges several runs (galloping); `pySort` is then still *a* stable comparison
  sort but not CPython's question order: `exactBelow`.
* **how a call-back is invoked** (`cbCall`): `value([...], options)` directly, NOT through the call wrapper of `evaluate_expression`.
  A script function can only end normally or with a `BareScriptRuntimeError` (machine: `Out.err`, propagated by `Machine.runTree`).  A
  LIBRARY function used as call-back (possibly under `systemPartial`s, `resolve`) whose own call fails (finding F38, current behaviour):
  the exception leaves the outer function, whose result is the INNER failure value; modelled exactly whenever the inner call is one of
  the non-call-back library calls `LibMore` answers (`base`); any other call-back goes through `LibTree.call` (the machine's `callValue`).

Limits (stated, not hidden): a `BareScriptRuntimeError` inside a comparator ends the run with the array still EMPTIED in the model (an
interaction tree cannot regain control; CPython restores the partially sorted list before the error propagates); "modified during sort"
is detected as "the cell is non-empty at the end" (CPython: any resize, so push-then-pop inside a comparator is also detected);
`exactBelow = 64`.  No Mathlib.
-/

namespace LibCb
open Machine HostLib

/-! ## computations that ask comparisons -/

/-- a computation over elements `α` returning `β` that may ask `x < y`; `cur` = the contents CPython would put back into the list if this
comparison raised -/
inductive Ask (α : Type) (β : Type) where
  | done (b : β)
  | ask (cur : List α) (x y : α) (k : Bool → Ask α β)

namespace Ask
variable {α β γ : Type}

def bind : Ask α β → (β → Ask α γ) → Ask α γ
  | .done b, f => f b
  | .ask cur x y k, f => .ask cur x y fun b => (k b).bind f

/-- run with a pure `<` -/
def eval (lt : α → α → Bool) : Ask α β → β
  | .done b => b
  | .ask _ x y k => (k (lt x y)).eval lt

/-- the comparisons asked, in order, under a pure `<` -/
def questions (lt : α → α → Bool) : Ask α β → List (α × α)
  | .done _ => []
  | .ask _ x y k => (x, y) :: (k (lt x y)).questions lt

end Ask

/-! ## CPython's `list.sort` for fewer than 64 elements -/

section SortAlg
variable {α : Type}

/-- `binarysort`'s inner loop: where `pivot` belongs in the sorted prefix `sorted` (`l`, `r` as in listobject.c; `fuel ≥ r - l + 1`) -/
def bsearch (cur : List α) (pivot : α) (sorted : List α) : Nat → Nat → Nat → Ask α Nat
  | 0, l, _ => .done l
  | fuel + 1, l, r =>
    if l < r then
      let p := l + (r - l) / 2
      match sorted[p]? with
      | some y => .ask cur pivot y fun b => if b then bsearch cur pivot sorted fuel l p else bsearch cur pivot sorted fuel (p + 1) r
      | none => .done l
    else .done l

def insertAt (l : List α) (i : Nat) (x : α) : List α := l.take i ++ x :: l.drop i

/-- `binarysort`: insert the remaining elements one by one into the sorted prefix -/
def binarySort : List α → List α → Ask α (List α)
  | sorted, [] => .done sorted
  | sorted, pivot :: rest =>
    (bsearch (sorted ++ pivot :: rest) pivot sorted (sorted.length + 1) 0 sorted.length).bind fun l =>
      binarySort (insertAt sorted l pivot) rest

/-- the loop of `count_run` after the first comparison: `rrun` = the run so far, REVERSED (its head is the previous element) -/
def extendRun (cur : List α) (desc : Bool) : List α → List α → Ask α (List α × List α)
  | rrun, [] => .done (rrun, [])
  | [], rest => .done ([], rest)
  | prev :: rr, x :: rest =>
    .ask cur x prev fun b => if b == desc then extendRun cur desc (x :: prev :: rr) rest else .done (prev :: rr, x :: rest)

/-- `list.sort` with `minrun = n`: `count_run`, reverse a descending run, `binarysort` the rest -/
def pySort : List α → Ask α (List α)
  | [] => .done []
  | [x] => .done [x]
  | x0 :: x1 :: tl =>
    .ask (x0 :: x1 :: tl) x1 x0 fun d =>
      (extendRun (x0 :: x1 :: tl) d [x1, x0] tl).bind fun p =>
        binarySort (if d then p.1 else p.1.reverse) p.2

/-- below this length `pySort` asks exactly CPython's comparisons in CPython's order -/
def exactBelow : Nat := 64

end SortAlg

/-! ## invoking a call-back from inside a library function -/

abbrev Tree := LibTree LWorld

/-- the text oracle of `LibMore` is not needed here (number / datetime texts of `arrayJoin` stay with `drv_c15x`) -/
def T0 : LibMore.TextFns := LibMore.TextFns.none

/-- a non-call-back library call, as `LibMore` answers it -/
def base (name : String) (args : List Value) (w : LWorld) : Lib.Res × Lib.Heap :=
  LibMore.libMore T0 name (args.map toLib) w.heap

/-- unfold `systemPartial` values: `lambda args_extra, options: func([*func_args, *args_extra], options)` -/
def resolve : Nat → LWorld → Value → List Value → Value × List Value
  | 0, _, f, a => (f, a)
  | n + 1, w, .fn (.other k), a =>
    match w.partials[k]? with
    | some (g, pre) => resolve n w g (pre ++ a)
    | none => (.fn (.other k), a)
  | _ + 1, _, f, a => (f, a)

/-- `f(args, options)` called directly by a library function: `k` continues with the result, `onFail v` is what the outer function does
when the call-back raised an exception the wrapper would turn into `v` -/
def cbCall (f : Value) (args : List Value) (w : LWorld) (k : Value → LWorld → Tree) (onFail : Value → LWorld → Tree) : Tree :=
  match resolve w.partials.length w f args with
  | (.fn (.lib name), args') =>
    match base name args' w with
    | (.ok v, h) => k (ofLib v) { w with heap := h }
    | (.fail v, h) => onFail (ofLib v) { w with heap := h }
    | (.unmodelled, _) => .call f args w k
  | _ => .call f args w k

/-! ## the index searches -/

def numV (i : Int) : Value := .num (Rat.ofInt i)

/-- the search loop over the precomputed index list; `array[ix]` is read from the live heap -/
def searchCb (f : Value) (r : Nat) : List Nat → LWorld → Tree
  | [], w => .ret (.ok (numV (-1))) w
  | i :: is, w =>
    match (Lib.getArr w.heap r).bind (·[i]?) with
    | none => .ret (.fail .null) w
    | some x =>
      cbCall f [ofLib x] w
        (fun res w1 => if Lib.truthy w1.heap (toLib res) then .ret (.ok (numV i)) w1 else searchCb f r is w1)
        (fun v w1 => .ret (.fail v) w1)

/-- `range(int(index), len(array))` -/
def upFrom (start len : Nat) : List Nat := List.range' start (len - start)

/-- `range(int(index), -1, -1)` -/
def downFrom (start : Int) : List Nat := (List.range (start + 1).toNat).reverse

/-! ## arraySort with a compare function -/

/-- `compare_fn(...) < 0` as `functools.cmp_to_key` asks it: `none` = TypeError -/
def ltZero : Lib.Value → Option Bool
  | .num q => some (decide (q.num < 0))
  | .bool _ => some false
  | _ => none

def setArr (w : LWorld) (r : Nat) (xs : List Lib.Value) : LWorld := { w with heap := w.heap.set r (.arr xs) }

/-- the end of `list_sort_impl`: the sorted items go back into the list; an append during the sort is a `ValueError` -/
def finishSort (r : Nat) (ys : List Lib.Value) (w : LWorld) : Tree :=
  if Lib.getArr w.heap r == some [] then .ret (.ok (.arr r)) (setArr w r ys) else .ret (.fail .null) (setArr w r ys)

/-- run a sorting computation with the compare function `f` as call-back -/
def sortTree (f : Value) (r : Nat) : Ask Lib.Value (List Lib.Value) → LWorld → Tree
  | .done ys, w => finishSort r ys w
  | .ask cur x y k, w =>
    cbCall f [ofLib x, ofLib y] w
      (fun res w1 =>
        match ltZero (toLib res) with
        | some b => sortTree f r (k b) w1
        | none => .ret (.fail .null) (setArr w1 r cur))
      (fun v w1 => .ret (.fail v) (setArr w1 r cur))

/-- `array.sort(key=cmp_to_key(...))`: fewer than two elements are never compared (and never emptied observably) -/
def sortCb (f : Value) (r : Nat) (xs : List Lib.Value) (w : LWorld) : Tree :=
  if xs.length < 2 then .ret (.ok (.arr r)) w else sortTree f r (pySort xs) (setArr w r [])

/-! ## dispatch -/

/-- the validated arguments of a call, as `Lib.eff` computes them (`none`: not a `value_args_validate` function) -/
def validated (name : String) (args : List Lib.Value) (h : Lib.Heap) : Option (Option (List Lib.VArg)) :=
  match Gen.libFns.lookup name with
  | none => none
  | some (modelName, _) =>
    match Gen.argModels.lookup modelName with
    | none => none
    | some ms => some (Lib.validate h ms args)

/-- the call-back form of the call, if it is one (`none`: `LibMore` / the fallback answer) -/
def cbForm (name : String) (args : List Value) (w : LWorld) : Option Tree :=
  if name == "arrayIndexOf" then
    match validated name (args.map toLib) w.heap with
    | some (some [.one (.arr r), .one (.fn g), .one (.num q)]) =>
      match Lib.getArr w.heap r with
      | some xs =>
        if Lib.rle (Lib.ofNat xs.length) q then none
        else some (searchCb (ofLib (.fn g)) r (upFrom (Lib.pyInt q).toNat xs.length) w)
      | none => none
    | _ => none
  else if name == "arrayLastIndexOf" then
    match validated name (args.map toLib) w.heap with
    | some (some [.one (.arr r), .one (.fn g), .one ix]) =>
      match Lib.getArr w.heap r with
      | some xs =>
        match Lib.idxOr xs.length ix with
        | some q =>
          if Lib.rle (Lib.ofNat xs.length) q then none
          else some (searchCb (ofLib (.fn g)) r (downFrom (Lib.pyInt q)) w)
        | none => none
      | none => none
    | _ => none
  else if name == "arraySort" then
    match validated name (args.map toLib) w.heap with
    | some (some [.one (.arr r), .one (.fn g)]) =>
      match Lib.getArr w.heap r with
      | some xs => some (sortCb (ofLib (.fn g)) r xs w)
      | none => none
    | _ => none
  else none

/-- `SCRIPT_FUNCTIONS[name](args, options)`: call-back forms, else `LibMore`, else HostLib's fallback (HostImpl's `system*`) -/
def lib (name : String) (args : List Value) (w : LWorld) : Tree :=
  match cbForm name args w with
  | some t => t
  | none =>
    match base name args w with
    | (.ok v, h) => .ret (.ok (ofLib v)) { w with heap := h }
    | (.fail v, h) => .ret (.fail (ofLib v)) { w with heap := h }
    | (.unmodelled, _) => HostLib.fallback name args w

/-- the machine host: HostLib's, with the extended library -/
def host : Host LWorld := { hostLib with lib := lib }

/-- the names a driver binds in the globals -/
def libNames : List String :=
  HostLib.libNames ++ (["arraySort", "stringNew"].filter fun n => !HostLib.libNames.contains n)

end LibCb
