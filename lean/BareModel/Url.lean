/-!
# Url — `url_file_relative` (options.py:81-108)

Strings are handled as `List Char` (`Str`; Python `str` and Lean `String` are both sequences of code points); the `String`
level functions at the end are `String.ofList ∘ … ∘ String.toList`.

**Mirror** layer (shaped like the Python / the CPython 3.12 POSIX library routines it calls):

* `matchUrl`        `re.match(r'^[a-z]+:', s)`
* `rfindSlash`      `str.rfind('/')` (−1 when absent)
* `splitroot`, `pathStr`   `str(pathlib.Path(p))` = `posixpath.splitroot`, split on `/`, drop `''` and `'.'`, re-join, `or '.'`
* `dirname`, `join` `posixpath.dirname`, `posixpath.join` (two arguments)
* `urlFileRelativeL` the four-way case split of `url_file_relative`

**Spec** layer (shaped like the property: "a URL or absolute path stays what it is, anything else is joined to the
directory of the including file"): `IsUrl`, `dirPart`, `dirSpec`, `normAbs`, `normRel`, `joinDir`, `resolveSpecL`.
-/

namespace Url

abbrev Str := List Char

/-! ## mirror -/

/-- the character class `[a-z]` (no IGNORECASE: ASCII lower case only) -/
def isLowerAscii (c : Char) : Bool := 'a' ≤ c && c ≤ 'z'

/-- `re.match(r'^[a-z]+:', s) is not None`: the greedy run of `[a-z]` is non-empty and followed by `:`
(`:` is not in the class, so no backtracking can succeed where the greedy attempt fails). -/
def matchUrl (s : Str) : Bool :=
  match s.dropWhile isLowerAscii with
  | ':' :: _ => !(s.takeWhile isLowerAscii).isEmpty
  | _ => false

/-- `s.rfind('/')` -/
def rfindSlash : Str → Int
  | [] => -1
  | c :: cs =>
    let r := rfindSlash cs
    if r ≥ 0 then r + 1 else if c = '/' then 0 else -1

/-- `s.split('/')` (always at least one piece) -/
def splitSlash : Str → List Str
  | [] => [[]]
  | c :: cs =>
    if c = '/' then [] :: splitSlash cs
    else match splitSlash cs with
      | s :: ss => (c :: s) :: ss
      | [] => [[c]]

/-- `'/'.join(parts)` -/
def joinSlash : List Str → Str
  | [] => []
  | [s] => s
  | s :: ss => s ++ '/' :: joinSlash ss

/-- a path component pathlib keeps: `if x and x != '.'` -/
def realSeg (x : Str) : Bool := !x.isEmpty && x != ['.']

/-- `posixpath.splitroot(p)` → `(root, rel)` (the drive is always `''`), written with the same slices:
`p[:1] != '/'` → `('', p)`; `p[1:2] != '/' or p[2:3] == '/'` → `('/', p[1:])`; else `(p[:2], p[2:])`.
Exactly two leading slashes are a root of their own, one or three-and-more collapse to `/`. -/
def splitroot (p : Str) : Str × Str :=
  if p.take 1 != ['/'] then ([], p)
  else if (p.drop 1).take 1 != ['/'] || (p.drop 2).take 1 == ['/'] then (['/'], p.drop 1)
  else (p.take 2, p.drop 2)

/-- `str(pathlib.PurePosixPath(p))` -/
def pathStr (p : Str) : Str :=
  let rr := splitroot p
  let tail := (splitSlash rr.2).filter realSeg
  let s := rr.1 ++ joinSlash tail
  if s.isEmpty then ['.'] else s

/-- `s.rstrip('/')` -/
def rstripSlash (s : Str) : Str := (s.reverse.dropWhile (· == '/')).reverse

/-- `posixpath.dirname(p)` -/
def dirname (p : Str) : Str :=
  let head := p.take (rfindSlash p + 1).toNat
  if !head.isEmpty && head != List.replicate head.length '/' then rstripSlash head else head

/-- `posixpath.join(a, b)` -/
def join (a b : Str) : Str :=
  if b.head? == some '/' then b
  else if a.isEmpty || a.getLast? == some '/' then a ++ b
  else a ++ '/' :: b

/-- `url_file_relative(file_, url)` -/
def urlFileRelativeL (file url : Str) : Str :=
  if matchUrl url then url
  else if url.head? == some '/' then pathStr url
  else if matchUrl file then file.take (rfindSlash file + 1).toNat ++ url
  else join (dirname file) (pathStr url)

/-! ## spec -/

/-- a URL: a non-empty lower-case ASCII scheme followed by a colon -/
def IsUrl (s : Str) : Prop :=
  ∃ scheme rest, s = scheme ++ ':' :: rest ∧ scheme ≠ [] ∧ ∀ c ∈ scheme, isLowerAscii c = true

theorem takeWhile_lower_of_decomp (scheme rest : Str) (h : ∀ c ∈ scheme, isLowerAscii c = true) :
    (scheme ++ ':' :: rest).takeWhile isLowerAscii = scheme ∧ (scheme ++ ':' :: rest).dropWhile isLowerAscii = ':' :: rest := by
  induction scheme with
  | nil => simp [isLowerAscii]
  | cons c cs ih =>
    have hc := h c (List.mem_cons_self ..)
    have := ih (fun x hx => h x (List.mem_cons_of_mem _ hx))
    simp [hc, this]

theorem of_mem_takeWhile {p : Char → Bool} {c : Char} : ∀ {l : Str}, c ∈ l.takeWhile p → p c = true
  | [], h => by simp at h
  | a :: l, h => by
    by_cases ha : p a = true
    · simp [List.takeWhile, ha] at h
      rcases h with rfl | h
      · exact ha
      · exact of_mem_takeWhile h
    · simp [List.takeWhile, ha] at h

theorem matchUrl_iff (s : Str) : matchUrl s = true ↔ IsUrl s := by
  constructor
  · intro h
    unfold matchUrl at h
    split at h
    · rename_i rest hd
      refine ⟨s.takeWhile isLowerAscii, rest, ?_, ?_, ?_⟩
      · rw [← hd]; exact List.takeWhile_append_dropWhile.symm
      · intro he; simp [he] at h
      · intro c hc; exact of_mem_takeWhile hc
    · cases h
  · rintro ⟨scheme, rest, rfl, hne, hall⟩
    obtain ⟨h1, h2⟩ := takeWhile_lower_of_decomp scheme rest hall
    unfold matchUrl
    rw [h2, h1]
    cases scheme with
    | nil => exact absurd rfl hne
    | cons _ _ => rfl

instance (s : Str) : Decidable (IsUrl s) := decidable_of_iff _ (matchUrl_iff s)

/-- the part of `s` up to and including its last `/` (empty if there is none): "the directory of a URL" -/
def dirPart : Str → Str
  | [] => []
  | c :: cs => if '/' ∈ cs then c :: dirPart cs else if c = '/' then ['/'] else []

/-- drop all trailing slashes -/
def dropTrailingSlashes (s : Str) : Str := (s.reverse.dropWhile (· == '/')).reverse

/-- the directory of an OS path: what precedes the last component, without the separating slashes — unless nothing
but slashes precedes it (the root stays the root). -/
def dirSpec (p : Str) : Str :=
  let d := dirPart p
  if d.all (· == '/') then d else dropTrailingSlashes d

/-- the components of a path that name something -/
def segments (p : Str) : List Str := (splitSlash p).filter realSeg

/-- normal form of an absolute path: same components, one separating slash each, no trailing slash;
POSIX keeps a root of exactly two slashes distinct from `/`. -/
def normAbs (p : Str) : Str :=
  let lead := (p.takeWhile (· == '/')).length
  (if lead = 2 then ['/', '/'] else ['/']) ++ joinSlash (segments (p.dropWhile (· == '/')))

/-- normal form of a relative path; the empty path is `.` -/
def normRel (p : Str) : Str :=
  if segments p = [] then ['.'] else joinSlash (segments p)

/-- a directory and a relative path below it -/
def joinDir (d r : Str) : Str :=
  if d = [] then r else if d.getLast? = some '/' then d ++ r else d ++ '/' :: r

/-- the property's reading of include resolution -/
def resolveSpecL (base ref : Str) : Str :=
  if IsUrl ref then ref
  else if ref.head? = some '/' then normAbs ref
  else if IsUrl base then dirPart base ++ ref
  else joinDir (dirSpec base) (normRel ref)

/-! ## `String` level -/

/-- `url_file_relative(file_, url)` on strings -/
def urlFileRelative (file url : String) : String := String.ofList (urlFileRelativeL file.toList url.toList)

/-- the specification on strings -/
def resolveSpec (base ref : String) : String := String.ofList (resolveSpecL base.toList ref.toList)

end Url
