import BareModel.Lint
import BareModel.Machine

/-!
# The edits a lint warning suggests (model of what the harness' `apply_edit` does to a script model)

* `deleteAt P k` — delete statement `k` of a statement list (an unused label, a pointless expression statement);
* `renameStmts v v' P` — rename the assignment *targets* `v` of a function body to `v'` (an unused variable occurs nowhere
  else: it is not read by any expression of the body);
* `renameArgs a a' args` — rename a parameter;
* `stmtUses / bodyUses` — the names the expressions of a statement (list) read: variables and called function names, the
  lint's notion of "use" (`Lint.exprUses`); `assigned` — the assignment targets of a body;
* `setFun cfg id fd` — the configuration whose function table differs from `cfg`'s at `id` only (script function values are
  indices into that table; the body inside a `function` *statement* is not what the machine runs).
-/

namespace LintEdit
open Lint

/-- `del statements[k]` -/
def deleteAt (P : List Stmt) (k : Nat) : List Stmt := P.eraseIdx k

/-- the position of statement `pc` of `P` in `deleteAt P k` (the deleted one maps to its successor) -/
def shiftPc (k pc : Nat) : Nat := if pc ≤ k then pc else pc - 1

/-- an assignment to `v` becomes an assignment to `v'` -/
def renameStmt (v v' : Name) : Stmt → Stmt
  | .expr (some n) e => .expr (some (if n = v then v' else n)) e
  | s => s

def renameStmts (v v' : Name) (P : List Stmt) : List Stmt := P.map (renameStmt v v')

/-- every parameter position named `a` is renamed to `a'` -/
def renameArgs (a a' : Name) (args : List Name) : List Name := args.map fun x => if x = a then a' else x

/-- the names the expression of a statement reads (lint: `_get_variable_assignments_and_uses`) -/
def stmtUses : Stmt → List Name
  | .expr _ e => exprUses e
  | .jump _ (some e) => exprUses e
  | .ret (some e) => exprUses e
  | _ => []

def bodyUses (P : List Stmt) : List Name := P.flatMap stmtUses

/-- the assignment targets of a statement list -/
def assigned (P : List Stmt) : List Name :=
  P.filterMap fun s => match s with
    | .expr (some n) _ => some n
    | _ => none

/-- a statement whose execution does nothing but advance: a label, or an un-assigned call-free expression -/
def Skippable (s : Stmt) : Prop := (∃ l, s = .label l) ∨ (∃ e, s = .expr none e ∧ isPointless e = true)

/-- the function table of `cfg`, changed at `id` -/
def setFun {W : Type} (cfg : Machine.Config W) (id : Machine.FnId) (fd : Machine.FuncDef) : Machine.Config W :=
  { cfg with funs := fun i => if i = id then some fd else cfg.funs i }

end LintEdit
