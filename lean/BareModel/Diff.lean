/-!
# Diff — functional model of `diffLines` (src/bare_script/include/diff.bare)

Mirror layer, written the way diff.bare is written:

* `splitLines`    `regexSplit(diffRegexLineSplit, text)` with `diffRegexLineSplit = \r?\n` (diff.bare:155)
* `Input.lines`   diff.bare:54-72: a string is split; an array is traversed and every part is split and appended
* `identLoop`     diff.bare:95-100  the loop collecting consecutive identical lines
* `scanRight`     diff.bare:111-117 the inner look-ahead loop over `ixRightTmp`
* `scanLeft`      diff.bare:109-122 the outer look-ahead loop over `ixLeftTmp`
* `slice`         `arraySlice(array, start, end)` of library.py (fails when an index is beyond the array)
* `outer`         diff.bare:79-148  the main `while` loop, *fuelled*; the state is `(ixLeft, ixRight)`

`continue` inside a `while` (finding F7): the loop label sits *after* the header test, so a `continue` re-enters the body
WITHOUT re-testing `ixLeft < leftLength || ixRight < rightLength`.  `outer` therefore carries a flag `test`:
`true` when the body is entered through the header test (first entry, falling off the end of the body), `false` when it is
entered by `continue`.  The two guards at the top of the body are what ends the loop in that case.

The three inner loops run over the not yet visited suffix of the array (`L.drop ixLeft` …) and carry the index along, so
they are structurally recursive; only `outer` needs fuel.  `none` = the model is stuck (fuel exhausted or an `arraySlice`
argument out of range); `BareProofs.C20` shows this never happens with the fuel `diffLines` supplies.

No Mathlib import.
-/

namespace Diff

/-- `DifferenceType` of diff.bare:32-41 -/
inductive Kind where
  | identical | add | remove
deriving Repr, DecidableEq, Inhabited

def Kind.text : Kind → String
  | .identical => "Identical"
  | .add => "Add"
  | .remove => "Remove"

/-- `struct Difference` of diff.bare:22-28 -/
structure Block (α : Type) where
  kind : Kind
  lines : List α
deriving Repr, DecidableEq

/-! ## line splitting -/

/-- `re.split('\r?\n', s)`: cut at every LF, a CR immediately before the LF belongs to the separator.
`cur` = the characters of the current line, reversed. -/
def splitGo : List Char → List Char → List String
  | cur, [] => [String.ofList cur.reverse]
  | cur, c :: cs =>
    if c = '\n' then
      String.ofList (match cur with
        | '\r' :: cur' => cur'.reverse
        | _ => cur.reverse) :: splitGo [] cs
    else splitGo (c :: cur) cs

def splitLines (s : String) : List String := splitGo [] s.toList

/-- an argument of `diffLines`: a string, or an array of strings (each part may itself hold several lines) -/
inductive Input where
  | text (s : String)
  | parts (ps : List String)
deriving Repr, DecidableEq

/-- diff.bare:54-72 -/
def Input.lines : Input → List String
  | .text s => splitLines s
  | .parts ps => ps.flatMap splitLines

/-! ## the loops -/

section
variable {α : Type} [DecidableEq α]

/-- diff.bare:96-100 — `xs = leftLines[ixLeft:]`, `ys = rightLines[ixRight:]`; result `(identicalLines, ixLeft, ixRight)` -/
def identLoop : List α → List α → Nat → Nat → List α → List α × Nat × Nat
  | x :: xs, y :: ys, i, j, acc =>
    if x = y then identLoop xs ys (i + 1) (j + 1) (acc ++ [x]) else (acc, i, j)
  | _, _, i, j, acc => (acc, i, j)

/-- diff.bare:111-117 — `ys = rightLines[ixRightTmp:]`; `some ixRightTmp` = `foundMatch`, `none` = ran to `rightLength` -/
def scanRight (x : α) : List α → Nat → Option Nat
  | [], _ => none
  | y :: ys, jt => if x = y then some jt else scanRight x ys (jt + 1)

/-- diff.bare:109-122 — `xs = leftLines[ixLeftTmp:]`, `rj = rightLines[ixRight:]`;
`some (ixLeftTmp, ixRightTmp)` = `foundMatch` -/
def scanLeft (rj : List α) (j : Nat) : List α → Nat → Option (Nat × Nat)
  | [], _ => none
  | x :: xs, it =>
    match scanRight x rj j with
    | some jt => some (it, jt)
    | none => scanLeft rj j xs (it + 1)

/-- `arraySlice(array, start, end)` (library.py `_array_slice`): `end` defaults to the length; an index beyond the
array is an argument error (`none`), otherwise Python's `array[start:end]`. -/
def slice (a : List α) (s : Nat) (e : Option Nat) : Option (List α) :=
  let e' := e.getD a.length
  if s > a.length ∨ e' > a.length then none else some ((a.take e').drop s)

/-- `if c: arrayPush(diffs, objectNew('type', k, 'lines', <slice>))` -/
def pushIf (c : Bool) (k : Kind) (s : Option (List α)) : Option (List (Block α)) :=
  if c then s.map (fun ls => [⟨k, ls⟩]) else some []

/-- diff.bare:79-148.  `test` = the body is entered through the `while` header test (false after `continue`, F7). -/
def outer (L R : List α) : Nat → Bool → Nat → Nat → Option (List (Block α))
  | 0, _, _, _ => none
  | f + 1, test, i, j =>
    if test && !(decide (i < L.length) || decide (j < R.length)) then some []      -- :79 header test
    else if i ≥ L.length then                                                      -- :81-86
      pushIf (j < R.length) .add (slice R j none)
    else if j ≥ R.length then                                                      -- :87-92
      pushIf (i < L.length) .remove (slice L i none)
    else
      match identLoop (L.drop i) (R.drop j) i j [] with                            -- :95-100
      | (ident, i1, j1) =>
        if ident ≠ [] then                                                         -- :101-104 push, `continue`
          (outer L R f false i1 j1).map (fun rest => ⟨.identical, ident⟩ :: rest)
        else
          match scanLeft (R.drop j1) j1 (L.drop i1) i1 with                        -- :107-122
          | none =>                                                                -- :125-135, `continue`
            (pushIf (i1 < L.length) .remove (slice L i1 none)).bind fun b1 =>
            (pushIf (j1 < R.length) .add (slice R j1 none)).bind fun b2 =>
            (outer L R f false (if i1 < L.length then L.length else i1)
                               (if j1 < R.length then R.length else j1)).map fun rest => b1 ++ b2 ++ rest
          | some (it, jt) =>                                                       -- :138-147, falls to `endwhile`
            (pushIf (it > i1) .remove (slice L i1 (some it))).bind fun b1 =>
            (pushIf (jt > j1) .add (slice R j1 (some jt))).bind fun b2 =>
            (outer L R f true (if it > i1 then it else i1) (if jt > j1 then jt else j1)).map fun rest =>
              b1 ++ b2 ++ rest

/-- the fuel `diffLines` gives the main loop: one pass per consumed line, plus the passes that only `break` -/
def fuelFor (L R : List α) : Nat := L.length + R.length + 2

/-- the main loop from `ixLeft = ixRight = 0` -/
def diffLoop (L R : List α) : Option (List (Block α)) := outer L R (fuelFor L R) true 0 0

/-- `diffLines` on two line arrays (`[]` stands for the stuck model; `C20.diffLoop_some` shows it is never taken) -/
def diffLines (L R : List α) : List (Block α) :=
  match diffLoop L R with
  | some bs => bs
  | none => []

/-! ## what the property reads off a result -/

/-- the lines of the `Identical` and `Remove` blocks, in order -/
def leftOf (bs : List (Block α)) : List α :=
  (bs.filter fun b => b.kind = .identical ∨ b.kind = .remove).flatMap Block.lines

/-- the lines of the `Identical` and `Add` blocks, in order -/
def rightOf (bs : List (Block α)) : List α :=
  (bs.filter fun b => b.kind = .identical ∨ b.kind = .add).flatMap Block.lines

end

/-- `diffLines(left, right)` as a script calls it -/
def diffInputs (l r : Input) : List (Block String) := diffLines l.lines r.lines

end Diff
