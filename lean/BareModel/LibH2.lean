import BareModel.LibH
import BareModel.Datetime

/-!
# LibH2 — more of library.py / runtime.py under the host-level "one number type" model (property C12, extension)

Same style and types as `LibH` (`PyNum = int | float`, `Val`, `Fail`, `Out`, `validateH/A`, `wrap`, `callWith`):

* `…H` bodies: the library functions written the way library.py / value.py write them *now* — `int(x)` exactly where the code has it,
  host primitives partial and typed as CPython types them (`' ' * indent`, `f'{x:.{d}f}'`, `calendar.monthrange`,
  `datetime.datetime(...)` accept only `int`).
* `…A` bodies: the one-number-type versions over `Rat`.
* `…G` bodies: functions in which numbers are only stored / moved (generic in the number type; used on both layers).

What is abstract (`Env`): IEEE rounding `rnd`, the text of a float (`floatText`, `repr` + `R_NUMBER_CLEANUP`), the JSON text of a
**value** (`jsonText`, a function of the spelling-forgotten value: that int/float spellings of an integral |n| < 1e15 print the same
inside JSON is the assumption, covered by the correspondence), `f'{x:.{d}f}'` (`fixedText`), the text of a datetime/function/regex.

Float arithmetic inside `_datetime_new` (`//`, `*`, `-`, `+` on floats that hold integers) is modelled *exact*: true below 2^53, i.e.
inside the quantifier of C12 (|n| < 1e15).  The operators `+ - / %` are modelled with the abstract rounding function.

Negative zero: a `Rat` has one zero; `-0.0` (prints "-0") is outside the model (known observation of C12).
-/

namespace LibH2
open LibH

/-! ## environment of abstract host functions -/

structure Env where
  /-- round to the nearest double -/
  rnd : Rat → Rat
  /-- `R_NUMBER_CLEANUP.sub('', repr(x))` of a float with value `q` -/
  floatText : Rat → String
  /-- `value_json(value, indent)` as a function of the value -/
  jsonText : AVal → Option Int → String
  /-- `f'{x:.{d}f}'` for a float `x`, an int `d` -/
  fixedText : Rat → Int → String
  /-- `value_string` of a datetime / function / regex -/
  opaqueText : String → Int → String
  /-- `R_NUMBER_CLEANUP.sub('', text)` -/
  cleanup : String → String

/-- `str(n)` of a Python int -/
def intText (n : Int) : String := toString n

/-! ## value_compare (value.py:185-231), generic in the number comparison -/

/-- `-1 if l < r else (0 if l == r else 1)` -/
def tri (lt eq : Bool) : Int := if lt then -1 else if eq then 0 else 1

/-- Python's mixed `<` / `==` are exact on the values (each case written out) -/
def pyCmp : PyNum → PyNum → Int
  | .int a, .int b => tri (decide (a < b)) (a == b)
  | .int a, .float q => tri (decide ((a : Rat) < q)) ((a : Rat) == q)
  | .float q, .int b => tri (decide (q < (b : Rat))) (q == (b : Rat))
  | .float p, .float q => tri (decide (p < q)) (p == q)

def ratCmp (a b : Rat) : Int := tri (decide (a < b)) (a == b)

/-- first non-zero item comparison -/
def firstNZ : List Int → Int
  | [] => 0
  | c :: r => if c != 0 then c else firstNZ r

def cmpLen (a b : Nat) : Int := tri (decide (a < b)) (a == b)

/-- `value_compare(a, b)`; objects are compared through their key-sorted item lists -/
def cmpFuel {N : Type} (numCmp : N → N → Int) : Nat → Val N → Val N → Int
  | 0, _, _ => 0
  | _ + 1, .null, .null => 0
  | _ + 1, .null, _ => -1
  | _ + 1, _, .null => 1
  | _ + 1, .str a, .str b => tri (decide (a < b)) (a == b)
  | _ + 1, .bool a, .bool b => tri (!a && b) (a == b)
  | _ + 1, .num a, .num b => numCmp a b
  | f + 1, .arr xs, .arr ys =>
      let c := firstNZ (List.zipWith (cmpFuel numCmp f) xs ys)
      if c != 0 then c else cmpLen xs.length ys.length
  | f + 1, .obj a, .obj b =>
      let a' := sortKV a
      let b' := sortKV b
      let c := firstNZ (List.zipWith (fun p q =>
        let kc := tri (decide (p.1 < q.1)) (p.1 == q.1)
        if kc != 0 then kc else cmpFuel numCmp f p.2 q.2) a' b')
      if c != 0 then c else cmpLen a'.length b'.length
  | _ + 1, .opaque k i, .opaque k' i' =>
      if k == "datetime" && k' == "datetime" then tri (decide (i < i')) (i == i')
      else tri (decide (k < k')) (k == k')
  | _ + 1, a, b => tri (decide (typeName a < typeName b)) (typeName a == typeName b)

def valCmp {N : Type} (numCmp : N → N → Int) (a b : Val N) : Int := cmpFuel numCmp (Val.size a + 1) a b

/-! ## value_string (value.py:52-93) -/

def numTextH (E : Env) : PyNum → String
  | .int n => intText n
  | .float q => E.floatText q

def valueStringH (E : Env) : HVal → String
  | .null => "null"
  | .str s => s
  | .bool b => if b then "true" else "false"
  | .num x => numTextH E x
  | .opaque k i => E.opaqueText k i
  | .arr xs => E.jsonText (absV (.arr xs)) none
  | .obj kvs => E.jsonText (absV (.obj kvs)) none

def valueStringA (E : Env) : AVal → String
  | .null => "null"
  | .str s => s
  | .bool b => if b then "true" else "false"
  | .num q => E.floatText q
  | .opaque k i => E.opaqueText k i
  | .arr xs => E.jsonText (.arr xs) none
  | .obj kvs => E.jsonText (.obj kvs) none

/-! ## host primitives -/

/-- `value_json(value, indent)`: `' ' * indent` inside `json.JSONEncoder` needs an `int` -/
def jsonH (E : Env) (v : HVal) : Option PyNum → Except HostErr String
  | none => .ok (E.jsonText (absV v) none)
  | some (.int k) => .ok (E.jsonText (absV v) (if 0 < k then some k else none))
  | some (.float q) => if 0 < q then .error .typeError else .ok (E.jsonText (absV v) none)

/-- `f'{x:.{d}f}'`: a float precision is "Invalid format specifier" (ValueError) -/
def fixedTextH (E : Env) (x : Rat) : PyNum → Except HostErr String
  | .int d => .ok (E.fixedText x d)
  | .float _ => .error .valueError

def asInt? : PyNum → Option Int
  | .int n => some n
  | .float _ => none

/-- `calendar.monthrange(year, month)[1]`: float arguments are a TypeError, an illegal month a ValueError -/
def monthrangeH : PyNum → PyNum → Except HostErr Int
  | .int y, .int m =>
    match Datetime.monthrange y m with
    | some md => .ok md
    | none => .error .valueError
  | _, _ => .error .typeError

/-- `datetime.datetime(y, mo, d, h, mi, s, ms * 1000)`: every field must be an `int`; the value is identified by its
    local milliseconds since 0001-01-01 -/
def mkDatetimeH (fields : List PyNum) : Except HostErr Int :=
  match fields.mapM asInt? with
  | some [y, mo, d, h, mi, s, ms] =>
    match Datetime.mkDT y mo d h mi s ms with
    | some t => .ok (Datetime.toLocalMs t)
    | none => .error .valueError
  | _ => .error .typeError

/-! host arithmetic on numbers holding integers (`_datetime_new`): int op int stays an int, anything else is a float -/

def addH : PyNum → PyNum → PyNum
  | .int a, .int b => .int (a + b)
  | a, b => .float (a.abs + b.abs)

def subH : PyNum → PyNum → PyNum
  | .int a, .int b => .int (a - b)
  | a, b => .float (a.abs - b.abs)

/-- `x * k` for an int literal `k` -/
def mulI : PyNum → Int → PyNum
  | .int a, k => .int (a * k)
  | .float q, k => .float (q * (k : Rat))

/-- `x // k` for an int literal `k` -/
def floorDivI : PyNum → Int → PyNum
  | .int a, k => .int (Int.fdiv a k)
  | .float q, k => .float (((q / (k : Rat)).floor : Int) : Rat)

/-- `abs(x)` -/
def absH : PyNum → PyNum
  | .int n => .int (n.natAbs : Int)
  | .float q => .float (if q < 0 then -q else q)

/-- `math.ceil(x)` (an int in both cases) -/
def ceilH : PyNum → Int
  | .int n => n
  | .float q => q.ceil

/-- `math.floor(x)` -/
def floorH : PyNum → Int
  | .int n => n
  | .float q => q.floor

/-! ## bodies in which numbers are only stored or moved (generic in the number type) -/

def list1 {α : Type} : List α → Option α
  | [a] => some a
  | _ => none

def list7 {α : Type} : List α → Option (α × α × α × α × α × α × α)
  | [a, b, c, d, e, f, g] => some (a, b, c, d, e, f, g)
  | _ => none

def _root_.LibH.Val.asBool? {N : Type} : Val N → Option Bool | .bool b => some b | _ => none

/-- library.py:40-42 -/
def arrayCopyG {N : Type} (v : List (Val N)) : Except (Fail N) (BodyR N) := do
  let a ← req (list1 v)
  let xs ← req a.asArr?
  pure (.arr xs, none)

/-- library.py:74-77 -/
def arrayExtendG {N : Type} (v : List (Val N)) : Except (Fail N) (BodyR N) := do
  let (a, b) ← req (list2 v)
  let xs ← req a.asArr?
  let ys ← req b.asArr?
  pure (.arr (xs ++ ys), some (xs ++ ys))

/-- library.py:189-191 (`len` is a host int) -/
def arrayLengthG {N : Type} (ofInt : Int → N) (v : List (Val N)) : Except (Fail N) (BodyR N) := do
  let a ← req (list1 v)
  let xs ← req a.asArr?
  pure (.num (ofInt xs.length), none)

/-- library.py:203-204 (no argument model) -/
def arrayNewG {N : Type} (v : List (Val N)) : Except (Fail N) (BodyR N) :=
  pure (.arr v, none)

/-- library.py:228-233 -/
def arrayPopG {N : Type} (v : List (Val N)) : Except (Fail N) (BodyR N) := do
  let a ← req (list1 v)
  let xs ← req a.asArr?
  match xs.getLast? with
  | none => throw (.args .null)
  | some x => pure (x, some xs.dropLast)

/-- library.py:246-249 -/
def arrayPushG {N : Type} (v : List (Val N)) : Except (Fail N) (BodyR N) := do
  let (a, vs) ← req (list2 v)
  let xs ← req a.asArr?
  let ys ← req vs.asArr?
  pure (.arr (xs ++ ys), some (xs ++ ys))

/-- library.py:284-291 -/
def arrayShiftG {N : Type} (v : List (Val N)) : Except (Fail N) (BodyR N) := do
  let a ← req (list1 v)
  let xs ← req a.asArr?
  match xs with
  | [] => throw (.args .null)
  | x :: r => pure (x, some r)

/-- library.py:1589-1591 -/
def stringLengthG {N : Type} (ofInt : Int → N) (v : List (Val N)) : Except (Fail N) (BodyR N) := do
  let a ← req (list1 v)
  let s ← req a.asStr?
  pure (.num (ofInt s.length), none)

/-! ## host-level bodies -/

/-- library.py:141-143 -/
def arrayJoinH (E : Env) (v : List HVal) : Except (Fail PyNum) (BodyR PyNum) := do
  let (a, s) ← req (list2 v)
  let xs ← req a.asArr?
  let sep ← req s.asStr?
  pure (.str (sep.intercalate (xs.map (valueStringH E))), none)

/-- library.py:1617-1619 -/
def stringNewH (E : Env) (v : List HVal) : Except (Fail PyNum) (BodyR PyNum) := do
  let a ← req (list1 v)
  pure (.str (valueStringH E a), none)

/-- library.py:1769-1771 -/
def systemCompareH (v : List HVal) : Except (Fail PyNum) (BodyR PyNum) := do
  let (l, r) ← req (list2 v)
  pure (.num (.int (valCmp pyCmp l r)), none)

/-- library.py:758-760: `value_json(value, int(indent) if indent is not None else None)` -/
def jsonStringifyH (E : Env) (v : List HVal) : Except (Fail PyNum) (BodyR PyNum) := do
  let (value, i) ← req (list2 v)
  let indent ← req i.asOptNum?
  let text ← hostE (jsonH E value (indent.map (fun x => PyNum.int (toInt x))))
  pure (.str text, none)

/-- the same without the `int()`: what the theorem excludes -/
def jsonStringifyNoIntH (E : Env) (v : List HVal) : Except (Fail PyNum) (BodyR PyNum) := do
  let (value, i) ← req (list2 v)
  let indent ← req i.asOptNum?
  let text ← hostE (jsonH E value indent)
  pure (.str text, none)

/-- library.py:778-780 -/
def mathAbsH (v : List HVal) : Except (Fail PyNum) (BodyR PyNum) := do
  let a ← req (list1 v)
  let x ← req a.asNum?
  pure (.num (absH x), none)

/-- library.py:850-852 -/
def mathCeilH (v : List HVal) : Except (Fail PyNum) (BodyR PyNum) := do
  let a ← req (list1 v)
  let x ← req a.asNum?
  pure (.num (.int (ceilH x)), none)

/-- library.py:878-880 -/
def mathFloorH (v : List HVal) : Except (Fail PyNum) (BodyR PyNum) := do
  let a ← req (list1 v)
  let x ← req a.asNum?
  pure (.num (.int (floorH x)), none)

/-- library.py:991-993: `-1 if x < 0 else (0 if x == 0 else 1)` -/
def mathSignH (v : List HVal) : Except (Fail PyNum) (BodyR PyNum) := do
  let a ← req (list1 v)
  let x ← req a.asNum?
  pure (.num (.int (if pyLtI x 0 then -1 else if pyEq x (.int 0) then 0 else 1)), none)

/-- one step of the loops of `_math_max` / `_math_min` (`none` = `is_first`); `sign` = 1 for max, -1 for min -/
def extStep {N : Type} (numCmp : N → N → Int) (sign : Int) (res : Option (Val N)) (value : Val N) : Option (Val N) :=
  match res with
  | none => some value
  | some r => if sign * valCmp numCmp value r > 0 then some value else some r

/-- library.py:925-934 / 942-951 (no argument model) -/
def extremumG {N : Type} (numCmp : N → N → Int) (sign : Int) (v : List (Val N)) : Except (Fail N) (BodyR N) :=
  pure ((v.foldl (extStep numCmp sign) none).getD .null, none)

/-- library.py:976-978 (`value_round_number` always yields a float) -/
def mathRoundH (E : Env) (v : List HVal) : Except (Fail PyNum) (BodyR PyNum) := do
  let (a, d) ← req (list2 v)
  let x ← req a.asNum?
  let digits ← req d.asNum?
  pure (.num (.float (roundNumberH E.rnd x digits)), none)

/-- library.py:1084-1089: `f'{value_round_number(x, digits):.{int(digits)}f}'`, optionally `R_NUMBER_CLEANUP.sub('', …)` -/
def numberToFixedH (E : Env) (v : List HVal) : Except (Fail PyNum) (BodyR PyNum) := do
  let (a, d, t) ← req (list3 v)
  let x ← req a.asNum?
  let digits ← req d.asNum?
  let trim ← req t.asBool?
  let r ← hostE (fixedTextH E (roundNumberH E.rnd x digits) (.int (toInt digits)))
  pure (.str (if trim then E.cleanup r else r), none)

/-! ### `_datetime_new` (library.py:626-675) -/

/-- `if x < 0 or x >= k: e = x // k; x -= e * k; y += e`  →  `(x, y)` -/
def carryH (x y : PyNum) (k : Int) : PyNum × PyNum :=
  if pyLtI x 0 || !(pyLtI x k) then
    let e := floorDivI x k
    (subH x (mulI e k), addH y e)
  else (x, y)

/-- `if month < 1 or month > 12: e = (month - 1) // 12; month -= e * 12; year += e`  →  `(year, month)` -/
def monthNormH (y mo : PyNum) : PyNum × PyNum :=
  if pyLtI mo 1 || !(pyLeI mo 12) then
    let e := floorDivI (subH mo (.int 1)) 12
    (addH y e, subH mo (mulI e 12))
  else (y, mo)

/-- `calendar.monthrange(int(year), int(month))` -/
def monthDaysH (y m : PyNum) : Except HostErr Int := monthrangeH (.int (toInt y)) (.int (toInt m))

/-- `while day < 1:` (fuel = an upper bound on the iterations, as in `Datetime.dayUp`) -/
def dayUpH : Nat → PyNum → PyNum → PyNum → Except HostErr (PyNum × PyNum × PyNum)
  | 0, y, m, d => .ok (y, m, d)
  | f + 1, y, m, d =>
    if pyLtI d 1 then
      let y' := if !(pyEq m (.int 1)) then y else subH y (.int 1)
      let m' := if !(pyEq m (.int 1)) then subH m (.int 1) else .int 12
      match monthDaysH y' m' with
      | .error e => .error e
      | .ok md => dayUpH f y' m' (addH d (.int md))
    else .ok (y, m, d)

/-- `while day > month_days:` -/
def dayDownH : Nat → PyNum → PyNum → PyNum → Int → Except HostErr (PyNum × PyNum × PyNum)
  | 0, y, m, d, _ => .ok (y, m, d)
  | f + 1, y, m, d, md =>
    if !(pyLeI d md) then
      let d' := subH d (.int md)
      let y' := if !(pyEq m (.int 12)) then y else addH y (.int 1)
      let m' := if !(pyEq m (.int 12)) then addH m (.int 1) else .int 1
      match monthDaysH y' m' with
      | .error e => .error e
      | .ok md' => dayDownH f y' m' d' md'
    else .ok (y, m, d)

/-- the `# Adjust day` block -/
def dayAdjustH (y m d : PyNum) : Except HostErr (PyNum × PyNum × PyNum) :=
  if pyLtI d 1 then dayUpH (1 - toInt d).toNat y m d
  else if !(pyLeI d 28) then
    match monthDaysH y m with
    | .error e => .error e
    | .ok md => dayDownH (toInt d).toNat y m d md
  else .ok (y, m, d)

/-- the body after unpacking: four carries, month normalisation, day adjustment, constructor (`ints` = convert with `int()` first) -/
def datetimeCoreH (ints : Bool) (year month day hour minute second millisecond : PyNum) : Except (Fail PyNum) (BodyR PyNum) := do
  let c1 := carryH millisecond second 1000
  let c2 := carryH c1.2 minute 60
  let c3 := carryH c2.2 hour 60
  let c4 := carryH c3.2 day 24
  let ym := monthNormH year month
  let (y, mo, d) ← hostE (dayAdjustH ym.1 ym.2 c4.2)
  let id ← hostE (mkDatetimeH (if ints then
      [.int (toInt y), .int (toInt mo), .int (toInt d), .int (toInt c4.1), .int (toInt c3.1), .int (toInt c2.1), .int (toInt c1.1)]
    else [y, mo, d, c4.1, c3.1, c2.1, c1.1]))
  pure (.opaque "datetime" id, none)

def datetimeUnpack {N : Type} (core : N → N → N → N → N → N → N → Except (Fail N) (BodyR N)) (v : List (Val N)) :
    Except (Fail N) (BodyR N) := do
  let (a1, a2, a3, a4, a5, a6, a7) ← req (list7 v)
  let year ← req a1.asNum?
  let month ← req a2.asNum?
  let day ← req a3.asNum?
  let hour ← req a4.asNum?
  let minute ← req a5.asNum?
  let second ← req a6.asNum?
  let millisecond ← req a7.asNum?
  core year month day hour minute second millisecond

def datetimeNewH (v : List HVal) : Except (Fail PyNum) (BodyR PyNum) := datetimeUnpack (datetimeCoreH true) v

/-- the same with the final `int()` conversions dropped: what the theorem excludes -/
def datetimeNewNoIntH (v : List HVal) : Except (Fail PyNum) (BodyR PyNum) := datetimeUnpack (datetimeCoreH false) v

/-! ## the same functions over one number type -/

def arrayJoinA (E : Env) (v : List AVal) : Except (Fail Rat) (BodyR Rat) := do
  let (a, s) ← req (list2 v)
  let xs ← req a.asArr?
  let sep ← req s.asStr?
  pure (.str (sep.intercalate (xs.map (valueStringA E))), none)

def stringNewA (E : Env) (v : List AVal) : Except (Fail Rat) (BodyR Rat) := do
  let a ← req (list1 v)
  pure (.str (valueStringA E a), none)

def systemCompareA (v : List AVal) : Except (Fail Rat) (BodyR Rat) := do
  let (l, r) ← req (list2 v)
  pure (ofI (valCmp ratCmp l r), none)

def jsonStringifyA (E : Env) (v : List AVal) : Except (Fail Rat) (BodyR Rat) := do
  let (value, i) ← req (list2 v)
  let indent ← req i.asOptNum?
  pure (.str (E.jsonText value (match indent with
    | none => none
    | some q => if 0 < ratTrunc q then some (ratTrunc q) else none)), none)

def mathAbsA (v : List AVal) : Except (Fail Rat) (BodyR Rat) := do
  let a ← req (list1 v)
  let x ← req a.asNum?
  pure (.num (if x < 0 then -x else x), none)

def mathCeilA (v : List AVal) : Except (Fail Rat) (BodyR Rat) := do
  let a ← req (list1 v)
  let x ← req a.asNum?
  pure (ofI x.ceil, none)

def mathFloorA (v : List AVal) : Except (Fail Rat) (BodyR Rat) := do
  let a ← req (list1 v)
  let x ← req a.asNum?
  pure (ofI x.floor, none)

def mathSignA (v : List AVal) : Except (Fail Rat) (BodyR Rat) := do
  let a ← req (list1 v)
  let x ← req a.asNum?
  pure (ofI (if decide (x < ((0 : Int) : Rat)) then -1 else if x == ((0 : Int) : Rat) then 0 else 1), none)

def mathRoundA (E : Env) (v : List AVal) : Except (Fail Rat) (BodyR Rat) := do
  let (a, d) ← req (list2 v)
  let x ← req a.asNum?
  let digits ← req d.asNum?
  pure (.num (roundNumberA E.rnd x digits), none)

def numberToFixedA (E : Env) (v : List AVal) : Except (Fail Rat) (BodyR Rat) := do
  let (a, d, t) ← req (list3 v)
  let x ← req a.asNum?
  let digits ← req d.asNum?
  let trim ← req t.asBool?
  let r := E.fixedText (roundNumberA E.rnd x digits) (ratTrunc digits)
  pure (.str (if trim then E.cleanup r else r), none)

def floorDivA (q : Rat) (k : Int) : Rat := (((q / (k : Rat)).floor : Int) : Rat)

def carryA (x y : Rat) (k : Int) : Rat × Rat :=
  if decide (x < ((0 : Int) : Rat)) || !(decide (x < (k : Rat))) then
    let e := floorDivA x k
    (x - e * (k : Rat), y + e)
  else (x, y)

def monthNormA (y mo : Rat) : Rat × Rat :=
  if decide (mo < ((1 : Int) : Rat)) || !(decide (mo ≤ ((12 : Int) : Rat))) then
    let e := floorDivA (mo - ((1 : Int) : Rat)) 12
    (y + e, mo - e * ((12 : Int) : Rat))
  else (y, mo)

def monthDaysA (y m : Rat) : Except HostErr Int :=
  match Datetime.monthrange (ratTrunc y) (ratTrunc m) with
  | some md => .ok md
  | none => .error .valueError

def dayUpA : Nat → Rat → Rat → Rat → Except HostErr (Rat × Rat × Rat)
  | 0, y, m, d => .ok (y, m, d)
  | f + 1, y, m, d =>
    if decide (d < ((1 : Int) : Rat)) then
      let y' := if !(m == ((1 : Int) : Rat)) then y else y - ((1 : Int) : Rat)
      let m' := if !(m == ((1 : Int) : Rat)) then m - ((1 : Int) : Rat) else ((12 : Int) : Rat)
      match monthDaysA y' m' with
      | .error e => .error e
      | .ok md => dayUpA f y' m' (d + (md : Rat))
    else .ok (y, m, d)

def dayDownA : Nat → Rat → Rat → Rat → Int → Except HostErr (Rat × Rat × Rat)
  | 0, y, m, d, _ => .ok (y, m, d)
  | f + 1, y, m, d, md =>
    if !(decide (d ≤ (md : Rat))) then
      let d' := d - (md : Rat)
      let y' := if !(m == ((12 : Int) : Rat)) then y else y + ((1 : Int) : Rat)
      let m' := if !(m == ((12 : Int) : Rat)) then m + ((1 : Int) : Rat) else ((1 : Int) : Rat)
      match monthDaysA y' m' with
      | .error e => .error e
      | .ok md' => dayDownA f y' m' d' md'
    else .ok (y, m, d)

def dayAdjustA (y m d : Rat) : Except HostErr (Rat × Rat × Rat) :=
  if decide (d < ((1 : Int) : Rat)) then dayUpA (1 - ratTrunc d).toNat y m d
  else if !(decide (d ≤ ((28 : Int) : Rat))) then
    match monthDaysA y m with
    | .error e => .error e
    | .ok md => dayDownA (ratTrunc d).toNat y m d md
  else .ok (y, m, d)

/-- the constructor on the truncated fields -/
def mkDatetimeA (y mo d h mi s ms : Int) : Except HostErr Int :=
  match Datetime.mkDT y mo d h mi s ms with
  | some t => .ok (Datetime.toLocalMs t)
  | none => .error .valueError

def datetimeCoreA (year month day hour minute second millisecond : Rat) : Except (Fail Rat) (BodyR Rat) := do
  let c1 := carryA millisecond second 1000
  let c2 := carryA c1.2 minute 60
  let c3 := carryA c2.2 hour 60
  let c4 := carryA c3.2 day 24
  let ym := monthNormA year month
  let (y, mo, d) ← hostE (dayAdjustA ym.1 ym.2 c4.2)
  let id ← hostE (mkDatetimeA (ratTrunc y) (ratTrunc mo) (ratTrunc d) (ratTrunc c4.1) (ratTrunc c3.1) (ratTrunc c2.1) (ratTrunc c1.1))
  pure (.opaque "datetime" id, none)

def datetimeNewA (v : List AVal) : Except (Fail Rat) (BodyR Rat) := datetimeUnpack datetimeCoreA v

/-! ## the call wrapper -/

def modelled2 : List String :=
  ["arrayCopy", "arrayExtend", "arrayJoin", "arrayLength", "arrayNew", "arrayPop", "arrayPush", "arrayShift", "stringLength",
   "stringNew", "systemCompare", "jsonStringify", "mathAbs", "mathCeil", "mathFloor", "mathSign", "mathMax", "mathMin",
   "mathRound", "numberToFixed", "datetimeNew"]

/-- the `_*_ARGS` table each function validates against (`none`: no argument model) -/
def modelName2 : String → Option String
  | "arrayCopy" => some "_ARRAY_COPY_ARGS"
  | "arrayExtend" => some "_ARRAY_EXTEND_ARGS"
  | "arrayJoin" => some "_ARRAY_JOIN_ARGS"
  | "arrayLength" => some "_ARRAY_LENGTH_ARGS"
  | "arrayPop" => some "_ARRAY_POP_ARGS"
  | "arrayPush" => some "_ARRAY_PUSH_ARGS"
  | "arrayShift" => some "_ARRAY_SHIFT_ARGS"
  | "stringLength" => some "_STRING_LENGTH_ARGS"
  | "stringNew" => some "_STRING_NEW_ARGS"
  | "systemCompare" => some "_SYSTEM_COMPARE_ARGS"
  | "jsonStringify" => some "_JSON_STRINGIFY_ARGS"
  | "mathAbs" => some "_MATH_ABS_ARGS"
  | "mathCeil" => some "_MATH_CEIL_ARGS"
  | "mathFloor" => some "_MATH_FLOOR_ARGS"
  | "mathSign" => some "_MATH_SIGN_ARGS"
  | "mathRound" => some "_MATH_ROUND_ARGS"
  | "numberToFixed" => some "_NUMBER_TO_FIXED_ARGS"
  | "datetimeNew" => some "_DATETIME_NEW_ARGS"
  | _ => none

/-- functions whose failure value (third argument of `value_args_validate`) is 0 -/
def failZero (name : String) : Bool := name == "arrayLength" || name == "stringLength"

def bodyH2 (E : Env) : String → List HVal → Except (Fail PyNum) (BodyR PyNum)
  | "arrayCopy" => arrayCopyG
  | "arrayExtend" => arrayExtendG
  | "arrayJoin" => arrayJoinH E
  | "arrayLength" => arrayLengthG PyNum.int
  | "arrayNew" => arrayNewG
  | "arrayPop" => arrayPopG
  | "arrayPush" => arrayPushG
  | "arrayShift" => arrayShiftG
  | "stringLength" => stringLengthG PyNum.int
  | "stringNew" => stringNewH E
  | "systemCompare" => systemCompareH
  | "jsonStringify" => jsonStringifyH E
  | "mathAbs" => mathAbsH
  | "mathCeil" => mathCeilH
  | "mathFloor" => mathFloorH
  | "mathSign" => mathSignH
  | "mathMax" => extremumG pyCmp 1
  | "mathMin" => extremumG pyCmp (-1)
  | "mathRound" => mathRoundH E
  | "numberToFixed" => numberToFixedH E
  | "datetimeNew" => datetimeNewH
  | _ => fun _ => badShape

def bodyA2 (E : Env) : String → List AVal → Except (Fail Rat) (BodyR Rat)
  | "arrayCopy" => arrayCopyG
  | "arrayExtend" => arrayExtendG
  | "arrayJoin" => arrayJoinA E
  | "arrayLength" => arrayLengthG (fun (n : Int) => (n : Rat))
  | "arrayNew" => arrayNewG
  | "arrayPop" => arrayPopG
  | "arrayPush" => arrayPushG
  | "arrayShift" => arrayShiftG
  | "stringLength" => stringLengthG (fun (n : Int) => (n : Rat))
  | "stringNew" => stringNewA E
  | "systemCompare" => systemCompareA
  | "jsonStringify" => jsonStringifyA E
  | "mathAbs" => mathAbsA
  | "mathCeil" => mathCeilA
  | "mathFloor" => mathFloorA
  | "mathSign" => mathSignA
  | "mathMax" => extremumG ratCmp 1
  | "mathMin" => extremumG ratCmp (-1)
  | "mathRound" => mathRoundA E
  | "numberToFixed" => numberToFixedA E
  | "datetimeNew" => datetimeNewA
  | _ => fun _ => badShape

/-- the argument list the body receives (`none` = `ValueArgsError` raised by `value_args_validate`) -/
def validated2 (name : String) (args : List HVal) : Option (List HVal) :=
  match (modelName2 name).map argModel with
  | none => some args
  | some ms => validateH ms args

/-- host-level library call through the call wrapper -/
def callH2 (E : Env) (name : String) (args : List HVal) : Out PyNum :=
  callWith validateH (if failZero name then .num (.int 0) else .null) ((modelName2 name).map argModel) (bodyH2 E name) args

/-- one-number-type library call -/
def callA2 (E : Env) (name : String) (args : List AVal) : Out Rat :=
  callWith validateA (if failZero name then ofI 0 else .null) ((modelName2 name).map argModel) (bodyA2 E name) args

/-! ## operators (runtime.py:270-343): unary `-`, `+`, `-`, `/`, `%` on two numbers -/

/-- `-value` (exact in both spellings) -/
def opNegH : PyNum → PyNum
  | .int n => .int (-n)
  | .float q => .float (-q)

/-- `l + r`: int + int is an exact int, anything else converts the int operand and rounds the sum -/
def opAddH (rnd : Rat → Rat) : PyNum → PyNum → PyNum
  | .int a, .int b => .int (a + b)
  | a, b => .float (rnd (toFloatH rnd a + toFloatH rnd b))

def opSubH (rnd : Rat → Rat) : PyNum → PyNum → PyNum
  | .int a, .int b => .int (a - b)
  | a, b => .float (rnd (toFloatH rnd a - toFloatH rnd b))

/-- `l / r` (`none` = ZeroDivisionError → null): int / int is the correctly rounded exact quotient -/
def opDivH (rnd : Rat → Rat) : PyNum → PyNum → Option Rat
  | .int a, .int b => if b == 0 then none else some (rnd ((a : Rat) / (b : Rat)))
  | a, b => if toFloatH rnd b == 0 then none else some (rnd (toFloatH rnd a / toFloatH rnd b))

/-- C `fmod` (exact) followed by CPython's sign adjustment (`float_rem`): the adjustment is one rounded addition -/
def floatMod (rnd : Rat → Rat) (x y : Rat) : Rat :=
  let m := x - y * ((ratTrunc (x / y) : Int) : Rat)
  if m == 0 then 0 else if decide (y < 0) != decide (m < 0) then rnd (m + y) else m

/-- `l % r` (`none` = ZeroDivisionError → null): int % int is exact (sign of the divisor) -/
def opModH (rnd : Rat → Rat) : PyNum → PyNum → Option PyNum
  | .int a, .int b => if b == 0 then none else some (.int (Int.fmod a b))
  | a, b => if toFloatH rnd b == 0 then none else some (.float (floatMod rnd (toFloatH rnd a) (toFloatH rnd b)))

/-- one number type: every operation rounds its exact result once -/
def opAddA (rnd : Rat → Rat) (a b : Rat) : Rat := rnd (rnd a + rnd b)
def opSubA (rnd : Rat → Rat) (a b : Rat) : Rat := rnd (rnd a - rnd b)
def opDivA (rnd : Rat → Rat) (a b : Rat) : Option Rat := if rnd b == 0 then none else some (rnd (rnd a / rnd b))
def opModA (rnd : Rat → Rat) (a b : Rat) : Option Rat := if rnd b == 0 then none else some (floatMod rnd (rnd a) (rnd b))

/-! ## the `for` loop as the parser lowers it (parser.py:254-314) and the runtime executes it

```
values = <expr>; length = arrayLength(values); if !length goto done; index = 0
loop: value = arrayGet(values, index); <body>; index = index + 1; if index < length goto loop
done:
```
`zero` / `one` are the number nodes `{'number': 0}` / `{'number': 1}` (host ints from the parser, floats from a JSON-loaded
script model).  The model returns what the body sees: the list of `(index, value)` bindings.  The fuel is the array length
(enough whenever `one` ≥ 1). -/

/-- `arrayLength(values)` through the call wrapper (failure value 0) -/
def lengthCallH (values : HVal) : HVal :=
  (callWith validateH (.num (.int 0)) (some (argModel "_ARRAY_LENGTH_ARGS")) (arrayLengthG PyNum.int) [values]).result

def lengthCallA (values : AVal) : AVal :=
  (callWith validateA (ofI 0) (some (argModel "_ARRAY_LENGTH_ARGS")) (arrayLengthG (fun (n : Int) => (n : Rat))) [values]).result

def forIterH (rnd : Rat → Rat) (one : PyNum) (values length : HVal) : Nat → PyNum → List (HVal × HVal)
  | 0, _ => []
  | f + 1, index =>
    let value := (callH "arrayGet" [values, .num index]).result
    let index' := opAddH rnd index one
    (.num index, value) :: (if valCmp pyCmp (.num index') length < 0 then forIterH rnd one values length f index' else [])

def forLoopH (rnd : Rat → Rat) (zero one : PyNum) (values : HVal) : List (HVal × HVal) :=
  let length := lengthCallH values
  if !(truthy pyNonzero length) then []
  else forIterH rnd one values length (match values with | .arr xs => xs.length | _ => 0) zero

def forIterA (rnd : Rat → Rat) (one : Rat) (values length : AVal) : Nat → Rat → List (AVal × AVal)
  | 0, _ => []
  | f + 1, index =>
    let value := (callA "arrayGet" [values, .num index]).result
    let index' := opAddA rnd index one
    (.num index, value) :: (if valCmp ratCmp (.num index') length < 0 then forIterA rnd one values length f index' else [])

def forLoopA (rnd : Rat → Rat) (zero one : Rat) (values : AVal) : List (AVal × AVal) :=
  let length := lengthCallA values
  if !(truthy (fun (q : Rat) => q != 0) length) then []
  else forIterA rnd one values length (match values with | .arr xs => xs.length | _ => 0) zero

end LibH2
