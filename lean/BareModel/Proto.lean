import BareModel.PJson

/-! Line protocol: one JSON request per stdin line, one JSON response per stdout line. -/
namespace Proto

partial def loop (h : IO.FS.Stream) (out : IO.FS.Stream) (handle : PJson → PJson) : IO Unit := do
  let line ← h.getLine
  if line.isEmpty then return ()
  let resp := match PJson.parse line with
    | some j => handle j
    | none => PJson.mk [("protoError", .str "bad json")]
  out.putStrLn resp.render
  loop h out handle

def run (handle : PJson → PJson) : IO Unit := do
  let i ← IO.getStdin
  let o ← IO.getStdout
  loop i o handle
  o.flush

end Proto
