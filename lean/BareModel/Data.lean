import BareModel.Compare
import BareModel.NumText
import BareModel.Datetime

/-!
# Data — the data functions of `data.py` and the CSV typing of `validate_data` (property C19)

Tables are lists of rows; a row is a Python `dict` in insertion order with pairwise different keys, modelled as an
association list `List (String × PValue)` over the closed values of `BareModel.Compare` (numbers are exact rationals:
`1` and `1.0` are the same value, as they are for Python's `==`/`hash` and for `value_compare`).

The data functions evaluate a *parsed expression* once per row.  The evaluator is C03's business: here it is a parameter
`eval : Row → Option PValue` (`none` = the evaluation raised; the exception leaves the data function unchanged).

**Mirror layer** (shaped like data.py / library.py):

* `filterData`        `filter_data` (data.py:268-307)
* `calcField`         `add_calculated_field` (data.py:226-265): `row[field_name] = value` in place, row by row
* `sortSpec`/`sortData`   `sort_data`/`_sort_data_fn` (data.py:447-472) — the comparator and the stable sort are C11's
                      `Compare.sortDataFn`/`Compare.dataSort`; here: how a `sorts` entry is read (`sort[1] if len(sort) > 1`)
* `Key`, `bucketKey`  `_bucket_key` (data.py:311-320): the typed hashable key
* `bucketAdd`/`bucketRows`   a `dict` of lists filled in first-appearance order (`if key not in d: d[key] = []; d[key].append(row)`)
* `topData`/`dataTop` `top_data` (data.py:475-506) and the argument model of `_data_top` (`count`: integer ≥ 1, `int(count)`)
* `aggregateData`     `aggregate_data` (data.py:329-393): two passes, measure values collected in a list stored in the
                      aggregate row, then replaced by `len`/`max`/`min`/`sum`/`statistics.pstdev`/`statistics.mean`
* `joinData`          `join_data` (data.py:139-223): field-name maps, right rows bucketed by key, `dict(left_row)` + right fields
* `validateData`      `validate_data` (data.py:29-136), `csv` mode included: type of a column = type of its first determinable
                      cell; `dataParseCSV` = `validateData true` on the cells `csv.DictReader` produced (trusted base)

**Spec layer** (shaped like the property): `dedup`, `groupSpec` (group by key in first-appearance order), `topSpec`,
`aggregateSpec`, `joinSpec`, `csvText` (what a writer produces for a typed value).

Failure is explicit: `Option`/`Res.raised` = the Python function raised (the library call wrapper turns that into `null`);
`Res.unmodelled` = outside the modelled fragment (named at each site).  No Mathlib.
-/

namespace Data
open Compare

abbrev Row := List (String × PValue)
abbrev Table := List Row

/-! ## decidable equality of closed values (used by examples, the driver and `decide`) -/

mutual
def pvBeq : PValue → PValue → Bool
  | .null, .null => true
  | .bool a, .bool b => a == b
  | .num a, .num b => a == b
  | .str a, .str b => a == b
  | .dt a, .dt b => a == b
  | .arr a, .arr b => pvBeqList a b
  | .obj a, .obj b => pvBeqItems a b
  | .fn a, .fn b => a == b
  | .regex a, .regex b => a == b
  | _, _ => false
def pvBeqList : List PValue → List PValue → Bool
  | [], [] => true
  | a :: as, b :: bs => pvBeq a b && pvBeqList as bs
  | _, _ => false
def pvBeqItems : List (String × PValue) → List (String × PValue) → Bool
  | [], [] => true
  | (k, a) :: as, (k', b) :: bs => k == k' && pvBeq a b && pvBeqItems as bs
  | _, _ => false
end

mutual
theorem pvBeq_iff : ∀ a b : PValue, pvBeq a b = true ↔ a = b
  | .null, b => by cases b <;> simp [pvBeq]
  | .bool _, b => by cases b <;> simp [pvBeq]
  | .num _, b => by cases b <;> simp [pvBeq]
  | .str _, b => by cases b <;> simp [pvBeq]
  | .dt _, b => by cases b <;> simp [pvBeq]
  | .fn _, b => by cases b <;> simp [pvBeq]
  | .regex _, b => by cases b <;> simp [pvBeq]
  | .arr xs, b => by
    cases b <;> simp [pvBeq]
    exact pvBeqList_iff xs _
  | .obj xs, b => by
    cases b <;> simp [pvBeq]
    exact pvBeqItems_iff xs _
theorem pvBeqList_iff : ∀ a b : List PValue, pvBeqList a b = true ↔ a = b
  | [], b => by cases b <;> simp [pvBeqList]
  | x :: xs, b => by
    cases b with
    | nil => simp [pvBeqList]
    | cons y ys => simp [pvBeqList, pvBeq_iff x y, pvBeqList_iff xs ys]
theorem pvBeqItems_iff : ∀ a b : List (String × PValue), pvBeqItems a b = true ↔ a = b
  | [], b => by cases b <;> simp [pvBeqItems]
  | (k, x) :: xs, b => by
    match b with
    | [] => simp [pvBeqItems]
    | (k', y) :: ys => simp [pvBeqItems, pvBeq_iff x y, pvBeqItems_iff xs ys, and_assoc]
end

instance : DecidableEq PValue := fun a b =>
  if h : pvBeq a b = true then isTrue ((pvBeq_iff a b).mp h) else isFalse (fun e => h ((pvBeq_iff a b).mpr e))

/-! ## rows as dicts -/

/-- `field in row` -/
def rowHas (k : String) (r : Row) : Bool := r.any (fun p => p.1 == k)

/-- `row[k] = v`: an existing key keeps its position, a new key goes to the end -/
def rowSet (k : String) (v : PValue) : Row → Row
  | [] => [(k, v)]
  | (k', v') :: rest => if k' = k then (k, v) :: rest else (k', v') :: rowSet k v rest

/-- `value_boolean` (value.py:140-163) -/
def truthy : PValue → Bool
  | .null => false
  | .str s => s != ""
  | .bool b => b
  | .num q => q != 0
  | .dt _ => true
  | .arr xs => !xs.isEmpty
  | _ => true

/-- Python truthiness (`if desc`): differs from `value_boolean` on the empty `dict` -/
def pyTruthy : PValue → Bool
  | .null => false
  | .str s => s != ""
  | .bool b => b
  | .num q => q != 0
  | .arr xs => !xs.isEmpty
  | .obj kvs => !kvs.isEmpty
  | _ => true

/-! ## MIRROR: dataFilter, dataCalculatedField -/

/-- the loop of `filter_data`: `for row in data: if value_boolean(evaluate_expression(...)): result.append(row)` -/
def filterLoop (eval : Row → Option PValue) : Table → Table → Option Table
  | [], result => some result
  | row :: rest, result =>
    match eval row with
    | none => none
    | some v => filterLoop eval rest (if truthy v then result ++ [row] else result)

def filterData (eval : Row → Option PValue) (data : Table) : Option Table := filterLoop eval data []

/-- `add_calculated_field`: `for row in data: row[field_name] = evaluate_expression(...)` — in place: the answer is the data
array after the call and whether the loop completed (`false`: an evaluation raised; the rows before it stay updated) -/
def calcField (field : String) (eval : Row → Option PValue) : Table → Table × Bool
  | [] => ([], true)
  | row :: rest =>
    match eval row with
    | none => (row :: rest, false)
    | some v =>
      let r := calcField field eval rest
      (rowSet field v row :: r.1, r.2)

/-! ## MIRROR: dataSort -/

/-- one entry of `sorts`: `field = sort[0]`, `desc = sort[1] if len(sort) > 1 else False`, used as `if desc` (Python
truthiness).  Modelled: an array whose first element is a string; anything else (`IndexError` on `[]`, non-string field) is
outside the model (`none`). -/
def sortSpec : PValue → Option (String × Bool)
  | .arr (.str f :: rest) =>
    match rest with
    | [] => some (f, false)
    | d :: _ => some (f, pyTruthy d)
  | _ => none

/-- `sort_data`: `data.sort(key=functools.cmp_to_key(partial(_sort_data_fn, sorts)))` -/
def sortData (sorts : List PValue) (data : Table) : Option Table :=
  (sorts.mapM sortSpec).map (fun ss => dataSort ss data)

/-! ## MIRROR: the typed bucket key -/

/-- the hashable key `_bucket_key` builds: a tagged tuple.  Python compares tuples component-wise with `==`, and
`1 == 1.0`, so the number component is the rational value; tags keep the types apart (`('boolean', True)` ≠ `('number', 1)`). -/
inductive Key where
  | null
  | bool (b : Bool)
  | num (q : Rat)
  | str (s : String)
  | dt (t : Int)
  | arr (ks : List Key)
  | obj (kvs : List (String × Key))
  /-- `('other', id(value))`: functions and regexes are keyed by identity -/
  | other (isRegex : Bool) (id : Nat)
deriving Inhabited

mutual
def Key.beq : Key → Key → Bool
  | .null, .null => true
  | .bool a, .bool b => a == b
  | .num a, .num b => a == b
  | .str a, .str b => a == b
  | .dt a, .dt b => a == b
  | .arr a, .arr b => Key.beqList a b
  | .obj a, .obj b => Key.beqItems a b
  | .other r i, .other r' i' => r == r' && i == i'
  | _, _ => false
def Key.beqList : List Key → List Key → Bool
  | [], [] => true
  | a :: as, b :: bs => Key.beq a b && Key.beqList as bs
  | _, _ => false
def Key.beqItems : List (String × Key) → List (String × Key) → Bool
  | [], [] => true
  | (k, a) :: as, (k', b) :: bs => k == k' && Key.beq a b && Key.beqItems as bs
  | _, _ => false
end

mutual
theorem Key.beq_iff : ∀ a b : Key, Key.beq a b = true ↔ a = b
  | .null, b => by cases b <;> simp [Key.beq]
  | .bool _, b => by cases b <;> simp [Key.beq]
  | .num _, b => by cases b <;> simp [Key.beq]
  | .str _, b => by cases b <;> simp [Key.beq]
  | .dt _, b => by cases b <;> simp [Key.beq]
  | .other _ _, b => by cases b <;> simp [Key.beq]
  | .arr xs, b => by
    cases b <;> simp [Key.beq]
    exact Key.beqList_iff xs _
  | .obj xs, b => by
    cases b <;> simp [Key.beq]
    exact Key.beqItems_iff xs _
theorem Key.beqList_iff : ∀ a b : List Key, Key.beqList a b = true ↔ a = b
  | [], b => by cases b <;> simp [Key.beqList]
  | x :: xs, b => by
    cases b with
    | nil => simp [Key.beqList]
    | cons y ys => simp [Key.beqList, Key.beq_iff x y, Key.beqList_iff xs ys]
theorem Key.beqItems_iff : ∀ a b : List (String × Key), Key.beqItems a b = true ↔ a = b
  | [], b => by cases b <;> simp [Key.beqItems]
  | (k, x) :: xs, b => by
    match b with
    | [] => simp [Key.beqItems]
    | (k', y) :: ys => simp [Key.beqItems, Key.beq_iff x y, Key.beqItems_iff xs ys, and_assoc]
end

/-- tuple `==` -/
instance : DecidableEq Key := fun a b =>
  if h : Key.beq a b = true then isTrue ((Key.beq_iff a b).mp h) else isFalse (fun e => h ((Key.beq_iff a b).mpr e))

/-- `sorted(value.keys())` applied to the (key, sub-key) pairs: a stable sort by key in code-point order (the keys of a
`dict` are pairwise different, so `value[key]` is the pair's own second component) -/
def sortKeyItems (kvs : List (String × Key)) : List (String × Key) := sortBy (fun p q => strCompare p.1 q.1 < 0) kvs

mutual
/-- `_bucket_key` (data.py:311-320), branch for branch -/
def bucketKey : PValue → Key
  | .arr xs => .arr (bucketKeys xs)                     -- ('array', tuple(_bucket_key(item) for item in value))
  | .obj kvs => .obj (sortKeyItems (bucketItems kvs))   -- ('object', tuple((key, _bucket_key(value[key])) for key in sorted(value.keys())))
  | .dt t => .dt t                                      -- ('datetime', value_normalize_datetime(value))
  | .null => .null                                      -- (value_type(value), value) for None, str, bool, int, float
  | .str s => .str s
  | .bool b => .bool b
  | .num q => .num q
  | .fn i => .other false i                             -- ('other', id(value))
  | .regex i => .other true i
def bucketKeys : List PValue → List Key
  | [] => []
  | x :: xs => bucketKey x :: bucketKeys xs
def bucketItems : List (String × PValue) → List (String × Key)
  | [] => []
  | (k, v) :: rest => (k, bucketKey v) :: bucketItems rest
end

/-- the value fragment the property speaks about: no functions or regexes anywhere, `dict` keys pairwise different -/
def IsData (v : PValue) : Bool := WFValue v && noOpaque v
where
  noOpaque : PValue → Bool
    | .fn _ => false
    | .regex _ => false
    | .arr xs => noOpaqueList xs
    | .obj kvs => noOpaqueItems kvs
    | _ => true
  noOpaqueList : List PValue → Bool
    | [] => true
    | x :: xs => noOpaque x && noOpaqueList xs
  noOpaqueItems : List (String × PValue) → Bool
    | [] => true
    | (_, v) :: rest => noOpaque v && noOpaqueItems rest

/-! ## MIRROR: buckets — a `dict` of lists in first-appearance order -/

section Buckets
variable {κ α β : Type} [DecidableEq κ]

/-- `if key not in d: d[key] = []` then `d[key].append(x)` -/
def bucketAdd (k : κ) (x : α) : List (κ × List α) → List (κ × List α)
  | [] => [(k, [x])]
  | (k', xs) :: rest => if k' = k then (k', xs ++ [x]) :: rest else (k', xs) :: bucketAdd k x rest

/-- `d.get(key)` -/
def bucketLookup (k : κ) : List (κ × β) → Option β
  | [] => none
  | (k', v) :: rest => if k' = k then some v else bucketLookup k rest

/-- `for row in data: key = keyOf(row); …append` -/
def bucketRows (keyOf : α → κ) (rows : List α) : List (κ × List α) :=
  rows.foldl (fun bs r => bucketAdd (keyOf r) r bs) []

/-! ### SPEC: grouping in first-appearance order -/

/-- the distinct elements in order of first appearance -/
def dedup : List κ → List κ
  | [] => []
  | k :: ks => k :: (dedup ks).filter (fun x => x ≠ k)

/-- group by key: one group per distinct key, in first-appearance order, each with its members in original order -/
def groupSpec (keyOf : α → κ) (rows : List α) : List (κ × List α) :=
  (dedup (rows.map keyOf)).map (fun k => (k, rows.filter (fun r => keyOf r = k)))

end Buckets

/-! ## MIRROR: dataTop -/

/-- `'' if category_fields is None else _bucket_key([row.get(field) for field in category_fields])`; `none` is the `''` key -/
def catKey (fields : Option (List String)) (row : Row) : Option Key :=
  fields.map (fun fs => bucketKey (.arr (fs.map (fun f => rowGet f row))))

/-- `int(x)` for a finite number: truncation toward zero -/
def pyInt (q : Rat) : Int := Int.tdiv q.num q.den

/-- `top_data` (data.py:475-506): bucket in first-appearance order, `for ix_row in range(min(int(count), len(rows)))` -/
def topData (data : Table) (count : Rat) (fields : Option (List String)) : Table :=
  (bucketRows (catKey fields) data).flatMap (fun b => b.2.take (min (pyInt count).toNat b.2.length))

/-- `_data_top`: argument model `count: number, integer, gte 1` (`int(count) != count` or `count < 1` is an argument error:
null); category fields are strings -/
def dataTop (data : Table) (count : Rat) (fields : Option (List String)) : Option Table :=
  if ((pyInt count : Int) : Rat) = count ∧ 1 ≤ count then some (topData data count fields) else none

/-- SPEC: for each category in first-appearance order, its first `n` rows in original order -/
def topSpec (data : Table) (n : Nat) (fields : Option (List String)) : Table :=
  (groupSpec (catKey fields) data).flatMap (fun g => g.2.take n)

/-! ## MIRROR: dataAggregate -/

/-- three-valued outcome: a value, the Python code raised (→ null at the library wrapper), or outside the model -/
inductive Res (α : Type) where
  | ok (a : α)
  | raised
  | unmodelled
deriving Inhabited, DecidableEq

def Res.bind {α β} (r : Res α) (f : α → Res β) : Res β :=
  match r with
  | .ok a => f a
  | .raised => .raised
  | .unmodelled => .unmodelled

def Res.map {α β} (f : α → β) (r : Res α) : Res β := r.bind (fun a => .ok (f a))

/-- left-to-right, first failure wins (Python's statement order) -/
def Res.mapM {α β} (f : α → Res β) : List α → Res (List β)
  | [] => .ok []
  | x :: xs => (f x).bind (fun y => (Res.mapM f xs).bind (fun ys => .ok (y :: ys)))

def Res.foldlM {α σ} (f : σ → α → Res σ) : σ → List α → Res σ
  | s, [] => .ok s
  | s, x :: xs => (f s x).bind (fun s' => Res.foldlM f s' xs)

inductive AggFn where
  | average | count | max | min | stddev | sum
deriving DecidableEq, Repr

def AggFn.ofText : String → Option AggFn
  | "average" => some .average | "count" => some .count | "max" => some .max | "min" => some .min
  | "stddev" => some .stddev | "sum" => some .sum | _ => none

structure Measure where
  field : String
  fn : AggFn
  name : Option String := none

/-- `measure.get('name', measure['field'])` -/
def Measure.out (m : Measure) : String := m.name.getD m.field

structure Aggregation where
  categories : Option (List String) := none
  measures : List Measure

/-- `validate_type(AGGREGATION_TYPES, 'Aggregation', aggregation)`: `categories` and `measures` are `[len > 0]` -/
def Aggregation.valid (a : Aggregation) : Bool := a.categories != some [] && !a.measures.isEmpty

/-- the modelled fragment: output names of the measures pairwise different and different from every category field
(otherwise the list under construction and a category value / an earlier result share one dict slot) -/
def Aggregation.WF (a : Aggregation) : Bool :=
  (a.measures.map Measure.out).Nodup && (a.measures.map Measure.out).all (fun n => !(a.categories.getD []).contains n)

/-- what is assumed about the host's float results (NOT modelled): `round q` is the number `math.fsum` returns for the exact
sum `q` and `statistics.mean` for the exact mean `q` (the correctly rounded double; `q` itself when it is exactly
representable or an `int` result of `mean`), `sqrt q` what `statistics.pstdev` returns for the exact population variance `q`
(CPython ≥ 3.11: the correctly rounded square root) -/
structure HostFloat where
  round : Rat → Rat
  sqrt : Rat → Rat

/-- Python sees a `bool` as the `int` 0/1 in `sum`, `statistics` and mixed comparisons -/
def numOf : PValue → Option Rat
  | .num q => some q
  | .bool b => some (if b then 1 else 0)
  | _ => none

def isScalar : PValue → Bool
  | .null | .bool _ | .num _ | .str _ | .dt _ => true
  | _ => false

/-- Python `a > b` on two measure values.  Numbers and booleans compare by value, strings by code points, (naive)
datetimes by instant; any other pair of scalars is a `TypeError`; containers, functions and regexes are outside the model. -/
def pyGt (a b : PValue) : Res Bool :=
  match numOf a, numOf b with
  | some x, some y => .ok (decide (y < x))
  | _, _ =>
    match a, b with
    | .str x, .str y => .ok (decide (strCompare x y > 0))
    | .dt x, .dt y => .ok (decide (y < x))
    | _, _ => if isScalar a && isScalar b then .raised else .unmodelled

/-- `max(values)`: `m = first; for x in rest: if x > m: m = x` -/
def pyMaxGo (cur : PValue) : List PValue → Res PValue
  | [] => .ok cur
  | x :: xs => (pyGt x cur).bind (fun g => pyMaxGo (if g then x else cur) xs)

/-- `min(values)`: `m = first; for x in rest: if x < m: m = x` -/
def pyMinGo (cur : PValue) : List PValue → Res PValue
  | [] => .ok cur
  | x :: xs => (pyGt cur x).bind (fun g => pyMinGo (if g then x else cur) xs)

/-- all values as Python numbers, or `none` (`sum`/`statistics` raise `TypeError` on anything else) -/
def numsOf (vs : List PValue) : Option (List Rat) := vs.mapM numOf

def ratSum (qs : List Rat) : Rat := qs.foldl (· + ·) 0

def ratMean (qs : List Rat) : Rat := ratSum qs / (qs.length : Rat)

/-- population variance: mean of squared deviations -/
def ratPVariance (qs : List Rat) : Rat := ratSum (qs.map (fun q => (q - ratMean qs) * (q - ratMean qs))) / (qs.length : Rat)

/-- the aggregate function applied to the non-empty list of non-null measure values (data.py:380-391) -/
def aggApply (F : HostFloat) (fn : AggFn) (vs : List PValue) : Res PValue :=
  match fn with
  | .count => .ok (.num (vs.length : Rat))                    -- len(measure_values)
  | .max => match vs with | [] => .raised | v :: rest => pyMaxGo v rest
  | .min => match vs with | [] => .raised | v :: rest => pyMinGo v rest
  | .sum => match numsOf vs with | some qs => .ok (.num (F.round (ratSum qs))) | none => .raised    -- math.fsum(measure_values)
  | .stddev => match numsOf vs with | some qs => .ok (.num (F.sqrt (ratPVariance qs))) | none => .raised
  | .average => match numsOf vs with | some qs => .ok (.num (F.round (ratMean qs))) | none => .raised

/-- a new aggregate row: `for ix, category in enumerate(categories): aggregate_row[category] = category_values[ix]` -/
def aggNewRow (cats : Option (List String)) (row : Row) : Row :=
  (cats.getD []).foldl (fun r c => rowSet c (rowGet c row) r) []

/-- pass 1, one measure of one row: `if field not in aggregate_row: aggregate_row[field] = []`,
`if value is not None: aggregate_row[field].append(value)` (`.append` on a non-list is an `AttributeError`) -/
def aggAppend (row : Row) (aggRow : Row) (m : Measure) : Res Row :=
  let field := m.out
  let value := rowGet m.field row
  let aggRow := if rowHas field aggRow then aggRow else rowSet field (.arr []) aggRow
  if value = .null then .ok aggRow
  else
    match rowGet field aggRow with
    | .arr xs => .ok (rowSet field (.arr (xs ++ [value])) aggRow)
    | _ => .raised

/-- get-or-create the bucket of `k`, then update it in place -/
def bucketUpsert {κ β : Type} [DecidableEq κ] (k : κ) (init : β) (f : β → Res β) : List (κ × β) → Res (List (κ × β))
  | [] => (f init).map (fun b => [(k, b)])
  | (k', b) :: rest =>
    if k' = k then (f b).map (fun b' => (k', b') :: rest)
    else (bucketUpsert k init f rest).map (fun rest' => (k', b) :: rest')

/-- pass 1, one row -/
def aggStep (agg : Aggregation) (st : List (Option Key × Row)) (row : Row) : Res (List (Option Key × Row)) :=
  bucketUpsert (catKey agg.categories row) (aggNewRow agg.categories row)
    (fun aggRow => Res.foldlM (aggAppend row) aggRow agg.measures) st

/-- pass 2, one measure of one aggregate row: `measure_values = aggregate_row[field]`, `None` when empty, else the function -/
def aggFinish (F : HostFloat) (aggRow : Row) (m : Measure) : Res Row :=
  match rowGet m.out aggRow with
  | .arr vs => if vs.isEmpty then .ok (rowSet m.out .null aggRow) else (aggApply F m.fn vs).map (fun v => rowSet m.out v aggRow)
  | _ => .unmodelled

/-- `aggregate_data` (data.py:329-393) -/
def aggregateData (F : HostFloat) (data : Table) (agg : Aggregation) : Res Table :=
  if !agg.valid then .raised            -- ValidationError
  else if !agg.WF then .unmodelled
  else
    (Res.foldlM (aggStep agg) [] data).bind (fun st =>
      Res.mapM (fun (b : Option Key × Row) => Res.foldlM (aggFinish F) b.2 agg.measures) st)

/-- SPEC: one cell: null when the category has no non-null measure value, else the function over them -/
def aggCell (F : HostFloat) (fn : AggFn) (vs : List PValue) : Res PValue :=
  if vs.isEmpty then .ok .null else aggApply F fn vs

/-- SPEC: one output row per category (first-appearance order): the category fields of its first row, then one cell per
measure computed over the non-null values of the measure field in the rows of that category -/
def aggregateSpec (F : HostFloat) (data : Table) (agg : Aggregation) : Res Table :=
  Res.mapM (fun (g : Option Key × List Row) =>
    (Res.mapM (fun (m : Measure) =>
        (aggCell F m.fn ((g.2.map (rowGet m.field)).filter (fun v => v ≠ .null))).map (fun v => (m.out, v))) agg.measures).map
      (fun cells => aggNewRow agg.categories (g.2.headD []) ++ cells))
    (groupSpec (catKey agg.categories) data)

/-! ## MIRROR: dataJoin -/

/-- `names = {}; for row in data: for field_name in row: if field_name not in names: names[field_name] = …` (the keys, in
insertion order) -/
def fieldNames (data : Table) : List String :=
  data.foldl (fun acc row => row.foldl (fun acc p => if acc.contains p.1 then acc else acc ++ [p.1]) acc) []

/-- `str(ix_unique)` -/
def numStr (n : Nat) : String := String.ofList (NumText.natStr n)

/-- the `while` loop of data.py:179-183 from `ix_unique = ix`, with fuel (`uniqueName_fuel`: `taken.length + 1` suffices) -/
def uniqueName (taken : String → Bool) (name : String) : Nat → Nat → Option String
  | 0, _ => none
  | fuel + 1, ix =>
    let u := name ++ numStr ix
    if taken u then uniqueName taken name fuel (ix + 1) else some u

/-- the loop of data.py:175-184 over `right_names_raw`; the state is the `right_names` dict built so far -/
def rightNamesLoop (left raw : List String) : List String → List (String × String) → Option (List (String × String))
  | [], acc => some acc
  | name :: rest, acc =>
    if !left.contains name then rightNamesLoop left raw rest (acc ++ [(name, name)])
    else
      match uniqueName (fun u => left.contains u || (acc.map (·.1)).contains u || raw.contains u) name
          (left.length + raw.length + raw.length + 1) 2 with
      | none => none
      | some u => rightNamesLoop left raw rest (acc ++ [(name, u)])

/-- the `right_names` dict (raw right field name ↦ joined field name) -/
def rightNames (leftData rightData : Table) : Option (List (String × String)) :=
  rightNamesLoop (fieldNames leftData) (fieldNames rightData) (fieldNames rightData) []

/-- `join_row = dict(left_row)`, `for right_name, right_value in right_row.items(): join_row[right_names[right_name]] = right_value`
(`none`: `KeyError`, shown unreachable) -/
def joinRow (names : List (String × String)) (left : Row) : Row → Option Row
  | [] => some left
  | (n, v) :: rest =>
    match bucketLookup n names with
    | none => none
    | some u => joinRow names (rowSet u v left) rest

/-- `for right_row in right_category_rows[category_key]: join_row = …; data.append(join_row)` -/
def joinRows (names : List (String × String)) (left : Row) : List Row → Option (List Row)
  | [] => some []
  | r :: rs =>
    match joinRow names left r with
    | none => none
    | some j => (joinRows names left rs).map (j :: ·)

/-- `for right_row in right_data: key = _bucket_key(evaluate_expression(right_expression, …, right_row)); …append` -/
def bucketRowsM (eval : Row → Option PValue) : Table → List (Key × List Row) → Option (List (Key × List Row))
  | [], acc => some acc
  | row :: rest, acc =>
    match eval row with
    | none => none
    | some v => bucketRowsM eval rest (bucketAdd (bucketKey v) row acc)

/-- the loop over the left rows (data.py:210-219) -/
def joinLoop (evalL : Row → Option PValue) (names : List (String × String)) (buckets : List (Key × List Row))
    (isLeftJoin : Bool) : Table → Table → Option Table
  | [], data => some data
  | leftRow :: rest, data =>
    match evalL leftRow with
    | none => none
    | some v =>
      match bucketLookup (bucketKey v) buckets with
      | some rightRows =>
        match joinRows names leftRow rightRows with
        | none => none
        | some joined => joinLoop evalL names buckets isLeftJoin rest (data ++ joined)
      | none => joinLoop evalL names buckets isLeftJoin rest (if !isLeftJoin then data ++ [leftRow] else data)

/-- `join_data` (data.py:139-223).  NOTE the flag as the code has it: a left row without partner is kept iff **not**
`is_left_join` (pinned by `test_join_data_left`). -/
def joinData (evalL evalR : Row → Option PValue) (leftData rightData : Table) (isLeftJoin : Bool) : Option Table :=
  match rightNames leftData rightData with
  | none => none
  | some names =>
    match bucketRowsM evalR rightData [] with
    | none => none
    | some buckets => joinLoop evalL names buckets isLeftJoin leftData []

/-- SPEC: the joined field name of a right field: itself unless a left field has that name; then `name ++ k` for the least
`k ≥ 2` such that this is neither a left nor a right field name -/
def IsJoinedName (left raw : List String) (name u : String) : Prop :=
  if name ∈ left then
    ∃ k, 2 ≤ k ∧ u = name ++ numStr k ∧ u ∉ left ∧ u ∉ raw ∧
      ∀ j, 2 ≤ j → j < k → (name ++ numStr j ∈ left ∨ name ++ numStr j ∈ raw)
  else u = name

/-- SPEC: the relational join: each left row, in order, with each right row whose key value equals its own, in right order;
a left row without partner is kept iff `keepUnmatched` -/
def joinSpec (keyL keyR : Row → PValue) (merge : Row → Row → Row) (keepUnmatched : Bool) (leftData rightData : Table) : Table :=
  leftData.flatMap (fun l =>
    let partners := rightData.filter (fun r => bucketKey (keyR r) = bucketKey (keyL l))
    if partners.isEmpty then (if keepUnmatched then [l] else []) else partners.map (merge l))

/-! ## MIRROR: validate_data / dataParseCSV -/

inductive FieldType where
  | boolean | datetime | number | string
deriving DecidableEq, Repr

def FieldType.text : FieldType → String
  | .boolean => "boolean" | .datetime => "datetime" | .number => "number" | .string => "string"

/-- the two text parsers `validate_data` calls: `value_parse_datetime` over the zone `offU` (C16's `Datetime.isoParse`) and
`value_parse_number` (C13's `NumText.numberParseFloat`) -/
def parseDatetime (offU : Int → Int) (s : String) : Option PValue :=
  (Datetime.isoParse offU s.toList).map (fun t => .dt (Datetime.toLocalMs t * 1000))

def parseNumber (s : String) : Option PValue := (NumText.numberParseFloat s).map .num

/-- the effect of one value on `types[field]` while it is still `None`: `none` = no assignment,
`some none` = `types[field] = None` (the null strings), `some (some t)` = determined -/
def detectType (csv : Bool) (offU : Int → Int) : PValue → Option (Option FieldType)
  | .bool _ => some (some .boolean)
  | .num _ => some (some .number)
  | .dt _ => some (some .datetime)
  | .str s =>
    if !csv then some (some .string)
    else if s = "" ∨ s = "null" then some none
    else if (parseDatetime offU s).isSome then some (some .datetime)
    else if s = "true" ∨ s = "false" then some (some .boolean)
    else if (parseNumber s).isSome then some (some .number)
    else some (some .string)
  | _ => none

/-- `types[field] = t` on the insertion-ordered dict -/
def typesSet (field : String) (t : Option FieldType) : List (String × Option FieldType) → List (String × Option FieldType)
  | [] => [(field, t)]
  | (f, t') :: rest => if f = field then (f, t) :: rest else (f, t') :: typesSet field t rest

/-- `types.get(field)`: `none` for a missing entry and for an entry holding `None` -/
def typesGet (field : String) (types : List (String × Option FieldType)) : Option FieldType :=
  (bucketLookup field types).join

/-- first pass, one cell: `if types.get(field) is None: …` -/
def detectCell (csv : Bool) (offU : Int → Int) (types : List (String × Option FieldType)) (p : String × PValue) :
    List (String × Option FieldType) :=
  match typesGet p.1 types with
  | some _ => types
  | none =>
    match detectType csv offU p.2 with
    | none => types
    | some t => typesSet p.1 t types

/-- first pass + "Set the type for fields with undetermined type" -/
def detectTypes (csv : Bool) (offU : Int → Int) (data : Table) : List (String × FieldType) :=
  (data.foldl (fun types row => row.foldl (detectCell csv offU) types) []).map (fun p => (p.1, p.2.getD .string))

/-- the error of `throw_field_error`: field, expected type, offending value -/
structure FieldError where
  field : String
  type : FieldType
  value : PValue

/-- second pass, one cell of a field of type `t` (data.py:88-134) -/
def convertCell (csv : Bool) (offU : Int → Int) (field : String) (t : FieldType) (v : PValue) : Except FieldError PValue :=
  if csv ∧ v = .str "null" then .ok .null
  else
    match t with
    | .number =>
      match csv, v with
      | true, .str s => if s = "" then .ok .null else match parseNumber s with | some n => .ok n | none => .error ⟨field, t, v⟩
      | _, .null => .ok v
      | _, .num _ => .ok v
      | _, _ => .error ⟨field, t, v⟩
    | .datetime =>
      match csv, v with
      | true, .str s => if s = "" then .ok .null else match parseDatetime offU s with | some d => .ok d | none => .error ⟨field, t, v⟩
      | _, .null => .ok v
      | _, .dt _ => .ok v
      | _, _ => .error ⟨field, t, v⟩
    | .boolean =>
      match csv, v with
      | true, .str s =>
        if s = "" then .ok .null else if s = "true" then .ok (.bool true) else if s = "false" then .ok (.bool false)
        else .error ⟨field, t, v⟩
      | _, .null => .ok v
      | _, .bool _ => .ok v
      | _, _ => .error ⟨field, t, v⟩
    | .string =>
      match v with
      | .null => .ok v
      | .str _ => .ok v
      | _ => .error ⟨field, t, v⟩

/-- second pass, one row: `for field, value in row.items(): … row[field] = …` (a field without type entry is skipped) -/
def convertRow (csv : Bool) (offU : Int → Int) (types : List (String × FieldType)) : Row → Except FieldError Row
  | [] => .ok []
  | (f, v) :: rest =>
    match bucketLookup f types with
    | none => (convertRow csv offU types rest).map ((f, v) :: ·)
    | some t =>
      match convertCell csv offU f t v with
      | .error e => .error e
      | .ok v' => (convertRow csv offU types rest).map ((f, v') :: ·)

def convertRows (csv : Bool) (offU : Int → Int) (types : List (String × FieldType)) : Table → Except FieldError Table
  | [] => .ok []
  | row :: rest =>
    match convertRow csv offU types row with
    | .error e => .error e
    | .ok row' => (convertRows csv offU types rest).map (row' :: ·)

/-- `validate_data(data, csv)` (data.py:29-136): the rows after validation (updated in place), or the `TypeError` -/
def validateData (csv : Bool) (offU : Int → Int) (data : Table) : Except FieldError Table :=
  convertRows csv offU (detectTypes csv offU data) data

/-- the cells `csv.DictReader` hands to `validate_data` for one record: a `str` per header field, `None` for a short record -/
def csvRecord (header : List String) (cells : List (Option String)) : Row :=
  header.zipIdx.map (fun (f, i) => (f, match cells[i]?.join with | some s => .str s | none => .null))

/-- `_data_parse_csv` after `csv.DictReader` (library.py:443-447) -/
def parseCSV (offU : Int → Int) (header : List String) (records : List (List (Option String))) : Except FieldError Table :=
  validateData true offU (records.map (csvRecord header))

/-! ### SPEC: what a CSV writer produces for a typed value -/

/-- a typed cell value as the host holds it -/
inductive CsvVal where
  | null
  | bool (b : Bool)
  | num (n : NumText.PyNum)
  | dt (t : Datetime.DT)
  | str (s : String)

/-- canonical cell text: `value_string` of numbers, `true`/`false`, ISO datetime text (`datetimeISOFormat`), the given null
text (`""` or `"null"`), strings as they are -/
def csvText (nullText : String) (offL : Int → Int) : CsvVal → String
  | .null => nullText
  | .bool b => if b then "true" else "false"
  | .num n => NumText.valueStringNum n
  | .dt t => String.ofList (Datetime.isoFormat offL t)
  | .str s => s

end Data
