import BareModel.Proto
import BareModel.LibMore

/-!
Driver of the C15 extension (`BareModel/LibMore.lean`). Ops:

`{"op":"more_history","heap":[cell…],"env":[value…],"numText":[[num,den,text]…],"dtText":[[ms,text]…],
  "calls":[{"fn":name,"args":[arg…],"hint":value?}…]}`
→ `{"steps":[{"r":"ok"|"fail"|"unmodelled","v":value,"n":heap length,"d":[[index,cell]…],
              "still":bool,"old":"ok"|"fail"|"unmodelled","spec":bool}…]}`

value / arg / cell encodings are those of `Drv/C15.lean`:
value: `null` | `true`/`false` | `{"n":[num,den]}` | `{"s":text}` | `{"dt":ms}` | `{"a":ref}` | `{"o":ref}` | `{"f":id}` | `{"re":id}`;
arg: `{"var":i}` or a value; cell: `{"arr":[value…]}` | `{"obj":[[key,value]…]}`.
`numText` / `dtText` are the text oracle `T` (`value_string` of the numbers that are not plain integers below 10^16 and of the
datetimes that occur); a number / datetime not in the table is "not known" (the call is then `unmodelled`).
`still` = `StillUnmodelled T fn args heap`, `old` = what `Lib.lib` (the unextended model) answers for the same call,
`spec` = the specification layer `specLibMore` gives the same result and heap.
When the model answers `unmodelled` the variable is bound to `hint`.

`{"op":"more_text","heap":[cell…],"numText":…,"dtText":…,"v":value}` → `{"r":"ok","s":text}` | `{"r":"cyc"}` | `{"r":"unk"}`
(`value_string` of one value: `LibMore.textOf`).

`{"op":"more_names"}` → `{"names":[…42 names…]}`.
-/

open PJson Lib LibMore

namespace DrvC15X

def valToJson : Value → PJson
  | .null => .null
  | .bool b => .bool b
  | .num q => mk [("n", .arr [.num q.num, .num q.den])]
  | .str s => mk [("s", .str s)]
  | .dt ms => mk [("dt", .num ms)]
  | .arr r => mk [("a", .num r)]
  | .obj r => mk [("o", .num r)]
  | .fn i => mk [("f", .num i)]
  | .regex i => mk [("re", .num i)]

def valOfJson : PJson → Option Value
  | .null => some .null
  | .bool b => some (.bool b)
  | .obj [("n", .arr [.num n, .num d])] => if d > 0 then some (.num (mkRat n d.toNat)) else none
  | .obj [("s", .str s)] => some (.str s)
  | .obj [("dt", .num ms)] => some (.dt ms)
  | .obj [("a", .num r)] => some (.arr r.toNat)
  | .obj [("o", .num r)] => some (.obj r.toNat)
  | .obj [("f", .num r)] => some (.fn r.toNat)
  | .obj [("re", .num r)] => some (.regex r.toNat)
  | _ => none

def cellToJson : Cell → PJson
  | .arr xs => mk [("arr", .arr (xs.map valToJson))]
  | .obj kvs => mk [("obj", .arr (kvs.map fun (k, v) => .arr [.str k, valToJson v]))]

def cellOfJson : PJson → Option Cell
  | .obj [("arr", .arr xs)] => (xs.mapM valOfJson).map Cell.arr
  | .obj [("obj", .arr kvs)] =>
      (kvs.mapM fun (p : PJson) => match p with
        | PJson.arr [PJson.str k, v] => (valOfJson v).map fun v => (k, v)
        | _ => none).map Cell.obj
  | _ => none

def argOfJson : PJson → Option Arg
  | .obj [("var", .num i)] => some (.var i.toNat)
  | j => (valOfJson j).map .lit

def diffCells (old new : Heap) : List PJson :=
  (List.range new.length).filterMap fun (i : Nat) =>
    match new[i]? with
    | none => none
    | some c => if old[i]? == some c then none else some (PJson.arr [PJson.num i, cellToJson c])

def resTag : Res → String
  | .ok _ => "ok"
  | .fail _ => "fail"
  | .unmodelled => "unmodelled"

/-- the text oracle sent with the request -/
def oracleOf (j : PJson) : TextFns :=
  let nums : List (Rat × String) := (j.arrD "numText").filterMap fun p =>
    match p with
    | PJson.arr [PJson.num n, PJson.num d, PJson.str s] => if d > 0 then some (mkRat n d.toNat, s) else none
    | _ => none
  let dts : List (Int × String) := (j.arrD "dtText").filterMap fun p =>
    match p with
    | PJson.arr [PJson.num ms, PJson.str s] => some (ms, s)
    | _ => none
  ⟨fun q => nums.lookup q, fun ms => dts.lookup ms⟩

def runCalls (T : TextFns) : List PJson → St → List PJson → List PJson
  | [], _, acc => acc.reverse
  | c :: cs, s, acc =>
    match (c.arrD "args").mapM argOfJson with
    | none => (mk [("bad", .str "arg")] :: acc).reverse
    | some args =>
      let f := c.strD "fn"
      let vals := args.map (evalArg s.env)
      let (r, h') := libMore T f vals s.heap
      let old := (lib f vals s.heap).1
      let sp := specLibMore T f vals s.heap
      let v := match r with
        | .unmodelled => ((c.get? "hint").bind valOfJson).getD .null
        | r => r.val
      let out := mk [("r", .str (resTag r)), ("v", valToJson v), ("n", .num h'.length), ("d", .arr (diffCells s.heap h')),
        ("still", .bool (StillUnmodelled T f vals s.heap)), ("old", .str (resTag old)),
        ("spec", .bool (sp.1 == r && sp.2 == h'))]
      runCalls T cs ⟨s.env ++ [v], h'⟩ (out :: acc)

def handle (j : PJson) : PJson :=
  match j.strD "op" with
  | "more_history" =>
    match (j.arrD "heap").mapM cellOfJson, (j.arrD "env").mapM valOfJson with
    | some heap, some env => mk [("steps", .arr (runCalls (oracleOf j) (j.arrD "calls") ⟨env, heap⟩ []))]
    | _, _ => mk [("bad", .str "more_history request")]
  | "more_text" =>
    match (j.arrD "heap").mapM cellOfJson, (j.get? "v").bind valOfJson with
    | some heap, some v =>
      (match textOf (oracleOf j) heap v with
      | .ok s => mk [("r", .str "ok"), ("s", .str s)]
      | .cyc => mk [("r", .str "cyc")]
      | .unk => mk [("r", .str "unk")])
    | _, _ => mk [("bad", .str "more_text request")]
  | "more_names" => mk [("names", .arr (names.map .str))]
  | op => mk [("bad", .str ("unknown op " ++ op))]

end DrvC15X

def main : IO Unit := Proto.run DrvC15X.handle
