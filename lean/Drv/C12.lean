import BareModel.Proto
import BareModel.LibH

/-! Driver for C12: op "call" — a library call of the modelled host-level subset, arguments with their numbers tagged by
    host spelling (`{"i": n}` int, `{"f": [num, den]}` float); answers the host-level outcome (spelling forgotten) and the
    outcome of the abstract one-number-type function on the abstracted arguments. -/

open PJson LibH

partial def hvalOfJson (j : PJson) : Option HVal :=
  match j with
  | PJson.null => some Val.null
  | PJson.bool b => some (Val.bool b)
  | PJson.obj [("i", PJson.num n)] => some (Val.num (PyNum.int n))
  | PJson.obj [("f", PJson.arr [PJson.num n, PJson.num d])] => some (Val.num (PyNum.float (mkRat n d.toNat)))
  | PJson.obj [("s", PJson.str s)] => some (Val.str s)
  | PJson.obj [("a", PJson.arr xs)] => (xs.mapM hvalOfJson).map Val.arr
  | PJson.obj [("o", PJson.arr kvs)] =>
      (kvs.mapM (fun p => match p with
        | PJson.arr [PJson.str k, v] => (hvalOfJson v).map (fun v' => (k, v'))
        | _ => none)).map Val.obj
  | PJson.obj [("k", PJson.arr [PJson.str k, PJson.num i])] => some (Val.opaque k i)
  | _ => none

partial def avalToJson : AVal → PJson
  | Val.null => PJson.null
  | Val.bool b => PJson.bool b
  | Val.num q => mk [("q", PJson.arr [PJson.num q.num, PJson.num q.den])]
  | Val.str s => mk [("s", PJson.str s)]
  | Val.arr xs => mk [("a", PJson.arr (xs.map avalToJson))]
  | Val.obj kvs => mk [("o", PJson.arr (kvs.map (fun (k, v) => PJson.arr [PJson.str k, avalToJson v])))]
  | Val.opaque k i => mk [("k", PJson.arr [PJson.str k, PJson.num i])]

def outToJson (o : Out Rat) : PJson :=
  mk [("result", avalToJson o.result), ("args", PJson.arr (o.args.map avalToJson))]

def handleC12 (j : PJson) : PJson :=
  match j.strD "op" with
  | "call" =>
      let name := j.strD "fn"
      if !(modelled.contains name) then mk [("unmodelled", .str name)] else
      match (j.arrD "args").mapM hvalOfJson with
      | some args => mk [("host", outToJson (absOut (callH name args))), ("abstract", outToJson (callA name (args.map absV)))]
      | none => mk [("bad", .str "call arguments")]
  | op => mk [("bad", .str ("unknown op " ++ op))]

def main : IO Unit := Proto.run handleC12
