import Drv.ExecJson
import BareModel.EvalSpec

/-! Driver for C03 (expression evaluation).

* op "exec": run a script (`execute_script`) on the concrete host — as `drv_c01`, without includes.
* op "eval": `evaluate_expression(expr, options, locals, builtins)`: no library injection; an optional prelude script
  (function definitions) is executed first with the same globals.  With `builtins` the host's `builtin` table is
  `EvalSpec.builtinOf` (generated from `EXPRESSION_FUNCTION_MAP`).  A library function that `HostImpl.lib` does not model
  is *recorded*: the log receives `CALL <name> <json of the evaluated arguments>` and the call returns null — the harness
  replays the recorded call on the real library function.
-/

open PJson Syntax Machine HostImpl ExecJson

def recordingLib (name : String) (args : List Value) (w : World) : LibTree World :=
  if libNames.contains name then lib name args w
  else
    let js := PJson.arr (args.map (valueToJson w (w.heap.length + 3)))
    .ret (.ok .null) { w with log := w.log ++ ["CALL " ++ name ++ " " ++ js.render] }

def hostC03 : Host World := { host with lib := recordingLib, builtin := EvalSpec.builtinOf }

def outToJson (o : Out World) : PJson :=
  let render (st : State World) (extra : List (String × PJson)) : PJson :=
    mk (extra ++ [("log", ofStrs st.world.log)])
  match o with
  | .ok v st => render st [("result", valueToJson st.world (st.world.heap.length + 3) v)]
  | .err e st => render st (match errToJson e with | .obj kvs => kvs | _ => [])
  | .oof => mk [("oof", .bool true)]

def handleC03 (j : PJson) : PJson :=
  match j.strD "op" with
  | "exec" =>
      match scriptOfJson (j.getD "script") with
      | none => mk [("bad", .str "script")]
      | some P =>
        match globalsOfJson (j.getD "globals") {} with
        | none => mk [("bad", .str "globals")]
        | some (g, w) =>
          let cfg : Config World := { host := host, funs := tableOf (collectFuns P), maxStatements := j.natD "max" }
          let st : State World := { globals := injectLib g, world := w, count := 0 }
          resToJson (execute cfg (j.natD "fuel" 100000) P none st)
  | "eval" =>
      match (j.get? "expr").bind exprOfJson with
      | none => mk [("bad", .str "expr")]
      | some e =>
        match globalsOfJson (j.getD "globals") {} with
        | none => mk [("bad", .str "globals")]
        | some (g, w) =>
          let locs : Option (Option (Env × World)) :=
            match j.get? "locals" with
            | none | some .null => some none
            | some l => (globalsOfJson l w).map some
          match locs with
          | none => mk [("bad", .str "locals")]
          | some locs =>
            let w1 := match locs with | some (_, w') => w' | none => w
            let locals := locs.map (·.1)
            let prelude : List Stmt := ((j.get? "script").bind scriptOfJson).getD []
            let cfg : Config World :=
              { host := hostC03, funs := tableOf (collectFuns prelude), maxStatements := j.natD "max",
                builtins := j.boolD "builtins" }
            let fuel := j.natD "fuel" 100000
            let st0 : State World := { globals := g, world := w1, count := 0 }
            match execM cfg fuel prelude none none [] 0 st0 with
            | .done st | .ret _ st => outToJson (evalExpr cfg (callValue cfg fuel) locals e st)
            | .err err st => outToJson (.err err st)
            | .oof => mk [("oof", .bool true)]
  | op => mk [("bad", .str ("unknown op " ++ op))]

def main : IO Unit := Proto.run handleC03
