import BareModel.Proto
import BareModel.SyntaxJson
import BareModel.Parser
import BareModel.ErrorMsg

open PJson Syntax

def handleC06 (j : PJson) : PJson :=
  match j.strD "op" with
  | "parse" =>
      let chunks := (j.arrD "chunks").filterMap asStr?
      match Parser.parseScript chunks (j.natD "start" 1) with
      | .ok ss => mk [("ok", scriptToJson ss)]
      | .error e => mk [("error", .str e.error), ("line", .str e.line), ("column", .num e.column), ("lineNumber", .num e.lineNumber)]
  | op => mk [("bad", .str ("unknown op " ++ op))]

def main : IO Unit := Proto.run handleC06
