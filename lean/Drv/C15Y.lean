import Drv.ExecJson
import BareModel.LibCb

/-!
Driver of the C15 extension `LibCb` (call-back forms of arrayIndexOf / arrayLastIndexOf / arraySort).

* `{"op":"exec","script":…,"globals":[[name,value]…],"max":N,"fuel":F,"debug":b}` — the jump machine `Machine.execute` over
  `LibCb.host` (library = LibMore + the call-back forms + HostImpl's system functions) on a parsed script in the wire form of `drv_c01` /
  `drv_hostlib`; answer in the same form (result, log, globals as trees, count | error | oof).
* `{"op":"pysort","n":N,"lt":[[0|1…]…]}` — the pure sorting computation `LibCb.pySort` on the elements `0..N-1` with `x < y` read from the
  matrix `lt[x][y]`: `{"res":[…],"q":[[x,y]…]}` = result and the comparisons asked, in order (pinned against CPython's `list.sort`).
-/

open PJson Syntax Machine ExecJson HostLib

namespace C15Y

def injectLib (g : Env) : Env :=
  LibCb.libNames.foldl (fun acc n => if acc.contains (.user n) then acc else acc ++ [(.user n, .fn (.lib n))]) g

def initOfJson (j : PJson) : Option (Env × LWorld) := do
  let w0 : HostImpl.World := {}
  let (g, w1) ← globalsOfJson (match j.get? "globals" with | some x => x | none => .arr []) w0
  pure (injectLib g, LWorld.ofImpl w1)

def stToImpl (st : State LWorld) : State HostImpl.World := { globals := st.globals, world := st.world.toImpl, count := st.count }

def resToImpl : Res LWorld → Res HostImpl.World
  | .done st => .done (stToImpl st)
  | .ret v st => .ret v (stToImpl st)
  | .err e st => .err e (stToImpl st)
  | .oof => .oof

def runExec (j : PJson) (P : List Stmt) : PJson :=
  match initOfJson j with
  | none => mk [("bad", .str "globals")]
  | some (g, w) =>
    let cfg : Config LWorld :=
      { host := LibCb.host, funs := tableOf (collectFuns P), maxStatements := j.natD "max", debug := j.boolD "debug" }
    let st : State LWorld := { globals := g, world := w, count := 0 }
    resToJson (resToImpl (execute cfg (j.natD "fuel" 100000) P none st))

def ltOfJson (j : PJson) : Nat → Nat → Bool := fun x y =>
  match (j.arrD "lt")[x]? with
  | some (.arr row) => (match row[y]? with | some (.num v) => v != 0 | _ => false)
  | _ => false

def handle (j : PJson) : PJson :=
  match j.strD "op" with
  | "exec" =>
      match scriptOfJson (j.getD "script") with
      | none => mk [("bad", .str "script")]
      | some P => runExec j P
  | "pysort" =>
      let xs := List.range (j.natD "n")
      let lt := ltOfJson j
      let a := LibCb.pySort xs
      mk [("res", .arr ((a.eval lt).map fun (n : Nat) => .num n)),
          ("q", .arr ((a.questions lt).map fun (p : Nat × Nat) => .arr [.num p.1, .num p.2]))]
  | op => mk [("bad", .str ("unknown op " ++ op))]

end C15Y

def main : IO Unit := Proto.run C15Y.handle
