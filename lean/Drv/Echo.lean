import BareModel.Proto
def main : IO Unit := Proto.run fun j => PJson.mk [("echo", j)]
