import BareModel.Proto
import BareModel.IsoText

/-! Extension driver of property C16: ISO date/datetime TEXT at character level (`BareModel/IsoText.lean`).
Integers only on the wire.  Ops (all prefixed `isotext_`):

* `isotext_parse`   `{"op","text"}` → `{"re_date":bool, "re_datetime":bool, "raw":[y,mo,d,h,mi,s,us,offMin]|null,
                    "fields":[y,mo,d,h,mi,s,ms,offMin]|null, "date":[y,m,d]|null}`
* `isotext_format`  `{"op","fields":[y,mo,d,h,mi,s,ms,offMin],"sub":n}` → `{"text":str,"date":str,"back":fields|null}`
* `isotext_zone`    `{"op","text","off":seconds}` → `{"dt":[7]|null,"factored":[7]|null}`
* `isotext_source`  `{"op"}` → `{"date":str,"datetime":str}` (the rendered pattern sources)
-/

open PJson Datetime IsoText

namespace DrvC16X

def dtToJson (t : DT) : PJson :=
  .arr [.num t.year, .num t.month, .num t.day, .num t.hour, .num t.minute, .num t.second, .num t.ms]

def optDt : Option DT → PJson
  | some t => dtToJson t
  | none => .null

def fieldsToJson (f : Fields) : PJson :=
  .arr [.num f.year, .num f.month, .num f.day, .num f.hour, .num f.minute, .num f.second, .num f.ms, .num f.off]

def rawToJson (r : Raw) : PJson :=
  .arr [.num r.year, .num r.month, .num r.day, .num r.hour, .num r.minute, .num r.second, .num r.us, .num r.off]

def dateToJson (p : Nat × Nat × Nat) : PJson := .arr [.num p.1, .num p.2.1, .num p.2.2]

def ints (j : PJson) (k : String) : Option (List Int) := (j.arrD k).mapM asInt?

def fieldsOf (j : PJson) (k : String) : Option Fields :=
  match ints j k with
  | some [y, mo, d, h, mi, s, ms, off] =>
    if 0 ≤ y ∧ 0 ≤ mo ∧ 0 ≤ d ∧ 0 ≤ h ∧ 0 ≤ mi ∧ 0 ≤ s ∧ 0 ≤ ms then
      some ⟨y.toNat, mo.toNat, d.toNat, h.toNat, mi.toNat, s.toNat, ms.toNat, off⟩
    else none
  | _ => none

def bad (msg : String) : PJson := mk [("bad", .str msg)]

/-- `value_parse_datetime` factored through the text layer: date form, else `parseChars` then the zone step -/
def factored (offU : Int → Int) (cs : List Char) : Option DT :=
  match parseDateChars cs with
  | some p => some ⟨p.1, p.2.1, p.2.2, 0, 0, 0, 0⟩
  | none => (parseChars cs).bind (toZone offU)

def handle (j : PJson) : PJson :=
  match j.strD "op" with
  | "isotext_parse" =>
    let cs := (j.strD "text").toList
    mk [("re_date", .bool (isDateText cs)), ("re_datetime", .bool (isDateTimeText cs)),
        ("raw", ofOpt rawToJson (scanRaw cs)), ("fields", ofOpt fieldsToJson (parseChars cs)),
        ("date", ofOpt dateToJson (parseDateChars cs))]
  | "isotext_format" =>
    match fieldsOf j "fields" with
    | some f =>
      let sub := j.natD "sub"
      mk [("text", .str (formatText f sub)), ("date", .str (formatDateText f.year f.month f.day)),
          ("back", ofOpt fieldsToJson (parseText (formatText f sub)))]
    | none => bad "isotext_format: fields"
  | "isotext_zone" =>
    let off := j.intD "off"
    let s := j.strD "text"
    mk [("dt", optDt (isoParseText (fun _ => off) s)), ("factored", optDt (factored (fun _ => off) s.toList))]
  | "isotext_source" =>
    mk [("date", .str (String.ofList (patSource dateRe))), ("datetime", .str (String.ofList (patSource dateTimeRe)))]
  | op => bad ("unknown op " ++ op)

end DrvC16X

def main : IO Unit := Proto.run DrvC16X.handle
