import Drv.ExecJson
import BareModel.IncludeBridge

/-!
Driver for the C17 extension "one machine" (`BareModel.IncludeBridge`, `BareProofs.C17Bridge`): the statement machine
`Machine.execute`, instantiated with C17's resolution (`Include.resolveEntry`: system prefix, `urlFileRelative`) and a
virtual file system of REAL statement lists (`IncludeBridge.instCfg`), run with its event trace (`executeT`).

op "run":  script (model JSON), files [[url, "missing" | "throws" | "broken" | model JSON], …], base (string | null),
           systemPrefix (string | null), globals, max, fuel
  ->       the run as rendered by `ExecJson.resToJson` (result | error, log, globals, count) plus
           events  [["fetch", url] | ["exec", tag], …]   the events of the traced machine (`tagOf`: systemLog('t') ↦ "L:t",
                                                         an assignment ↦ "S:<name>", anything else ↦ "")
           stop    "fin" | "incFailed" | "incParse" | "stmt" | "oof"
           straight  the hypotheses `Straight` / `filesStraight` of `C17Bridge.machine_refines_include` hold
           include   (only with "bridge": true) events and outcome of `Include.run` on the abstraction `itemsOf` (same tags), gas = fuel + 1
-/

open PJson Syntax Machine HostImpl ExecJson IncludeBridge

def tagOf : Stmt → String
  | .expr none (.function (.user "systemLog") [.string t]) => "L:" ++ t
  | .expr (some n) _ => "S:" ++ n.render
  | _ => ""

def vfilesOfJson (j : PJson) : List (String × VFile) :=
  (j.arrD "files").filterMap fun f =>
    match f with
    | .arr [.str url, .str "broken"] => some (url, VFile.broken)
    | .arr [.str url, .str "missing"] => some (url, VFile.missing)
    | .arr [.str url, .str "throws"] => some (url, VFile.throws)
    | .arr [.str url, s] => (scriptOfJson s).map fun ss => (url, VFile.stmts ss)
    | _ => none

def eventToJson : Include.Event → PJson
  | .fetch u => .arr [.str "fetch", .str u]
  | .exec t => .arr [.str "exec", .str t]

def stopText : Stop → String
  | .fin => "fin" | .incFailed _ => "incFailed" | .incParse _ => "incParse" | .stmt => "stmt" | .oof => "oof"

def outcomeToJson : Include.Outcome → PJson
  | .ok => mk [("kind", .str "ok")]
  | .includeFailed u => mk [("kind", .str "includeFailed"), ("url", .str u)]
  | .parseError u => mk [("kind", .str "parseError"), ("url", .str u)]
  | .exceeded => mk [("kind", .str "exceeded")]
  | .outOfGas => mk [("kind", .str "outOfGas")]

def optStr (j : PJson) (k : String) : Option String := (j.get? k).bind asStr?

def handleC17X (j : PJson) : PJson :=
  match j.strD "op" with
  | "run" =>
      match scriptOfJson (j.getD "script"), globalsOfJson (j.getD "globals") {} with
      | some P, some (g, w) =>
        let files := vfilesOfJson j
        let funs := collectFuns P ++ files.flatMap fun f => match f.2 with | .stmts ss => collectFuns ss | _ => []
        let sp := optStr j "systemPrefix"
        let base := optStr j "base"
        let fs := ofList files
        let cfg : Config World :=
          instCfg { host := host, funs := tableOf funs, maxStatements := j.natD "max" } sp fs
        let st : State World := { globals := injectLib g, world := w, count := 0 }
        let fuel := j.natD "fuel" 100000
        let m := executeT tagOf cfg fuel P base st
        let straightOK := Straight P && filesStraight files
        -- the include model has no statement budget here: only asked for on request (finite trees)
        let inc : List (String × PJson) :=
          if j.boolD "bridge" then
            let r := Include.run (icfgOf tagOf sp fs) (fun _ (u : Unit) => u) (fuel + 1) (urlFnOf base) (itemsOf tagOf P) ()
            [("include", mk [("events", .arr (r.trace.map eventToJson)), ("outcome", outcomeToJson r.outcome)])]
          else []
        let extra : List (String × PJson) :=
          [("events", .arr (m.trace.map eventToJson)), ("stop", .str (stopText m.stop)), ("straight", .bool straightOK)] ++ inc
        match resToJson m.res with
        | .obj kvs => mk (kvs ++ extra)
        | other => other
      | none, _ => mk [("bad", .str "script")]
      | _, none => mk [("bad", .str "globals")]
  | op => mk [("bad", .str ("unknown op " ++ op))]

def main : IO Unit := Proto.run handleC17X
