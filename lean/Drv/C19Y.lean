import Drv.ExecJson
import BareModel.DataExpr

/-!
Driver for the C19 extension "the data functions evaluate their expression TEXT" (`BareModel.DataExpr`).

Request: {"op": "filter" | "calc" | "join", "prelude": {"statements": [...]} (a script run first by `Machine.execute`: defines the script
functions / globals the expression may use), "globals": [[name, value] ...], "max": maxStatements, "fuel": n,
"data": [row ...] (row = [[field, value] ...]), "right": [row ...] (join), "text": expression text, "textR": null | text (join),
"field": name (calc), "isLeftJoin": bool, "vars": null | [[name, value] ...]}; values in the wire form of Drv/ExecJson.

Answer: {"kind": "ok" | "err" | "parseErr" | "keyErr" | "oof", "result": rows, "data": the input table after the call, "kept": indices of
the kept rows (filter; from the SPEC layer `runRows`/`keepMarks`), "error": message, "column": n, "log", "globals", "count"}.
-/

open PJson Syntax Machine HostImpl ExecJson DataExpr

def rowOfJsonY (j : PJson) (w : World) : Option (VRow × World) :=
  match j with
  | .arr kvs => kvs.foldlM (fun (acc : VRow × World) kv => do
      match kv with
      | .arr [.str k, x] =>
          let (v, w') ← valueOfJson x acc.2
          pure (acc.1 ++ [(k, v)], w')
      | _ => none) ([], w)
  | _ => none

def tableOfJsonY (j : PJson) (w : World) : Option (VTable × World) :=
  match j with
  | .arr rows => rows.foldlM (fun (acc : VTable × World) r => do
      let (row, w') ← rowOfJsonY r acc.2
      pure (acc.1 ++ [row], w')) ([], w)
  | _ => none

def injectLibY (g : Env) : Env :=
  (libNames ++ X.moreNames).foldl (fun acc n => if acc.contains (.user n) then acc else acc ++ [(.user n, .fn (.lib n))]) g

def rowToJsonY (w : World) (r : VRow) : PJson := .arr (r.map fun kv => .arr [.str kv.1, valueToJson w 0 kv.2])

def tableToJsonY (w : World) (t : VTable) : PJson := .arr (t.map (rowToJsonY w))

def stateFields (st : State World) : List (String × PJson) :=
  let w := st.world
  let gl := (st.globals.filter (fun kv => !isLibBinding kv)).map fun kv => (kv.1.render, valueToJson w 0 kv.2)
  let gl := gl.mergeSort (fun a b => a.1 ≤ b.1)
  [("log", ofStrs w.log), ("globals", .arr (gl.map fun kv => .arr [.str kv.1, kv.2])), ("count", .num st.count)]

def doutToJson (extra : State World → List (String × PJson)) : DOut World → PJson
  | .ok res st => mk ([("kind", .str "ok"), ("result", tableToJsonY st.world res)] ++ extra st ++ stateFields st)
  | .err e data st =>
      mk ([("kind", .str "err")] ++ (match errToJson e with | .obj kvs => kvs | _ => []) ++ [("data", tableToJsonY st.world data)] ++ stateFields st)
  | .parseErr pe => mk [("kind", .str "parseErr"), ("error", .str pe.error), ("column", .num pe.column)]
  | .keyErr st => mk ([("kind", .str "keyErr")] ++ stateFields st)
  | .oof => mk [("kind", .str "oof")]

def indicesOf (marks : List Bool) : List Nat := ((List.range marks.length).zip marks).filterMap fun p => if p.2 then some p.1 else none

def handleC19Y (j : PJson) : PJson :=
  match scriptOfJson (j.getD "prelude") with
  | none => mk [("bad", .str "prelude")]
  | some P =>
  match globalsOfJson (j.getD "globals") {} with
  | none => mk [("bad", .str "globals")]
  | some (g, w0) =>
  match tableOfJsonY (j.getD "data") w0 with
  | none => mk [("bad", .str "data")]
  | some (data, w1) =>
  match tableOfJsonY (match j.get? "right" with | some r => r | none => .arr []) w1 with
  | none => mk [("bad", .str "right")]
  | some (right, w2) =>
  match (match j.get? "vars" with
         | some PJson.null | none => (some (none, w2) : Option (Option VRow × World))
         | some v => (rowOfJsonY v w2).map fun (p : VRow × World) => (some p.1, p.2)) with
  | none => mk [("bad", .str "vars")]
  | some (vars, w3) =>
    let cfg : Config World := { host := X.host, funs := tableOf (collectFuns P), maxStatements := j.natD "max" }
    let fuel := j.natD "fuel" 100000
    let C : Ctx World := { cfg := cfg, fuel := fuel, key := X.key }
    match execute cfg fuel P none { globals := injectLibY g, world := w3, count := 0 } with
    | .err e st => mk ([("bad", PJson.str "prelude failed")] ++ (match errToJson e with | .obj kvs => kvs | _ => []) ++ stateFields st)
    | .oof => mk [("bad", .str "prelude out of fuel")]
    | .done st | .ret _ st =>
      let text := j.strD "text"
      match j.strD "op" with
      | "filter" =>
          -- the kept indices come from the SPEC layer (the fold `runRows` + `keepMarks`), the rows from the mirror
          let kept : List (String × PJson) :=
            match ExprParse.parseExpr text with
            | .ok e =>
              match runRows (evalRow C e) data (enter vars st) with
              | .ok vs _ => [("kept", .arr ((indicesOf (keepMarks cfg.host.truthy vs)).map fun (i : Nat) => PJson.num (i : Int)))]
              | _ => []
            | _ => []
          doutToJson (fun _ => kept) (dataFilter C text vars data st)
      | "calc" => doutToJson (fun _ => []) (dataCalculatedField C (j.strD "field") text vars data st)
      | "join" =>
          let textR := (j.get? "textR").bind asStr?
          doutToJson (fun _ => []) (dataJoin C text textR (j.boolD "isLeftJoin") vars data right st)
      | op => mk [("bad", .str ("unknown op " ++ op))]

def main : IO Unit := Proto.run handleC19Y
