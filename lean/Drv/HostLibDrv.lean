import Drv.ExecJson
import BareModel.StructuredS
import BareModel.HostLib

/-!
Second execution driver: the ops of `drv_c01` ("lower", "exec", "execLowered", "execS", "execT") over `HostLib.hostLib`, the host
whose library is the verified model `Lib` (≈ 40 array/object/string functions) instead of the 18-function `HostImpl.host`.

The world-independent protocol glue (structured programs, error text, function table) is `Drv/ExecJson.lean`; values and
results go through the HostImpl view of the world (`LWorld.toImpl` / `LWorld.ofImpl`, inverse bijections), so the wire form of
`drv_c01` is kept.  Two optional request members serve the `lib-through-machine` stream of C15:

* `"pool": {"heap": [cell…], "env": [[name, value]…]}` — an initial heap in the protocol form of `drv_c15`
  (`{"arr":[value…]}` | `{"obj":[[key,value]…]}`; value = `null` | bool | `{"n":[num,den]}` | `{"s":text}` | `{"dt":ms}` | `{"a":ref}` |
  `{"o":ref}` | `{"f":id}` | `{"re":id}`) whose cells are shared by the variables that refer to them, bound as globals;
* `"observe": [name…]` — the response then carries `"state": {"env": [value of each name…, result], "heap": [cell…]}`, the final
  values of these globals and the whole final heap by reference (aliasing is visible).
-/

open PJson Syntax Machine ExecJson Lower Structured HostLib

namespace HostLibDrv

/-! ### `Lib` protocol values (as in Drv/C15.lean) -/

def valToJson : Lib.Value → PJson
  | .null => .null
  | .bool b => .bool b
  | .num q => mk [("n", .arr [.num q.num, .num q.den])]
  | .str s => mk [("s", .str s)]
  | .dt ms => mk [("dt", .num ms)]
  | .arr r => mk [("a", .num r)]
  | .obj r => mk [("o", .num r)]
  | .fn i => mk [("f", .num i)]
  | .regex i => mk [("re", .num i)]

def valOfJson : PJson → Option Lib.Value
  | .null => some .null
  | .bool b => some (.bool b)
  | .obj [("n", .arr [.num n, .num d])] => if d > 0 then some (.num (mkRat n d.toNat)) else none
  | .obj [("s", .str s)] => some (.str s)
  | .obj [("dt", .num ms)] => some (.dt ms)
  | .obj [("a", .num r)] => some (.arr r.toNat)
  | .obj [("o", .num r)] => some (.obj r.toNat)
  | .obj [("f", .num r)] => some (.fn r.toNat)
  | .obj [("re", .num r)] => some (.regex r.toNat)
  | _ => none

def cellToJson : Lib.Cell → PJson
  | .arr xs => mk [("arr", .arr (xs.map valToJson))]
  | .obj kvs => mk [("obj", .arr (kvs.map fun (k, v) => .arr [.str k, valToJson v]))]

def cellOfJson : PJson → Option Lib.Cell
  | .obj [("arr", .arr xs)] => (xs.mapM valOfJson).map Lib.Cell.arr
  | .obj [("obj", .arr kvs)] =>
      (kvs.mapM fun (p : PJson) => match p with
        | PJson.arr [PJson.str k, v] => (valOfJson v).map fun v => (k, v)
        | _ => none).map Lib.Cell.obj
  | _ => none

/-! ### initial state -/

/-- globals: user supplied, then the library names not already present (execute_script, runtime.py:40) -/
def injectLib (g : Env) : Env :=
  HostLib.libNames.foldl (fun acc n => if acc.contains (.user n) then acc else acc ++ [(.user n, .fn (.lib n))]) g

/-- pool (optional) then wire globals → globals and world -/
def initOfJson (j : PJson) : Option (Env × LWorld) := do
  let pool := j.getD "pool"
  let heap ← (pool.arrD "heap").mapM cellOfJson
  let penv ← (pool.arrD "env").mapM fun (p : PJson) => match p with
    | PJson.arr [PJson.str k, v] => (valOfJson v).map fun v => (Name.ofString k, ofLib v)
    | _ => none
  let w0 : HostImpl.World := { heap := heap.map cellOfLib }
  let (g, w1) ← globalsOfJson (match j.get? "globals" with | some x => x | none => .arr []) w0
  pure (injectLib (penv ++ g), LWorld.ofImpl w1)

/-! ### results -/

def stToImpl (st : State LWorld) : State HostImpl.World := { globals := st.globals, world := st.world.toImpl, count := st.count }

def resToImpl : Res LWorld → Res HostImpl.World
  | .done st => .done (stToImpl st)
  | .ret v st => .ret v (stToImpl st)
  | .err e st => .err e (stToImpl st)
  | .oof => .oof

def finalOf : Res LWorld → Option (Value × State LWorld)
  | .done st => some (.null, st)
  | .ret v st => some (v, st)
  | .err _ st => some (.null, st)
  | .oof => none

def resJson (j : PJson) (r : Res LWorld) : PJson :=
  let base := resToJson (resToImpl r)
  match j.get? "observe", finalOf r, base with
  | some (.arr names), some (v, st), .obj kvs =>
      let nameOf (n : PJson) : String := match n with | .str s => s | _ => ""
      let env := names.map fun (n : PJson) => valToJson (toLib (lookupVar none st.globals (Name.ofString (nameOf n))))
      .obj (kvs ++ [("state", mk [("env", .arr (env ++ [valToJson (toLib v)])), ("heap", .arr (st.world.heap.map cellToJson))])])
  | _, _, _ => base

/-! ### running (as Drv/C01.lean, over `hostLib`) -/

def lowerErrJson (e : LowerErr) : PJson := mk [("error", .str e.text)]

/-- files: [[url, "missing" | "broken" | script-json], …] -/
def filesOfJson (j : PJson) : List (String × FetchRes) :=
  (j.arrD "files").filterMap fun f =>
    match f with
    | .arr [.str url, .str "broken"] => some (url, FetchRes.broken)
    | .arr [.str url, .str "missing"] => some (url, FetchRes.missing)
    | .arr [.str url, s] => (scriptOfJson s).map fun ss => (url, FetchRes.script ss)
    | _ => none

def mkConfig (j : PJson) (P : List Stmt) (files : List (String × FetchRes)) : Config LWorld :=
  let funs := collectFuns P ++ files.flatMap fun f => match f.2 with | .script ss => collectFuns ss | _ => []
  { host := hostLib, funs := tableOf funs, maxStatements := j.natD "max", debug := j.boolD "debug",
    fetch := fun url => ((files.find? (·.1 == url)).map (·.2)).getD .missing }

def runExec (j : PJson) (P : List Stmt) (structured : Option (List SStmt)) : PJson :=
  match initOfJson j with
  | none => mk [("bad", .str "globals")]
  | some (g, w) =>
    let files := filesOfJson j
    let cfg := mkConfig j P files
    let st : State LWorld := { globals := g, world := w, count := 0 }
    let fuel := j.natD "fuel" 100000
    match structured with
    | none => resJson j (execute cfg fuel P none st)
    | some B => resJson j (runT cfg fuel B none st)

/-- structured function table of a structured program (definitions may be nested in global-scope blocks) -/
partial def collectSFuns : List SStmt → List (Nat × StructuredS.SFuncDef)
  | [] => []
  | s :: rest =>
      (match s with
       | .func fid n args laa _ b => (fid, { name := n, args := args, lastArgArray := laa, body := b }) :: collectSFuns b
       | .ite _ t e => collectSFuns t ++ collectSElse e
       | .while _ b => collectSFuns b
       | .for _ _ _ b => collectSFuns b
       | _ => []) ++ collectSFuns rest
where
  collectSElse : SElse → List (Nat × StructuredS.SFuncDef)
    | .none => []
    | .els b => collectSFuns b
    | .elif _ t e => collectSFuns t ++ collectSElse e

/-- the plain source-level reading (`execS`, no statement budget, no hidden variables) -/
def runPure (j : PJson) (B : List SStmt) : PJson :=
  match initOfJson j with
  | none => mk [("bad", .str "globals")]
  | some (g, w) =>
    let fs := collectSFuns B
    let scfg : StructuredS.SConfig LWorld := { host := hostLib, sfuns := fun id => (fs.find? (·.1 == id)).map (·.2) }
    let st : State LWorld := { globals := g, world := w, count := 0 }
    resJson j (StructuredS.runS scfg (j.natD "fuel" 3000) B st)

def handle (j : PJson) : PJson :=
  match j.strD "op" with
  | "lower" =>
      match blockOfJson (j.getD "prog") with
      | none => mk [("bad", .str "prog")]
      | some B =>
        let spec := lowerProgram B
        let mirror := match parseLines (renderB B) with
          | .ok ss => scriptToJson ss
          | .error e => lowerErrJson e
        mk [("spec", scriptToJson spec), ("mirror", mirror)]
  | "exec" =>
      match scriptOfJson (j.getD "script") with
      | none => mk [("bad", .str "script")]
      | some P => runExec j P none
  | "execLowered" =>
      match blockOfJson (j.getD "prog") with
      | none => mk [("bad", .str "prog")]
      | some B => runExec j (lowerProgram B) none
  | "execS" =>
      match blockOfJson (j.getD "prog") with
      | none => mk [("bad", .str "prog")]
      | some B => runPure j B
  | "execT" =>
      match blockOfJson (j.getD "prog") with
      | none => mk [("bad", .str "prog")]
      | some B => runExec j (lowerProgram B) (some B)
  | op => mk [("bad", .str ("unknown op " ++ op))]

end HostLibDrv

def main : IO Unit := Proto.run HostLibDrv.handle
