import BareModel.Proto
import BareModel.Include

open PJson Url Include

namespace DrvC17

def entryOfJson : PJson → Option Entry
  | .arr [.str u, .bool b] => some ⟨u, b⟩
  | _ => none

def itemOfJson (j : PJson) : Option Item :=
  match j with
  | .str "nop" => some .nop
  | .str "ret" => some .ret
  | _ =>
    match j.get? "stmt", j.get? "inc" with
    | some (.str t), _ => some (.stmt t)
    | _, some (.arr es) => (es.mapM entryOfJson).map .inc
    | _, _ => none

def scriptOfJson : PJson → Option Script
  | .arr xs => xs.mapM itemOfJson
  | _ => none

def fileOfJson (j : PJson) : Option File :=
  match j with
  | .str "broken" => some .broken
  | .str "missing" => some .missing
  | .str "throws" => some .throws
  | _ => ((j.get? "text").bind scriptOfJson).map .text

def filesOfJson (xs : List PJson) : Option (List (String × File)) :=
  xs.mapM fun
    | .arr [.str p, f] => (fileOfJson f).map (fun f => (p, f))
    | _ => none

def lookupFile (m : List (String × File)) (u : String) : File :=
  match m.find? (·.1 == u) with
  | some (_, f) => f
  | none => .missing

def eventToJson : Event → PJson
  | .fetch u => .arr [.str "fetch", .str u]
  | .exec t => .arr [.str "exec", .str t]

def outcomeToJson : Outcome → PJson
  | .ok => mk [("kind", .str "ok")]
  | .includeFailed u => mk [("kind", .str "includeFailed"), ("url", .str u)]
  | .parseError u => mk [("kind", .str "parseError"), ("url", .str u)]
  | .exceeded => mk [("kind", .str "exceeded")]
  | .outOfGas => mk [("kind", .str "outOfGas")]

def optStr (j : PJson) (k : String) : Option String := (j.get? k).bind asStr?

def handle (j : PJson) : PJson :=
  match j.strD "op" with
  | "resolve" =>
      let f := j.strD "file"
      let u := j.strD "url"
      mk [("out", .str (urlFileRelative f u)), ("spec", .str (resolveSpec f u)),
          ("isUrl", .bool (matchUrl u.toList)), ("baseIsUrl", .bool (matchUrl f.toList))]
  | "run" =>
      match filesOfJson (j.arrD "files"), (j.get? "root").bind scriptOfJson with
      | some files, some root =>
        let fs := lookupFile files
        let cfg : Config := { systemPrefix := optStr j "systemPrefix",
                              fetch := if j.boolD "fetch" true then some fs else none,
                              maxStatements := j.natD "maxStatements" }
        let uf : UrlFn := match optStr j "urlFn" with
          | some f => .relativeTo f
          | none => .none
        let gas := j.natD "gas" 64
        let r := runLog cfg gas uf root
        let base := [("events", .arr (r.trace.map eventToJson)), ("log", ofStrs r.state), ("outcome", outcomeToJson r.outcome),
            ("statementCount", .num r.opts.statementCount)]
        -- the specification unfolds the whole tree (it does not stop at a failure or at the budget): only on request,
        -- for trees the harness knows to be acyclic
        if j.boolD "spec" false then
          let evs := expectedEvents cfg fs gas (selfOf uf) root
          mk (base ++ [("specEvents", .arr ((cutAt (failing fs) evs).map eventToJson)), ("specOutcome", outcomeToJson (specOutcome fs evs)),
            ("expectedFetches", ofStrs (expectedFetches cfg fs gas (selfOf uf) root))])
        else mk base
      | _, _ => mk [("bad", .str "run request")]
  | op => mk [("bad", .str ("unknown op " ++ op))]

end DrvC17

def main : IO Unit := Proto.run DrvC17.handle
