import BareModel.Proto
import BareModel.LibH2

/-! Driver for the C12 extension (`LibH2`).  Numbers on the wire are tagged by host spelling (`{"i": n}` int,
    `{"f": [num, den]}` float), exactly as in `Drv/C12.lean`; abstracted numbers come back as `{"q": [num, den]}`.

    The abstract host functions of `LibH2.Env` are instantiated by *tagging* functions — the text they stand for is written as
    `⟦F:num/den⟧` (text of a float), `⟦X:num/den:digits⟧` (`f'{x:.{digits}f}'`), `⟦O:kind:id⟧` (text of a datetime / function /
    regex), `⟦C:text⟧` (`R_NUMBER_CLEANUP.sub('', text)`, wraps an `X` tag), `⟦J:indent:json⟧` (`value_json(value, indent)`; `indent` = `null` or the int, `json` = the value in the response
    encoding) — and `rnd` by the identity (exact arithmetic): the harness expands the tags with the real implementation and
    compares numbers as correctly rounded rationals.

    ops: `h2_call`, `h2_op`, `h2_for`. -/

open PJson LibH LibH2

partial def hvalOfJsonX (j : PJson) : Option HVal :=
  match j with
  | PJson.null => some Val.null
  | PJson.bool b => some (Val.bool b)
  | PJson.obj [("i", PJson.num n)] => some (Val.num (PyNum.int n))
  | PJson.obj [("f", PJson.arr [PJson.num n, PJson.num d])] => some (Val.num (PyNum.float (mkRat n d.toNat)))
  | PJson.obj [("s", PJson.str s)] => some (Val.str s)
  | PJson.obj [("a", PJson.arr xs)] => (xs.mapM hvalOfJsonX).map Val.arr
  | PJson.obj [("o", PJson.arr kvs)] =>
      (kvs.mapM (fun p => match p with
        | PJson.arr [PJson.str k, v] => (hvalOfJsonX v).map (fun v' => (k, v'))
        | _ => none)).map Val.obj
  | PJson.obj [("k", PJson.arr [PJson.str k, PJson.num i])] => some (Val.opaque k i)
  | _ => none

partial def avalToJsonX : AVal → PJson
  | Val.null => PJson.null
  | Val.bool b => PJson.bool b
  | Val.num q => mk [("q", PJson.arr [PJson.num q.num, PJson.num q.den])]
  | Val.str s => mk [("s", PJson.str s)]
  | Val.arr xs => mk [("a", PJson.arr (xs.map avalToJsonX))]
  | Val.obj kvs => mk [("o", PJson.arr (kvs.map (fun (k, v) => PJson.arr [PJson.str k, avalToJsonX v])))]
  | Val.opaque k i => mk [("k", PJson.arr [PJson.str k, PJson.num i])]

def outToJsonX (o : Out Rat) : PJson :=
  mk [("result", avalToJsonX o.result), ("args", PJson.arr (o.args.map avalToJsonX))]

def ratText (q : Rat) : String := toString q.num ++ "/" ++ toString q.den

/-- the tagging environment -/
def tagEnv : Env where
  rnd := id
  floatText := fun q => "⟦F:" ++ ratText q ++ "⟧"
  jsonText := fun v i => "⟦J:" ++ (match i with | some k => toString k | none => "null") ++ ":" ++ (avalToJsonX v).render ++ "⟧"
  fixedText := fun q d => "⟦X:" ++ ratText q ++ ":" ++ toString d ++ "⟧"
  opaqueText := fun k i => "⟦O:" ++ k ++ ":" ++ toString i ++ "⟧"
  cleanup := fun s => "⟦C:" ++ s ++ "⟧"

def pynumOfJson (j : PJson) : Option PyNum :=
  match j with
  | PJson.obj [("i", PJson.num n)] => some (PyNum.int n)
  | PJson.obj [("f", PJson.arr [PJson.num n, PJson.num d])] => some (PyNum.float (mkRat n d.toNat))
  | _ => none

/-- a host number with its spelling -/
def pynumToJson : PyNum → PJson
  | .int n => mk [("i", PJson.num n)]
  | .float q => mk [("f", PJson.arr [PJson.num q.num, PJson.num q.den])]

def ratToJson (q : Rat) : PJson := mk [("q", PJson.arr [PJson.num q.num, PJson.num q.den])]

def optJson {α : Type} (f : α → PJson) : Option α → PJson
  | some a => f a
  | none => PJson.null

def handleOp (operator : String) (a b : PyNum) : PJson :=
  match operator with
  | "neg" => mk [("host", pynumToJson (opNegH a)), ("abstract", ratToJson (-a.abs))]
  | "add" => mk [("host", pynumToJson (opAddH id a b)), ("abstract", ratToJson (opAddA id a.abs b.abs))]
  | "sub" => mk [("host", pynumToJson (opSubH id a b)), ("abstract", ratToJson (opSubA id a.abs b.abs))]
  | "div" => mk [("host", optJson (fun q => pynumToJson (.float q)) (opDivH id a b)), ("abstract", optJson ratToJson (opDivA id a.abs b.abs))]
  | "mod" => mk [("host", optJson pynumToJson (opModH id a b)), ("abstract", optJson ratToJson (opModA id a.abs b.abs))]
  | o => mk [("bad", .str ("unknown operator " ++ o))]

def pairsToJson (l : List (AVal × AVal)) : PJson :=
  PJson.arr (l.map (fun p => PJson.arr [avalToJsonX p.1, avalToJsonX p.2]))

def handleC12X (j : PJson) : PJson :=
  match j.strD "op" with
  | "h2_call" =>
      let name := j.strD "fn"
      if !(modelled2.contains name) then mk [("unmodelled", .str name)] else
      match (j.arrD "args").mapM hvalOfJsonX with
      | some args =>
        mk [("host", outToJsonX (absOut (callH2 tagEnv name args))),
            ("abstract", outToJsonX (callA2 tagEnv name (args.map absV)))]
      | none => mk [("bad", .str "call arguments")]
  | "h2_op" =>
      match pynumOfJson (j.getD "a"), pynumOfJson (j.getD "b") with
      | some a, some b => handleOp (j.strD "operator") a b
      | _, _ => mk [("bad", .str "operands")]
  | "h2_for" =>
      match pynumOfJson (j.getD "zero"), pynumOfJson (j.getD "one"), hvalOfJsonX (j.getD "values") with
      | some z, some o, some vs =>
        mk [("host", pairsToJson ((forLoopH id z o vs).map (fun p => (absV p.1, absV p.2)))),
            ("abstract", pairsToJson (forLoopA id z.abs o.abs (absV vs)))]
      | _, _, _ => mk [("bad", .str "for arguments")]
  | op => mk [("bad", .str ("unknown op " ++ op))]

def main : IO Unit := Proto.run handleC12X
