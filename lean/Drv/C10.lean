import BareModel.Proto
import BareModel.Text
import BareModel.Scan
import BareModel.ErrorMsg
import BareModel.SyntaxJson
import BareModel.ExprParse

/-! Driver for C10 (and the C06 pieces delivered with it): ops `lines`, `classify`, `errmsg`, `charclass`. -/

open PJson Text Scan Syntax

def strOf (cs : Chars) : PJson := .str (String.ofList cs)

def llToJson (r : LLOut) : List (String × PJson) :=
  [("lines", .arr (r.1.map fun x => .arr [.num x.1, strOf x.2])),
   ("error", match r.2 with
     | none => .null
     | some d =>
       let e := LineErr.ofDangling d
       mk [("error", .str e.error), ("line", .str e.line), ("column", .num e.column), ("ixLine", .num e.ixLine)])]

def offExpr (off : Nat) (e : Chars) : List (String × PJson) := [("off", .num off), ("expr", strOf e)]

def shapeToJson : Shape → PJson
  | .assign n off e => mk ([("kind", .str "assign"), ("name", strOf n)] ++ offExpr off e)
  | .funcBegin n args laa isAsync =>
      mk [("kind", .str "function"), ("name", strOf n), ("args", .arr (args.map strOf)), ("lastArgArray", .bool laa),
          ("async", .bool isAsync)]
  | .funcEnd => mk [("kind", .str "endfunction")]
  | .ifBegin off e => mk ([("kind", .str "if")] ++ offExpr off e)
  | .elif off e => mk ([("kind", .str "elif")] ++ offExpr off e)
  | .else_ => mk [("kind", .str "else")]
  | .endif => mk [("kind", .str "endif")]
  | .whileBegin off e => mk ([("kind", .str "while")] ++ offExpr off e)
  | .endwhile => mk [("kind", .str "endwhile")]
  | .forBegin v i off e =>
      mk ([("kind", .str "for"), ("value", strOf v), ("index", ofOpt strOf i)] ++ offExpr off e)
  | .endfor => mk [("kind", .str "endfor")]
  | .break_ => mk [("kind", .str "break")]
  | .continue_ => mk [("kind", .str "continue")]
  | .label n => mk [("kind", .str "label"), ("name", strOf n)]
  | .jump n none => mk [("kind", .str "jump"), ("name", strOf n)]
  | .jump n (some (off, e)) => mk ([("kind", .str "jump"), ("name", strOf n)] ++ offExpr off e)
  | .ret none => mk [("kind", .str "return")]
  | .ret (some (off, e)) => mk ([("kind", .str "return")] ++ offExpr off e)
  | .include url sys => mk [("kind", .str "include"), ("url", strOf url), ("system", .bool sys)]
  | .exprStmt => mk [("kind", .str "expr")]

def nm (n : Name) : PJson := .str n.render

/-- `Line` with parsed expressions (`Scan.classify ExprParse.parseExpr`) -/
def lineToJson : Line → PJson
  | .assign n e => mk [("kind", .str "assign"), ("name", nm n), ("expr", exprToJson e)]
  | .funcBegin n args laa isAsync =>
      mk [("kind", .str "function"), ("name", nm n), ("args", .arr (args.map nm)), ("lastArgArray", .bool laa),
          ("async", .bool isAsync)]
  | .funcEnd => mk [("kind", .str "endfunction")]
  | .ifBegin c => mk [("kind", .str "if"), ("expr", exprToJson c)]
  | .elif c => mk [("kind", .str "elif"), ("expr", exprToJson c)]
  | .else_ => mk [("kind", .str "else")]
  | .endif => mk [("kind", .str "endif")]
  | .whileBegin c => mk [("kind", .str "while"), ("expr", exprToJson c)]
  | .endwhile => mk [("kind", .str "endwhile")]
  | .forBegin v i e => mk [("kind", .str "for"), ("value", nm v), ("index", ofOpt nm i), ("expr", exprToJson e)]
  | .endfor => mk [("kind", .str "endfor")]
  | .break_ => mk [("kind", .str "break")]
  | .continue_ => mk [("kind", .str "continue")]
  | .label n => mk [("kind", .str "label"), ("name", nm n)]
  | .jump n none => mk [("kind", .str "jump"), ("name", nm n)]
  | .jump n (some c) => mk [("kind", .str "jump"), ("name", nm n), ("expr", exprToJson c)]
  | .ret none => mk [("kind", .str "return")]
  | .ret (some e) => mk [("kind", .str "return"), ("expr", exprToJson e)]
  | .include url sys => mk [("kind", .str "include"), ("url", .str url), ("system", .bool sys)]
  | .exprStmt e => mk [("kind", .str "expr"), ("expr", exprToJson e)]

/-- maximal ranges of code points in `[lo, hi)` satisfying `p` (surrogates excluded) -/
def cpRanges (p : Char → Bool) (lo hi : Nat) : List PJson := Id.run do
  let mut out : Array PJson := #[]
  let mut start : Option Nat := none
  for n in [lo:hi] do
    let ok := !(0xd800 ≤ n && n < 0xe000) && p (Char.ofNat n)
    match start, ok with
    | none, true => start := some n
    | some s, false => out := out.push (.arr [.num s, .num (n - 1)]); start := none
    | _, _ => pure ()
  if let some s := start then out := out.push (.arr [.num s, .num (hi - 1)])
  return out.toList

def handleC10 (j : PJson) : PJson :=
  match j.strD "op" with
  | "lines" =>
      let chunks := (j.arrD "chunks").filterMap asStr?
      let phys := splitChunksL (chunks.map String.toList)
      let m := logicalLinesL phys
      let s := logicalLinesSpecL phys
      mk ([("phys", .arr (phys.map strOf))] ++ llToJson m ++ [("specAgrees", .bool (m == s))])
  | "classify" => shapeToJson (shape (j.strD "line").toList)
  | "classifyFull" =>
      match Scan.classify ExprParse.parseExpr (j.strD "line") with
      | .ok l => lineToJson l
      | .error e => mk [("error", .str e.error), ("column", .num e.column)]
  | "errmsg" =>
      let f := ErrorMsg.format (j.strD "error") (j.strD "line") (j.intD "column" 1)
        ((j.get? "lineNumber").bind asInt?) ((j.get? "prefix").bind asStr?)
      mk [("displayed", .str f.displayedLine), ("caret", .num f.caretColumn), ("message", .str f.message)]
  | "charclass" =>
      let lo := j.natD "lo"; let hi := j.natD "hi"
      mk [("space", .arr (cpRanges isSpace lo hi)), ("word", .arr (cpRanges isWord lo hi)),
          ("idstart", .arr (cpRanges isIdStart lo hi))]
  | op => mk [("bad", .str ("unknown op " ++ op))]

def main : IO Unit := Proto.run handleC10
