import BareModel.Proto
import BareModel.Datetime

/-! Driver of property C16 (datetime construction, arithmetic, ISO text). Integers only on the wire. -/

open PJson Datetime

namespace DrvC16

def dtToJson (t : DT) : PJson :=
  .arr [.num t.year, .num t.month, .num t.day, .num t.hour, .num t.minute, .num t.second, .num t.ms]

def optDt : Option DT → PJson
  | some t => dtToJson t
  | none => .null

def ints (j : PJson) (k : String) : Option (List Int) := (j.arrD k).mapM asInt?

def dtOf (j : PJson) (k : String) : Option DT :=
  match ints j k with
  | some [y, mo, d, h, mi, s, ms] => some ⟨y, mo, d, h, mi, s, ms⟩
  | _ => none

def bad (msg : String) : PJson := mk [("bad", .str msg)]

def handle (j : PJson) : PJson :=
  match j.strD "op" with
  | "new" =>
    match ints j "args" with
    | some [y, mo, d, h, mi, s, ms] =>
      let spec := if yearGte ≤ y ∧ dayGte ≤ d ∧ d ≤ dayLte then datetimeNewSpec y mo d h mi s ms else none
      mk [("dt", optDt (datetimeNew y mo d h mi s ms)), ("spec", optDt spec)]
    | _ => bad "new: args"
  | "core" =>
    match ints j "args" with
    | some [y, mo, d, h, mi, s, ms] => mk [("dt", optDt (datetimeNewCore y mo d h mi s ms))]
    | _ => bad "core: args"
  | "ord" =>
    match ints j "ymd" with
    | some [y, m, d] => mk [("ord", .num (ymd2ord y m d))]
    | _ => bad "ord: ymd"
  | "fromord" =>
    let (y, m, d) := ord2ymd (j.intD "ord")
    mk [("ymd", .arr [.num y, .num m, .num d])]
  | "add" =>
    match dtOf j "dt" with
    | some t =>
      match addMs t (j.intD "n") with
      | some t' => mk [("dt", dtToJson t'), ("diff", .num (subMs t' t)), ("ms", .num (toLocalMs t))]
      | none => mk [("dt", .null), ("diff", .null), ("ms", .num (toLocalMs t))]
    | none => bad "add: dt"
  | "sub" =>
    match dtOf j "a", dtOf j "b" with
    | some a, some b => mk [("diff", .num (subMs a b))]
    | _, _ => bad "sub: a/b"
  | "isoFormat" =>
    match dtOf j "dt" with
    | some t => mk [("text", .str (String.ofList (isoFormatUs (j.intD "off") t (j.intD "us")))),
                    ("date", .str (String.ofList (isoFormatDate t)))]
    | none => bad "isoFormat: dt"
  | "isoParse" =>
    let off := j.intD "off"
    mk [("dt", optDt (isoParse (fun _ => off) (j.strD "text").toList))]
  | op => bad ("unknown op " ++ op)

end DrvC16

def main : IO Unit := Proto.run DrvC16.handle
