import BareModel.Proto
import BareModel.Scan
import BareModel.RxPatterns

/-!
Driver for the C06 extension "the parser's regular expressions as data" (`BareModel.Rx`, `BareModel.RxPatterns`).

ops
* `{"op":"match","pattern":"parser._R_SCRIPT_LABEL","text":s}` → `{"m":false}` | `{"m":true,"start":0,"end":n,"groups":[[a,b] | null, …]}`
  (`Rx.matchAt` on the AST of that pattern; groups 1..n as `match.span(i)`, `null` = did not participate)
* `{"op":"search", …}` the same with `Rx.search` (`re.search`)
* `{"op":"source","pattern":name}` → `{"source":s}` (`Rx.render`)
* `{"op":"classes","lo":a,"hi":b}` → `{"digit":[[lo,hi],…],"dot":…}` maximal code-point runs of `\d`
* `{"op":"scan","scanner":name,"text":line}` → the result of the hand-written scanner of `Scan` / `Text` for that pattern on the
  line (`Scan.shape` strips the indentation and re-bases the offsets: the same is done here), `null` = no match
* `{"op":"rxscan","scanner":name,"text":line}` → the same result computed from `Rx.matchAt` on the pattern's AST and the reading of
  its groups (`RxPatterns.rx…`) — the right-hand sides of the theorems of `BareProofs/C06Regex.lean`
-/

open PJson Text Scan Rx RxPatterns

def strOfX (cs : Chars) : PJson := .str (String.ofList cs)

def offExprX (off : Nat) (e : Chars) : List (String × PJson) := [("off", .num off), ("expr", strOfX e)]

def shapeToJsonX : Shape → PJson
  | .assign n off e => mk ([("kind", .str "assign"), ("name", strOfX n)] ++ offExprX off e)
  | .funcBegin n args laa isAsync =>
      mk [("kind", .str "function"), ("name", strOfX n), ("args", .arr (args.map strOfX)), ("lastArgArray", .bool laa),
          ("async", .bool isAsync)]
  | .funcEnd => mk [("kind", .str "endfunction")]
  | .ifBegin off e => mk ([("kind", .str "if")] ++ offExprX off e)
  | .elif off e => mk ([("kind", .str "elif")] ++ offExprX off e)
  | .else_ => mk [("kind", .str "else")]
  | .endif => mk [("kind", .str "endif")]
  | .whileBegin off e => mk ([("kind", .str "while")] ++ offExprX off e)
  | .endwhile => mk [("kind", .str "endwhile")]
  | .forBegin v i off e =>
      mk ([("kind", .str "for"), ("value", strOfX v), ("index", ofOpt strOfX i)] ++ offExprX off e)
  | .endfor => mk [("kind", .str "endfor")]
  | .break_ => mk [("kind", .str "break")]
  | .continue_ => mk [("kind", .str "continue")]
  | .label n => mk [("kind", .str "label"), ("name", strOfX n)]
  | .jump n none => mk [("kind", .str "jump"), ("name", strOfX n)]
  | .jump n (some (off, e)) => mk ([("kind", .str "jump"), ("name", strOfX n)] ++ offExprX off e)
  | .ret none => mk [("kind", .str "return")]
  | .ret (some (off, e)) => mk ([("kind", .str "return")] ++ offExprX off e)
  | .include url sys => mk [("kind", .str "include"), ("url", strOfX url), ("system", .bool sys)]
  | .exprStmt => mk [("kind", .str "expr")]

def matchToJson (r : Rx) (start : Nat) : Option St → PJson
  | none => mk [("m", .bool false)]
  | some st =>
    mk [("m", .bool true), ("start", .num start), ("end", .num st.pos),
        ("groups", .arr (r.groups.map fun i => match st.span i with
          | some (a, b) => .arr [.num a, .num b]
          | none => .null))]

/-- maximal ranges of code points in `[lo, hi)` satisfying `p` (surrogates excluded) -/
def cpRangesX (p : Char → Bool) (lo hi : Nat) : List PJson := Id.run do
  let mut out : Array PJson := #[]
  let mut start : Option Nat := none
  for n in [lo:hi] do
    let ok := !(0xd800 ≤ n && n < 0xe000) && p (Char.ofNat n)
    match start, ok with
    | none, true => start := some n
    | some s, false => out := out.push (.arr [.num s, .num (n - 1)]); start := none
    | _, _ => pure ()
  if let some s := start then out := out.push (.arr [.num s, .num (hi - 1)])
  return out.toList

def optShape (o : Option Shape) : PJson := ofOpt shapeToJsonX o

/-- the hand-written scanner as `Scan.shape` uses it: on the stripped line, offsets re-based -/
def onLine (f : Chars → Option Shape) (line : Chars) : Option Shape :=
  let s := lstripL line
  (f s).map (Shape.shift (line.length - s.length))

def scanBy (name : String) (line : Chars) : PJson :=
  match name with
  | "assign" => optShape (onLine assign? line)
  | "function" => optShape (onLine funcBegin? line)
  | "endfunction" => optShape (onLine (kwOnly? "endfunction" .funcEnd) line)
  | "if" => optShape (onLine (kwExprColon? "if" .ifBegin) line)
  | "elif" => optShape (onLine (kwExprColon? "elif" .elif) line)
  | "else" => optShape (onLine else? line)
  | "endif" => optShape (onLine (kwOnly? "endif" .endif) line)
  | "while" => optShape (onLine (kwExprColon? "while" .whileBegin) line)
  | "endwhile" => optShape (onLine (kwOnly? "endwhile" .endwhile) line)
  | "for" => optShape (onLine for? line)
  | "endfor" => optShape (onLine (kwOnly? "endfor" .endfor) line)
  | "break" => optShape (onLine (kwOnly? "break" .break_) line)
  | "continue" => optShape (onLine (kwOnly? "continue" .continue_) line)
  | "label" => optShape (onLine label? line)
  | "jump" => optShape (onLine jump? line)
  | "return" => optShape (onLine return? line)
  | "include" => optShape (onLine include? line)
  | "shape" => shapeToJsonX (shape line)
  | "comment" => .bool (isCommentL line)
  | "continuation" => ofOpt strOfX (contBody? line)
  | _ => mk [("bad", .str ("unknown scanner " ++ name))]

def rxScanBy (name : String) (line : Chars) : PJson :=
  match name with
  | "assign" => optShape (rxAssign line)
  | "endfunction" => optShape (rxKwOnly "endfunction" .funcEnd line)
  | "if" => optShape (rxKwExprColon "if" .ifBegin line)
  | "elif" => optShape (rxKwExprColon "elif" .elif line)
  | "else" => optShape (rxElse line)
  | "endif" => optShape (rxKwOnly "endif" .endif line)
  | "while" => optShape (rxKwExprColon "while" .whileBegin line)
  | "endwhile" => optShape (rxKwOnly "endwhile" .endwhile line)
  | "for" => optShape (rxFor line)
  | "endfor" => optShape (rxKwOnly "endfor" .endfor line)
  | "break" => optShape (rxKwOnly "break" .break_ line)
  | "continue" => optShape (rxKwOnly "continue" .continue_ line)
  | "label" => optShape (rxLabel line)
  | "jump" => optShape (rxJump line)
  | "return" => optShape (rxReturn line)
  | "include" => optShape (rxInclude line)
  | "function" => optShape (rxFunction line)
  | "shape" => shapeToJsonX (rxShape line)
  | "comment" => .bool (rxComment line)
  | "continuation" => ofOpt strOfX (rxContBody line)
  | _ => mk [("bad", .str ("unknown scanner " ++ name))]

def handleC06X (j : PJson) : PJson :=
  match j.strD "op" with
  | "match" =>
      match patterns.lookup (j.strD "pattern") with
      | some r => matchToJson r 0 (matchAt r (j.strD "text").toList)
      | none => mk [("bad", .str "unknown pattern")]
  | "search" =>
      match patterns.lookup (j.strD "pattern") with
      | some r =>
        match search r (j.strD "text").toList with
        | some (p, st) => matchToJson r p (some st)
        | none => matchToJson r 0 none
      | none => mk [("bad", .str "unknown pattern")]
  | "source" =>
      match patterns.lookup (j.strD "pattern") with
      | some r => mk [("source", .str r.source)]
      | none => mk [("bad", .str "unknown pattern")]
  | "classes" =>
      let lo := j.natD "lo"; let hi := j.natD "hi"
      mk [("digit", .arr (cpRangesX (Atom.test .digit) lo hi)), ("nspace", .arr (cpRangesX (Atom.test .nspace) lo hi)),
          ("dot", .arr (cpRangesX (Atom.test .dot) lo hi))]
  | "scan" => scanBy (j.strD "scanner") (j.strD "text").toList
  | "rxscan" => rxScanBy (j.strD "scanner") (j.strD "text").toList
  | op => mk [("bad", .str ("unknown op " ++ op))]

def main : IO Unit := Proto.run handleC06X
