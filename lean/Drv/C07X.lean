import BareModel.Proto
import BareModel.SyntaxJson
import BareModel.Schema

/-!
Driver of the C07 extension (BareModel/Schema.lean, BareProofs/C07Schema.lean).

* `schema_validate` `{"type": name, "json": <any JSON>}` → `{"valid": bool, "copy": <validated copy> | null}`
  = `schema_markdown.validate_type(BARE_SCRIPT_TYPES, name, json)` (any exception → `valid = false`).  The document is sent as it is
  (`json.dumps`): Python ints arrive as `num`, Python floats (JSON float literals) as `raw`; numbers in `copy` are `[num, den]`.
* `schema_script` `{"script": <model JSON, numbers as [num, den]>}` →
  `{"valid": bool, "roundtrip": scriptJ (readScript script) | null, "twin": bool, "copyOk": bool}`:
  `roundtrip` is the JSON the boundary writes for the statement list the validated copy reads as (equal, as a Python dict, to the
  `progen.canon_script(model, with_fid=False)` that was sent, for every `parse_script` output); `twin` says that the structurally
  recursive `Schema.scriptJ` and the harness-only `Syntax.scriptToJson` wrote the same text for it; `copyOk` that the validated copy of
  the round trip is `scriptW` of it and equals the validated copy of the input up to defaulted optional members (the statement of
  `C07Schema.valid_is_representable`, re-checked by evaluation).
-/

open PJson Schema

def handleC07X (j : PJson) : PJson :=
  match j.strD "op" with
  | "schema_validate" =>
      match j.get? "json" with
      | some doc =>
          match validate Gen.schema (j.strD "type") doc with
          | some c => mk [("valid", .bool true), ("copy", c)]
          | none => mk [("valid", .bool false), ("copy", .null)]
      | none => mk [("bad", .str "schema_validate request")]
  | "schema_script" =>
      match j.get? "script" with
      | some doc =>
          match validate Gen.schema "BareScript" doc, readScript Gen.schema doc with
          | some c, some P =>
              let rt := scriptJ P
              mk [("valid", .bool true), ("roundtrip", rt),
                  ("twin", .bool ((Syntax.scriptToJson P).render == rt.render)),
                  ("copyOk", .bool (validate Gen.schema "BareScript" rt == some (scriptW P) && dropD (scriptW P) == dropD c)),
                  ("statements", .num (P.length : Nat))]
          | some _, none => mk [("valid", .bool true), ("roundtrip", .null), ("twin", .bool false), ("copyOk", .bool false)]
          | none, _ => mk [("valid", .bool false), ("roundtrip", .null), ("twin", .bool false), ("copyOk", .bool false)]
      | none => mk [("bad", .str "schema_script request")]
  | op => mk [("bad", .str ("unknown op " ++ op))]

def main : IO Unit := Proto.run handleC07X
