import BareModel.Proto
import BareModel.NumText

/-!
Driver for C13 (numbers as text).  Ops:

* `strip`      {text}                → {text}                      `stripDotZeros`
* `isRepr`     {text}                → {ok}                        `IsRepr`
* `valueString`{int | repr}          → {text}                      `valueStringNum`
* `decVal`     {text}                → {value: [num, den] | null}  `decVal`
* `literal`    {text}                → {match: null | {consumed, value: [num, den]} | "floatRaises"}
* `parseFloat` {text}                → {value: [num, den] | null}  `numberParseFloat`
* `parseInt`   {text, radix: [n, d], maxDigits} → {hex: "-?hexdigits" | null}  `numberParseInt`
* `tables`     {}                    → the character tables of the model (compared with `unicodedata` / `str.isspace` by the harness)

Harness-only guard (not part of the model): an exponent beyond 2200 would make the exact rational `10 ^ exponent` too large for
the JSON number parser of the harness (int/str digit limit); such requests are answered `{"skip": ...}` and not compared.
-/

open PJson NumText

def ratJson (q : Rat) : PJson := .arr [.num q.num, .num (q.den : Int)]

/-- largest number written directly after an exponent marker (optionally signed; digit-group underscores ignored) -/
def maxExponent : List Char → Nat
  | [] => 0
  | c :: cs =>
    let here :=
      if c == 'e' || c == 'E' then
        let r := match cs with
          | s :: r => if s == '+' || s == '-' then r else cs
          | [] => []
        natOf ((r.takeWhile (fun d => isDig d || d == '_')).filter isDig)
      else 0
    max here (maxExponent cs)

def tooBig (s : String) : Bool := maxExponent s.toList > 2200

def skip : PJson := mk [("skip", .str "exponent beyond 2200: too large for the exact-rational wire format")]

def ratOfJson (j : PJson) : Option Rat :=
  match j with
  | .arr [.num n, .num d] => if 0 < d then some (mkRat n d.toNat) else none
  | .num n => some (n : Rat)
  | _ => none

/-- integers go back in hexadecimal: Python's `int(text, 16)` has no digit limit, the JSON number parser has -/
def hexOfInt (n : Int) : String :=
  (if n < 0 then "-" else "") ++ String.ofList (Nat.toDigits 16 n.natAbs)

def handleC13 (j : PJson) : PJson :=
  let text := j.strD "text"
  match j.strD "op" with
  | "strip" => mk [("text", .str (stripDotZeros text))]
  | "isRepr" => mk [("ok", .bool (decide (IsRepr text)))]
  | "valueString" =>
      match j.get? "int" with
      | some (.num n) => mk [("text", .str (valueStringNum (.int n)))]
      | _ => mk [("text", .str (valueStringNum (.float (j.strD "repr"))))]
  | "decVal" => if tooBig text then skip else mk [("value", ofOpt ratJson (decVal text))]
  | "literal" =>
      if tooBig text then skip else
      match literal text with
      | .noMatch => mk [("match", .null)]
      | .number n q => mk [("match", mk [("consumed", .num n), ("value", ratJson q)])]
      | .floatRaises => mk [("match", .str "floatRaises")]
  | "parseFloat" => if tooBig text then skip else mk [("value", ofOpt ratJson (numberParseFloat text))]
  | "parseInt" =>
      match (j.get? "radix").bind ratOfJson with
      | some r => mk [("hex", ofOpt (fun n => .str (hexOfInt n)) (numberParseInt (j.natD "maxDigits" 4300) text r))]
      | none => mk [("bad", .str "radix")]
  | "tables" =>
      mk [("uniZeros", .arr (uniZeros.map (fun (z : Nat) => .num (z : Int)))),
          ("reSpaces", .arr (((List.range 0x3100).filter (fun n => isReSpace (Char.ofNat n))).map (fun (n : Nat) => .num (n : Int)))),
          ("pySpaces", .arr (((List.range 0x100).filter (fun n => isPySpace (Char.ofNat n))).map (fun (n : Nat) => .num (n : Int)))),
          ("overflowBound", .num overflowBound.num),
          ("digits", .arr (((List.range 0x80).filter (fun n => isDig (Char.ofNat n))).map (fun (n : Nat) => .num (n : Int))))]
  | op => mk [("bad", .str ("unknown op " ++ op))]

def main : IO Unit := Proto.run handleC13
