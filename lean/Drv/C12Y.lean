import BareModel.Proto
import BareModel.LibH3

/-! Driver for the C12 history extension (`LibH3`): runs a HISTORY of library calls and operator applications at host level from a pool
    given with explicit spellings and returns the pool after every step WITH the spelling of every number.

    Wire values (both directions): null | bool | `{"i": n}` host int | `{"f": [num, den]}` host float | `{"s": ..}` | `{"a": [..]}` |
    `{"o": [[k, v], ..]}` (insertion order) | `{"k": [kind, id]}` (datetime: id = ms since 0001-01-01 local time).

    Unlike `drv_c12x` the abstract host functions are CONCRETE here, because texts and rounded numbers flow into later steps:
    `rnd` = round-to-nearest-even to a binary64 (no overflow handling: the generators stay far below 1e300), `floatText` = the shortest
    round-trip decimal (`repr`) for 1e-4 ≤ |x| < 1e16, where no exponent form is due,
    `jsonText` = `Json.specEncode` (the C14 spec encoder), `fixedText` = correctly rounded (half-even on the exact value) fixed notation,
    `cleanup` = `NumText.stripDotZeros`.  Where a text is outside that class the text carries the marker `⟦` and the harness stops
    comparing that history at that step.

    op `hist`: `{"pool": [...], "steps": [{"k": "call", "fn": .., "args": [i, ..]} | {"k": "bin", "op": .., "a": i, "b": j} |
    {"k": "un", "op": .., "a": i}]}` → `{"pools": [[...] per step], "ok": [..], "modelled": [..]}`;
    op `rnd`: `{"q": [num, den]}` → the rounded value (used to tie the rounding function itself to `float(Fraction)`). -/

open PJson LibH LibH2 LibH3

partial def hvalOfJsonY (j : PJson) : Option HVal :=
  match j with
  | PJson.null => some Val.null
  | PJson.bool b => some (Val.bool b)
  | PJson.obj [("i", PJson.num n)] => some (Val.num (PyNum.int n))
  | PJson.obj [("f", PJson.arr [PJson.num n, PJson.num d])] => some (Val.num (PyNum.float (mkRat n d.toNat)))
  | PJson.obj [("s", PJson.str s)] => some (Val.str s)
  | PJson.obj [("a", PJson.arr xs)] => (xs.mapM hvalOfJsonY).map Val.arr
  | PJson.obj [("o", PJson.arr kvs)] =>
      (kvs.mapM (fun p => match p with
        | PJson.arr [PJson.str k, v] => (hvalOfJsonY v).map (fun v' => (k, v'))
        | _ => none)).map Val.obj
  | PJson.obj [("k", PJson.arr [PJson.str k, PJson.num i])] => some (Val.opaque k i)
  | _ => none

partial def hvalToJsonY : HVal → PJson
  | Val.null => PJson.null
  | Val.bool b => PJson.bool b
  | Val.num (.int n) => mk [("i", PJson.num n)]
  | Val.num (.float q) => mk [("f", PJson.arr [PJson.num q.num, PJson.num q.den])]
  | Val.str s => mk [("s", PJson.str s)]
  | Val.arr xs => mk [("a", PJson.arr (xs.map hvalToJsonY))]
  | Val.obj kvs => mk [("o", PJson.arr (kvs.map (fun (k, v) => PJson.arr [PJson.str k, hvalToJsonY v])))]
  | Val.opaque k i => mk [("k", PJson.arr [PJson.str k, PJson.num i])]

/-! ### the concrete host functions -/

def pow2 (e : Nat) : Rat := ((2 ^ e : Nat) : Rat)

def scale2 (a : Rat) (e : Int) : Rat := if 0 ≤ e then a / pow2 e.toNat else a * pow2 (-e).toNat

/-- round to the nearest binary64, ties to even (subnormals included; no overflow to infinity) -/
def rndDouble (q : Rat) : Rat :=
  if q == 0 then 0 else
  let a : Rat := if q < 0 then -q else q
  let e0 : Int := (Nat.log2 a.num.natAbs : Int) - (Nat.log2 a.den : Int) - 52
  let e1 : Int := if scale2 a e0 < pow2 52 then e0 - 1 else if pow2 53 ≤ scale2 a e0 then e0 + 1 else e0
  let e : Int := if e1 < -1074 then -1074 else e1
  let m : Rat := scale2 a e
  let f : Int := m.floor
  let rem : Rat := m - (f : Rat)
  let r : Int := if rem < 1 / 2 then f else if 1 / 2 < rem then f + 1 else if f % 2 == 0 then f else f + 1
  let v : Rat := if 0 ≤ e then (r : Rat) * pow2 e.toNat else (r : Rat) / pow2 (-e).toNat
  if q < 0 then -v else v

def marker (s : String) : String := "⟦" ++ s ++ "⟧"

/-- least `k ≤ fuel` with `q * 10^k` integral -/
def decPlaces (q : Rat) : Nat → Nat → Option Nat
  | 0, _ => none
  | f + 1, k => if (q * ((10 ^ k : Nat) : Rat)).den == 1 then some k else decPlaces q f (k + 1)

def padLeft (n : Nat) (s : String) : String := String.ofList (List.replicate (n - s.length) '0') ++ s

/-- plain decimal text of a non-negative rational with exactly `k` fraction digits (`q * 10^k` integral) -/
def plainDec (a : Rat) (k : Nat) : String :=
  let n : Nat := (a * ((10 ^ k : Nat) : Rat)).num.natAbs
  if k == 0 then toString n else toString (n / 10 ^ k) ++ "." ++ padLeft k (toString (n % 10 ^ k))

/-- `10^p ≤ a < 10^(p+1)` for `1e-4 ≤ a < 1e16` -/
def exp10 (a : Rat) : Int :=
  ((List.range 20).map (fun (i : Nat) => (i : Int) - 4)).foldl
    (fun acc p => if (if 0 ≤ p then ((10 ^ p.toNat : Nat) : Rat) else 1 / ((10 ^ (-p).toNat : Nat) : Rat)) ≤ a then p else acc) (-4)

/-- `a` rounded (half-even) to `n` significant digits -/
def roundSig (a : Rat) (n : Nat) : Rat :=
  let s : Int := (n : Int) - 1 - exp10 a
  let sc : Rat := if 0 ≤ s then ((10 ^ s.toNat : Nat) : Rat) else 1 / ((10 ^ (-s).toNat : Nat) : Rat)
  let m : Rat := a * sc
  let f : Int := m.floor
  let rem : Rat := m - (f : Rat)
  let r : Int := if rem < 1 / 2 then f else if 1 / 2 < rem then f + 1 else if f % 2 == 0 then f else f + 1
  (r : Rat) / sc

/-- the shortest decimal (at most 17 significant digits) that rounds to the double `a` -/
def shortest (a : Rat) : Nat → Nat → Option Rat
  | 0, _ => none
  | f + 1, n => if rndDouble (roundSig a n) == a then some (roundSig a n) else shortest a f (n + 1)

/-- `R_NUMBER_CLEANUP.sub('', repr(x))` for a double `x = q` with `1e-4 ≤ |x| < 1e16` (no exponent form): the shortest decimal
    that round-trips, found by rounding to 1, 2, … 17 significant digits; `none` outside that range -/
def floatText? (q : Rat) : Option String :=
  let a : Rat := if q < 0 then -q else q
  let sign := if q < 0 then "-" else ""
  if q.den == 1 then (if a < ((10 ^ 16 : Nat) : Rat) then some (toString q.num) else none)
  else if a < 1 / 10000 then none
  else if ((10 ^ 16 : Nat) : Rat) ≤ a then none
  else match shortest a 17 1 with
    | none => none
    | some c =>
      match decPlaces c 40 0 with
      | none => none
      | some k => some (sign ++ plainDec c k)

def floatTextY (q : Rat) : String :=
  match floatText? q with
  | some s => s
  | none => marker ("F:" ++ toString q.num ++ "/" ++ toString q.den)

mutual
partial def toJ : AVal → Option Json.JValue
  | .null => some .null
  | .bool b => some (.bool b)
  | .num q =>
    if q.den == 1 then
      (if (if q < 0 then -q else q) < ((10 ^ 16 : Nat) : Rat) then some (.num (.int q.num)) else none)
    else (floatText? q).map (fun s => .num (.dec s.toList))
  | .str s => some (.str s.toList)
  | .arr xs => (xs.mapM toJ).map .arr
  | .obj kvs => (kvs.mapM (fun (p : String × AVal) => (toJ p.2).map (fun j => (p.1.toList, j)))).map .obj
  | .opaque _ _ => none
end

def jsonTextY (v : AVal) (indent : Option Int) : String :=
  match toJ v with
  | some j => String.ofList (Json.specEncode j (match indent with | some k => k.toNat | none => 0))
  | none => marker "J"

/-- `f'{x:.{d}f}'`: the exact value rounded half-even to `d` decimals -/
def fixedTextY (x : Rat) (d : Int) : String :=
  if d < 0 then marker "X" else
  let k := d.toNat
  let a : Rat := if x < 0 then -x else x
  let m : Rat := a * ((10 ^ k : Nat) : Rat)
  let f : Int := m.floor
  let rem : Rat := m - (f : Rat)
  let r : Int := if rem < 1 / 2 then f else if 1 / 2 < rem then f + 1 else if f % 2 == 0 then f else f + 1
  (if x < 0 then "-" else "") ++ plainDec ((r : Rat) / ((10 ^ k : Nat) : Rat)) k

def realEnv : Env where
  rnd := rndDouble
  floatText := floatTextY
  jsonText := jsonTextY
  fixedText := fixedTextY
  opaqueText := fun k i => marker ("O:" ++ k ++ ":" ++ toString i)
  cleanup := NumText.stripDotZeros

/-! ### requests -/

def binOpOf : String → Option BinOp
  | "add" => some .add | "sub" => some .sub | "mul" => some .mul | "div" => some .div | "mod" => some .mod
  | "eq" => some .eq | "ne" => some .ne | "lt" => some .lt | "le" => some .le | "gt" => some .gt | "ge" => some .ge
  | "and" => some .and | "or" => some .or
  | _ => none

def unOpOf : String → Option UnOp
  | "neg" => some .neg | "not" => some .not
  | _ => none

def stepOfJson (j : PJson) : Option Step :=
  match j.strD "k" with
  | "call" => some (.call (j.strD "fn") ((j.arrD "args").map (fun a => (asNat? a).getD 0)))
  | "bin" => (binOpOf (j.strD "op")).map (fun op => .bin op (j.natD "a") (j.natD "b"))
  | "un" => (unOpOf (j.strD "op")).map (fun op => .un op (j.natD "a"))
  | _ => none

/-- the pools, the per-step hypothesis and the "modelled" flag along the host-level run -/
def runFlags (E : Env) : List Step → Pool PyNum → List (Pool PyNum × Bool × Bool)
  | [], _ => []
  | s :: r, p => (stepH E p s, stepOkB E p s, stepModelledB p s) :: runFlags E r (stepH E p s)

def handleC12Y (j : PJson) : PJson :=
  match j.strD "op" with
  | "hist" =>
      match (j.arrD "pool").mapM hvalOfJsonY, (j.arrD "steps").mapM stepOfJson with
      | some pool, some steps =>
        let tr := runFlags realEnv steps pool
        mk [("pools", PJson.arr (tr.map (fun t => PJson.arr (t.1.map hvalToJsonY)))),
            ("ok", PJson.arr (tr.map (fun t => PJson.bool t.2.1))),
            ("modelled", PJson.arr (tr.map (fun t => PJson.bool t.2.2)))]
      | _, _ => mk [("bad", .str "history")]
  | "rnd" =>
      match j.getD "q" with
      | PJson.arr [PJson.num n, PJson.num d] =>
        let r := rndDouble (mkRat n d.toNat)
        mk [("q", PJson.arr [PJson.num r.num, PJson.num r.den])]
      | _ => mk [("bad", .str "rnd")]
  | op => mk [("bad", .str ("unknown op " ++ op))]

def main : IO Unit := Proto.run handleC12Y
