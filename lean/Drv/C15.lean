import BareModel.Proto
import BareModel.Lib

/-!
Driver of C15. One op:

`{"op":"history","heap":[cell…],"env":[value…],"calls":[{"fn":name,"args":[arg…],"hint":value?}…]}`
→ `{"steps":[{"r":"ok"|"fail"|"unmodelled","v":value,"n":heap length,"d":[[index,cell]…]}…]}`

value: `null` | `true`/`false` | `{"n":[num,den]}` | `{"s":text}` | `{"dt":ms}` | `{"a":ref}` | `{"o":ref}` | `{"f":id}` | `{"re":id}`;
arg: `{"var":i}` (the i-th variable of the environment; every call appends its result) or a value;
cell: `{"arr":[value…]}` | `{"obj":[[key,value]…]}`; `d` lists the cells that differ from the heap before the call
(including the newly allocated ones). When the model answers `unmodelled` the variable is bound to `hint` (the value the
implementation produced, scalars only) so that the rest of the history stays in step.
-/

open PJson Lib

namespace DrvC15

def valToJson : Value → PJson
  | .null => .null
  | .bool b => .bool b
  | .num q => mk [("n", .arr [.num q.num, .num q.den])]
  | .str s => mk [("s", .str s)]
  | .dt ms => mk [("dt", .num ms)]
  | .arr r => mk [("a", .num r)]
  | .obj r => mk [("o", .num r)]
  | .fn i => mk [("f", .num i)]
  | .regex i => mk [("re", .num i)]

def valOfJson : PJson → Option Value
  | .null => some .null
  | .bool b => some (.bool b)
  | .obj [("n", .arr [.num n, .num d])] => if d > 0 then some (.num (mkRat n d.toNat)) else none
  | .obj [("s", .str s)] => some (.str s)
  | .obj [("dt", .num ms)] => some (.dt ms)
  | .obj [("a", .num r)] => some (.arr r.toNat)
  | .obj [("o", .num r)] => some (.obj r.toNat)
  | .obj [("f", .num r)] => some (.fn r.toNat)
  | .obj [("re", .num r)] => some (.regex r.toNat)
  | _ => none

def cellToJson : Cell → PJson
  | .arr xs => mk [("arr", .arr (xs.map valToJson))]
  | .obj kvs => mk [("obj", .arr (kvs.map fun (k, v) => .arr [.str k, valToJson v]))]

def cellOfJson : PJson → Option Cell
  | .obj [("arr", .arr xs)] => (xs.mapM valOfJson).map Cell.arr
  | .obj [("obj", .arr kvs)] =>
      (kvs.mapM fun (p : PJson) => match p with
        | PJson.arr [PJson.str k, v] => (valOfJson v).map fun v => (k, v)
        | _ => none).map Cell.obj
  | _ => none

def argOfJson : PJson → Option Arg
  | .obj [("var", .num i)] => some (.var i.toNat)
  | j => (valOfJson j).map .lit

def diffCells (old new : Heap) : List PJson :=
  (List.range new.length).filterMap fun (i : Nat) =>
    match new[i]? with
    | none => none
    | some c => if old[i]? == some c then none else some (PJson.arr [PJson.num i, cellToJson c])

def resTag : Res → String
  | .ok _ => "ok"
  | .fail _ => "fail"
  | .unmodelled => "unmodelled"

def runCalls : List PJson → St → List PJson → List PJson
  | [], _, acc => acc.reverse
  | c :: cs, s, acc =>
    match (c.arrD "args").mapM argOfJson with
    | none => (mk [("bad", .str "arg")] :: acc).reverse
    | some args =>
      let vals := args.map (evalArg s.env)
      let (r, h') := lib (c.strD "fn") vals s.heap
      let v := match r with
        | .unmodelled => ((c.get? "hint").bind valOfJson).getD .null
        | r => r.val
      let out := mk [("r", .str (resTag r)), ("v", valToJson v), ("n", .num h'.length), ("d", .arr (diffCells s.heap h'))]
      runCalls cs ⟨s.env ++ [v], h'⟩ (out :: acc)

def handle (j : PJson) : PJson :=
  match j.strD "op" with
  | "history" =>
    match (j.arrD "heap").mapM cellOfJson, (j.arrD "env").mapM valOfJson with
    | some heap, some env => mk [("steps", .arr (runCalls (j.arrD "calls") ⟨env, heap⟩ []))]
    | _, _ => mk [("bad", .str "history request")]
  | op => mk [("bad", .str ("unknown op " ++ op))]

end DrvC15

def main : IO Unit := Proto.run DrvC15.handle
