import Drv.ExecJson
import BareModel.HostPy

/-!
Driver for C05 (runtime errors are contained).

* op `exec`   — the jump machine of `BareModel.Machine` on a script model (as `drv_c01`), with the `debug` flag: a swallowed
                failure (`LibOut.fail`, a non-callable value) appends the line `<failure>` to the log when `debug`.
* op `wrapCall` — the call wrapper model `HostPy.wrapCall` on a callee outcome.
* op `binopPy` — the HOST-LEVEL operator model `HostPy.binopPy` / `binopSafe` (Python exceptions are values) with
                `HostPy.ieee` (correctly rounded binary64, zone UTC) on tagged operands over an optional heap.
-/

open PJson Syntax Machine HostImpl ExecJson

/-! ### exec -/

def failureMark : String := "<failure>"

def hostDbg (debug : Bool) : Host World :=
  { host with
    logFailure := fun w => { w with log := w.log ++ [failureMark] }
    notCallable := fun _ w => if debug then { w with log := w.log ++ [failureMark] } else w }

def runExecC05 (j : PJson) (P : List Stmt) : PJson :=
  match globalsOfJson (j.getD "globals") {} with
  | none => mk [("bad", .str "globals")]
  | some (g, w) =>
    let debug := j.boolD "debug"
    let cfg : Config World :=
      { host := hostDbg debug, funs := tableOf (collectFuns P), maxStatements := j.natD "max", debug := debug }
    let st : State World := { globals := injectLib g, world := w, count := 0 }
    resToJson (execute cfg (j.natD "fuel" 100000) P none st)

/-! ### binopPy -/

/-- ints travel as hexadecimal text (`hex(n)`): decimal text of more than 4300 digits is refused by CPython itself -/
def hexToInt (s : String) : Option Int :=
  let (neg, cs) := match s.toList with
    | '-' :: rest => (true, rest)
    | cs => (false, cs)
  match cs with
  | '0' :: 'x' :: ds =>
      if ds.isEmpty then none else
      (ds.foldlM (fun (acc : Nat) c => (PJson.hexVal c).map fun d => acc * 16 + d) 0).map fun n =>
        if neg then -(n : Int) else (n : Int)
  | _ => none

def intToHex (n : Int) : String :=
  (if n < 0 then "-" else "") ++ "0x" ++ String.ofList (Nat.toDigits 16 n.natAbs)

open HostPy in
def pyValOfJson (j : PJson) : Option PyVal :=
  match j with
  | .null => some .none
  | .obj [("ih", .str s)] => (hexToInt s).map .int
  | .obj [("b", .bool b)] => some (.bool b)
  | .obj [("i", .num n)] => some (.int n)
  | .obj [("f", .str "inf")] => some (.float (.inf false))
  | .obj [("f", .str "-inf")] => some (.float (.inf true))
  | .obj [("f", .str "nan")] => some (.float .nan)
  | .obj [("f", q)] => (ratOfJson q).map fun q => .float (.fin q)
  | .obj [("s", .str s)] => some (.str s)
  | .obj [("d", .arr [.str k, .num t])] =>
      (match k with | "date" => some DtKind.date | "naive" => some .naive | "aware" => some .aware | _ => none).map fun k => .dt k t
  | .obj [("l", .num r)] => some (.list r.toNat)
  | .obj [("o", .num r)] => some (.dict r.toNat)
  | .obj [("c", .num k)] => some (.callable k.toNat)
  | .obj [("r", .num k)] => some (.regex k.toNat)
  | _ => none

open HostPy in
def cellOfJson (j : PJson) : Option HostPy.Cell :=
  match j with
  | .obj [("list", .arr xs)] => (xs.mapM pyValOfJson).map HostPy.Cell.list
  | .obj [("dict", .arr kvs)] =>
      (kvs.mapM fun (kv : PJson) => match kv with
        | PJson.arr [PJson.str k, v] => (pyValOfJson v).map fun v => (k, v)
        | _ => none).map HostPy.Cell.dict
  | _ => none

open HostPy in
def pyFloatToJson : PyFloat → PJson
  | .fin q => ratToJson q
  | .inf neg => .str (if neg then "-inf" else "inf")
  | .nan => .str "nan"

open HostPy in
def pyValToJson : PyVal → PJson
  | .none => .null
  | .bool b => mk [("b", .bool b)]
  | .int n => mk [("ih", .str (intToHex n))]
  | .float x => mk [("f", pyFloatToJson x)]
  | .str s => mk [("s", .str s)]
  | .dt k t => mk [("d", .arr [.str (match k with | .date => "date" | .naive => "naive" | .aware => "aware"), .num t])]
  | .list r => mk [("l", .num r)]
  | .dict r => mk [("o", .num r)]
  | .callable k => mk [("c", .num k)]
  | .regex k => mk [("r", .num k)]

open HostPy in
/-- how far the value of a `**` result can be trusted: "exact" | "kind" (only finite-vs-overflow) | "unknown" -/
def powTrust (a b : PyVal) : String :=
  let q (v : PyVal) : Option Rat := match v with
    | .int n => some (n : Rat)
    | .float (.fin x) => some x
    | _ => none
  match q a, q b with
  | some x, some y =>
      if x = 0 || y = 0 || ratAbs x = 1 then "exact"
      else match powKind (ratAbs x) y with
        | .exact =>
            -- libm is trusted to be exact only where the exact power is representable
            let r := ratPowInt (ratAbs x) y.num
            match roundBinary64 r with
            | .fin q => if q = r then "exact" else "kind"
            | .inf _ => if r ≥ pow2 1025 then "exact" else "unknown"
            | .nan => "unknown"
        | .sureFin => "kind"
        | .sureInf => "exact"
        | .unknown => "unknown"
  | _, _ => "exact"

open HostPy in
def handleBinopPy (j : PJson) : PJson :=
  match BinOp.ofText (j.strD "bop"), pyValOfJson (j.getD "a"), pyValOfJson (j.getD "b"), (j.arrD "heap").mapM cellOfJson with
  | some op, some a, some b, some heap =>
      let F : Libm := { ieee with recLimit := j.natD "L" 1000 }
      let raw := match binopPy F heap op a b with
        | .ok (.val v) => mk [("v", pyValToJson v)]
        | .ok .complex => mk [("complex", .bool true)]
        | .error e => mk [("exc", .str e.pyName)]
      let safe := match binopSafe F heap op a b with
        | .ok v => mk [("v", pyValToJson v)]
        | .error e => mk [("exc", .str e.pyName)]
      mk [("raw", raw), ("safe", safe), ("trust", .str (if op == .pow then powTrust a b else "exact"))]
  | _, _, _, _ => mk [("bad", .str "binopPy request")]

open HostPy in
def handleNeg (j : PJson) : PJson :=
  match pyValOfJson (j.getD "a") with
  | some a => mk [("v", pyValToJson (negSafe a))]
  | none => mk [("bad", .str "neg request")]

open HostPy in
/-- op `wrapCall`: the call wrapper model on a callee outcome.
out = {"k": "ret"|"rt"|"parser"|"args"|"host", "msg": str, "v": tagged value, "cls": exception class} -/
def handleWrapCall (j : PJson) : PJson :=
  let o := j.getD "out"
  let v := (pyValOfJson (o.getD "v")).getD .none
  let msg := o.strD "msg"
  let cls : HostExc := match o.strD "cls" with
    | "ZeroDivisionError" => .zeroDivision | "OverflowError" => .overflow | "TypeError" => .typeError
    | "ValueError" => .valueError | "KeyError" => .keyError | "IndexError" => .indexError
    | "RecursionError" => .recursion | _ => .other
  let out : Option CalleeOut := match o.strD "k" with
    | "ret" => some (.ret v)
    | "rt" => some (.rtError msg)
    | "parser" => some (.parserError msg)
    | "args" => some (.argsError msg v)
    | "host" => some (.host cls msg)
    | _ => none
  match out with
  | none => mk [("bad", .str "wrapCall request")]
  | some out =>
    let log := (j.arrD "log").filterMap asStr?
    let (res, log') := wrapCall ⟨j.boolD "debug", j.boolD "hasLogFn"⟩ (j.strD "name") out log
    let resJ := match res with
      | .value v => mk [("value", pyValToJson v)]
      | .raiseRuntime m => mk [("raiseRuntime", .str m)]
      | .raiseParser m => mk [("raiseParser", .str m)]
    mk [("res", resJ), ("log", ofStrs log')]

def handleC05 (j : PJson) : PJson :=
  match j.strD "op" with
  | "exec" =>
      match scriptOfJson (j.getD "script") with
      | none => mk [("bad", .str "script")]
      | some P => runExecC05 j P
  | "binopPy" => handleBinopPy j
  | "neg" => handleNeg j
  | "wrapCall" => handleWrapCall j
  | "round" =>                                   -- self-test of the rounding function: rational -> binary64
      match ratOfJson (j.getD "q") with
      | some q => mk [("f", pyFloatToJson (HostPy.roundBinary64 q))]
      | none => mk [("bad", .str "round request")]
  | op => mk [("bad", .str ("unknown op " ++ op))]

def main : IO Unit := Proto.run handleC05
