import BareModel.Proto
import BareModel.Compare

/-!
Driver for C11.  Wire encoding of a `PValue` (the Python side writes the same from real Python values):

  {"t":"null"}  {"t":"bool","v":true}  {"t":"num","v":[numerator, denominator]}  {"t":"str","v":"…"}
  {"t":"dt","v":microseconds}  {"t":"arr","v":[…]}  {"t":"obj","v":[[key, value], …]}  (insertion order)
  {"t":"fn","v":id}  {"t":"regex","v":id}

ops: cmp (a, b → r + the six relational operators), matrix (pool → all ordered pairs), sort (xs → permutation as indices),
dataSort (rows, sorts → permutation), minmax (xs → max, min), indexOf / lastIndexOf (xs, v, index).
-/

open PJson Compare

partial def decodeV (j : PJson) : Option PValue :=
  match j.strD "t" with
  | "null" => some .null
  | "bool" => (j.get? "v").bind asBool? |>.map .bool
  | "num" =>
      match j.get? "v" with
      | some (.arr [.num p, .num q]) => if q > 0 then some (.num (mkRat p q.toNat)) else none
      | _ => none
  | "str" => (j.get? "v").bind asStr? |>.map .str
  | "dt" => (j.get? "v").bind asInt? |>.map .dt
  | "arr" => ((j.get? "v").bind asArr?).bind (fun xs => xs.mapM decodeV) |>.map .arr
  | "obj" =>
      ((j.get? "v").bind asArr?).bind (fun xs => xs.mapM (fun p => match p with
        | .arr [.str k, v] => (decodeV v).map (fun v => (k, v))
        | _ => none)) |>.map .obj
  | "fn" => (j.get? "v").bind asNat? |>.map .fn
  | "regex" => (j.get? "v").bind asNat? |>.map .regex
  | _ => none

partial def encodeV : PValue → PJson
  | .null => mk [("t", .str "null")]
  | .bool b => mk [("t", .str "bool"), ("v", .bool b)]
  | .num q => mk [("t", .str "num"), ("v", .arr [.num q.num, .num q.den])]
  | .str s => mk [("t", .str "str"), ("v", .str s)]
  | .dt t => mk [("t", .str "dt"), ("v", .num t)]
  | .arr xs => mk [("t", .str "arr"), ("v", .arr (xs.map encodeV))]
  | .obj kvs => mk [("t", .str "obj"), ("v", .arr (kvs.map fun (k, v) => .arr [.str k, encodeV v]))]
  | .fn i => mk [("t", .str "fn"), ("v", .num i)]
  | .regex i => mk [("t", .str "regex"), ("v", .num i)]

def decodeList (j : PJson) (k : String) : Option (List PValue) := (j.arrD k).mapM decodeV

def bad (s : String) : PJson := mk [("bad", .str s)]

def indexed {α} (xs : List α) : List (Nat × α) := (List.range xs.length).zip xs

def handleC11 (j : PJson) : PJson :=
  match j.strD "op" with
  | "cmp" =>
      match (j.get? "a").bind decodeV, (j.get? "b").bind decodeV with
      | some a, some b =>
          if !(WFValue a && WFValue b) then bad "duplicate keys" else
          mk [("r", .num (valueCompare a b)),
              ("==", .bool (relop .eq a b)), ("!=", .bool (relop .ne a b)), ("<=", .bool (relop .le a b)),
              ("<", .bool (relop .lt a b)), (">=", .bool (relop .ge a b)), (">", .bool (relop .gt a b))]
      | _, _ => bad "cmp request"
  | "matrix" =>
      match decodeList j "pool" with
      | some pool =>
          if !(WFList pool) then bad "duplicate keys" else
          mk [("m", .arr (pool.map fun a => .arr (pool.map fun b => .num (valueCompare a b))))]
      | none => bad "matrix request"
  | "sort" =>
      match decodeList j "xs" with
      | some xs =>
          -- sort (index, value) pairs by value: the answer is the permutation
          let r := sortBy (fun (a b : Nat × PValue) => valueCompare a.2 b.2 < 0) (indexed xs)
          mk [("perm", .arr (r.map fun p => .num p.1)), ("r", .arr ((arraySort xs).map encodeV))]
      | none => bad "sort request"
  | "dataSort" =>
      let sorts := (j.arrD "sorts").mapM (fun s => match s with
        | .arr [.str f, .bool d] => some (f, d)
        | .arr [.str f] => some (f, false)
        | _ => none)
      let rows := (decodeList j "rows").bind (fun rs => rs.mapM fun r => match r with | .obj kvs => some kvs | _ => none)
      match sorts, rows with
      | some sorts, some rows =>
          let r := sortBy (fun (a b : Nat × List (String × PValue)) => sortDataFn sorts a.2 b.2 < 0) (indexed rows)
          mk [("perm", .arr (r.map fun p => .num p.1)), ("r", .arr ((dataSort sorts rows).map fun kvs => encodeV (.obj kvs)))]
      | _, _ => bad "dataSort request"
  | "minmax" =>
      match decodeList j "xs" with
      | some xs => mk [("max", encodeV (mathMax xs)), ("min", encodeV (mathMin xs))]
      | none => bad "minmax request"
  | "indexOf" =>
      match decodeList j "xs", (j.get? "v").bind decodeV with
      | some xs, some v =>
          match arrayIndexOf xs v (j.natD "index") with
          | some r => mk [("r", .num r)]
          | none => mk [("unmodelled", .str "match function")]
      | _, _ => bad "indexOf request"
  | "lastIndexOf" =>
      match decodeList j "xs", (j.get? "v").bind decodeV with
      | some xs, some v =>
          match arrayLastIndexOf xs v ((j.get? "index").bind asNat?) with
          | some r => mk [("r", .num r)]
          | none => mk [("unmodelled", .str "match function")]
      | _, _ => bad "lastIndexOf request"
  | op => bad ("unknown op " ++ op)

def main : IO Unit := Proto.run handleC11
