import BareModel.Proto
import BareModel.SyntaxJson
import BareModel.Lint

open PJson Syntax

/-- op "lint": `{"op":"lint","script":{"statements":[...]}}` → `{"warnings":[text, ...]}` -/
def handleC18 (j : PJson) : PJson :=
  match j.strD "op" with
  | "lint" =>
      match (j.get? "script").bind scriptOfJson with
      | some ss => mk [("warnings", .arr ((Lint.lintScript ss).map .str))]
      | none => mk [("bad", .str "script does not decode")]
  | op => mk [("bad", .str ("unknown op " ++ op))]

def main : IO Unit := Proto.run handleC18
