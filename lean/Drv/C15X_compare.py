"""Correspondence of drv_c15x (LibMore) with the real library: random histories over aliased containers.
usage: /venv/bin/python /tmp/c15x/compare.py [ncases] [seed]"""
import datetime, fractions, json, random, re, subprocess, sys
from bare_script.library import SCRIPT_FUNCTIONS
from bare_script.value import ValueArgsError, value_string

DRV = '/verif/lean/.lake/build/bin/drv_c15x'
EPOCH = datetime.datetime(1970, 1, 1)
FNS = [SCRIPT_FUNCTIONS['stringLength'], SCRIPT_FUNCTIONS['arrayNew']]
RES = [re.compile('a'), re.compile('b+')]
PLAIN = 10 ** 16


def call_impl(name, args):
    """the call wrapper of runtime.evaluate_expression"""
    try:
        return SCRIPT_FUNCTIONS[name](args, {})
    except ValueArgsError as e:
        return e.return_value
    except Exception:  # pylint: disable=broad-exception-caught
        return None


def is_num(x):
    return isinstance(x, (int, float)) and not isinstance(x, bool)


def dt_ms(d):
    return (d - EPOCH) // datetime.timedelta(milliseconds=1)


class Enc:
    """Python object graph <-> model heap (references in allocation order)"""
    def __init__(self):
        self.objs = []          # ref -> container
        self.ref = {}           # id -> ref
        self.nums = {}          # Fraction -> text
        self.dts = {}           # ms -> text

    def val(self, x):
        if x is None or isinstance(x, bool):
            return x
        if is_num(x):
            q = fractions.Fraction(x)
            if not (q.denominator == 1 and abs(q.numerator) < PLAIN):
                self.nums[q] = value_string(x)
            return {'n': [q.numerator, q.denominator]}
        if isinstance(x, str):
            return {'s': x}
        if isinstance(x, datetime.datetime):
            self.dts[dt_ms(x)] = value_string(x)
            return {'dt': dt_ms(x)}
        if isinstance(x, list):
            return {'a': self.alloc(x)}
        if isinstance(x, dict):
            return {'o': self.alloc(x)}
        if callable(x):
            return {'f': FNS.index(x)}
        if isinstance(x, type(RES[0])):
            return {'re': RES.index(x)}
        raise ValueError(x)

    def alloc(self, c):
        if id(c) not in self.ref:
            self.ref[id(c)] = len(self.objs)
            self.objs.append(c)
            # children are allocated when the cell is encoded
        return self.ref[id(c)]

    def cell(self, c):
        if isinstance(c, list):
            return {'arr': [self.val(x) for x in c]}
        return {'obj': [[k, self.val(v)] for k, v in c.items()]}

    def heap(self):
        out, i = [], 0
        while i < len(self.objs):          # encoding may allocate more
            out.append(self.cell(self.objs[i]))
            i += 1
        return out


def gen_scalar(rng):
    k = rng.randrange(12)
    if k == 0:
        return None
    if k == 1:
        return rng.random() < 0.5
    if k in (2, 3):
        return float(rng.randrange(-3, 6))
    if k == 4:
        return rng.choice([0.5, -2.25, 0.1, 1 / 3, 1e16, 1e22, 1.5e300, 1e-7, -1e-5, 123456.789, 2.0 ** 53, 1e15])
    if k == 5:
        return rng.randrange(0, 4)                      # an int (as stringLength returns)
    if k in (6, 7):
        return rng.choice(['', 'a', 'b', 'ab', 'é', 'x"y\\z', '\n', '\U0001F600', 'A', '1.0', ' '])
    if k == 8:
        return datetime.datetime(2024, rng.randrange(1, 13), rng.randrange(1, 28), rng.randrange(24), rng.randrange(60),
                                 rng.randrange(60), rng.choice([0, 0, 6000, 120000, 999000]))
    if k == 9:
        return rng.choice(FNS)
    if k == 10:
        return rng.choice(RES)
    return rng.choice(['k', 'z'])


def gen_pool(rng):
    """a few containers with aliasing (and sometimes a cycle)"""
    pool = []
    for _ in range(rng.randrange(2, 6)):
        def el():
            if pool and rng.random() < 0.3:
                return rng.choice(pool)
            return gen_scalar(rng)
        if rng.random() < 0.65:
            pool.append([el() for _ in range(rng.randrange(0, 6))])
        else:
            pool.append({rng.choice(['a', 'b', 'c', 'é', 'B', 'k']): el() for _ in range(rng.randrange(0, 4))})
    if rng.random() < 0.12:
        c = rng.choice(pool)
        if isinstance(c, list):
            c.append(rng.choice(pool))
        else:
            c['cyc'] = rng.choice(pool)
    return pool


NEW = ['arrayJoin', 'stringNew', 'arraySort']
OTHER = ['arrayPush', 'arraySet', 'objectSet', 'arrayCopy', 'objectCopy', 'arrayGet', 'objectGet', 'arrayIndexOf', 'arrayNew',
         'objectKeys', 'arrayPop', 'arrayExtend', 'objectAssign', 'arrayLength', 'stringLower']


def gen_call(rng, env):
    name = rng.choice(NEW) if rng.random() < 0.6 else rng.choice(OTHER)
    def var(pred):
        c = [i for i, v in enumerate(env) if pred(v)]
        return ('var', rng.choice(c)) if c else ('lit', None)
    def anyarg():
        return ('var', rng.randrange(len(env))) if rng.random() < 0.6 else ('lit', gen_scalar(rng))
    arr = lambda: var(lambda v: isinstance(v, list))
    obj = lambda: var(lambda v: isinstance(v, dict))
    if rng.random() < 0.12:                               # ill-typed / wrong arity
        args = [anyarg() for _ in range(rng.randrange(0, 4))]
    elif name == 'arrayJoin':
        args = [arr(), ('lit', rng.choice([',', '', ', ', 'é']))]
    elif name == 'stringNew':
        args = [anyarg()]
    elif name == 'arraySort':
        args = [arr()] + rng.choice([[], [('lit', None)], [('lit', FNS[0])]])
    elif name in ('arrayPush', 'arrayNew'):
        args = ([arr()] if name == 'arrayPush' else []) + [anyarg() for _ in range(rng.randrange(0, 3))]
    elif name == 'arraySet':
        args = [arr(), ('lit', float(rng.randrange(0, 4))), anyarg()]
    elif name == 'objectSet':
        args = [obj(), ('lit', rng.choice(['a', 'b', 'n'])), anyarg()]
    elif name in ('arrayCopy', 'arrayPop', 'arrayLength'):
        args = [arr()]
    elif name in ('objectCopy', 'objectKeys'):
        args = [obj()]
    elif name == 'arrayGet':
        args = [arr(), ('lit', float(rng.randrange(0, 4)))]
    elif name == 'objectGet':
        args = [obj(), ('lit', rng.choice(['a', 'b', 'n']))]
    elif name == 'arrayIndexOf':
        args = [arr(), anyarg()]
    elif name == 'arrayExtend':
        args = [arr(), arr()]
    elif name == 'objectAssign':
        args = [obj(), obj()]
    else:
        args = [('lit', rng.choice(['ABC', 'É', 'q']))]
    return name, args


def run_case(rng):
    pool = gen_pool(rng)
    env = list(pool) + [gen_scalar(rng) for _ in range(2)]
    enc = Enc()
    env0 = [enc.val(v) for v in env]
    heap0 = enc.heap()
    calls, impl_steps = [], []
    for _ in range(rng.randrange(1, 9)):
        name, args = gen_call(rng, env)
        jargs, pargs = [], []
        for kind, a in args:
            if kind == 'var':
                jargs.append({'var': a}); pargs.append(env[a])
            else:
                jargs.append(enc.val(a)); pargs.append(a)
        res = call_impl(name, pargs)
        env.append(res)
        jres = enc.val(res)
        heap = enc.heap()
        hint = jres
        calls.append({'fn': name, 'args': jargs, 'hint': hint})
        impl_steps.append({'v': jres, 'heap': heap, 'name': name})
    req = {'op': 'more_history', 'heap': heap0, 'env': env0, 'calls': calls,
           'numText': [[q.numerator, q.denominator, s] for q, s in enc.nums.items()],
           'dtText': [[ms, s] for ms, s in enc.dts.items()]}
    return req, impl_steps


def main():
    n = int(sys.argv[1]) if len(sys.argv) > 1 else 300
    seed = int(sys.argv[2]) if len(sys.argv) > 2 else 0
    rng = random.Random(seed)
    cases = [run_case(rng) for _ in range(n)]
    p = subprocess.run([DRV], input=''.join(json.dumps(r) + '\n' for r, _ in cases), capture_output=True, text=True, check=True)
    outs = [json.loads(line) for line in p.stdout.splitlines()]
    assert len(outs) == len(cases), (len(outs), len(cases))
    stats = {'calls': 0, 'unmodelled': 0, 'newly': 0, 'disagree': 0, 'fail': 0}
    per = {}
    for (req, steps), out in zip(cases, outs):
        heap = list(req['heap'])
        if 'steps' not in out:
            print('BAD', out); stats['disagree'] += 1; continue
        for k, (st, mo) in enumerate(zip(steps, out['steps'])):
            stats['calls'] += 1
            key = (st['name'], mo['r'], mo['old'])
            per[key] = per.get(key, 0) + 1
            for i, c in mo['d']:
                if i < len(heap):
                    heap[i] = c
                else:
                    heap.append(c)
            bad = None
            if (mo['r'] == 'unmodelled') != mo['still']:
                bad = 'still flag'
            if not mo['spec']:
                bad = 'spec layer differs'
            if mo['old'] != 'unmodelled' and mo['old'] != mo['r']:
                bad = 'not conservative'
            if mo['r'] == 'unmodelled':
                stats['unmodelled'] += 1
                # the implementation may have allocated / mutated: the rest of this history is out of step
                if st['heap'] != heap:
                    break
                continue
            if mo['old'] == 'unmodelled':
                stats['newly'] += 1
            if mo['r'] == 'fail':
                stats['fail'] += 1
            if mo['v'] != st['v']:
                bad = 'result'
            elif st['heap'] != heap:
                bad = 'heap'
            if bad and mo['old'] != 'unmodelled' and bad in ('result', 'heap'):
                stats['lib_disagree'] = stats.get('lib_disagree', 0) + 1      # a deviation of the unextended model Lib
                if stats["lib_disagree"] <= 2:
                    print('LIB-DISAGREE', bad, json.dumps({'call': req['calls'][k], 'impl': st['v'], 'model': mo}))
                break
            if bad:
                stats['disagree'] += 1
                print('DISAGREE', bad, json.dumps({'call': req['calls'][k], 'impl': st['v'], 'model': mo}))
                print('   request', json.dumps(req))
                break
    print(stats)
    for key in sorted(per):
        print('  ', key, per[key])


if __name__ == '__main__':
    main()
