import BareModel.Proto
import BareModel.Diff

/-!
Driver of C20.

* `{"op":"diff","left":[part…],"right":[part…]}`   `diffLines(left, right)` on two arrays of strings
* `{"op":"diffText","left":"…","right":"…"}`        `diffLines(left, right)` on two strings
* `{"op":"split","text":"…"}`                       `regexSplit(diffRegexLineSplit, text)`

Answer: `{"diffs":[{"type":"Identical"|"Add"|"Remove","lines":[…]}…],"stuck":false}`; `stuck` = the fuelled main loop
returned `none` (never, by `C20.diffLoop_some`).
-/

open PJson Diff

def blockToJson (b : Block String) : PJson :=
  mk [("type", .str b.kind.text), ("lines", ofStrs b.lines)]

def strsOf (xs : List PJson) : Option (List String) := xs.mapM asStr?

def answer (l r : Input) : PJson :=
  mk [("diffs", .arr ((diffInputs l r).map blockToJson)),
      ("stuck", .bool (diffLoop l.lines r.lines).isNone)]

def handleC20 (j : PJson) : PJson :=
  match j.strD "op" with
  | "diff" =>
      match strsOf (j.arrD "left"), strsOf (j.arrD "right") with
      | some l, some r => answer (.parts l) (.parts r)
      | _, _ => mk [("bad", .str "diff request")]
  | "diffText" =>
      match (j.get? "left").bind asStr?, (j.get? "right").bind asStr? with
      | some l, some r => answer (.text l) (.text r)
      | _, _ => mk [("bad", .str "diffText request")]
  | "split" => mk [("lines", ofStrs (splitLines (j.strD "text")))]
  | op => mk [("bad", .str ("unknown op " ++ op))]

def main : IO Unit := Proto.run handleC20
