import BareModel.Proto
import BareModel.Diff
import BareModel.Gen.Includes

/-!
Driver of C20.

* `{"op":"diff","left":…,"right":…}`               `diffLines(left, right)`; each side an array of strings (lines, or parts that
                                                    hold several lines) or a string
* `{"op":"diffText","left":"…","right":"…"}`        `diffLines(left, right)` on two strings only
* `{"op":"split","text":"…"}`                       `regexSplit(diffRegexLineSplit, text)`
* `{"op":"includes"}`                               the table `Gen.includes` this binary (and `C20.includes_parse_validate_lintclean`)
                                                    was built against

Answer: `{"diffs":[{"type":"Identical"|"Add"|"Remove","lines":[…]}…],"stuck":false}`; `stuck` = the fuelled main loop
returned `none` (never, by `C20.diffLoop_some`).
-/

open PJson Diff

def blockToJson (b : Block String) : PJson :=
  mk [("type", .str b.kind.text), ("lines", ofStrs b.lines)]

def strsOf (xs : List PJson) : Option (List String) := xs.mapM asStr?

/-- a script-level argument: a JSON string is a text, a JSON array of strings an array of parts -/
def inputOf : PJson → Option Input
  | .str s => some (.text s)
  | .arr xs => (strsOf xs).map .parts
  | _ => none

def answer (l r : Input) : PJson :=
  mk [("diffs", .arr ((diffInputs l r).map blockToJson)),
      ("stuck", .bool (diffLoop l.lines r.lines).isNone)]

def includeToJson (i : Gen.IncludeInfo) : PJson :=
  mk [("name", .str i.name), ("sha256", .str i.sha256), ("parses", .bool i.parses), ("statements", .num i.statements),
      ("validates", .bool i.validates), ("lint", ofStrs i.lint)]

def handleC20 (j : PJson) : PJson :=
  match j.strD "op" with
  | "diff" =>
      match (j.get? "left").bind inputOf, (j.get? "right").bind inputOf with
      | some l, some r => answer l r
      | _, _ => mk [("bad", .str "diff request")]
  | "diffText" =>
      match (j.get? "left").bind asStr?, (j.get? "right").bind asStr? with
      | some l, some r => answer (.text l) (.text r)
      | _, _ => mk [("bad", .str "diffText request")]
  | "includes" => mk [("includes", .arr (Gen.includes.map includeToJson))]
  | "split" => mk [("lines", ofStrs (splitLines (j.strD "text")))]
  | op => mk [("bad", .str ("unknown op " ++ op))]

def main : IO Unit := Proto.run handleC20
