import Drv.ExecJson
import BareModel.StructuredS
import BareModel.PrintScript
import BareModel.Print

/-! Driver for the execution properties (C01 C07 C08 C09): lowering (spec and mirror), jump machine, ticked semantics. -/

open PJson Syntax Machine HostImpl ExecJson Lower Structured

def lowerErrJson (e : LowerErr) : PJson := mk [("error", .str e.text)]

/-- files: [[url, "missing" | "broken" | script-json], …] -/
def filesOfJson (j : PJson) : List (String × FetchRes) :=
  (j.arrD "files").filterMap fun f =>
    match f with
    | .arr [.str url, .str "broken"] => some (url, FetchRes.broken)
    | .arr [.str url, .str "missing"] => some (url, FetchRes.missing)
    | .arr [.str url, s] => (scriptOfJson s).map fun ss => (url, FetchRes.script ss)
    | _ => none

def mkConfig (j : PJson) (P : List Stmt) (files : List (String × FetchRes)) : Config World :=
  let funs := collectFuns P ++ files.flatMap fun f => match f.2 with | .script ss => collectFuns ss | _ => []
  { host := host, funs := tableOf funs, maxStatements := j.natD "max",
    fetch := fun url => ((files.find? (·.1 == url)).map (·.2)).getD .missing }

def runExec (j : PJson) (P : List Stmt) (structured : Option (List SStmt)) : PJson :=
  match globalsOfJson (j.getD "globals") {} with
  | none => mk [("bad", .str "globals")]
  | some (g, w) =>
    let files := filesOfJson j
    let cfg := mkConfig j P files
    let st : State World := { globals := injectLib g, world := w, count := 0 }
    let fuel := j.natD "fuel" 100000
    match structured with
    | none => resToJson (execute cfg fuel P none st)
    | some B => resToJson (runT cfg fuel B none st)

/-- structured function table of a structured program (definitions may be nested in global-scope blocks) -/
partial def collectSFuns : List SStmt → List (Nat × StructuredS.SFuncDef)
  | [] => []
  | s :: rest =>
      (match s with
       | .func fid n args laa _ b => (fid, { name := n, args := args, lastArgArray := laa, body := b }) :: collectSFuns b
       | .ite _ t e => collectSFuns t ++ collectSElse e
       | .while _ b => collectSFuns b
       | .for _ _ _ b => collectSFuns b
       | _ => []) ++ collectSFuns rest
where
  collectSElse : SElse → List (Nat × StructuredS.SFuncDef)
    | .none => []
    | .els b => collectSFuns b
    | .elif _ t e => collectSFuns t ++ collectSElse e

/-- the plain source-level reading (`execS`, no statement budget, no hidden variables) -/
def runPure (j : PJson) (B : List SStmt) : PJson :=
  match globalsOfJson (j.getD "globals") {} with
  | none => mk [("bad", .str "globals")]
  | some (g, w) =>
    let fs := collectSFuns B
    let scfg : StructuredS.SConfig World := { host := host, sfuns := fun id => (fs.find? (·.1 == id)).map (·.2) }
    let st : State World := { globals := injectLib g, world := w, count := 0 }
    resToJson (StructuredS.runS scfg (j.natD "fuel" 3000) B st)

/-- nesting depth of every line (the layout of `C01.printPretty`, BareProofs/C01Source.lean) -/
def depthOfLines : List Line → Nat → List (Nat × Line)
  | [], _ => []
  | l :: ls, d =>
    match l with
    | .funcBegin .. | .ifBegin _ | .whileBegin _ | .forBegin .. => (d, l) :: depthOfLines ls (d + 1)
    | .funcEnd | .endif | .endwhile | .endfor => (d - 1, l) :: depthOfLines ls (d - 1)
    | .elif _ | .else_ => (d - 1, l) :: depthOfLines ls d
    | _ => (d, l) :: depthOfLines ls d

/-- the program text with 4 blanks of indentation per nesting level -/
def prettyText (B : List SStmt) : String :=
  "\n".intercalate ((depthOfLines (renderB B) 0).map fun p =>
    String.ofList (List.replicate (4 * p.1) ' ') ++ PrintScript.printLine Print.printExpr p.2)

def handleC01 (j : PJson) : PJson :=
  match j.strD "op" with
  | "lower" =>
      match blockOfJson (j.getD "prog") with
      | none => mk [("bad", .str "prog")]
      | some B =>
        let spec := lowerProgram B
        let mirror := match parseLines (renderB B) with
          | .ok ss => scriptToJson ss
          | .error e => lowerErrJson e
        mk [("spec", scriptToJson spec), ("mirror", mirror)]
  | "printScript" =>                 -- the source text of a structured program (`PrintScript.printScript Print.printExpr`)
      match blockOfJson (j.getD "prog") with
      | none => mk [("bad", .str "prog")]
      | some B =>
        -- `printable` = the decidable hypothesis `C01.SourcePrintable` of `C01.parseScript_printExpr`
        mk [("text", .str (PrintScript.printScript Print.printExpr B)),
            ("pretty", .str (prettyText B)),
            ("printable", .bool (PrintScript.ProgPrintable Print.printExpr B && PrintScript.ProgExprsOK Print.printable B))]
  | "exec" =>
      match scriptOfJson (j.getD "script") with
      | none => mk [("bad", .str "script")]
      | some P => runExec j P none
  | "execLowered" =>                 -- lower a structured program with the spec lowering, then run the machine
      match blockOfJson (j.getD "prog") with
      | none => mk [("bad", .str "prog")]
      | some B => runExec j (lowerProgram B) none
  | "execS" =>
      match blockOfJson (j.getD "prog") with
      | none => mk [("bad", .str "prog")]
      | some B => runPure j B
  | "execT" =>
      match blockOfJson (j.getD "prog") with
      | none => mk [("bad", .str "prog")]
      | some B => runExec j (lowerProgram B) (some B)
  | op => mk [("bad", .str ("unknown op " ++ op))]

def main : IO Unit := Proto.run handleC01
