import BareModel.Proto
import BareModel.CsvText

/-!
Driver for the C19 extension "CSV at the level of the whole table text" (`BareModel.CsvText`).

Wire encoding of a `PValue` as in Drv/C19:
  {"t":"null"}  {"t":"bool","v":true}  {"t":"num","v":[numerator, denominator]}  {"t":"str","v":"…"}
  {"t":"dt","v":microseconds since 0001-01-01T00:00 of the normalised naive local value}

A typed cell (`Data.CsvVal`):
  {"t":"null"}  {"t":"bool","v":true}  {"t":"int","v":17}  {"t":"float","v":"1.5e-07"} (the `repr` text)
  {"t":"dt","v":[year, month, day, hour, minute, second, millisecond]}  {"t":"str","v":"…"}

ops (all prefixed `csvtext_`): lines, records, parse, write, roundtrip — see the final report / the comments at each op.
-/

open PJson Compare Data CsvText

def encodeVX : PValue → PJson
  | .null => mk [("t", .str "null")]
  | .bool b => mk [("t", .str "bool"), ("v", .bool b)]
  | .num q => mk [("t", .str "num"), ("v", .arr [.num q.num, .num q.den])]
  | .str s => mk [("t", .str "str"), ("v", .str s)]
  | .dt t => mk [("t", .str "dt"), ("v", .num t)]
  | _ => mk [("t", .str "other")]

def badX (s : String) : PJson := mk [("bad", .str s)]

def encodeRowX (r : Row) : PJson := .arr (r.map fun (k, v) => .arr [.str k, encodeVX v])

def encodeDictRow (d : DictRow) : PJson :=
  mk [("row", encodeRowX d.row), ("rest", ofOpt ofStrs d.rest)]

def encodeCsvError : CsvError → PJson
  | .fieldLimit => .str "fieldLimit"
  | .newlineInUnquoted => .str "newline"

def encodeParsed : Except ParseError Parsed → PJson
  | .ok p => mk [("header", ofOpt ofStrs p.header), ("rows", .arr (p.rows.map encodeDictRow))]
  | .error (.csv e) => mk [("error", mk [("csv", encodeCsvError e)])]
  | .error (.field e) => mk [("error", mk [("field", .str e.field), ("type", .str e.type.text)])]

/-- an array of strings and nulls -/
def decodeArgs (j : PJson) (k : String) : Option (List (Option String)) :=
  (j.arrD k).mapM (fun a => match a with | .str s => some (some s) | .null => some none | _ => none)

def decodeStrsX (j : PJson) : Option (List String) := (asArr? j).bind (fun xs => xs.mapM asStr?)

def decodeCell (j : PJson) : Option CsvVal :=
  match j.strD "t" with
  | "null" => some .null
  | "bool" => ((j.get? "v").bind asBool?).map .bool
  | "int" => ((j.get? "v").bind asInt?).map (fun z => .num (.int z))
  | "float" => ((j.get? "v").bind asStr?).map (fun r => .num (.float r))
  | "dt" =>
      match j.get? "v" with
      | some (.arr [.num y, .num mo, .num d, .num h, .num mi, .num s, .num ms]) => some (.dt ⟨y, mo, d, h, mi, s, ms⟩)
      | _ => none
  | "str" => ((j.get? "v").bind asStr?).map .str
  | _ => none

def decodeLineEnd (j : PJson) : LineEnd :=
  match j.strD "lineEnd" "lf" with
  | "crlf" => .crlf
  | "cr" => .cr
  | _ => .lf

def handleC19X (j : PJson) : PJson :=
  match j.strD "op" with
  -- {"op":"csvtext_lines","text":s} → {"lines":[s, …]}
  | "csvtext_lines" => mk [("lines", ofStrs ((splitLines (j.strD "text").toList).map String.ofList))]
  -- {"op":"csvtext_records","args":[s | null, …]} → {"records":[[s, …], …]} | {"error":"fieldLimit" | "newline"}
  | "csvtext_records" =>
      match decodeArgs j "args" with
      | none => badX "records args"
      | some args =>
        match readRecords ((args.filterMap id).flatMap (fun s => splitLines s.toList)) with
        | .ok recs => mk [("records", .arr (recs.map ofStrs))]
        | .error e => mk [("error", encodeCsvError e)]
  -- {"op":"csvtext_parse","args":[s | null, …],"off":seconds} →
  --   {"header":[s, …] | null,"rows":[{"row":[[key, V], …],"rest":[s, …] | null}, …]}
  --   | {"error":{"csv":"fieldLimit" | "newline"}} | {"error":{"field":name,"type":"number" | …}}
  | "csvtext_parse" =>
      match decodeArgs j "args" with
      | none => badX "parse args"
      | some args =>
        let off := j.intD "off"
        encodeParsed (parseArgs (fun _ => off) args)
  -- {"op":"csvtext_write","header":[s, …],"rows":[[s, …], …],"lineEnd":"lf" | "crlf" | "cr","trailing":bool} → {"text":s}
  | "csvtext_write" =>
      match (j.get? "header").bind decodeStrsX, (j.arrD "rows").mapM decodeStrsX with
      | some header, some rows => mk [("text", .str (writeCsvWith (decodeLineEnd j) (j.boolD "trailing") header rows))]
      | _, _ => badX "write request"
  -- {"op":"csvtext_roundtrip","header":[s, …],"rows":[[cell, …], …],"nullText":"" | "null","offL":seconds,"offU":seconds,
  --  "lineEnd":…,"trailing":bool} →
  --   {"text":s,"ok":bool (the hypotheses `tableOK` of the theorem),"expected":[[[key, V], …], …],"parsed":<as csvtext_parse>}
  | "csvtext_roundtrip" =>
      match (j.get? "header").bind decodeStrsX, (j.arrD "rows").mapM (fun r => (asArr? r).bind (fun cs => cs.mapM decodeCell)) with
      | some header, some rows =>
          let offL := j.intD "offL"
          let offU := j.intD "offU"
          let nullText := j.strD "nullText"
          let text := writeCsvLE (decodeLineEnd j) (j.boolD "trailing") nullText (fun _ => offL) header rows
          mk [("text", .str text),
              ("ok", .bool (tableOK nullText (fun _ => offL) (fun _ => offU) header rows)),
              ("expected", .arr ((expectedRows header rows).map (fun d => encodeRowX d.row))),
              ("parsed", encodeParsed (parseCsv (fun _ => offU) text))]
      | _, _ => badX "roundtrip request"
  | op => badX ("unknown op " ++ op)

def main : IO Unit := Proto.run handleC19X
