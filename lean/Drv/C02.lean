import BareModel.Proto
import BareModel.SyntaxJson
import BareModel.ExprParse
import BareModel.Print

open PJson Syntax ExprParse

/-- tag of the first reason (pre-order) a tree is outside `Print.printable`, for the histogram of the `print-parse` stream -/
partial def whyNot : Expr → Option String
  | .number q => if Print.numOk q then none else some (if q.num < 0 then "negative-number" else "non-decimal-number")
  | .string _ => none
  | .variable n =>
      if Print.varOk n then none
      else if !Print.nameOk n then some "reserved-name"
      else
        let cs := n.render.toList
        some (if cs.isEmpty then "empty-name" else if cs.getLast? == some '\\' then "name-ends-in-backslash" else "name-starts-with-blank")
  | .function n args =>
      if !Print.fnOk n then some "bad-function-name" else args.findSome? whyNot
  | .binary op l r =>
      if !Print.precOkL op l then some "precedence-left" else if !Print.precOkR op r then some "precedence-right"
      else (whyNot l).orElse (fun _ => whyNot r)
  | .unary _ e => if !Print.isOperandB e then some "unary-of-binary" else whyNot e
  | .group e => whyNot e

def handleC02 (j : PJson) : PJson :=
  match j.strD "op" with
  | "chain" =>
      match (j.get? "first").bind exprOfJson,
            (j.arrD "rest").mapM (fun p => match p with
              | .arr [.str o, e] => do let o ← BinOp.ofText o; let e ← exprOfJson e; pure (o, e)
              | _ => none) with
      | some u0, some ch => mk [("expr", exprToJson (parseChain u0 ch))]
      | _, _ => mk [("bad", .str "chain request")]
  | "parse" =>
      match parseExpr (j.strD "text") with
      | .ok e => mk [("expr", exprToJson e)]
      | .error err => mk [("error", .str err.error), ("column", .num err.column)]
  | "print" =>
      -- the canonical text of a tree (`Print.printExpr`), whether `C02.parse_print` applies to it (`Print.printable`), and
      -- the same token sequence with the pad `pad` (blanks) in front of every token and at the end (`Print.printPad`)
      match (j.get? "expr").bind exprOfJson with
      | some e =>
          let pad := (j.strD "pad").toList
          mk [("text", .str (Print.printExpr e)), ("printable", .bool (Print.printable e)),
              ("padded", .str (String.ofList (Print.printPad pad e ++ pad))),
              ("why", .str ((whyNot e).getD "ok"))]
      | none => mk [("bad", .str "print request")]
  | op => mk [("bad", .str ("unknown op " ++ op))]

def main : IO Unit := Proto.run handleC02
