import BareModel.Proto
import BareModel.SyntaxJson
import BareModel.ExprParse

open PJson Syntax ExprParse

def handleC02 (j : PJson) : PJson :=
  match j.strD "op" with
  | "chain" =>
      match (j.get? "first").bind exprOfJson,
            (j.arrD "rest").mapM (fun p => match p with
              | .arr [.str o, e] => do let o ← BinOp.ofText o; let e ← exprOfJson e; pure (o, e)
              | _ => none) with
      | some u0, some ch => mk [("expr", exprToJson (parseChain u0 ch))]
      | _, _ => mk [("bad", .str "chain request")]
  | "parse" =>
      match parseExpr (j.strD "text") with
      | .ok e => mk [("expr", exprToJson e)]
      | .error err => mk [("error", .str err.error), ("column", .num err.column)]
  | op => mk [("bad", .str ("unknown op " ++ op))]

def main : IO Unit := Proto.run handleC02
