import BareModel.Proto
import BareModel.Data

/-!
Driver for C19.  Wire encoding of a `PValue` (same as Drv/C11):

  {"t":"null"}  {"t":"bool","v":true}  {"t":"num","v":[numerator, denominator]}  {"t":"str","v":"…"}
  {"t":"dt","v":microseconds since 0001-01-01T00:00 of the normalised naive local value}
  {"t":"arr","v":[…]}  {"t":"obj","v":[[key, value], …]}  (insertion order)  {"t":"fn","v":id}  {"t":"regex","v":id}

A table is an array of objects.  Expression values arrive precomputed, one per row (`{"raise":true}` = the evaluation raised):
the harness evaluates the expression per row with the real `evaluate_expression`; the driver's `eval` looks the row up.

ops: filter, calc, sort, top, aggregate, join, key, csv, csvCell.
-/

open PJson Compare Data

partial def decodeV (j : PJson) : Option PValue :=
  match j.strD "t" with
  | "null" => some .null
  | "bool" => (j.get? "v").bind asBool? |>.map .bool
  | "num" =>
      match j.get? "v" with
      | some (.arr [.num p, .num q]) => if q > 0 then some (.num (mkRat p q.toNat)) else none
      | _ => none
  | "str" => (j.get? "v").bind asStr? |>.map .str
  | "dt" => (j.get? "v").bind asInt? |>.map .dt
  | "arr" => ((j.get? "v").bind asArr?).bind (fun xs => xs.mapM decodeV) |>.map .arr
  | "obj" =>
      ((j.get? "v").bind asArr?).bind (fun xs => xs.mapM (fun p => match p with
        | .arr [.str k, v] => (decodeV v).map (fun v => (k, v))
        | _ => none)) |>.map .obj
  | "fn" => (j.get? "v").bind asNat? |>.map .fn
  | "regex" => (j.get? "v").bind asNat? |>.map .regex
  | _ => none

partial def encodeV : PValue → PJson
  | .null => mk [("t", .str "null")]
  | .bool b => mk [("t", .str "bool"), ("v", .bool b)]
  | .num q => mk [("t", .str "num"), ("v", .arr [.num q.num, .num q.den])]
  | .str s => mk [("t", .str "str"), ("v", .str s)]
  | .dt t => mk [("t", .str "dt"), ("v", .num t)]
  | .arr xs => mk [("t", .str "arr"), ("v", .arr (xs.map encodeV))]
  | .obj kvs => mk [("t", .str "obj"), ("v", .arr (kvs.map fun (k, v) => .arr [.str k, encodeV v]))]
  | .fn i => mk [("t", .str "fn"), ("v", .num i)]
  | .regex i => mk [("t", .str "regex"), ("v", .num i)]

def bad (s : String) : PJson := mk [("bad", .str s)]

def decodeTable (j : PJson) (k : String) : Option Table :=
  ((j.arrD k).mapM decodeV).bind (fun rs => rs.mapM fun r => match r with | .obj kvs => some kvs | _ => none)

def encodeTable (t : Table) : PJson := .arr (t.map fun r => encodeV (.obj r))

/-- precomputed expression values: `none` = raised -/
def decodeVals (j : PJson) (k : String) : Option (List (Option PValue)) :=
  (j.arrD k).mapM (fun v => if v.boolD "raise" then some none else (decodeV v).map some)

/-- the evaluator as a lookup of the row among the rows the values were computed for -/
def evalOf (rows : Table) (vals : List (Option PValue)) (r : Row) : Option PValue :=
  match (rows.zip vals).find? (fun p => decide (p.1 = r)) with
  | some p => p.2
  | none => none

def wellFormed (t : Table) : Bool := t.all (fun r => WFValue (.obj r))

/-- exact square root of a rational, if it has one -/
def ratSqrt? (q : Rat) : Option Rat :=
  if q < 0 then none else
  let n := q.num.toNat
  let d := q.den
  if n.sqrt * n.sqrt = n ∧ d.sqrt * d.sqrt = d then some (mkRat n.sqrt d.sqrt) else none

/-- harness instance of the assumed host float operations: the mean is sent exact (the harness rounds it); the standard
deviation is sent exact when the variance is a perfect square, otherwise as the marker `-(variance) - 1` (a negative number,
which no standard deviation is) from which the harness recovers the exact variance -/
def wireFloat : HostFloat := { round := id, sqrt := fun q => (ratSqrt? q).getD (-q - 1) }

def decodeMeasure (j : PJson) : Option Measure :=
  match (j.get? "field").bind asStr?, AggFn.ofText (j.strD "function") with
  | some f, some fn => some { field := f, fn := fn, name := (j.get? "name").bind asStr? }
  | _, _ => none

def decodeStrs (j : PJson) : Option (List String) := (asArr? j).bind (fun xs => xs.mapM asStr?)

def encodeFieldType (t : FieldType) : PJson := .str t.text

def handleC19 (j : PJson) : PJson :=
  match j.strD "op" with
  | "filter" =>
      match decodeTable j "rows", decodeVals j "vals" with
      | some rows, some vals =>
          if !wellFormed rows || rows.length != vals.length then bad "filter table" else
          match filterData (evalOf rows vals) rows with
          | some r => mk [("rows", encodeTable r), ("spec", encodeTable (rows.filter (fun r => match evalOf rows vals r with | some v => truthy v | none => false)))]
          | none => mk [("raised", .bool true)]
      | _, _ => bad "filter request"
  | "calc" =>
      match decodeTable j "rows", decodeVals j "vals" with
      | some rows, some vals =>
          if !wellFormed rows || rows.length != vals.length then bad "calc table" else
          let r := calcField (j.strD "field") (evalOf rows vals) rows
          mk [("rows", encodeTable r.1), ("done", .bool r.2)]
      | _, _ => bad "calc request"
  | "sort" =>
      match decodeTable j "rows", (j.arrD "sorts").mapM decodeV with
      | some rows, some sorts =>
          if !wellFormed rows then bad "sort table" else
          match sortData sorts rows with
          | some r => mk [("rows", encodeTable r)]
          | none => mk [("unmodelled", .bool true)]
      | _, _ => bad "sort request"
  | "top" =>
      match decodeTable j "rows", j.get? "count" with
      | some rows, some (.arr [.num p, .num q]) =>
          if !wellFormed rows || q ≤ 0 then bad "top table" else
          let fields := match j.get? "fields" with
            | some (.arr xs) => (xs.mapM asStr?).map some
            | _ => some none
          match fields with
          | none => bad "top fields"
          | some fields =>
            match dataTop rows (mkRat p q.toNat) fields with
            | some r => mk [("rows", encodeTable r), ("spec", encodeTable (topSpec rows (pyInt (mkRat p q.toNat)).toNat fields))]
            | none => mk [("null", .bool true)]
      | _, _ => bad "top request"
  | "aggregate" =>
      match decodeTable j "rows", (j.arrD "measures").mapM decodeMeasure with
      | some rows, some measures =>
          if !wellFormed rows then bad "aggregate table" else
          let cats := match j.get? "categories" with
            | some (.arr xs) => (xs.mapM asStr?).map some
            | _ => some none
          match cats with
          | none => bad "aggregate categories"
          | some cats =>
            let agg : Aggregation := { categories := cats, measures := measures }
            let enc := fun (r : Res Table) => match r with
              | .ok t => mk [("rows", encodeTable t)]
              | .raised => mk [("raised", .bool true)]
              | .unmodelled => mk [("unmodelled", .bool true)]
            mk [("model", enc (aggregateData wireFloat rows agg)), ("spec", enc (aggregateSpec wireFloat rows agg))]
      | _, _ => bad "aggregate request"
  | "join" =>
      match decodeTable j "left", decodeTable j "right", decodeVals j "lvals", decodeVals j "rvals" with
      | some left, some right, some lvals, some rvals =>
          if !wellFormed left || !wellFormed right || left.length != lvals.length || right.length != rvals.length then bad "join table" else
          let names := match rightNames left right with
            | some ns => PJson.arr (ns.map fun p => .arr [.str p.1, .str p.2])
            | none => .null
          match joinData (evalOf left lvals) (evalOf right rvals) left right (j.boolD "isLeftJoin") with
          | some r => mk [("rows", encodeTable r), ("names", names)]
          | none => mk [("raised", .bool true), ("names", names)]
      | _, _, _, _ => bad "join request"
  | "key" =>
      match (j.get? "a").bind decodeV, (j.get? "b").bind decodeV with
      | some a, some b =>
          mk [("keyEq", .bool (decide (bucketKey a = bucketKey b))), ("cmp", .num (valueCompare a b)),
              ("isData", .bool (IsData a && IsData b))]
      | _, _ => bad "key request"
  | "csv" =>
      match (j.get? "header").bind decodeStrs with
      | some header =>
          let records := (j.arrD "records").mapM (fun r => (asArr? r).map (fun cs => cs.map asStr?))
          match records with
          | none => bad "csv records"
          | some records =>
            let off := j.intD "off"
            match parseCSV (fun _ => off) header records with
            | .ok t => mk [("rows", encodeTable t)]
            | .error e => mk [("error", mk [("field", .str e.field), ("type", encodeFieldType e.type)])]
      | none => bad "csv request"
  | "csvCell" =>
      let off := j.intD "off"
      let text := j.strD "text"
      let ty := match detectType true (fun _ => off) (.str text) with
        | some (some t) => encodeFieldType t
        | _ => .null
      match validateData true (fun _ => off) [[("c", .str text)]] with
      | .ok [[(_, v)]] => mk [("type", ty), ("value", encodeV v)]
      | .ok _ => bad "csvCell shape"
      | .error e => mk [("type", ty), ("error", encodeFieldType e.type)]
  | op => bad ("unknown op " ++ op)

def main : IO Unit := Proto.run handleC19
