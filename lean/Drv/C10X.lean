import BareModel.Proto
import BareModel.Text
import BareModel.Scan
import BareModel.SyntaxJson
import BareModel.ExprParse

/-!
Driver for the C10 extension "a line broken with a backslash at a blank run" (`BareProofs/C10Break.lean`).

op `break`: {"p","q","ws","ws1","tr","ind"} - the logical line `p ++ ws ++ q` and the physical lines `p ws1 \\ tr` / `ind q` ->
  {"lines": logical lines of the two physical lines (`Text.loopL`), "error": dangling continuation or null,
   "unbrokenShape"/"joinedShape": `Scan.shape` of `p ++ ws ++ q` / `p ++ " " ++ q`,
   "unbroken"/"joined": `Scan.classify ExprParse.parseExpr` of the two}
(`strOf`, `llToJson`, `shapeToJson`, `lineToJson` are the encoders of Drv/C10.lean, repeated here: a driver root cannot import
another driver root.)
-/

open PJson Text Scan Syntax

def strOf (cs : Chars) : PJson := .str (String.ofList cs)

def llToJson (r : LLOut) : List (String × PJson) :=
  [("lines", .arr (r.1.map fun x => .arr [.num x.1, strOf x.2])),
   ("error", match r.2 with
     | none => .null
     | some d =>
       let e := LineErr.ofDangling d
       mk [("error", .str e.error), ("line", .str e.line), ("column", .num e.column), ("ixLine", .num e.ixLine)])]

def offExpr (off : Nat) (e : Chars) : List (String × PJson) := [("off", .num off), ("expr", strOf e)]

def shapeToJson : Shape → PJson
  | .assign n off e => mk ([("kind", .str "assign"), ("name", strOf n)] ++ offExpr off e)
  | .funcBegin n args laa isAsync =>
      mk [("kind", .str "function"), ("name", strOf n), ("args", .arr (args.map strOf)), ("lastArgArray", .bool laa),
          ("async", .bool isAsync)]
  | .funcEnd => mk [("kind", .str "endfunction")]
  | .ifBegin off e => mk ([("kind", .str "if")] ++ offExpr off e)
  | .elif off e => mk ([("kind", .str "elif")] ++ offExpr off e)
  | .else_ => mk [("kind", .str "else")]
  | .endif => mk [("kind", .str "endif")]
  | .whileBegin off e => mk ([("kind", .str "while")] ++ offExpr off e)
  | .endwhile => mk [("kind", .str "endwhile")]
  | .forBegin v i off e =>
      mk ([("kind", .str "for"), ("value", strOf v), ("index", ofOpt strOf i)] ++ offExpr off e)
  | .endfor => mk [("kind", .str "endfor")]
  | .break_ => mk [("kind", .str "break")]
  | .continue_ => mk [("kind", .str "continue")]
  | .label n => mk [("kind", .str "label"), ("name", strOf n)]
  | .jump n none => mk [("kind", .str "jump"), ("name", strOf n)]
  | .jump n (some (off, e)) => mk ([("kind", .str "jump"), ("name", strOf n)] ++ offExpr off e)
  | .ret none => mk [("kind", .str "return")]
  | .ret (some (off, e)) => mk ([("kind", .str "return")] ++ offExpr off e)
  | .include url sys => mk [("kind", .str "include"), ("url", strOf url), ("system", .bool sys)]
  | .exprStmt => mk [("kind", .str "expr")]

def nm (n : Name) : PJson := .str n.render

/-- `Line` with parsed expressions (`Scan.classify ExprParse.parseExpr`) -/
def lineToJson : Line → PJson
  | .assign n e => mk [("kind", .str "assign"), ("name", nm n), ("expr", exprToJson e)]
  | .funcBegin n args laa isAsync =>
      mk [("kind", .str "function"), ("name", nm n), ("args", .arr (args.map nm)), ("lastArgArray", .bool laa),
          ("async", .bool isAsync)]
  | .funcEnd => mk [("kind", .str "endfunction")]
  | .ifBegin c => mk [("kind", .str "if"), ("expr", exprToJson c)]
  | .elif c => mk [("kind", .str "elif"), ("expr", exprToJson c)]
  | .else_ => mk [("kind", .str "else")]
  | .endif => mk [("kind", .str "endif")]
  | .whileBegin c => mk [("kind", .str "while"), ("expr", exprToJson c)]
  | .endwhile => mk [("kind", .str "endwhile")]
  | .forBegin v i e => mk [("kind", .str "for"), ("value", nm v), ("index", ofOpt nm i), ("expr", exprToJson e)]
  | .endfor => mk [("kind", .str "endfor")]
  | .break_ => mk [("kind", .str "break")]
  | .continue_ => mk [("kind", .str "continue")]
  | .label n => mk [("kind", .str "label"), ("name", nm n)]
  | .jump n none => mk [("kind", .str "jump"), ("name", nm n)]
  | .jump n (some c) => mk [("kind", .str "jump"), ("name", nm n), ("expr", exprToJson c)]
  | .ret none => mk [("kind", .str "return")]
  | .ret (some e) => mk [("kind", .str "return"), ("expr", exprToJson e)]
  | .include url sys => mk [("kind", .str "include"), ("url", .str url), ("system", .bool sys)]
  | .exprStmt e => mk [("kind", .str "expr"), ("expr", exprToJson e)]


def fullToJson (line : Chars) : PJson :=
  match Scan.classifyL ExprParse.parseExpr line with
  | .ok l => lineToJson l
  | .error e => mk [("error", .str e.error), ("column", .num e.column)]

def handleC10X (j : PJson) : PJson :=
  match j.strD "op" with
  | "break" =>
      let p := (j.strD "p").toList; let q := (j.strD "q").toList; let ws := (j.strD "ws").toList
      let ws1 := (j.strD "ws1").toList; let tr := (j.strD "tr").toList; let ind := (j.strD "ind").toList
      let unbroken := p ++ ws ++ q
      let joined := p ++ ' ' :: q
      let r := loopL 0 [p ++ ws1 ++ '\\' :: tr, ind ++ q] [] 0
      mk (llToJson r ++ [("unbrokenShape", shapeToJson (shape unbroken)), ("joinedShape", shapeToJson (shape joined)),
        ("unbroken", fullToJson unbroken), ("joined", fullToJson joined)])
  | op => mk [("bad", .str ("unknown op " ++ op))]

def main : IO Unit := Proto.run handleC10X
