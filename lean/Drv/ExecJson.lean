import BareModel.Proto
import BareModel.SyntaxJson
import BareModel.Machine
import BareModel.Lower
import BareModel.Structured
import BareModel.HostImpl

/-! Protocol helpers shared by the execution drivers (harness code). -/

namespace ExecJson
open PJson Syntax Machine HostImpl

/-! ### structured programs -/

mutual
partial def sstmtOfJson (j : PJson) : Option SStmt :=
  match j.strD "k" with
  | "expr" => do
      let e ← (j.get? "e").bind exprOfJson
      pure (.expr (((j.get? "name").bind asStr?).map Name.ofString) e)
  | "ret" => match j.get? "e" with
      | some .null | none => some (.ret none)
      | some e => (exprOfJson e).map fun e => .ret (some e)
  | "if" => do
      let c ← (j.get? "c").bind exprOfJson
      let t ← blockOfJson (j.getD "t")
      let e ← elseOfJson (j.getD "else")
      pure (.ite c t e)
  | "while" => do
      let c ← (j.get? "c").bind exprOfJson
      let b ← blockOfJson (j.getD "b")
      pure (.while c b)
  | "for" => do
      let vals ← (j.get? "vals").bind exprOfJson
      let b ← blockOfJson (j.getD "b")
      pure (.for (Name.ofString (j.strD "value")) (((j.get? "index").bind asStr?).map Name.ofString) vals b)
  | "break" => some .brk
  | "continue" => some .cont
  | "func" => do
      let b ← blockOfJson (j.getD "b")
      let args ← (j.arrD "args").mapM asStr?
      pure (.func (j.natD "fid") (Name.ofString (j.strD "name")) (args.map Name.ofString) (j.boolD "lastArgArray") (j.boolD "async") b)
  | "label" => some (.label (Name.ofString (j.strD "name")))
  | "jump" => match j.get? "c" with
      | some .null | none => some (.jump (Name.ofString (j.strD "name")) none)
      | some c => (exprOfJson c).map fun c => .jump (Name.ofString (j.strD "name")) (some c)
  | "include" => do
      let incs ← (j.arrD "includes").mapM fun x => do
        let url ← (x.get? "url").bind asStr?
        pure { url := url, system := x.boolD "system" : IncludeScript }
      pure (.include incs)
  | _ => none
partial def blockOfJson (j : PJson) : Option (List SStmt) :=
  match j with
  | .arr xs => xs.mapM sstmtOfJson
  | _ => none
partial def elseOfJson (j : PJson) : Option SElse :=
  match j with
  | .null => some .none
  | _ => match j.strD "k" with
    | "else" => (blockOfJson (j.getD "b")).map .els
    | "elif" => do
        let c ← (j.get? "c").bind exprOfJson
        let t ← blockOfJson (j.getD "t")
        let e ← elseOfJson (j.getD "else")
        pure (.elif c t e)
    | _ => none
end

/-! ### values -/

partial def valueOfJson (j : PJson) (w : World) : Option (Value × World) :=
  match j with
  | .null => some (.null, w)
  | .bool b => some (.bool b, w)
  | .str s => some (.str s, w)
  | .arr xs => do
      let (vs, w1) ← xs.foldlM (fun (acc : List Value × World) x => do
        let (v, w') ← valueOfJson x acc.2
        pure (acc.1 ++ [v], w')) ([], w)
      let (r, w2) := w1.alloc (.arr vs)
      pure (.arr r, w2)
  | .obj [("n", n)] => (ratOfJson n).map fun q => (.num q, w)
  | .obj [("d", .num ms)] => some (.dt ms, w)
  | .obj [("f", .str name)] => some (.fn (.lib name), w)
  | .obj [("o", .arr kvs)] => do
      let (items, w1) ← kvs.foldlM (fun (acc : List (String × Value) × World) kv => do
        match kv with
        | .arr [.str k, x] =>
            let (v, w') ← valueOfJson x acc.2
            pure (acc.1 ++ [(k, v)], w')
        | _ => none) ([], w)
      let (r, w2) := w1.alloc (.obj items)
      pure (.obj r, w2)
  | _ => none

/-- canonical rendering; a container re-entered on the current path renders as "<cycle>" (as the harness does) -/
partial def valueToJsonP (w : World) (path : List Nat) (v : Value) : PJson :=
  match v with
  | .null => .null
  | .bool b => .bool b
  | .num q => mk [("n", ratToJson q)]
  | .str s => .str s
  | .dt ms => mk [("d", .num ms)]
  | .arr r =>
      if path.contains r then .str "<cycle>" else .arr (((w.arr? r).getD []).map (valueToJsonP w (r :: path)))
  | .obj r =>
      if path.contains r then .str "<cycle>" else
      mk [("o", .arr ((sortKeys ((w.obj? r).getD [])).map fun kv => .arr [.str kv.1, valueToJsonP w (r :: path) kv.2]))]
  | .fn (.script _) => mk [("f", .str "script")]
  | .fn (.lib n) => mk [("f", .str n)]
  | .fn (.other _) => mk [("f", .str "other")]
  | .regex _ => mk [("r", .null)]

def valueToJson (w : World) (_fuel : Nat) (v : Value) : PJson := valueToJsonP w [] v

def errToJson : RtErr → PJson
  | .unknownLabel l => mk [("error", .str ("Unknown jump label \"" ++ l.render ++ "\""))]
  | .exceeded m => mk [("error", .str ("Exceeded maximum script statements (" ++ toString m ++ ")"))]
  | .undefinedFunction n => mk [("error", .str ("Undefined function \"" ++ n.render ++ "\""))]
  | .includeFailed u => mk [("error", .str ("Include of \"" ++ u ++ "\" failed"))]
  | .includeParse u => mk [("error", .str ("ParserError Included from \"" ++ u ++ "\""))]
  | .host m => mk [("error", .str m)]

/-! ### function table -/

partial def collectFuns : List Stmt → List (Nat × FuncDef)
  | [] => []
  | .function fid n args laa _ body :: rest =>
      (fid, { name := n, args := args, lastArgArray := laa, body := body }) :: (collectFuns body ++ collectFuns rest)
  | _ :: rest => collectFuns rest

def tableOf (fs : List (Nat × FuncDef)) : Nat → Option FuncDef := fun id => (fs.find? (·.1 == id)).map (·.2)

/-- globals: user supplied, then the library names not already present (execute_script, runtime.py:40) -/
def injectLib (g : Env) : Env :=
  libNames.foldl (fun acc n => if acc.contains (.user n) then acc else acc ++ [(.user n, .fn (.lib n))]) g

def globalsOfJson (j : PJson) (w : World) : Option (Env × World) :=
  match j with
  | .arr kvs => kvs.foldlM (fun (acc : Env × World) kv => do
      match kv with
      | .arr [.str k, x] =>
          let (v, w') ← valueOfJson x acc.2
          pure (acc.1 ++ [(Name.ofString k, v)], w')
      | _ => none) ([], w)
  | _ => none

def isLibBinding (kv : Name × Value) : Bool :=
  match kv with
  | (.user n, .fn (.lib m)) => n == m
  | _ => false

/-- canonical rendering of a run: result, log, final globals (user-visible: library bindings left out), count -/
def resToJson (r : Res World) : PJson :=
  let render (st : State World) (extra : List (String × PJson)) : PJson :=
    let w := st.world
    let fuel := w.heap.length + 3
    let gl := (st.globals.filter (fun kv => !isLibBinding kv)).map fun kv => (kv.1.render, valueToJson w fuel kv.2)
    let gl := gl.mergeSort (fun a b => a.1 ≤ b.1)
    mk (extra ++ [("log", ofStrs w.log), ("globals", .arr (gl.map fun kv => .arr [.str kv.1, kv.2])), ("count", .num st.count)])
  match r with
  | .done st => render st [("result", .null)]
  | .ret v st => render st [("result", valueToJson st.world (st.world.heap.length + 3) v)]
  | .err e st => render st (match errToJson e with | .obj kvs => kvs | _ => [])
  | .oof => mk [("oof", .bool true)]

end ExecJson
