import BareModel.Proto
import BareModel.Json

/-!
Driver for C14. Wire form of a value: `null`, `true`/`false`, `{"i": n}` (Python int), `{"f": [neg, n]}` (integral float,
|x| < 1e16), `{"d": "repr text"}` (any other finite float), `{"s": "text"}`, `{"a": [v…]}`, `{"o": [[key, v]…]}`
(members in insertion order).

ops: `encode` {value, indent (0 = none)} → {stage1, mirror, spec, wf};  `decode` {text} → {ok, value};
     `cleanup` {text} → {text} (stage 2 alone, tied to the real regex on arbitrary text).
-/

open PJson Json

partial def valOfJson : PJson → Option JValue
  | .null => some .null
  | .bool b => some (.bool b)
  | .obj [("i", .num n)] => some (.num (.int n))
  | .obj [("f", .arr [.bool neg, .num n])] => if 0 ≤ n then some (.num (.fint neg n.toNat)) else none
  | .obj [("d", .str t)] => some (.num (.dec t.toList))
  | .obj [("s", .str s)] => some (.str s.toList)
  | .obj [("a", .arr xs)] => (xs.mapM valOfJson).map JValue.arr
  | .obj [("o", .arr ms)] =>
      (ms.mapM fun (m : PJson) => match m with
        | PJson.arr [PJson.str k, v] => (valOfJson v).map fun v' => (k.toList, v')
        | _ => none).map JValue.obj
  | _ => none

partial def valToJson : JValue → PJson
  | .null => .null
  | .bool b => .bool b
  | .num (.int n) => mk [("i", .num n)]
  | .num (.fint neg n) => mk [("f", .arr [.bool neg, .num n])]
  | .num (.dec t) => mk [("d", .str (String.ofList t))]
  | .str s => mk [("s", .str (String.ofList s))]
  | .arr xs => mk [("a", .arr (xs.map valToJson))]
  | .obj kvs => mk [("o", .arr (kvs.map fun (k, v) => .arr [.str (String.ofList k), valToJson v]))]

partial def wfB : JValue → Bool
  | .num (.dec t) => reprDec t
  | .arr xs => xs.all wfB
  | .obj kvs => kvs.all (fun p => wfB p.2) && (kvs.map Prod.fst).eraseDups.length == kvs.length
  | _ => true

def handleC14 (j : PJson) : PJson :=
  match j.strD "op" with
  | "encode" =>
      match (j.get? "value").bind valOfJson with
      | some v =>
          let ind := j.natD "indent"
          mk [("stage1", .str (String.ofList (stage1 v ind))),
              ("mirror", .str (String.ofList (mirrorEncode v ind))),
              ("spec", .str (String.ofList (specEncode v ind))),
              ("wf", .bool (wfB v))]
      | none => mk [("bad", .str "encode request")]
  | "decode" =>
      match decode (j.strD "text").toList with
      | some v => mk [("ok", .bool true), ("value", valToJson v)]
      | none => mk [("ok", .bool false)]
  | "cleanup" => mk [("text", .str (String.ofList (clean .out (j.strD "text").toList)))]
  | op => mk [("bad", .str ("unknown op " ++ op))]

def main : IO Unit := Proto.run handleC14
