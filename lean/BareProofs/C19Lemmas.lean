import BareModel.Data
import BareProofs.C11

/-!
Helper lemmas for C19 (property theorems are in `BareProofs/C19.lean`): rows as dicts, the filter/calc loops, grouping in
first-appearance order, the typed bucket key.
-/

namespace C19
open Compare Data

/-! ## rows as dicts -/

theorem rowHas_iff (k : String) (r : Row) : rowHas k r = true ↔ k ∈ r.map (·.1) := by
  simp only [rowHas, List.any_eq_true, beq_iff_eq, List.mem_map]

theorem rowHas_false_iff (k : String) (r : Row) : rowHas k r = false ↔ k ∉ r.map (·.1) := by
  rw [← rowHas_iff]; simp

/-- `row[k] = v; row[k]` -/
theorem rowGet_rowSet_same (k : String) (v : PValue) (r : Row) : rowGet k (rowSet k v r) = v := by
  induction r with
  | nil => simp [rowSet, rowGet]
  | cons p r ih =>
    obtain ⟨k', v'⟩ := p
    by_cases h : k' = k <;> simp [rowSet, rowGet, h, ih]

/-- `row[k] = v` leaves every other field alone -/
theorem rowGet_rowSet_other (k k' : String) (v : PValue) (r : Row) (h : k' ≠ k) : rowGet k' (rowSet k v r) = rowGet k' r := by
  induction r with
  | nil => simp [rowSet, rowGet, h.symm]
  | cons p r ih =>
    obtain ⟨k₁, v₁⟩ := p
    by_cases h1 : k₁ = k
    · subst h1; simp [rowSet, rowGet, h.symm]
    · by_cases h2 : k₁ = k'
      · subst h2; simp [rowSet, rowGet, h1]
      · simp [rowSet, rowGet, h1, h2, ih]

/-- the key list after `row[k] = v`: unchanged if `k` was a key, else `k` is appended -/
theorem rowSet_keys (k : String) (v : PValue) (r : Row) :
    (rowSet k v r).map (·.1) = if rowHas k r then r.map (·.1) else r.map (·.1) ++ [k] := by
  induction r with
  | nil => simp [rowSet, rowHas]
  | cons p r ih =>
    obtain ⟨k', v'⟩ := p
    by_cases h : k' = k
    · subst h; simp [rowSet, rowHas]
    · have hb : (k' == k) = false := by simpa using h
      simp only [rowSet, h, if_false, List.map_cons, ih, rowHas, List.any_cons, hb, Bool.false_or]
      split <;> simp [*]

theorem rowSet_nodup (k : String) (v : PValue) (r : Row) (h : (r.map (·.1)).Nodup) : ((rowSet k v r).map (·.1)).Nodup := by
  rw [rowSet_keys]
  split
  · exact h
  · rename_i hh
    have : k ∉ r.map (·.1) := (rowHas_false_iff k r).mp (by simpa using hh)
    exact List.nodup_append.mpr ⟨h, by simp, by
      intro a ha b hb
      have : b = k := by simpa using hb
      subst this; intro e; subst e; exact this ha⟩

/-- a key that is not in the row goes to the end -/
theorem rowSet_new (k : String) (v : PValue) (r : Row) (h : k ∉ r.map (·.1)) : rowSet k v r = r ++ [(k, v)] := by
  induction r with
  | nil => rfl
  | cons p r ih =>
    obtain ⟨k', v'⟩ := p
    have h1 : k' ≠ k := fun e => h (by simp [e])
    have h2 : k ∉ r.map (·.1) := fun e => h (by simp [e])
    simp [rowSet, h1, ih h2]

/-- assignment to a key behind a prefix that does not have it -/
theorem rowSet_append (k : String) (v : PValue) (pre post : Row) (h : k ∉ pre.map (·.1)) :
    rowSet k v (pre ++ post) = pre ++ rowSet k v post := by
  induction pre with
  | nil => rfl
  | cons p pre ih =>
    obtain ⟨k', v'⟩ := p
    have h1 : k' ≠ k := fun e => h (by simp [e])
    have h2 : k ∉ pre.map (·.1) := fun e => h (by simp [e])
    simp [rowSet, h1, ih h2]

theorem rowGet_append (k : String) (pre post : Row) (h : k ∉ pre.map (·.1)) : rowGet k (pre ++ post) = rowGet k post := by
  induction pre with
  | nil => rfl
  | cons p pre ih =>
    obtain ⟨k', v'⟩ := p
    have h1 : k' ≠ k := fun e => h (by simp [e])
    have h2 : k ∉ pre.map (·.1) := fun e => h (by simp [e])
    simp [rowGet, h1, ih h2]

theorem rowGet_append_left (k : String) (pre post : Row) (h : k ∈ pre.map (·.1)) : rowGet k (pre ++ post) = rowGet k pre := by
  induction pre with
  | nil => simp at h
  | cons p pre ih =>
    obtain ⟨k', v'⟩ := p
    by_cases h1 : k' = k
    · simp [rowGet, h1]
    · have : k ∈ pre.map (·.1) := by
        rw [List.map_cons, List.mem_cons] at h
        rcases h with e | e
        · exact absurd e.symm h1
        · exact e
      simp [rowGet, h1, ih this]

theorem rowHas_append (k : String) (pre post : Row) : rowHas k (pre ++ post) = (rowHas k pre || rowHas k post) := by
  simp [rowHas, List.any_append]

/-! ## dataFilter -/

/-- the filter predicate the loop implements (a raising row counts as not kept; irrelevant when nothing raises) -/
def keeps (eval : Row → Option PValue) (r : Row) : Bool :=
  match eval r with
  | some v => truthy v
  | none => false

theorem filterLoop_some (eval : Row → Option PValue) : ∀ (rows acc : Table), (∀ r ∈ rows, eval r ≠ none) →
    filterLoop eval rows acc = some (acc ++ rows.filter (keeps eval))
  | [], acc, _ => by simp [filterLoop]
  | row :: rest, acc, h => by
    have hr := h row (by simp)
    have ih := fun acc => filterLoop_some eval rest acc (fun r hr' => h r (by simp [hr']))
    cases he : eval row with
    | none => exact absurd he hr
    | some v =>
      simp only [filterLoop, he, ih, List.filter_cons, keeps]
      cases truthy v <;> simp

theorem filterLoop_none (eval : Row → Option PValue) : ∀ (rows acc : Table), (∃ r ∈ rows, eval r = none) →
    filterLoop eval rows acc = none
  | [], _, h => by simp at h
  | row :: rest, acc, h => by
    cases he : eval row with
    | none => simp [filterLoop, he]
    | some v =>
      obtain ⟨r, hr, hn⟩ := h
      rcases List.mem_cons.mp hr with e | e
      · subst e; rw [he] at hn; cases hn
      · simp only [filterLoop, he]
        exact filterLoop_none eval rest _ ⟨r, e, hn⟩

/-! ## dataCalculatedField -/

theorem calcField_total (field : String) (ev : Row → PValue) : ∀ data : Table,
    calcField field (fun r => some (ev r)) data = (data.map (fun r => rowSet field (ev r) r), true)
  | [] => rfl
  | row :: rest => by simp [calcField, calcField_total field ev rest]

theorem calcField_raise (field : String) (eval : Row → Option PValue) : ∀ (pre : Table) (row : Row) (post : Table),
    (∀ r ∈ pre, eval r ≠ none) → eval row = none →
    calcField field eval (pre ++ row :: post) = (pre.map (fun r => rowSet field ((eval r).getD .null) r) ++ row :: post, false)
  | [], row, post, _, hn => by simp [calcField, hn]
  | p :: pre, row, post, h, hn => by
    have hp := h p (by simp)
    cases he : eval p with
    | none => exact absurd he hp
    | some v =>
      have ih := calcField_raise field eval pre row post (fun r hr => h r (by simp [hr])) hn
      simp [calcField, he, ih]

theorem calcField_done_iff (field : String) (eval : Row → Option PValue) : ∀ data : Table,
    (calcField field eval data).2 = true ↔ ∀ r ∈ data, eval r ≠ none
  | [] => by simp [calcField]
  | row :: rest => by
    cases he : eval row with
    | none => simp [calcField, he]
    | some v => simp [calcField, he, calcField_done_iff field eval rest]

/-! ## grouping in first-appearance order -/

section Group
variable {κ α : Type} [DecidableEq κ]

theorem mem_dedup (x : κ) : ∀ l : List κ, x ∈ dedup l ↔ x ∈ l
  | [] => by simp [dedup]
  | k :: ks => by
    simp only [dedup, List.mem_cons, List.mem_filter, mem_dedup x ks, decide_eq_true_eq]
    by_cases h : x = k <;> simp [h]

theorem nodup_dedup : ∀ l : List κ, (dedup l).Nodup
  | [] => by simp [dedup]
  | k :: ks => by
    simp only [dedup, List.nodup_cons, List.mem_filter, decide_eq_true_eq]
    exact ⟨fun h => h.2 rfl, (nodup_dedup ks).filter _⟩

theorem dedup_append_singleton (k : κ) : ∀ l : List κ,
    dedup (l ++ [k]) = if k ∈ l then dedup l else dedup l ++ [k]
  | [] => by simp [dedup]
  | a :: l => by
    simp only [List.cons_append, dedup, dedup_append_singleton k l, List.mem_cons]
    by_cases hka : k = a
    · subst hka
      by_cases hkl : k ∈ l <;> simp [hkl, List.filter_append]
    · by_cases hkl : k ∈ l <;> simp [hkl, hka, List.filter_append]

/-- the general step: adding `x` under key `k` to the buckets described by `f` over a duplicate-free key list -/
theorem bucketAdd_map (k : κ) (x : α) (f : κ → List α) : ∀ l : List κ, l.Nodup →
    bucketAdd k x (l.map (fun k' => (k', f k'))) =
      if k ∈ l then l.map (fun k' => (k', if k' = k then f k' ++ [x] else f k')) else l.map (fun k' => (k', f k')) ++ [(k, [x])]
  | [], _ => by simp [bucketAdd]
  | a :: l, hnd => by
    have ⟨ha, hl⟩ := List.nodup_cons.mp hnd
    by_cases hak : a = k
    · subst hak
      have : l.map (fun k' => (k', if k' = a then f k' ++ [x] else f k')) = l.map (fun k' => (k', f k')) := by
        refine List.map_congr_left (fun k' hk' => ?_)
        have : k' ≠ a := fun e => ha (e ▸ hk')
        simp [this]
      simp [bucketAdd, this]
    · have hka : k ≠ a := fun e => hak e.symm
      have ih := bucketAdd_map k x f l hl
      simp only [List.map_cons, bucketAdd, hak, if_false, ih, List.mem_cons, hka, false_or]
      split <;> simp

/-- **buckets = groups**: filling a dict of lists row by row yields one entry per distinct key, in order of first appearance,
holding the rows of that key in their original order -/
theorem bucketRows_groupSpec (keyOf : α → κ) (rows : List α) : bucketRows keyOf rows = groupSpec keyOf rows := by
  suffices h : ∀ (rows pre : List α), rows.foldl (fun bs r => bucketAdd (keyOf r) r bs) (groupSpec keyOf pre) = groupSpec keyOf (pre ++ rows) by
    simpa [bucketRows, groupSpec, dedup] using h rows []
  intro rows
  induction rows with
  | nil => intro pre; simp
  | cons r rows ih =>
    intro pre
    have step : bucketAdd (keyOf r) r (groupSpec keyOf pre) = groupSpec keyOf (pre ++ [r]) := by
      unfold groupSpec
      rw [bucketAdd_map (keyOf r) r (fun k => pre.filter (fun r' => keyOf r' = k)) _ (nodup_dedup _)]
      simp only [List.map_append, List.map_cons, List.map_nil, dedup_append_singleton, mem_dedup]
      by_cases hk : keyOf r ∈ pre.map keyOf
      · simp only [hk, if_true]
        refine List.map_congr_left (fun k' _ => ?_)
        by_cases e : k' = keyOf r
        · subst e; simp [List.filter_append]
        · have e' : ¬ keyOf r = k' := fun h => e h.symm
          simp [List.filter_append, e, e']
      · simp only [hk, if_false, List.map_append, List.map_cons, List.map_nil]
        have hnil : pre.filter (fun r' => decide (keyOf r' = keyOf r)) = [] := by
          refine List.filter_eq_nil_iff.mpr (fun r' hr' he => hk ?_)
          have : keyOf r' = keyOf r := by simpa using he
          exact this ▸ List.mem_map_of_mem hr'
        congr 1
        · refine List.map_congr_left (fun k' hk' => ?_)
          have e' : ¬ keyOf r = k' := fun h => hk (h ▸ (mem_dedup _ _).mp hk')
          simp [List.filter_append, e']
        · simp [List.filter_append, hnil]
    simp only [List.foldl_cons, step, ih (pre ++ [r]), List.append_assoc, List.singleton_append]

theorem groupSpec_keys (keyOf : α → κ) (rows : List α) : (groupSpec keyOf rows).map (·.1) = dedup (rows.map keyOf) := by
  simp [groupSpec, Function.comp_def]

theorem bucketLookup_map {β : Type} (k : κ) (f : κ → β) : ∀ l : List κ,
    bucketLookup k (l.map (fun k' => (k', f k'))) = if k ∈ l then some (f k) else none
  | [] => by simp [bucketLookup]
  | a :: l => by
    by_cases h : a = k
    · subst h; simp [bucketLookup]
    · have h' : ¬ k = a := fun e => h e.symm
      simp [bucketLookup, h, h', bucketLookup_map k f l]

/-- `d.get(k)` on the buckets: the rows of key `k` if there are any -/
theorem bucketLookup_groupSpec (keyOf : α → κ) (rows : List α) (k : κ) :
    bucketLookup k (groupSpec keyOf rows) =
      if k ∈ rows.map keyOf then some (rows.filter (fun r => keyOf r = k)) else none := by
  unfold groupSpec
  rw [bucketLookup_map k (fun k => rows.filter (fun r => keyOf r = k))]
  simp only [mem_dedup]

/-- only the group of `k` survives a filter on "key = k" -/
theorem flatMap_single (l : List κ) (hnd : l.Nodup) (k : κ) (g : κ → List α) :
    l.flatMap (fun k' => if k' = k then g k' else []) = if k ∈ l then g k else [] := by
  induction l with
  | nil => simp
  | cons a l ih =>
    have ⟨ha, hl⟩ := List.nodup_cons.mp hnd
    by_cases h : a = k
    · subst h
      have : l.flatMap (fun k' => if k' = a then g k' else []) = [] := by rw [ih hl]; simp [ha]
      simp [List.flatMap_cons, this]
    · have h' : ¬ k = a := fun e => h e.symm
      simp [List.flatMap_cons, h, h', ih hl]

end Group

/-! ## the typed bucket key -/

/-- a stable sort by key commutes with a map that keeps the key -/
theorem insertBy_map {α β : Type} (f : α → β) (lt : α → α → Bool) (lt' : β → β → Bool) (h : ∀ a b, lt' (f a) (f b) = lt a b)
    (x : α) : ∀ ys : List α, insertBy lt' (f x) (ys.map f) = (insertBy lt x ys).map f
  | [] => rfl
  | y :: ys => by
    simp only [List.map_cons, insertBy, h]
    split
    · rfl
    · simp [insertBy_map f lt lt' h x ys]

theorem sortBy_map {α β : Type} (f : α → β) (lt : α → α → Bool) (lt' : β → β → Bool) (h : ∀ a b, lt' (f a) (f b) = lt a b)
    (xs : List α) : sortBy lt' (xs.map f) = (sortBy lt xs).map f := by
  suffices ∀ (xs acc : List α), (xs.map f).foldl (fun acc x => insertBy lt' x acc) (acc.map f) =
      (xs.foldl (fun acc x => insertBy lt x acc) acc).map f by simpa [sortBy] using this xs []
  intro xs
  induction xs with
  | nil => intro acc; rfl
  | cons x xs ih => intro acc; simp only [List.map_cons, List.foldl_cons, insertBy_map f lt lt' h, ih]

theorem bucketItems_eq_map : ∀ kvs : List (String × PValue), bucketItems kvs = kvs.map (fun p => (p.1, bucketKey p.2))
  | [] => rfl
  | (k, v) :: rest => by simp [bucketItems, bucketItems_eq_map rest]

theorem bucketKeys_eq_map : ∀ xs : List PValue, bucketKeys xs = xs.map bucketKey
  | [] => rfl
  | x :: xs => by simp [bucketKeys, bucketKeys_eq_map xs]

/-- sorting the (key, sub-key) pairs = taking the sub-keys of the sorted items -/
theorem sortKeyItems_bucketItems (kvs : List (String × PValue)) : sortKeyItems (bucketItems kvs) = bucketItems (sortItems kvs) := by
  rw [bucketItems_eq_map, bucketItems_eq_map]
  exact sortBy_map (fun p : String × PValue => (p.1, bucketKey p.2)) _ _ (fun _ _ => rfl) kvs

/-- the predicate "equal keys ⇔ compare equal" for one left operand -/
def Faithful (a : PValue) : Prop := ∀ b, IsData.noOpaque b = true → (bucketKey a = bucketKey b ↔ valueCompare a b = 0)

theorem faithful_list : ∀ xs : List PValue, (∀ x ∈ xs, Faithful x) → ∀ ys, IsData.noOpaqueList ys = true →
    (bucketKeys xs = bucketKeys ys ↔ cmpList xs ys = 0)
  | [], _, ys, _ => by cases ys <;> simp [bucketKeys, cmpList]
  | x :: xs, h, ys, hy => by
    cases ys with
    | nil => simp [bucketKeys, cmpList]
    | cons y ys =>
      simp only [IsData.noOpaqueList, Bool.and_eq_true] at hy
      have hx := h x (by simp) y hy.1
      have ih := faithful_list xs (fun z hz => h z (by simp [hz])) ys hy.2
      simp only [bucketKeys, List.cons.injEq, hx, ih, cmpList, bne_iff_ne, ne_eq]
      by_cases hc : valueCompare x y = 0 <;> simp [hc]

theorem faithful_items : ∀ xs : List (String × PValue), (∀ p ∈ xs, Faithful p.2) → ∀ ys, IsData.noOpaqueItems ys = true →
    (bucketItems xs = bucketItems ys ↔ cmpItems xs ys = 0)
  | [], _, ys, _ => by
    match ys with
    | [] => simp [bucketItems, cmpItems]
    | (_, _) :: _ => simp [bucketItems, cmpItems]
  | (k, x) :: xs, h, ys, hy => by
    match ys with
    | [] => simp [bucketItems, cmpItems]
    | (k', y) :: ys =>
      simp only [IsData.noOpaqueItems, Bool.and_eq_true] at hy
      have hx := h (k, x) (by simp) y hy.1
      have ih := faithful_items xs (fun z hz => h z (by simp [hz])) ys hy.2
      have hk := C11.str_cmp_zero_iff k k'
      simp only [bucketItems, List.cons.injEq, Prod.mk.injEq, hx, ih, cmpItems, bne_iff_ne, ne_eq]
      by_cases hkk : k = k'
      · subst hkk
        have hc : strCompare k k = 0 := hk.mpr rfl
        by_cases hv : valueCompare x y = 0 <;> simp [hc, hv]
      · have hc : ¬ strCompare k k' = 0 := fun e => hkk (hk.mp e)
        simp [hc, hkk]

theorem noOpaqueItems_mem : ∀ (kvs : List (String × PValue)), IsData.noOpaqueItems kvs = true → ∀ p ∈ kvs, IsData.noOpaque p.2 = true
  | [], _, _, hp => by simp at hp
  | (k, v) :: rest, h, p, hp => by
    simp only [IsData.noOpaqueItems, Bool.and_eq_true] at h
    rcases List.mem_cons.mp hp with e | e
    · subst e; exact h.1
    · exact noOpaqueItems_mem rest h.2 p e

theorem noOpaqueItems_of_mem : ∀ (kvs : List (String × PValue)), (∀ p ∈ kvs, IsData.noOpaque p.2 = true) → IsData.noOpaqueItems kvs = true
  | [], _ => rfl
  | (k, v) :: rest, h => by
    simp only [IsData.noOpaqueItems, Bool.and_eq_true]
    exact ⟨h (k, v) (by simp), noOpaqueItems_of_mem rest (fun p hp => h p (by simp [hp]))⟩

theorem noOpaqueList_mem : ∀ (xs : List PValue), IsData.noOpaqueList xs = true → ∀ x ∈ xs, IsData.noOpaque x = true
  | [], _, _, hp => by simp at hp
  | v :: rest, h, p, hp => by
    simp only [IsData.noOpaqueList, Bool.and_eq_true] at h
    rcases List.mem_cons.mp hp with e | e
    · subst e; exact h.1
    · exact noOpaqueList_mem rest h.2 p e

theorem typeName_cmp_ne (a b : PValue) (h : typeName a ≠ typeName b) : strCompare (typeName a) (typeName b) ≠ 0 :=
  fun e => h ((C11.str_cmp_zero_iff _ _).mp e)

/-- every value without functions/regexes is faithful against every such value -/
theorem faithful : ∀ a : PValue, IsData.noOpaque a = true → Faithful a
  | .null, _ => by intro b _; cases b <;> simp [bucketKey, valueCompare]
  | .bool x, _ => by
    intro b hb
    cases b <;> simp [bucketKey, valueCompare, typeName] <;> try decide
    rename_i y; cases x <;> cases y <;> simp [tri]
  | .num x, _ => by
    intro b hb
    cases b <;> simp [bucketKey, valueCompare, typeName] <;> try decide
    rename_i y
    have := (C11.num_cmp x y).2.1
    simp only [valueCompare] at this
    exact this.symm
  | .str x, _ => by
    intro b hb
    cases b <;> simp [bucketKey, valueCompare, typeName] <;> try decide
    rename_i y; exact (C11.str_cmp_zero_iff x y).symm
  | .dt x, _ => by
    intro b hb
    cases b <;> simp [bucketKey, valueCompare, typeName] <;> try decide
    rename_i y
    simp only [tri]
    constructor
    · rintro rfl; simp
    · intro h; split at h
      · omega
      · split at h
        · simpa using ‹decide (x = y) = true›
        · omega
  | .fn _, h => by simp [IsData.noOpaque] at h
  | .regex _, h => by simp [IsData.noOpaque] at h
  | .arr xs, h => by
    intro b hb
    have hxs : IsData.noOpaqueList xs = true := by simpa [IsData.noOpaque] using h
    cases b <;> simp [bucketKey, valueCompare, typeName] <;> try decide
    rename_i ys
    have hys : IsData.noOpaqueList ys = true := by simpa [IsData.noOpaque] using hb
    exact faithful_list xs (fun x hx => faithful x (noOpaqueList_mem xs hxs x hx)) ys hys
  | .obj kvs, h => by
    intro b hb
    have hk : IsData.noOpaqueItems kvs = true := by simpa [IsData.noOpaque] using h
    cases b <;> simp [bucketKey, valueCompare, typeName] <;> try decide
    rename_i kvs'
    have hk' : IsData.noOpaqueItems kvs' = true := by simpa [IsData.noOpaque] using hb
    rw [sortKeyItems_bucketItems, sortKeyItems_bucketItems]
    refine faithful_items (sortItems kvs) (fun p hp => ?_) (sortItems kvs') ?_
    · have _hm : p ∈ kvs := (sortItems_perm kvs).mem_iff.mp hp
      exact faithful p.2 (noOpaqueItems_mem kvs hk p _hm)
    · exact noOpaqueItems_of_mem _ (fun p hp => noOpaqueItems_mem kvs' hk' p ((sortItems_perm kvs').mem_iff.mp hp))
termination_by a => sizeOf a
decreasing_by
  · simp_wf
    have := List.sizeOf_lt_of_mem ‹_ ∈ xs›
    omega
  · simp_wf
    have h1 := List.sizeOf_lt_of_mem _hm
    have h2 : sizeOf p.2 < sizeOf p := by cases p; simp_wf; omega
    omega

end C19
