import BareProofs.C06Regex6Lemmas
import BareModel.Parser

/-!
# C06Regex6 — `parse_script` is regex driven: `Parser.parseScript = rxParseScript`, for all inputs, no side condition

`rxParseScript` is `Parser.parseScript` with EVERY hand-written text / statement scanner replaced by the backtracking engine
`Rx.m` on the ASTs of `RxPatterns` (rendering pinned to the sources regenerated from parser.py: `C06Regex.sources_pinned`):

* physical lines: `RxPatterns.split lineSplit` (`_R_SCRIPT_LINE_SPLIT.split`, `\r?\n`) instead of `Text.splitLinesL`;
* comment / blank test: `rxComment` (`_R_SCRIPT_COMMENT.match`) instead of `Text.isCommentL`;
* continuation: `rxContBody` (`_R_SCRIPT_CONTINUATION.search`) instead of `Text.contBody?`;
* statement cascade: `rxShape` / `rxClassifyL` (the 18 `_R_SCRIPT_*` statement patterns in the order of `parse_script`, the groups read
  as parser.py reads them) instead of `Scan.shape` / `Scan.classify`;

the expression parser (`ExprParse.parseExpr`), the lowering (`Lower.stepLine`), the line loop and the end-of-input checks are kept
as they are.  The side condition `'\n' ∉ line` of the per-line theorems is discharged by construction (`splitLines_no_newline`,
`loopL_noNL`).

What remains trusted after this theorem: that CPython's `re` computes `Rx.m` on this fragment (tied by the stream `rx-engine`:
every pattern × adversarial texts, all group spans), the expression token scanners of `ExprScan` (tied to `_R_EXPR_*` by the
differential streams of C02 / C06 and by `rx-engine` for the ASTs), and the frozen Unicode class tables `\s`, `\w`, `\d`
(compared with `re` for every code point on every run).
-/

namespace C06Regex
open Rx Text Scan RxPatterns Lower

/-! ## the line loop, parametric in the two tests -/

/-- `Text.loopL` with the comment test and the continuation test as parameters (the text of `Text.lean`) -/
def loopLWith (isC : Chars → Bool) (cb : Chars → Option Chars) : Nat → List Chars → List Chars → Nat → LLOut
  | _, [], cont, ixLine => ([], if cont.isEmpty then none else some (ixLine, joinSp cont))
  | i, part :: rest, cont, ixLine =>
    if isC part then loopLWith isC cb (i + 1) rest cont ixLine
    else
      let isContinued := !cont.isEmpty
      let ixLine := if isContinued then ixLine else i
      match cb part with
      | some nc => loopLWith isC cb (i + 1) rest (cont ++ [if isContinued then stripL nc else rstripL nc]) ixLine
      | none =>
        if isContinued then emit (ixLine, joinSp (cont ++ [stripL part])) (loopLWith isC cb (i + 1) rest [] ixLine)
        else emit (ixLine, part) (loopLWith isC cb (i + 1) rest [] ixLine)

theorem loopL_eq_With : ∀ (lines : List Chars) (i : Nat) (cont : List Chars) (ix : Nat),
    loopL i lines cont ix = loopLWith isCommentL contBody? i lines cont ix
  | [], i, cont, ix => by rw [loopL, loopLWith]
  | part :: rest, i, cont, ix => by
    rw [loopL, loopLWith]
    simp only [loopL_eq_With rest]
    rfl

theorem loopLWith_congr (isC isC' : Chars → Bool) (cb cb' : Chars → Option Chars) :
    ∀ (lines : List Chars) (i : Nat) (cont : List Chars) (ix : Nat), (∀ l ∈ lines, isC l = isC' l ∧ cb l = cb' l) →
      loopLWith isC cb i lines cont ix = loopLWith isC' cb' i lines cont ix
  | [], i, cont, ix, _ => by rw [loopLWith, loopLWith]
  | part :: rest, i, cont, ix, h => by
    have hp := h part (by simp)
    have hr : ∀ l ∈ rest, isC l = isC' l ∧ cb l = cb' l := fun l hm => h l (List.mem_cons_of_mem _ hm)
    rw [loopLWith, loopLWith, hp.1, hp.2]
    simp only [loopLWith_congr isC isC' cb cb' rest _ _ _ hr]

/-- **the comment test and the continuation test of the line loop are the two regexes** (on lines without `'\n'`) -/
theorem loopL_regex (lines : List Chars) (h : ∀ l ∈ lines, '\n' ∉ l) (i : Nat) (cont : List Chars) (ix : Nat) :
    loopL i lines cont ix = loopLWith rxComment rxContBody i lines cont ix := by
  rw [loopL_eq_With]
  exact loopLWith_congr _ _ _ _ lines i cont ix (fun l hm => ⟨comment_regex l (h l hm), continuation_regex l (h l hm)⟩)

/-! ## the text layer by the engine -/

/-- `_R_SCRIPT_LINE_SPLIT.split(text)` by the engine -/
def rxSplitLines (text : String) : List String := (split lineSplit text.toList).map String.ofList

theorem splitLines_eq_rx (text : String) : splitLines text = rxSplitLines text := by
  unfold splitLines rxSplitLines; rw [splitLines_regex]

/-- every line `_R_SCRIPT_LINE_SPLIT.split` produces is free of `'\n'`: the side condition of the per-line theorems holds by
construction -/
theorem rxSplit_noNL (t : Chars) : ∀ l ∈ split lineSplit t, '\n' ∉ l := by
  rw [← splitLines_regex]; exact C10.splitLines_no_newline t

/-- `Text.scriptLines` with `split`, comment and continuation by the engine -/
def rxScriptLines (chunks : List String) : List (Nat × String) × Option LineErr :=
  let r := loopLWith rxComment rxContBody 0 ((chunks.flatMap rxSplitLines).map String.toList) [] 0
  (r.1.map (fun x => (x.1, String.ofList x.2)), r.2.map LineErr.ofDangling)

theorem phys_noNL (chunks : List String) : ∀ l ∈ (chunks.flatMap splitLines).map String.toList, '\n' ∉ l := by
  intro l hl
  simp only [List.mem_map, List.mem_flatMap] at hl
  obtain ⟨s, ⟨t, _, hs⟩, rfl⟩ := hl
  unfold splitLines at hs
  simp only [List.mem_map] at hs
  obtain ⟨cs, hcs, rfl⟩ := hs
  rw [String.toList_ofList]
  exact C10.splitLines_no_newline _ cs hcs

/-- **physical lines, comment skipping and continuation joining are regex driven** — for every chunk list -/
theorem scriptLines_regex (chunks : List String) : scriptLines chunks = rxScriptLines chunks := by
  unfold scriptLines logicalLinesCore logicalLinesL rxScriptLines
  rw [loopL_regex _ (phys_noNL chunks)]
  simp only [show (fun t => splitLines t) = rxSplitLines from funext splitLines_eq_rx,
    show splitLines = rxSplitLines from funext splitLines_eq_rx]

/-- every logical line handed to the statement cascade is free of `'\n'` -/
theorem scriptLines_noNL (chunks : List String) : ∀ x ∈ (scriptLines chunks).1, '\n' ∉ x.2.toList := by
  intro x hx
  unfold scriptLines logicalLinesCore logicalLinesL at hx
  simp only [List.mem_map] at hx
  obtain ⟨y, hy, rfl⟩ := hx
  rw [String.toList_ofList]
  exact loopL_noNL _ _ _ _ (phys_noNL chunks) (by simp) y hy

/-! ## the statement step, parametric in the classifier -/

/-- `Parser.stepLogical` with the cascade (`shape`) and the classifier (`classify parseExpr`) as parameters (the text of
`Parser.lean`) -/
def stepLogicalWith (shapeF : Chars → Shape) (classF : String → Except ParseErr Line)
    (start : Nat) (s : Parser.St) (ix : Nat) (line : String) : Except Parser.ParserError Parser.St :=
  let ps := s.1
  let wh := s.2
  let ln := start + ix
  let structural (e : LowerErr) : Parser.ParserError :=
    match e with
    | .missingEnd _ =>
        match wh.defs with
        | (dl, dn) :: _ => ⟨e.text, dl, 1, dn⟩
        | [] => ⟨e.text, line, 1, ln⟩
    | _ => ⟨e.text, line, 1, ln⟩
  let pre : Except Parser.ParserError Unit :=
    match shapeF line.toList with
    | .elif _ _ =>
        match stepLine ps (.elif Parser.dummyExpr) with
        | .error e => .error (structural e)
        | .ok _ => .ok ()
    | _ => .ok ()
  match pre with
  | .error e => .error e
  | .ok () =>
    match classF line with
    | .error pe => .error ⟨pe.error, line, pe.column, ln⟩
    | .ok cl =>
      match stepLine ps cl with
      | .error e => .error (structural e)
      | .ok ps' =>
        let defs' :=
          if ps'.defs.length = ps.defs.length + 1 then (line, ln) :: wh.defs
          else if ps'.defs.length + 1 = ps.defs.length then wh.defs.tail
          else wh.defs
        let func' :=
          match ps.func, ps'.func with
          | none, some _ => some (line, ln)
          | _, none => none
          | some _, some _ => wh.func
        .ok (ps', { defs := defs', func := func' })

theorem stepLogical_eq_With (start : Nat) (s : Parser.St) (ix : Nat) (line : String) :
    Parser.stepLogical start s ix line = stepLogicalWith shape (classify ExprParse.parseExpr) start s ix line := rfl

theorem stepLogicalWith_congr (f f' : Chars → Shape) (g g' : String → Except ParseErr Line) (start : Nat) (s : Parser.St) (ix : Nat)
    (line : String) (h1 : f line.toList = f' line.toList) (h2 : g line = g' line) :
    stepLogicalWith f g start s ix line = stepLogicalWith f' g' start s ix line := by
  unfold stepLogicalWith
  rw [h1, h2]

def stepAllWith (shapeF : Chars → Shape) (classF : String → Except ParseErr Line) (start : Nat) :
    Parser.St → List (Nat × String) → Except Parser.ParserError Parser.St
  | s, [] => .ok s
  | s, (ix, line) :: rest =>
      match stepLogicalWith shapeF classF start s ix line with
      | .ok s' => stepAllWith shapeF classF start s' rest
      | .error e => .error e

theorem stepAll_eq_With (start : Nat) : ∀ (ls : List (Nat × String)) (s : Parser.St),
    Parser.stepAll start s ls = stepAllWith shape (classify ExprParse.parseExpr) start s ls
  | [], s => rfl
  | (ix, line) :: rest, s => by
    rw [Parser.stepAll, stepAllWith, stepLogical_eq_With]
    cases stepLogicalWith shape (classify ExprParse.parseExpr) start s ix line with
    | ok s' => exact stepAll_eq_With start rest s'
    | error e => rfl

theorem stepAllWith_congr (f f' : Chars → Shape) (g g' : String → Except ParseErr Line) (start : Nat) :
    ∀ (ls : List (Nat × String)) (s : Parser.St), (∀ x ∈ ls, f x.2.toList = f' x.2.toList ∧ g x.2 = g' x.2) →
      stepAllWith f g start s ls = stepAllWith f' g' start s ls
  | [], s, _ => rfl
  | (ix, line) :: rest, s, h => by
    have hx := h (ix, line) (by simp)
    rw [stepAllWith, stepAllWith, stepLogicalWith_congr f f' g g' start s ix line hx.1 hx.2]
    cases stepLogicalWith f' g' start s ix line with
    | ok s' => exact stepAllWith_congr f f' g g' start rest s' (fun x hm => h x (List.mem_cons_of_mem _ hm))
    | error e => rfl

/-! ## `parse_script`, regex driven -/

/-- `Parser.parseScript` with every text / statement scanner replaced by the engine on the pinned ASTs -/
def rxParseScript (chunks : List String) (start : Nat := 1) : Except Parser.ParserError (List Stmt) :=
  let ll := rxScriptLines chunks
  match stepAllWith rxShape (fun l => rxClassifyL ExprParse.parseExpr l.toList) start (PState.init, {}) ll.1 with
  | .error e => .error e
  | .ok s => Parser.finishAll start s ll.2

/-- **`parse_script` is regex driven**: for EVERY chunk list and start line, the model of `parse_script` equals the same
pipeline with the line splitter, the comment test, the continuation test and the whole statement cascade computed by the
backtracking engine on the ASTs pinned to parser.py's pattern sources.  No side condition. -/
theorem parseScript_is_regex_driven (chunks : List String) (start : Nat) :
    Parser.parseScript chunks start = rxParseScript chunks start := by
  unfold Parser.parseScript rxParseScript
  dsimp only
  have hnl := scriptLines_noNL chunks
  rw [stepAll_eq_With, stepAllWith_congr shape rxShape (classify ExprParse.parseExpr)
    (fun l => rxClassifyL ExprParse.parseExpr l.toList) start (scriptLines chunks).1 _
    (fun x hx => ⟨shape_is_cascade _ (hnl x hx), classify_is_cascade _ _ (hnl x hx)⟩)]
  rw [scriptLines_regex]
  rfl

/-- the single-string form (`parse_script(text)`) -/
theorem parseScript_text_is_regex_driven (text : String) (start : Nat) :
    Parser.parseScript [text] start = rxParseScript [text] start := parseScript_is_regex_driven [text] start

example : rxParseScript ["a = 1 + \\\n  2\r\n# c\nif a:\n  jump x\nendif\nx:"] 1 = Parser.parseScript ["a = 1 + \\\n  2\r\n# c\nif a:\n  jump x\nendif\nx:"] 1 :=
  (parseScript_is_regex_driven _ _).symm

end C06Regex
