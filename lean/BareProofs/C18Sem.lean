import BareProofs.C18SemLemmas
import BareProofs.C18
import BareProofs.C09

/-!
# C18 — acting on a lint warning does not change any run (semantic half of the property)

"A reported unused variable or argument can be renamed, and a reported unused label or pointless statement deleted, without
changing the result, output or final globals of any run."

All theorems are about the documented (cache-free) machine `execM₀ / callValue₀ / execute₀`; `C08.cache_transparent` and
`C08.execute_eq` transfer them to `Machine.execM / execute`.  They hold for every host, every program, every state and all
fuel.  A script function value is an index into the function table `cfg.funs`, so "the body of function `id` was edited" is
a configuration whose table differs at `id` (`LintEdit.setFun`); the global statement list is an argument of `execute₀`.

* deletions (`delete_sim`, `delete_unused_label`, `delete_pointless_stmt`, `…_fn`, `delete_runs`): the deleted statement
  costs one statement tick, so the two-way theorems are for the unlimited budget (`maxStatements = 0`) and relate states up to
  the counter (`StEq`: same globals, same world).  Forward direction with the same fuel, converse with fuel `2·f+1`;
  `RunsEquiv` packages both as "the original run ends in `r` iff the edited run ends in an `r'` equal to `r` up to the
  counter".  `delete_runs_budget` / `lint_delete_sound_budget` cover every budget `L` in the forward direction: a run of the
  original that the budget does not abort is matched by the edited run under the same budget (the edited run never counts
  more: `delete_sim_count`); `Tiny.delete_budget_counterexample` shows the converse fails by design.
* renamings (`rename_sim`, `rename_unused_local`, `rename_unused_arg`): nothing observable changes, not even the counter — the
  runs are *equal* (`callValue₀`, `execM₀`, `execute₀` of the two configurations are the same functions), for every budget;
  the new name only has to be unread (`Tiny.rename_read_target_counterexample`), not fresh.
* tie to the lint model: `unused_variable_exact`, `unused_argument_exact` (what the two variable warnings mean) and
  `lint_unused_label_sound`, `lint_pointless_sound`, `lint_unused_variable_sound`, `lint_unused_argument_sound`.
-/

set_option linter.unusedSimpArgs false
set_option linter.unusedSectionVars false
set_option linter.unusedVariables false

namespace C18
open Machine Lint LintEdit

variable {W : Type}

/-! ## deletions -/

/-- any two counters -/
abbrev CT : Nat → Nat → Prop := fun _ _ => True
/-- every name -/
abbrev UT : Name → Prop := fun _ => True

/-- the function tables of two configurations are related by deletions of skippable statements (possibly none) -/
structure DelFuns (cA cB : Config W) : Prop where
  onNone : ∀ id, cA.funs id = none → cB.funs id = none
  onSome : ∀ id fd, cA.funs id = some fd →
    ∃ body' sh, cB.funs id = some { fd with body := body' } ∧ Shift fd.body body' sh ∧ sh 0 = 0

theorem DelFuns.onNone' {cA cB : Config W} (h : DelFuns cA cB) (id : FnId) (hB : cB.funs id = none) : cA.funs id = none := by
  cases hA : cA.funs id with
  | none => rfl
  | some fd =>
    obtain ⟨body', sh, hB', _⟩ := h.onSome id fd hA
    rw [hB] at hB'; cases hB'

theorem DelFuns.onSome' {cA cB : Config W} (h : DelFuns cA cB) (id : FnId) (fdB : FuncDef) (hB : cB.funs id = some fdB) :
    ∃ fd sh, cA.funs id = some fd ∧ fdB = { fd with body := fdB.body } ∧ Shift fd.body fdB.body sh ∧ sh 0 = 0 := by
  cases hA : cA.funs id with
  | none => rw [h.onNone id hA] at hB; cases hB
  | some fd =>
    obtain ⟨body', sh, hB', hsh, h0⟩ := h.onSome id fd hA
    rw [hB] at hB'
    cases hB'
    exact ⟨fd, sh, rfl, rfl, hsh, h0⟩

/-- the three statements of the forward simulation at fuel `f` (same fuel on both sides) -/
def DelFwd (C : Nat → Nat → Prop) (cA cB : Config W) (f : Nat) : Prop :=
  CallSim True C (callValue₀ cA f) (callValue₀ cB f) ∧
  (∀ P P' sh, Shift P P' sh → ∀ pc l l' base s s', LocAgree UT l l' → SR C s s' →
      ResSim True C (execM₀ cA f P l base pc s) (execM₀ cB f P' l' base (sh pc) s')) ∧
  InclSim True C (execIncludes₀ cA f) (execIncludes₀ cB f)

theorem bind_same (host : Host W) (fd : FuncDef) (body' : List Stmt) (args : List Value) (w : W) :
    LocAgree UT (some (bindArgs host fd.lastArgArray fd.args args [] w).1)
      (some (bindArgs host ({ fd with body := body' } : FuncDef).lastArgArray ({ fd with body := body' } : FuncDef).args args [] w).1) ∧
    (bindArgs host ({ fd with body := body' } : FuncDef).lastArgArray ({ fd with body := body' } : FuncDef).args args [] w).2 =
      (bindArgs host fd.lastArgArray fd.args args [] w).2 :=
  ⟨LocAgree.refl _ _, rfl⟩

theorem delFwd {C : Nat → Nat → Prop} (hC1 : ∀ a b, C a b → C (a+1) (b+1)) (hC2 : ∀ a b, C a b → C (a+1) b)
    {cA cB : Config W} (hcfg : CfgSame cA cB) (h0 : cA.maxStatements = 0) (hf : DelFuns cA cB) :
    ∀ f, DelFwd C cA cB f
  | 0 => by
    refine ⟨call_zero_sim cA cB (Or.inl trivial), ?_, incl_zero_sim hcfg (Or.inl trivial)⟩
    intro P P' sh hsh pc l l' base s s' hl hs
    rcases hsh.step pc with ⟨hA, hB⟩ | ⟨s0, hA, hB, _⟩ | ⟨s0, hA, _⟩
    · rw [execM₀_none _ _ _ _ _ _ _ hA, execM₀_none _ _ _ _ _ _ _ hB]; exact ⟨s', rfl, hs⟩
    · rw [execM₀_zero _ _ _ _ _ _ _ hA]; exact Or.inl trivial
    · rw [execM₀_zero _ _ _ _ _ _ _ hA]; exact Or.inl trivial
  | f+1 => by
    obtain ⟨ihC, ihE, ihI⟩ := delFwd hC1 hC2 hcfg h0 hf f
    refine ⟨?_, ?_, ?_⟩
    · refine call_step_sim hcfg ihC hf.onNone ?_
      intro id fdA hA
      obtain ⟨body', sh, hB, hsh, h00⟩ := hf.onSome id fdA hA
      refine ⟨_, hB, fun args s s' hs => callBody_sim hcfg (U := UT) (bind_same cA.host fdA body') ?_ args hs⟩
      intro la lb s s' hl hs
      have := ihE fdA.body body' sh hsh 0 (some la) (some lb) none s s' hl hs
      rw [h00] at this
      exact this
    · intro P P' sh hsh pc l l' base s s' hl hs
      rcases hsh.step pc with ⟨hA, hB⟩ | ⟨s0, hA, hB, hn⟩ | ⟨s0, hA, hskip, hn, _⟩
      · rw [execM₀_none _ _ _ _ _ _ _ hA, execM₀_none _ _ _ _ _ _ _ hB]; exact ⟨s', rfl, hs⟩
      · have hmem : s0 ∈ P := List.mem_of_getElem? hA
        refine exec_step_sim (U := UT) (PR := fun a b => b = sh a) hC1 hcfg (Or.inl h0) ihC ihI
          ?_ hA hB hn.symm ?_ ?_ hl (Or.inl rfl) (fun _ _ => trivial) base hs
        · intro a b hab l1 l1' base s s' hl1 _ hs1
          subst hab
          exact ihE P P' sh hsh a l1 l1' base s s' hl1 hs1
        · intro lab c hc hF
          subst hc
          exact hsh.jumpN lab c hmem hF
        · intro lab c i hc hF
          subst hc
          obtain ⟨j, hj, hsh'⟩ := hsh.jumpS lab c i hmem hF
          exact ⟨j, hj, hsh'.symm⟩
      · rw [execM₀_skip cA h0 f P l base pc s hA hskip]
        have := ihE P P' sh hsh (pc+1) l l' base { s with count := s.count + 1 } s' hl ⟨hs.1, hs.2.1, hC2 _ _ hs.2.2⟩
        rw [hn] at this
        exact this.fuel_right (Nat.le_succ f)
    · exact incl_step_sim hcfg (fun P base s s' hs => ihE P P _ (Shift.id P) 0 none none base s s' trivial hs) ihI

/-- the three statements of the converse simulation: the edited run with fuel `f` against the original with `2·f+1` -/
def DelBwd (cA cB : Config W) (f : Nat) : Prop :=
  CallSim True CT (callValue₀ cB f) (callValue₀ cA (2*f+1)) ∧
  (∀ P P' sh, Shift P P' sh → ∀ pc l l' base s s', LocAgree UT l' l → SR CT s' s →
      ResSim True CT (execM₀ cB f P' l' base (sh pc) s') (execM₀ cA (2*f+1) P l base pc s)) ∧
  InclSim True CT (execIncludes₀ cB f) (execIncludes₀ cA (2*f+1))

theorem delBwd {cA cB : Config W} (hcfg : CfgSame cA cB) (h0 : cA.maxStatements = 0) (hf : DelFuns cA cB) :
    ∀ f, DelBwd cA cB f
  | 0 => by
    refine ⟨call_zero_sim cB cA (Or.inl trivial), ?_, incl_zero_sim hcfg.symm (Or.inl trivial)⟩
    intro P P' sh hsh pc l l' base s s' hl hs
    rcases hsh.step pc with ⟨hA, hB⟩ | ⟨s0, hA, hB, _⟩ | ⟨s0, hA, hskip, hn, hsub⟩
    · rw [execM₀_none _ _ _ _ _ _ _ hA, execM₀_none _ _ _ _ _ _ _ hB]; exact ⟨s, rfl, hs⟩
    · rw [execM₀_zero _ _ _ _ _ _ _ hB]; exact Or.inl trivial
    · rcases hsub with ⟨hA1, hB1⟩ | ⟨s2, hA1, hB1, _⟩
      · rw [execM₀_none _ _ _ _ _ _ _ hB1, execM₀_skip cA h0 0 P l base pc s hA hskip, execM₀_none _ _ _ _ _ _ _ hA1]
        exact ⟨_, rfl, hs.1, hs.2.1, trivial⟩
      · rw [execM₀_zero _ _ _ _ _ _ _ hB1]; exact Or.inl trivial
  | f+1 => by
    obtain ⟨ihC, ihE, ihI⟩ := delBwd hcfg h0 hf f
    have h0B : cB.maxStatements = 0 := by rw [hcfg.max]; exact h0
    have e1 : 2 * (f + 1) + 1 = (2 * f + 2) + 1 := by omega
    have e2 : 2 * f + 2 = (2 * f + 1) + 1 := by omega
    have ihC2 : CallSim True CT (callValue₀ cB f) (callValue₀ cA (2*f+2)) := ihC.fuel_right (by omega)
    have ihI2 : InclSim True CT (execIncludes₀ cB f) (execIncludes₀ cA (2*f+2)) := ihI.fuel_right (by omega)
    refine ⟨?_, ?_, ?_⟩
    · rw [e1]
      refine call_step_sim hcfg.symm ihC2 hf.onNone' ?_
      intro id fdB hB
      obtain ⟨fd, sh, hA, hfd, hsh, h00⟩ := hf.onSome' id fdB hB
      refine ⟨fd, hA, fun args s s' hs => ?_⟩
      rw [hfd]
      refine callBody_sim hcfg.symm (U := UT) ?_ ?_ args hs
      · intro args w
        exact ⟨LocAgree.refl _ _, rfl⟩
      · intro la lb s s' hl hs
        have := ihE fd.body fdB.body sh hsh 0 (some lb) (some la) none s' s hl hs
        rw [h00] at this
        exact this.fuel_right (by omega)
    · intro P P' sh hsh pc l l' base s s' hl hs
      rcases hsh.step pc with ⟨hA, hB⟩ | ⟨s0, hA, hB, hn⟩ | ⟨s0, hA, hskip, hn, hsub⟩
      · rw [execM₀_none _ _ _ _ _ _ _ hA, execM₀_none _ _ _ _ _ _ _ hB]; exact ⟨s, rfl, hs⟩
      · have hmem : s0 ∈ P := List.mem_of_getElem? hA
        rw [e1]
        refine exec_step_sim (U := UT) (PR := fun b a => b = sh a) (fun _ _ _ => trivial) hcfg.symm (Or.inl h0B) ihC2 ihI2
          ?_ hB hA hn.symm ?_ ?_ hl (Or.inl rfl) (fun _ _ => trivial) base hs
        · intro b a hab l1 l1' base s s' hl1 _ hs1
          subst hab
          exact (ihE P P' sh hsh a l1' l1 base s' s hl1 hs1).fuel_right (by omega)
        · intro lab c hc hF
          subst hc
          exact hsh.jumpN' hmem hF
        · intro lab c j hc hF
          subst hc
          obtain ⟨i, hi, hsh'⟩ := hsh.jumpS' hmem hF
          exact ⟨i, hi, hsh'.symm⟩
      · rw [e1, execM₀_skip cA h0 (2*f+2) P l base pc s hA hskip]
        have hs1 : SR CT s' { s with count := s.count + 1 } := ⟨hs.1, hs.2.1, trivial⟩
        rcases hsub with ⟨hA1, hB1⟩ | ⟨s2, hA1, hB1, hn2⟩
        · rw [execM₀_none _ _ _ _ _ _ _ hB1, execM₀_none _ _ _ _ _ _ _ hA1]
          exact ⟨_, rfl, hs1⟩
        · have hmem : s2 ∈ P := List.mem_of_getElem? hA1
          rw [e2]
          refine exec_step_sim (U := UT) (PR := fun b a => b = sh a) (fun _ _ _ => trivial) hcfg.symm (Or.inl h0B) ihC ihI
            ?_ hB1 hA1 hn2.symm ?_ ?_ hl (Or.inl rfl) (fun _ _ => trivial) base hs1
          · intro b a hab l1 l1' base s s' hl1 _ hs1
            subst hab
            exact ihE P P' sh hsh a l1' l1 base s' s hl1 hs1
          · intro lab c hc hF
            subst hc
            exact hsh.jumpN' hmem hF
          · intro lab c j hc hF
            subst hc
            obtain ⟨i, hi, hsh'⟩ := hsh.jumpS' hmem hF
            exact ⟨i, hi, hsh'.symm⟩
    · rw [e1]
      exact incl_step_sim hcfg.symm
        (fun P base s s' hs => (ihE P P _ (Shift.id P) 0 none none base s' s trivial hs).fuel_right (by omega)) ihI2

/-! ### the statements, in terms of plain equality up to the counter -/

/-- two states are equal up to the statement counter: same globals, same world (heap, log, output, …) -/
def StEq (s s' : State W) : Prop := s.globals = s'.globals ∧ s.world = s'.world

/-- the same kind of result with the same value / error and states equal up to the counter -/
def ResEq : Res W → Res W → Prop
  | .done s, .done s' => StEq s s'
  | .ret v s, .ret v' s' => v = v' ∧ StEq s s'
  | .err e s, .err e' s' => e = e' ∧ StEq s s'
  | .oof, .oof => True
  | _, _ => False

def OutEq : Out W → Out W → Prop
  | .ok v s, .ok v' s' => v = v' ∧ StEq s s'
  | .err e s, .err e' s' => e = e' ∧ StEq s s'
  | .oof, .oof => True
  | _, _ => False

theorem StEq.symm {s s' : State W} (h : StEq s s') : StEq s' s := ⟨h.1.symm, h.2.symm⟩
theorem StEq.refl (s : State W) : StEq s s := ⟨rfl, rfl⟩
theorem StEq.sr {s s' : State W} (h : StEq s s') : SR CT s s' := ⟨h.1, h.2, trivial⟩

theorem ResEq.symm : ∀ {r r' : Res W}, ResEq r r' → ResEq r' r
  | .done _, .done _, h => StEq.symm h
  | .ret _ _, .ret _ _, h => ⟨h.1.symm, h.2.symm⟩
  | .err _ _, .err _ _, h => ⟨h.1.symm, h.2.symm⟩
  | .oof, .oof, _ => trivial
  | .done _, .ret _ _, h => h.elim
  | .done _, .err _ _, h => h.elim
  | .done _, .oof, h => h.elim
  | .ret _ _, .done _, h => h.elim
  | .ret _ _, .err _ _, h => h.elim
  | .ret _ _, .oof, h => h.elim
  | .err _ _, .done _, h => h.elim
  | .err _ _, .ret _ _, h => h.elim
  | .err _ _, .oof, h => h.elim
  | .oof, .done _, h => h.elim
  | .oof, .ret _ _, h => h.elim
  | .oof, .err _ _, h => h.elim

theorem OutEq.symm : ∀ {r r' : Out W}, OutEq r r' → OutEq r' r
  | .ok _ _, .ok _ _, h => ⟨h.1.symm, h.2.symm⟩
  | .err _ _, .err _ _, h => ⟨h.1.symm, h.2.symm⟩
  | .oof, .oof, _ => trivial
  | .ok _ _, .err _ _, h => h.elim
  | .ok _ _, .oof, h => h.elim
  | .err _ _, .ok _ _, h => h.elim
  | .err _ _, .oof, h => h.elim
  | .oof, .ok _ _, h => h.elim
  | .oof, .err _ _, h => h.elim

theorem ResSim.toEq {C : Nat → Nat → Prop} {r r' : Res W} (h : ResSim True C r r') (hr : r ≠ .oof) : ResEq r r' := by
  cases r with
  | oof => exact absurd rfl hr
  | done s => obtain ⟨s', rfl, hs⟩ := h; exact ⟨hs.1, hs.2.1⟩
  | ret v s => obtain ⟨s', rfl, hs⟩ := h; exact ⟨rfl, hs.1, hs.2.1⟩
  | err e s => obtain ⟨s', rfl, hs⟩ := h; exact ⟨rfl, hs.1, hs.2.1⟩

theorem OutSim.toEq {C : Nat → Nat → Prop} {r r' : Out W} (h : OutSim True C r r') (hr : r ≠ .oof) : OutEq r r' := by
  cases r with
  | oof => exact absurd rfl hr
  | ok v s => obtain ⟨s', rfl, hs⟩ := h; exact ⟨rfl, hs.1, hs.2.1⟩
  | err e s => obtain ⟨s', rfl, hs⟩ := h; exact ⟨rfl, hs.1, hs.2.1⟩

theorem ResEq.ne_oof {r r' : Res W} (h : ResEq r r') (hr : r ≠ .oof) : r' ≠ .oof := by
  rintro rfl
  cases r <;> first | exact h.elim | exact hr rfl

/-- no function body was edited -/
theorem DelFuns.refl (cfg : Config W) : DelFuns cfg cfg where
  onNone := fun _ h => h
  onSome := fun id fd h => ⟨fd.body, fun pc => pc, h, Shift.id _, rfl⟩

/-- the body of function `id` lost a skippable statement -/
theorem DelFuns.setFun {cfg : Config W} {id : FnId} {fd : FuncDef} (hfd : cfg.funs id = some fd) {k : Nat} {s : Stmt}
    (hk : fd.body[k]? = some s) (hskip : Skippable s)
    (hlab : ∀ lab c, Stmt.jump lab c ∈ fd.body → Machine.isLabel lab s = false) :
    DelFuns cfg (setFun cfg id { fd with body := deleteAt fd.body k }) where
  onNone := by
    intro i h
    by_cases hi : i = id
    · subst hi; rw [hfd] at h; cases h
    · simp only [LintEdit.setFun, hi, if_false]; exact h
  onSome := by
    intro i fd' h
    by_cases hi : i = id
    · subst hi
      rw [hfd] at h
      cases h
      exact ⟨_, shiftPc k, by simp only [LintEdit.setFun, if_true], Shift.erase hk hskip hlab, shiftPc_zero k⟩
    · exact ⟨fd'.body, fun pc => pc, by simp only [LintEdit.setFun, hi, if_false]; exact h, Shift.id _, rfl⟩

/-- **the deletion theorem in general form**: the configurations differ by deletions of skippable statements in function
bodies (`DelFuns`), the list `P'` is `P` without some skippable statements (`Shift`); unlimited budget.  A run of the
original that ends (any fuel `f`) is matched by the run of the edited program with the same fuel; a run of the edited
program that ends is matched by the run of the original with fuel `2·f+1`.  "Matched" = the same kind of result, the same
value / error, the same globals and the same world. -/
theorem delete_sim {cfg cfg' : Config W} (hcfg : CfgSame cfg cfg') (h0 : cfg.maxStatements = 0) (hf : DelFuns cfg cfg')
    {P P' : List Stmt} {sh : Nat → Nat} (hsh : Shift P P' sh)
    (l : Option Env) (base : Option String) (pc : Nat) {st st' : State W} (hst : StEq st st') (f : Nat) :
    (execM₀ cfg f P l base pc st ≠ .oof →
      ResEq (execM₀ cfg f P l base pc st) (execM₀ cfg' f P' l base (sh pc) st')) ∧
    (execM₀ cfg' f P' l base (sh pc) st' ≠ .oof →
      ResEq (execM₀ cfg (2*f+1) P l base pc st) (execM₀ cfg' f P' l base (sh pc) st')) := by
  constructor
  · intro hr
    exact ((delFwd (C := CT) (fun _ _ _ => trivial) (fun _ _ _ => trivial) hcfg h0 hf f).2.1 P P' sh hsh pc l l base st st'
      (LocAgree.refl _ _) hst.sr).toEq hr
  · intro hr
    exact (((delBwd hcfg h0 hf f).2.1 P P' sh hsh pc l l base st st' (LocAgree.refl _ _) hst.symm.sr).toEq hr).symm

/-- the same for calls of any function value (script function, library function with call-backs, anything else) -/
theorem delete_sim_call {cfg cfg' : Config W} (hcfg : CfgSame cfg cfg') (h0 : cfg.maxStatements = 0) (hf : DelFuns cfg cfg')
    (fv : Value) (args : List Value) {st st' : State W} (hst : StEq st st') (f : Nat) :
    (callValue₀ cfg f fv args st ≠ .oof → OutEq (callValue₀ cfg f fv args st) (callValue₀ cfg' f fv args st')) ∧
    (callValue₀ cfg' f fv args st' ≠ .oof → OutEq (callValue₀ cfg (2*f+1) fv args st) (callValue₀ cfg' f fv args st')) := by
  constructor
  · intro hr
    exact ((delFwd (C := CT) (fun _ _ _ => trivial) (fun _ _ _ => trivial) hcfg h0 hf f).1 fv args st st' hst.sr).toEq hr
  · intro hr
    exact (((delBwd hcfg h0 hf f).1 fv args st' st hst.symm.sr).toEq hr).symm

/-! ### runs, without fuel -/

/-- the run of the script `P` (as `execute_script` starts it) ends in `r` -/
def RunsTo (cfg : Config W) (P : List Stmt) (base : Option String) (st : State W) (r : Res W) : Prop :=
  r ≠ .oof ∧ ∃ f, execute₀ cfg f P base st = r

/-- every run of `(cfg, P)` that ends is matched by a run of `(cfg', P')` with the same result, globals and world, and
conversely (so one diverges iff the other does) -/
def RunsEquiv (cfg : Config W) (P : List Stmt) (cfg' : Config W) (P' : List Stmt) : Prop :=
  ∀ base st,
    (∀ r, RunsTo cfg P base st r → ∃ r', RunsTo cfg' P' base st r' ∧ ResEq r r') ∧
    (∀ r', RunsTo cfg' P' base st r' → ∃ r, RunsTo cfg P base st r ∧ ResEq r r')

theorem delete_runs {cfg cfg' : Config W} (hcfg : CfgSame cfg cfg') (h0 : cfg.maxStatements = 0) (hf : DelFuns cfg cfg')
    {P P' : List Stmt} {sh : Nat → Nat} (hsh : Shift P P' sh) (hsh0 : sh 0 = 0) : RunsEquiv cfg P cfg' P' := by
  intro base st
  constructor
  · rintro r ⟨hr, f, rfl⟩
    have h := (delete_sim hcfg h0 hf hsh none base 0 (StEq.refl { st with count := 0 }) f).1 hr
    rw [hsh0] at h
    exact ⟨_, ⟨h.ne_oof hr, f, rfl⟩, h⟩
  · rintro r' ⟨hr, f, rfl⟩
    have h := (delete_sim hcfg h0 hf hsh none base 0 (StEq.refl { st with count := 0 }) f).2 (by rw [hsh0]; exact hr)
    rw [hsh0] at h
    exact ⟨_, ⟨h.symm.ne_oof hr, 2*f+1, rfl⟩, h⟩

/-! ### with a statement budget: runs in which the budget is not the deciding factor -/

/-- the right-hand counter is not larger -/
abbrev CLe : Nat → Nat → Prop := fun a b => b ≤ a

/-- the statement counter a finished run ends with -/
def resCount : Res W → Nat
  | .done s => s.count
  | .ret _ s => s.count
  | .err _ s => s.count
  | .oof => 0

/-- forward direction with the counters: the edited run never counts more than the original -/
theorem delete_sim_count {cfg cfg' : Config W} (hcfg : CfgSame cfg cfg') (h0 : cfg.maxStatements = 0) (hf : DelFuns cfg cfg')
    {P P' : List Stmt} {sh : Nat → Nat} (hsh : Shift P P' sh)
    (l : Option Env) (base : Option String) (pc : Nat) {st st' : State W} (hst : StEq st st') (hcnt : st'.count ≤ st.count)
    (f : Nat) (hr : execM₀ cfg f P l base pc st ≠ .oof) :
    ResEq (execM₀ cfg f P l base pc st) (execM₀ cfg' f P' l base (sh pc) st') ∧
    resCount (execM₀ cfg' f P' l base (sh pc) st') ≤ resCount (execM₀ cfg f P l base pc st) := by
  have h := (delFwd (C := CLe) (fun _ _ h => Nat.succ_le_succ h) (fun _ _ h => Nat.le_succ_of_le h) hcfg h0 hf f).2.1
    P P' sh hsh pc l l base st st' (LocAgree.refl _ _) ⟨hst.1, hst.2, hcnt⟩
  refine ⟨h.toEq hr, ?_⟩
  cases hX : execM₀ cfg f P l base pc st with
  | oof => exact absurd hX hr
  | done s => rw [hX] at h; obtain ⟨s', h', hs⟩ := h; rw [h']; exact hs.2.2
  | ret v s => rw [hX] at h; obtain ⟨s', h', hs⟩ := h; rw [h']; exact hs.2.2
  | err e s => rw [hX] at h; obtain ⟨s', h', hs⟩ := h; rw [h']; exact hs.2.2

/-- **the deletions under any statement budget `L`** (`0` = unlimited): if the run of the original under `L` ends and is not
aborted by the budget, the run of the edited program under the same budget and with the same fuel ends with the same
result, error, globals and world.  (The converse needs the unlimited budget: `Tiny.delete_budget_counterexample`.) -/
theorem delete_runs_budget {cfg cfg' : Config W} (hcfg : CfgSame cfg cfg') (hf : DelFuns cfg cfg')
    {P P' : List Stmt} {sh : Nat → Nat} (hsh : Shift P P' sh) (hsh0 : sh 0 = 0) (L f : Nat) (base : Option String)
    (st : State W) (hr : execute₀ (C09.withMax cfg L) f P base st ≠ .oof)
    (hx : ∀ m s, execute₀ (C09.withMax cfg L) f P base st ≠ .err (.exceeded m) s) :
    ResEq (execute₀ (C09.withMax cfg L) f P base st) (execute₀ (C09.withMax cfg' L) f P' base st) := by
  have hcfg0 : CfgSame (C09.withMax cfg 0) (C09.withMax cfg' 0) :=
    ⟨hcfg.host, hcfg.builtins, hcfg.debug, hcfg.resolve, hcfg.fetch, rfl⟩
  have hf0 : DelFuns (C09.withMax cfg 0) (C09.withMax cfg' 0) := ⟨hf.onNone, hf.onSome⟩
  have hfw : ResSim True CLe (execute₀ (C09.withMax cfg 0) f P base st) (execute₀ (C09.withMax cfg' 0) f P' base st) := by
    have := (delFwd (C := CLe) (fun _ _ h => Nat.succ_le_succ h) (fun _ _ h => Nat.le_succ_of_le h) hcfg0 rfl hf0 f).2.1
      P P' sh hsh 0 none none base { st with count := 0 } { st with count := 0 } trivial ⟨rfl, rfl, Nat.le_refl _⟩
    rw [hsh0] at this
    exact this
  rcases Nat.eq_zero_or_pos L with rfl | hL
  · exact hfw.toEq hr
  · have hsA := C09.execute_sim (C09.Ext.triv W) cfg (C09.hostExt_triv _) L hL f P base st
    rw [C08.execute_eq, C08.execute_eq] at hsA
    rcases hsA with ⟨heq, hle⟩ | ⟨s', hb, _, _⟩
    · rw [heq] at hr ⊢
      have hsB := C09.execute_sim (C09.Ext.triv W) cfg' (C09.hostExt_triv _) L hL f P' base st
      rw [C08.execute_eq, C08.execute_eq] at hsB
      rcases hsB with ⟨heq', _⟩ | ⟨s', _, _, hbey⟩
      · rw [heq']; exact hfw.toEq hr
      · exfalso
        cases hX : execute₀ (C09.withMax cfg 0) f P base st with
        | oof => exact hr hX
        | done s =>
          rw [hX] at hfw hle
          obtain ⟨s2, h2, hs2⟩ := hfw
          rw [h2] at hbey
          have h1 : s.count ≤ L := hle
          have h3 : L < s2.count := hbey.1
          have h4 : s2.count ≤ s.count := hs2.2.2
          omega
        | ret v s =>
          rw [hX] at hfw hle
          obtain ⟨s2, h2, hs2⟩ := hfw
          rw [h2] at hbey
          have h1 : s.count ≤ L := hle
          have h3 : L < s2.count := hbey.1
          have h4 : s2.count ≤ s.count := hs2.2.2
          omega
        | err e s =>
          rw [hX] at hfw hle
          obtain ⟨s2, h2, hs2⟩ := hfw
          rw [h2] at hbey
          have h1 : s.count ≤ L := hle
          have h3 : L < s2.count := hbey.1
          have h4 : s2.count ≤ s.count := hs2.2.2
          omega
    · exact absurd (C09.Res.eq_of_fin_err hb) (hx L s')

/-! ### 1. deleting an unused label -/

theorem label_not_target {P : List Stmt} {l : Name} (hnj : ∀ c, Stmt.jump l c ∉ P) :
    ∀ lab c, Stmt.jump lab c ∈ P → Machine.isLabel lab (.label l) = false := by
  intro lab c hmem
  have : l ≠ lab := by rintro rfl; exact hnj c hmem
  simp [Machine.isLabel, this]

/-- **delete_unused_label.**  `P[k]` is `label l` and no jump of `P` targets `l`.  Running `P` without statement `k` — from the
corresponding position `shiftPc k pc`, in a configuration whose function bodies may also have lost skippable statements
(`DelFuns`; `DelFuns.refl` for "the same configuration") — gives the same result, globals and world as running `P`:
forward with the same fuel, conversely with fuel `2·f+1`.  Unlimited budget: the label costs one statement tick. -/
theorem delete_unused_label {cfg cfg' : Config W} (hcfg : CfgSame cfg cfg') (h0 : cfg.maxStatements = 0) (hf : DelFuns cfg cfg')
    {P : List Stmt} {k : Nat} {l : Name} (hk : P[k]? = some (.label l)) (hnj : ∀ c, Stmt.jump l c ∉ P)
    (locals : Option Env) (base : Option String) (pc : Nat) {st st' : State W} (hst : StEq st st') (f : Nat) :
    (execM₀ cfg f P locals base pc st ≠ .oof →
      ResEq (execM₀ cfg f P locals base pc st) (execM₀ cfg' f (deleteAt P k) locals base (shiftPc k pc) st')) ∧
    (execM₀ cfg' f (deleteAt P k) locals base (shiftPc k pc) st' ≠ .oof →
      ResEq (execM₀ cfg (2*f+1) P locals base pc st) (execM₀ cfg' f (deleteAt P k) locals base (shiftPc k pc) st')) :=
  delete_sim hcfg h0 hf (Shift.erase hk (Or.inl ⟨l, rfl⟩) (label_not_target hnj)) locals base pc hst f

/-- every other label keeps its (first-occurrence) position, shifted -/
theorem delete_unused_label_findLabel {P : List Stmt} {k : Nat} {l : Name} (hk : P[k]? = some (.label l)) {l2 : Name}
    (hne : l2 ≠ l) :
    Machine.findLabel (deleteAt P k) l2 = (Machine.findLabel P l2).map fun i => if i < k then i else i - 1 := by
  cases h : Machine.findLabel P l2 with
  | none => exact findLabel_eraseIdx_none k h
  | some i =>
    have : Machine.isLabel l2 (.label l) = false := by simp [Machine.isLabel, Ne.symm hne]
    exact (findLabel_eraseIdx_some hk this h).1

/-- **delete_unused_label, function scope**: the label is deleted from the body of function `id`.  Every call of every
function value and every run of every statement list in the edited configuration matches the original one. -/
theorem delete_unused_label_fn {cfg : Config W} (h0 : cfg.maxStatements = 0) {id : FnId} {fd : FuncDef}
    (hfd : cfg.funs id = some fd) {k : Nat} {l : Name} (hk : fd.body[k]? = some (.label l))
    (hnj : ∀ c, Stmt.jump l c ∉ fd.body) :
    DelFuns cfg (setFun cfg id { fd with body := deleteAt fd.body k }) ∧
    (∀ Q, RunsEquiv cfg Q (setFun cfg id { fd with body := deleteAt fd.body k }) Q) ∧
    ∀ fv args st f,
      (callValue₀ cfg f fv args st ≠ .oof →
        OutEq (callValue₀ cfg f fv args st) (callValue₀ (setFun cfg id { fd with body := deleteAt fd.body k }) f fv args st)) ∧
      (callValue₀ (setFun cfg id { fd with body := deleteAt fd.body k }) f fv args st ≠ .oof →
        OutEq (callValue₀ cfg (2*f+1) fv args st)
          (callValue₀ (setFun cfg id { fd with body := deleteAt fd.body k }) f fv args st)) := by
  have hD := DelFuns.setFun hfd hk (Or.inl ⟨l, rfl⟩) (label_not_target hnj)
  exact ⟨hD, fun Q => delete_runs (CfgSame.setFun _ _ _) h0 hD (Shift.id Q) rfl,
    fun fv args st f => delete_sim_call (CfgSame.setFun _ _ _) h0 hD fv args (StEq.refl st) f⟩

/-! ### 2. deleting a pointless statement -/

/-- **delete_pointless_stmt.**  `P[k]` is an expression statement without assignment target whose expression contains no
function call (`Lint.isPointless`).  Such an expression cannot fail and has no effect (`evalExpr_pointless`), so deleting the
statement preserves every run — same formulation as `delete_unused_label`. -/
theorem delete_pointless_stmt {cfg cfg' : Config W} (hcfg : CfgSame cfg cfg') (h0 : cfg.maxStatements = 0)
    (hf : DelFuns cfg cfg') {P : List Stmt} {k : Nat} {e : Expr} (hk : P[k]? = some (.expr none e))
    (hp : isPointless e = true)
    (locals : Option Env) (base : Option String) (pc : Nat) {st st' : State W} (hst : StEq st st') (f : Nat) :
    (execM₀ cfg f P locals base pc st ≠ .oof →
      ResEq (execM₀ cfg f P locals base pc st) (execM₀ cfg' f (deleteAt P k) locals base (shiftPc k pc) st')) ∧
    (execM₀ cfg' f (deleteAt P k) locals base (shiftPc k pc) st' ≠ .oof →
      ResEq (execM₀ cfg (2*f+1) P locals base pc st) (execM₀ cfg' f (deleteAt P k) locals base (shiftPc k pc) st')) :=
  delete_sim hcfg h0 hf (Shift.erase hk (Or.inr ⟨e, rfl, hp⟩) (fun _ _ _ => rfl)) locals base pc hst f

/-- **delete_pointless_stmt, function scope** -/
theorem delete_pointless_stmt_fn {cfg : Config W} (h0 : cfg.maxStatements = 0) {id : FnId} {fd : FuncDef}
    (hfd : cfg.funs id = some fd) {k : Nat} {e : Expr} (hk : fd.body[k]? = some (.expr none e)) (hp : isPointless e = true) :
    DelFuns cfg (setFun cfg id { fd with body := deleteAt fd.body k }) ∧
    (∀ Q, RunsEquiv cfg Q (setFun cfg id { fd with body := deleteAt fd.body k }) Q) ∧
    ∀ fv args st f,
      (callValue₀ cfg f fv args st ≠ .oof →
        OutEq (callValue₀ cfg f fv args st) (callValue₀ (setFun cfg id { fd with body := deleteAt fd.body k }) f fv args st)) ∧
      (callValue₀ (setFun cfg id { fd with body := deleteAt fd.body k }) f fv args st ≠ .oof →
        OutEq (callValue₀ cfg (2*f+1) fv args st)
          (callValue₀ (setFun cfg id { fd with body := deleteAt fd.body k }) f fv args st)) := by
  have hD := DelFuns.setFun hfd hk (Or.inr ⟨e, rfl, hp⟩) (fun _ _ _ => rfl)
  exact ⟨hD, fun Q => delete_runs (CfgSame.setFun _ _ _) h0 hD (Shift.id Q) rfl,
    fun fv args st f => delete_sim_call (CfgSame.setFun _ _ _) h0 hD fv args (StEq.refl st) f⟩

/-- deleting from the script itself: the runs of `execute₀` are equivalent -/
theorem delete_skippable_runs {cfg : Config W} (h0 : cfg.maxStatements = 0) {P : List Stmt} {k : Nat} {s : Stmt}
    (hk : P[k]? = some s) (hskip : Skippable s) (hlab : ∀ lab c, Stmt.jump lab c ∈ P → Machine.isLabel lab s = false) :
    RunsEquiv cfg P cfg (deleteAt P k) :=
  delete_runs (CfgSame.withFuns cfg cfg.funs) h0 (DelFuns.refl cfg) (Shift.erase hk hskip hlab) (shiftPc_zero k)

/-! ## renamings -/

/-- equal counters -/
abbrev CE : Nat → Nat → Prop := fun a b => a = b

/-- the function tables of two configurations are related by renamings of assignment targets and parameters that are
outside a set `U` of names containing every name the body reads (possibly no renaming at all) -/
structure RenFuns (cA cB : Config W) : Prop where
  onNone : ∀ id, cA.funs id = none → cB.funs id = none
  onSome : ∀ id fd, cA.funs id = some fd → ∃ fd', cB.funs id = some fd' ∧ fd'.lastArgArray = fd.lastArgArray ∧
    ∃ U : Name → Prop, (∀ n ∈ bodyUses fd.body, U n) ∧ RenBody U fd.body fd'.body ∧ ArgsRen U fd.args fd'.args

/-- the three statements of the renaming simulation at fuel `f`: full agreement (out-of-fuel included), equal counters -/
def RenAt (cA cB : Config W) (f : Nat) : Prop :=
  CallSim False CE (callValue₀ cA f) (callValue₀ cB f) ∧
  (∀ (U : Name → Prop) P P', RenBody U P P' → (∀ n ∈ bodyUses P, U n) → ∀ pc l l' base s s', LocAgree U l l' →
      (l.isSome = true ∨ P' = P) → SR CE s s' →
      ResSim False CE (execM₀ cA f P l base pc s) (execM₀ cB f P' l' base pc s')) ∧
  InclSim False CE (execIncludes₀ cA f) (execIncludes₀ cB f)

theorem renAt {cA cB : Config W} (hcfg : CfgSame cA cB) (hf : RenFuns cA cB) : ∀ f, RenAt cA cB f
  | 0 => by
    refine ⟨call_zero_sim cA cB (Or.inr rfl), ?_, incl_zero_sim hcfg (Or.inr rfl)⟩
    intro U P P' hren hU pc l l' base s s' hl hP hs
    rcases hren pc with ⟨hA, hB⟩ | ⟨sA, sB, hA, hB, _⟩
    · rw [execM₀_none _ _ _ _ _ _ _ hA, execM₀_none _ _ _ _ _ _ _ hB]; exact ⟨s', rfl, hs⟩
    · rw [execM₀_zero _ _ _ _ _ _ _ hA, execM₀_zero _ _ _ _ _ _ _ hB]; exact Or.inr rfl
  | f+1 => by
    obtain ⟨ihC, ihE, ihI⟩ := renAt hcfg hf f
    refine ⟨?_, ?_, ?_⟩
    · refine call_step_sim hcfg ihC hf.onNone ?_
      intro id fdA hA
      obtain ⟨fdB, hB, hlaa, U, hU, hbody, hargs⟩ := hf.onSome id fdA hA
      refine ⟨fdB, hB, fun args s s' hs => callBody_sim hcfg (U := U) ?_ ?_ args hs⟩
      · intro args w
        rw [hlaa]
        exact bindArgs_ren cA.host fdA.lastArgArray hargs args [] [] w (LocAgree.refl U (some []))
      · intro la lb s s' hl hs
        exact ihE U fdA.body fdB.body hbody hU 0 (some la) (some lb) none s s' hl (Or.inl rfl) hs
    · intro U P P' hren hU pc l l' base s s' hl hP hs
      rcases hren pc with ⟨hA, hB⟩ | ⟨sA, sB, hA, hB, hr⟩
      · rw [execM₀_none _ _ _ _ _ _ _ hA, execM₀_none _ _ _ _ _ _ _ hB]; exact ⟨s', rfl, hs⟩
      · have hmem : sA ∈ P := List.mem_of_getElem? hA
        have hsren : StmtRen U l sA sB := by
          rcases hr with rfl | ⟨x, x', e, rfl, rfl, hx, hx'⟩
          · exact Or.inl rfl
          · rcases hP with hsome | rfl
            · exact Or.inr ⟨x, x', e, rfl, rfl, hx, hx', hsome⟩
            · rw [hA] at hB; exact Or.inl (Option.some.inj hB).symm
        refine exec_step_sim (U := U) (PR := fun a b => b = a) (fun a b h => by rw [h]) hcfg (Or.inr (fun _ _ h => h)) ihC ihI
          ?_ hA hB rfl ?_ ?_ hl hsren ?_ base hs
        · intro a b hab l1 l1' base s s' hl1 hsome hs1
          subst hab
          refine ihE U P P' hren hU b l1 l1' base s s' hl1 ?_ hs1
          rcases hP with h | h
          · exact Or.inl (hsome.trans h)
          · exact Or.inr h
        · intro lab c _ hF
          rw [hren.findLabel lab]; exact hF
        · intro lab c i _ hF
          exact ⟨i, by rw [hren.findLabel lab]; exact hF, rfl⟩
        · intro n hn
          exact hU n (List.mem_flatMap.2 ⟨sA, hmem, hn⟩)
    · refine incl_step_sim hcfg (fun P base s s' hs => ?_) ihI
      exact ihE UT P P (RenBody.refl _ P) (fun _ _ => trivial) 0 none none base s s' trivial (Or.inr rfl) hs

theorem SR.eq {s s' : State W} (h : SR CE s s') : s' = s := by
  obtain ⟨g, w, c⟩ := s
  obtain ⟨g', w', c'⟩ := s'
  obtain ⟨h1, h2, h3⟩ := h
  simp only at h1 h2 h3
  subst h1; subst h2; subst h3
  rfl

theorem ResSim.eq {r r' : Res W} (h : ResSim False CE r r') : r' = r := by
  cases r with
  | done s => obtain ⟨s', rfl, hs⟩ := h; rw [hs.eq]
  | ret v s => obtain ⟨s', rfl, hs⟩ := h; rw [hs.eq]
  | err e s => obtain ⟨s', rfl, hs⟩ := h; rw [hs.eq]
  | oof => rcases h with h | h; exact h.elim; exact h

theorem OutSim.eq {r r' : Out W} (h : OutSim False CE r r') : r' = r := by
  cases r with
  | ok v s => obtain ⟨s', rfl, hs⟩ := h; rw [hs.eq]
  | err e s => obtain ⟨s', rfl, hs⟩ := h; rw [hs.eq]
  | oof => rcases h with h | h; exact h.elim; exact h

theorem SR.rfl' (s : State W) : SR CE s s := ⟨rfl, rfl, rfl⟩

/-- **the renaming theorem in general form**: two configurations whose function tables are related by `RenFuns` compute the
same function — every call, every run of every statement list and every include give *equal* results (value, error, globals,
world, statement counter, out-of-fuel), for every fuel and every budget. -/
theorem rename_sim {cfg cfg' : Config W} (hcfg : CfgSame cfg cfg') (hf : RenFuns cfg cfg') (f : Nat) :
    (∀ fv args st, callValue₀ cfg' f fv args st = callValue₀ cfg f fv args st) ∧
    (∀ P l base pc st, execM₀ cfg' f P l base pc st = execM₀ cfg f P l base pc st) ∧
    (∀ base incs st, execIncludes₀ cfg' f base incs st = execIncludes₀ cfg f base incs st) ∧
    (∀ P base st, execute₀ cfg' f P base st = execute₀ cfg f P base st) := by
  obtain ⟨hC, hE, hI⟩ := renAt hcfg hf f
  have hexec : ∀ P l base pc st, execM₀ cfg' f P l base pc st = execM₀ cfg f P l base pc st := fun P l base pc st =>
    (hE UT P P (RenBody.refl _ P) (fun _ _ => trivial) pc l l base st st (LocAgree.refl _ _) (Or.inr rfl) (SR.rfl' st)).eq
  exact ⟨fun fv args st => (hC fv args st st (SR.rfl' st)).eq, hexec,
    fun base incs st => (hI base incs st st (SR.rfl' st)).eq, fun P base st => hexec P none base 0 _⟩

/-! ### 3. renaming an unused local variable -/

/-- the names other than `v` and `v'` -/
def Off (v v' : Name) : Name → Prop := fun n => n ≠ v ∧ n ≠ v'

theorem off_of_not_mem {v v' : Name} {ns : List Name} (hv : v ∉ ns) (hv' : v' ∉ ns) : ∀ n ∈ ns, Off v v' n :=
  fun n hn => ⟨fun e => hv (e ▸ hn), fun e => hv' (e ▸ hn)⟩

theorem RenFuns.setFun {cfg : Config W} {id : FnId} {fd fd' : FuncDef} (hfd : cfg.funs id = some fd)
    (hlaa : fd'.lastArgArray = fd.lastArgArray) {U : Name → Prop} (hU : ∀ n ∈ bodyUses fd.body, U n)
    (hbody : RenBody U fd.body fd'.body) (hargs : ArgsRen U fd.args fd'.args) : RenFuns cfg (setFun cfg id fd') where
  onNone := by
    intro i h
    by_cases hi : i = id
    · subst hi; rw [hfd] at h; cases h
    · simp only [LintEdit.setFun, hi, if_false]; exact h
  onSome := by
    intro i fd0 h
    by_cases hi : i = id
    · subst hi
      rw [hfd] at h
      cases h
      exact ⟨fd', by simp only [LintEdit.setFun, if_true], hlaa, U, hU, hbody, hargs⟩
    · exact ⟨fd0, by simp only [LintEdit.setFun, hi, if_false]; exact h, rfl, UT, fun _ _ => trivial,
        RenBody.refl _ _, ArgsRen.refl _ _⟩

/-- **rename_unused_local.**  In the body of function `id`, no expression reads `v` (as a variable or as the name of a called
function) nor `v'`.  Replace the assignment targets `v` by `v'` (`renameStmts`).  Then
* the edited configuration computes the same function as the original: every call (in particular of function `id`), every run
  of every script and every include give equal results — value, error, globals, world, counter — for all fuel and budgets;
* inside the function, the run of the renamed body on locals `lb` equals the run of the original body on locals `la`
  whenever `la` and `lb` agree on every name other than `v`, `v'` (from any position `pc`).
`v'` need not be fresh among the assignment targets or parameters: it only must not be read. -/
theorem rename_unused_local {cfg : Config W} {id : FnId} {fd : FuncDef} (hfd : cfg.funs id = some fd) {v v' : Name}
    (hv : v ∉ bodyUses fd.body) (hv' : v' ∉ bodyUses fd.body) (f : Nat) :
    (∀ fv args st, callValue₀ (setFun cfg id { fd with body := renameStmts v v' fd.body }) f fv args st =
        callValue₀ cfg f fv args st) ∧
    (∀ P l base pc st, execM₀ (setFun cfg id { fd with body := renameStmts v v' fd.body }) f P l base pc st =
        execM₀ cfg f P l base pc st) ∧
    (∀ P base st, execute₀ (setFun cfg id { fd with body := renameStmts v v' fd.body }) f P base st =
        execute₀ cfg f P base st) ∧
    (∀ la lb : Env, (∀ n, n ≠ v → n ≠ v' → la.get? n = lb.get? n) → ∀ base pc st,
      execM₀ (setFun cfg id { fd with body := renameStmts v v' fd.body }) f (renameStmts v v' fd.body) (some lb) base pc st =
        execM₀ cfg f fd.body (some la) base pc st) := by
  have hU := off_of_not_mem hv hv'
  have hnv : ¬ Off v v' v := fun h => h.1 rfl
  have hnv' : ¬ Off v v' v' := fun h => h.2 rfl
  have hbody := RenBody.renameStmts (Off v v') hnv hnv' fd.body
  have hR : RenFuns cfg (setFun cfg id { fd with body := renameStmts v v' fd.body }) :=
    RenFuns.setFun hfd rfl hU hbody (ArgsRen.refl _ _)
  obtain ⟨h1, h2, _, h4⟩ := rename_sim (CfgSame.setFun cfg id _) hR f
  refine ⟨h1, h2, h4, ?_⟩
  intro la lb hl base pc st
  exact ((renAt (CfgSame.setFun cfg id _) hR f).2.1 (Off v v') fd.body _ hbody hU pc (some la) (some lb) base st st
    (fun n hn => hl n hn.1 hn.2) (Or.inl rfl) (SR.rfl' st)).eq

/-! ### 3'. renaming an unused parameter -/

/-- **rename_unused_arg.**  No expression of the body of function `id` reads `a` nor `a'`.  Rename the parameter `a` to `a'`
(every position named `a`).  The edited configuration computes the same function as the original (calls, runs, includes:
equal results, for all fuel and budgets), and the initial locals of a call agree off `{a, a'}`. -/
theorem rename_unused_arg {cfg : Config W} {id : FnId} {fd : FuncDef} (hfd : cfg.funs id = some fd) {a a' : Name}
    (ha : a ∉ bodyUses fd.body) (ha' : a' ∉ bodyUses fd.body) (f : Nat) :
    (∀ fv args st, callValue₀ (setFun cfg id { fd with args := renameArgs a a' fd.args }) f fv args st =
        callValue₀ cfg f fv args st) ∧
    (∀ P l base pc st, execM₀ (setFun cfg id { fd with args := renameArgs a a' fd.args }) f P l base pc st =
        execM₀ cfg f P l base pc st) ∧
    (∀ P base st, execute₀ (setFun cfg id { fd with args := renameArgs a a' fd.args }) f P base st =
        execute₀ cfg f P base st) ∧
    (∀ args w n, n ≠ a → n ≠ a' →
      (bindArgs cfg.host fd.lastArgArray fd.args args [] w).1.get? n =
        (bindArgs cfg.host fd.lastArgArray (renameArgs a a' fd.args) args [] w).1.get? n) := by
  have hU := off_of_not_mem ha ha'
  have hna : ¬ Off a a' a := fun h => h.1 rfl
  have hna' : ¬ Off a a' a' := fun h => h.2 rfl
  have hargs := ArgsRen.renameArgs (Off a a') hna hna' fd.args
  have hR : RenFuns cfg (setFun cfg id { fd with args := renameArgs a a' fd.args }) :=
    RenFuns.setFun hfd rfl hU (RenBody.refl _ _) hargs
  obtain ⟨h1, h2, _, h4⟩ := rename_sim (CfgSame.setFun cfg id _) hR f
  refine ⟨h1, h2, h4, ?_⟩
  intro args w n hn hn'
  exact (bindArgs_ren cfg.host fd.lastArgArray hargs args [] [] w (LocAgree.refl _ (some []))).1 n ⟨hn, hn'⟩

/-! ## 4. the tie to the lint model: what a warning guarantees, and that acting on it is sound -/

theorem keys_setDefault (d : Dict) (k : Name) (v : Nat) (n : Name) :
    n ∈ (d.setDefault k v).keys ↔ n ∈ d.keys ∨ n = k := by
  unfold Dict.setDefault
  by_cases h : k ∈ d.keys
  · simp only [(has_iff d k).2 h, if_true]
    constructor
    · exact Or.inl
    · rintro (h' | rfl)
      · exact h'
      · exact h
  · simp only [(has_false_iff d k).2 h, Bool.false_eq_true, if_false, keys_append, List.mem_append, List.mem_singleton]

theorem keys_addUses (n : Name) (ix : Nat) : ∀ (ns : List Name) (u : Dict),
    n ∈ (addUses u ix ns).keys ↔ n ∈ u.keys ∨ n ∈ ns
  | [], u => by simp [addUses]
  | m :: ns, u => by
    have ih := keys_addUses n ix ns (u.setDefault m ix)
    simp only [addUses, List.foldl_cons] at ih ⊢
    rw [ih, keys_setDefault]
    simp only [List.mem_cons]
    constructor
    · rintro ((h | h) | h)
      · exact Or.inl h
      · exact Or.inr (Or.inl h)
      · exact Or.inr (Or.inr h)
    · rintro (h | h | h)
      · exact Or.inl (Or.inl h)
      · exact Or.inl (Or.inr h)
      · exact Or.inr h

/-- the `uses` dictionary of lint's variable scan holds exactly the names the statements read -/
theorem varScan_uses_mem (n : Name) : ∀ (P : List Stmt) (ix : Nat) (a u : Dict),
    n ∈ (varScan ix P a u).2.keys ↔ n ∈ u.keys ∨ n ∈ bodyUses P
  | [], ix, a, u => by simp [varScan, bodyUses]
  | s :: rest, ix, a, u => by
    have hb : bodyUses (s :: rest) = stmtUses s ++ bodyUses rest := by simp [bodyUses]
    rw [hb, List.mem_append]
    cases s with
    | expr nm e =>
      simp only [varScan, stmtUses]
      rw [varScan_uses_mem n rest, keys_addUses]
      exact or_assoc
    | jump lab c =>
      cases c with
      | none => simp only [varScan, stmtUses]; rw [varScan_uses_mem n rest]; simp
      | some e =>
        simp only [varScan, stmtUses]
        rw [varScan_uses_mem n rest, keys_addUses]
        exact or_assoc
    | ret e =>
      cases e with
      | none => simp only [varScan, stmtUses]; rw [varScan_uses_mem n rest]; simp
      | some e =>
        simp only [varScan, stmtUses]
        rw [varScan_uses_mem n rest, keys_addUses]
        exact or_assoc
    | label lab => simp only [varScan, stmtUses]; rw [varScan_uses_mem n rest]; simp
    | function fid name args laa isAsync body => simp only [varScan, stmtUses]; rw [varScan_uses_mem n rest]; simp
    | «include» incs => simp only [varScan, stmtUses]; rw [varScan_uses_mem n rest]; simp

/-- the `assigns` dictionary holds exactly the assignment targets -/
theorem varScan_assigns_mem (n : Name) : ∀ (P : List Stmt) (ix : Nat) (a u : Dict),
    n ∈ (varScan ix P a u).1.keys ↔ n ∈ a.keys ∨ n ∈ assigned P
  | [], ix, a, u => by simp [varScan, assigned]
  | s :: rest, ix, a, u => by
    cases s with
    | expr nm e =>
      cases nm with
      | none =>
        simp only [varScan, assigned, List.filterMap_cons]
        exact varScan_assigns_mem n rest _ _ _
      | some m =>
        simp only [varScan, assigned, List.filterMap_cons, List.mem_cons]
        have ih := varScan_assigns_mem n rest (ix+1) (a.setDefault m ix) (addUses u ix (exprUses e))
        simp only [assigned] at ih
        rw [ih, keys_setDefault]
        exact or_assoc
    | jump lab c =>
      cases c <;> simp only [varScan, assigned, List.filterMap_cons] <;> exact varScan_assigns_mem n rest _ _ _
    | ret e =>
      cases e <;> simp only [varScan, assigned, List.filterMap_cons] <;> exact varScan_assigns_mem n rest _ _ _
    | label lab => simp only [varScan, assigned, List.filterMap_cons]; exact varScan_assigns_mem n rest _ _ _
    | function fid name args laa isAsync body =>
      simp only [varScan, assigned, List.filterMap_cons]; exact varScan_assigns_mem n rest _ _ _
    | «include» incs => simp only [varScan, assigned, List.filterMap_cons]; exact varScan_assigns_mem n rest _ _ _

theorem mem_unusedVarW_iff {f f' v : Name} {ix : Nat} {a u : Dict} :
    Warning.unusedVar f v ix ∈ unusedVarW f' a u → f = f' ∧ v ∈ a.keys ∧ v ∉ u.keys := by
  intro h
  simp only [unusedVarW, List.mem_filterMap] at h
  obtain ⟨v0, hv0, hw⟩ := h
  split at hw
  · cases hw
  · rename_i hu
    simp only [Option.some.injEq, Warning.unusedVar.injEq] at hw
    obtain ⟨rfl, rfl, _⟩ := hw
    refine ⟨rfl, (mem_sortNames _ _).1 hv0, ?_⟩
    exact (has_false_iff u v0).1 (by simpa using hu)

theorem mem_argLoop_unused {f f' a : Name} {ix ix' : Nat} {u : Dict} (args : List Name) : ∀ seen : List Name,
    Warning.unusedArg f a ix ∈ argLoop f' ix' u seen args → f = f' ∧ ix = ix' ∧ a ∈ args ∧ a ∉ u.keys := by
  induction args with
  | nil => intro seen h; simp [argLoop] at h
  | cons x r ih =>
    intro seen h
    rw [argLoop] at h
    split at h
    · rcases List.mem_cons.1 h with h | h
      · cases h
      · obtain ⟨h1, h2, h3, h4⟩ := ih _ h
        exact ⟨h1, h2, List.mem_cons_of_mem _ h3, h4⟩
    · rcases List.mem_append.1 h with h | h
      · split at h
        · simp at h
        · rename_i hu
          simp only [List.mem_singleton, Warning.unusedArg.injEq] at h
          obtain ⟨rfl, rfl, rfl⟩ := h
          exact ⟨rfl, rfl, List.mem_cons_self, (has_false_iff u a).1 (by simpa using hu)⟩
      · obtain ⟨h1, h2, h3, h4⟩ := ih _ h
        exact ⟨h1, h2, List.mem_cons_of_mem _ h3, h4⟩

/-- a warning about function `f` comes from the block of a top-level function statement named `f` -/
theorem mem_lint_fn_block {w : Warning} {ss : List Stmt} (h : w ∈ lint ss)
    (hshape : (∃ f v ix, w = .unusedVar f v ix) ∨ (∃ f a ix, w = .unusedArg f a ix)) :
    ∃ (i : Nat) (k : Nat) (f : Name) (a : List Name) (laa y : Bool) (body : List Stmt), ss[i]? = some (Stmt.function k f a laa y body) ∧ w ∈ lintFunction i f a body := by
  rw [lint_decomp] at h
  simp only [List.mem_append] at h
  rcases h with (((h | h) | h) | h) | h
  · split at h
    · simp only [List.mem_singleton] at h
      subst h
      rcases hshape with ⟨_, _, _, h⟩ | ⟨_, _, _, h⟩ <;> cases h
    · simp at h
  · obtain ⟨_, _, _, rfl⟩ := mem_usedBeforeW h
    rcases hshape with ⟨_, _, _, h⟩ | ⟨_, _, _, h⟩ <;> cases h
  · rcases mem_global_loop.1 h with ⟨f, i, rfl, _⟩ | ⟨i, k, f, a, v, y, b, hi, hw⟩ | ⟨i, e, rfl, _⟩ | ⟨l, i, rfl, _⟩
    · rcases hshape with ⟨_, _, _, h⟩ | ⟨_, _, _, h⟩ <;> cases h
    · exact ⟨i, k, f, a, v, y, b, hi, hw⟩
    · rcases hshape with ⟨_, _, _, h⟩ | ⟨_, _, _, h⟩ <;> cases h
    · rcases hshape with ⟨_, _, _, h⟩ | ⟨_, _, _, h⟩ <;> cases h
  · obtain ⟨_, _, rfl⟩ := mem_unusedLabelW h
    rcases hshape with ⟨_, _, _, h⟩ | ⟨_, _, _, h⟩ <;> cases h
  · obtain ⟨_, _, rfl⟩ := mem_unknownLabelW h
    rcases hshape with ⟨_, _, _, h⟩ | ⟨_, _, _, h⟩ <;> cases h

/-- **what `Unused variable` guarantees**: the script has a top-level function statement named `f` whose body assigns `v`
and in which no expression reads `v` (neither as a variable nor as the name of a called function) -/
theorem unused_variable_mem_lint {ss : List Stmt} {f v : Name} {ix : Nat} (h : Warning.unusedVar f v ix ∈ lint ss) :
    ∃ (i : Nat) (k : Nat) (a : List Name) (laa y : Bool) (body : List Stmt), ss[i]? = some (Stmt.function k f a laa y body) ∧ v ∈ assigned body ∧ v ∉ bodyUses body := by
  obtain ⟨i, k, f', a, laa, y, body, hi, hw⟩ := mem_lint_fn_block h (Or.inl ⟨f, v, ix, rfl⟩)
  rw [lintFunction_decomp] at hw
  simp only [List.mem_append] at hw
  rcases hw with ((((hw | hw) | hw) | hw) | hw) | hw
  · obtain ⟨_, _, _, h⟩ := mem_usedBeforeW hw; cases h
  · obtain ⟨rfl, h1, h2⟩ := mem_unusedVarW_iff hw
    refine ⟨i, k, a, laa, y, body, hi, ?_, ?_⟩
    · simpa using (varScan_assigns_mem v body 0 [] []).1 h1
    · intro hc
      exact h2 ((varScan_uses_mem v body 0 [] []).2 (Or.inr hc))
  · rcases mem_argLoop_shape a [] hw with ⟨_, h⟩ | ⟨_, h⟩ <;> cases h
  · rcases mem_fn_loop hw with ⟨_, h⟩ | ⟨_, _, h⟩ <;> cases h
  · obtain ⟨_, _, h⟩ := mem_unusedLabelW hw; cases h
  · obtain ⟨_, _, h⟩ := mem_unknownLabelW hw; cases h

/-- **what `Unused argument` guarantees**: statement `ix` of the script is a function statement named `f`, `a` is one of its
parameters and no expression of its body reads `a` -/
theorem unused_argument_mem_lint {ss : List Stmt} {f a : Name} {ix : Nat} (h : Warning.unusedArg f a ix ∈ lint ss) :
    ∃ k args laa y body, ss[ix]? = some (Stmt.function k f args laa y body) ∧ a ∈ args ∧ a ∉ bodyUses body := by
  obtain ⟨i, k, f', args, laa, y, body, hi, hw⟩ := mem_lint_fn_block h (Or.inr ⟨f, a, ix, rfl⟩)
  rw [lintFunction_decomp] at hw
  simp only [List.mem_append] at hw
  rcases hw with ((((hw | hw) | hw) | hw) | hw) | hw
  · obtain ⟨_, _, _, h⟩ := mem_usedBeforeW hw; cases h
  · obtain ⟨_, _, h⟩ := mem_unusedVarW hw; cases h
  · obtain ⟨rfl, rfl, h1, h2⟩ := mem_argLoop_unused args [] hw
    refine ⟨k, args, laa, y, body, hi, h1, ?_⟩
    intro hc
    exact h2 ((varScan_uses_mem a body 0 [] []).2 (Or.inr hc))
  · rcases mem_fn_loop hw with ⟨_, h⟩ | ⟨_, _, h⟩ <;> cases h
  · obtain ⟨_, _, h⟩ := mem_unusedLabelW hw; cases h
  · obtain ⟨_, _, h⟩ := mem_unknownLabelW hw; cases h

/-- **lint_unused_label_sound.**  If lint reports `Unused label l` at index `i` of scope `sc`, the script has a scope of that
name (`ScopeOf`: the script itself, or the body of a top-level function statement) whose statement `i` is `label l` and which
no jump targets `l`; deleting that statement is sound: (a) for the list run as a script, (b) for the list installed as the
body of any function `id` of the table — in both cases every run of the original that ends is matched by a run of the edited
program with the same result, error, globals and world, and conversely (`RunsEquiv`; unlimited budget). -/
theorem lint_unused_label_sound (ss : List Stmt) (sc : Scope) (l : Name) (i : Nat)
    (h : Warning.unusedLabel sc l i ∈ lint ss) :
    ∃ body, ScopeOf ss sc body ∧ body[i]? = some (.label l) ∧ (∀ c, Stmt.jump l c ∉ body) ∧
      ∀ cfg : Config W, cfg.maxStatements = 0 →
        RunsEquiv cfg body cfg (deleteAt body i) ∧
        ∀ id fd, cfg.funs id = some fd → fd.body = body →
          ∀ Q, RunsEquiv cfg Q (setFun cfg id { fd with body := deleteAt body i }) Q := by
  obtain ⟨body, hsc, ⟨_, hnj⟩, hfl⟩ := (unused_label_mem_lint ss sc l i).1 h
  have hi : body[i]? = some (.label l) := ((findLabel_some l body i).1 hfl).1
  have hnj' : ∀ c, Stmt.jump l c ∉ body := fun c hc => hnj ⟨c, hc⟩
  refine ⟨body, hsc, hi, hnj', fun cfg h0 => ⟨?_, ?_⟩⟩
  · exact delete_skippable_runs h0 hi (Or.inl ⟨l, rfl⟩) (label_not_target hnj')
  · intro id fd hfd hb Q
    subst hb
    exact (delete_unused_label_fn h0 hfd hi hnj').2.1 Q

/-- **lint_pointless_sound.**  If lint reports a pointless statement at index `i` of scope `sc`, statement `i` of a scope of
that name is an un-assigned call-free expression statement, and deleting it is sound (as in `lint_unused_label_sound`). -/
theorem lint_pointless_sound (ss : List Stmt) (sc : Scope) (i : Nat) (h : Warning.pointless sc i ∈ lint ss) :
    ∃ body e, ScopeOf ss sc body ∧ body[i]? = some (.expr none e) ∧ isPointless e = true ∧
      ∀ cfg : Config W, cfg.maxStatements = 0 →
        RunsEquiv cfg body cfg (deleteAt body i) ∧
        ∀ id fd, cfg.funs id = some fd → fd.body = body →
          ∀ Q, RunsEquiv cfg Q (setFun cfg id { fd with body := deleteAt body i }) Q := by
  obtain ⟨body, hsc, e, hi, hp⟩ := (pointless_exact ss sc i).1 h
  refine ⟨body, e, hsc, hi, hp, fun cfg h0 => ⟨?_, ?_⟩⟩
  · exact delete_skippable_runs h0 hi (Or.inr ⟨e, rfl, hp⟩) (fun _ _ _ => rfl)
  · intro id fd hfd hb Q
    subst hb
    exact (delete_pointless_stmt_fn h0 hfd hi hp).2.1 Q

/-- **lint_unused_variable_sound.**  If lint reports `Unused variable v` of function `f`, the script has a top-level function
statement named `f` whose body assigns `v` and never reads it; for every name `v'` that the body does not read either, and
every configuration whose table holds that body at some `id`, renaming the assignment targets `v` to `v'` gives a
configuration that computes the *same* function: equal results of every call and of every run, for all fuel and budgets. -/
theorem lint_unused_variable_sound (ss : List Stmt) (f v : Name) (ix : Nat) (h : Warning.unusedVar f v ix ∈ lint ss) :
    ∃ (i : Nat) (k : Nat) (a : List Name) (laa y : Bool) (body : List Stmt), ss[i]? = some (Stmt.function k f a laa y body) ∧ v ∈ assigned body ∧ v ∉ bodyUses body ∧
      ∀ v', v' ∉ bodyUses body → ∀ (cfg : Config W) id fd, cfg.funs id = some fd → fd.body = body → ∀ fuel,
        (∀ fv args st, callValue₀ (setFun cfg id { fd with body := renameStmts v v' body }) fuel fv args st =
            callValue₀ cfg fuel fv args st) ∧
        (∀ Q base st, execute₀ (setFun cfg id { fd with body := renameStmts v v' body }) fuel Q base st =
            execute₀ cfg fuel Q base st) := by
  obtain ⟨i, k, a, laa, y, body, hi, hv, hnu⟩ := unused_variable_mem_lint h
  refine ⟨i, k, a, laa, y, body, hi, hv, hnu, ?_⟩
  intro v' hv' cfg id fd hfd hb fuel
  subst hb
  obtain ⟨h1, _, h3, _⟩ := rename_unused_local hfd hnu hv' fuel
  exact ⟨h1, h3⟩

/-- **lint_unused_argument_sound.**  If lint reports `Unused argument a` of function `f` (statement `ix`), that statement is
a function statement named `f` with parameter `a` whose body never reads `a`; renaming the parameter to any `a'` the body
does not read gives a configuration that computes the same function. -/
theorem lint_unused_argument_sound (ss : List Stmt) (f a : Name) (ix : Nat) (h : Warning.unusedArg f a ix ∈ lint ss) :
    ∃ k args laa y body, ss[ix]? = some (Stmt.function k f args laa y body) ∧ a ∈ args ∧ a ∉ bodyUses body ∧
      ∀ a', a' ∉ bodyUses body → ∀ (cfg : Config W) id fd, cfg.funs id = some fd → fd.body = body → fd.args = args →
        ∀ fuel,
        (∀ fv vs st, callValue₀ (setFun cfg id { fd with args := renameArgs a a' args }) fuel fv vs st =
            callValue₀ cfg fuel fv vs st) ∧
        (∀ Q base st, execute₀ (setFun cfg id { fd with args := renameArgs a a' args }) fuel Q base st =
            execute₀ cfg fuel Q base st) := by
  obtain ⟨k, args, laa, y, body, hi, ha, hnu⟩ := unused_argument_mem_lint h
  refine ⟨k, args, laa, y, body, hi, ha, hnu, ?_⟩
  intro a' ha' cfg id fd hfd hb hargs fuel
  subst hb; subst hargs
  obtain ⟨h1, _, h3, _⟩ := rename_unused_arg hfd hnu ha' fuel
  exact ⟨h1, h3⟩

/-- a skippable statement that no jump of the list targets: what both deletion warnings provide -/
theorem lint_delete_facts (ss : List Stmt) (sc : Scope) (i : Nat)
    (h : (∃ l, Warning.unusedLabel sc l i ∈ lint ss) ∨ Warning.pointless sc i ∈ lint ss) :
    ∃ body s, ScopeOf ss sc body ∧ body[i]? = some s ∧ Skippable s ∧
      ∀ lab c, Stmt.jump lab c ∈ body → Machine.isLabel lab s = false := by
  rcases h with ⟨l, h⟩ | h
  · obtain ⟨body, hsc, hi, hnj, _⟩ := lint_unused_label_sound (W := Unit) ss sc l i h
    exact ⟨body, _, hsc, hi, Or.inl ⟨l, rfl⟩, label_not_target hnj⟩
  · obtain ⟨body, e, hsc, hi, hp, _⟩ := lint_pointless_sound (W := Unit) ss sc i h
    exact ⟨body, _, hsc, hi, Or.inr ⟨e, rfl, hp⟩, fun _ _ _ => rfl⟩

/-- **lint_delete_sound_budget.**  Acting on an `Unused label` or `Pointless statement` warning under ANY statement budget
`L`: if the run of the original ends and is not aborted by the budget, the run of the edited program (same budget, same fuel)
ends with the same result, error, globals and world — for the scope run as the script, and for the scope installed as the
body of a function of the table and any script `Q` calling it. -/
theorem lint_delete_sound_budget (ss : List Stmt) (sc : Scope) (i : Nat)
    (h : (∃ l, Warning.unusedLabel sc l i ∈ lint ss) ∨ Warning.pointless sc i ∈ lint ss) :
    ∃ body, ScopeOf ss sc body ∧ ∀ (cfg : Config W) (L f : Nat) (base : Option String) (st : State W),
      ((execute₀ (C09.withMax cfg L) f body base st ≠ .oof) →
        (∀ m s, execute₀ (C09.withMax cfg L) f body base st ≠ .err (.exceeded m) s) →
        ResEq (execute₀ (C09.withMax cfg L) f body base st) (execute₀ (C09.withMax cfg L) f (deleteAt body i) base st)) ∧
      ∀ id fd, cfg.funs id = some fd → fd.body = body → ∀ Q,
        (execute₀ (C09.withMax cfg L) f Q base st ≠ .oof) →
        (∀ m s, execute₀ (C09.withMax cfg L) f Q base st ≠ .err (.exceeded m) s) →
        ResEq (execute₀ (C09.withMax cfg L) f Q base st)
          (execute₀ (C09.withMax (setFun cfg id { fd with body := deleteAt body i }) L) f Q base st) := by
  obtain ⟨body, s, hsc, hi, hskip, hlab⟩ := lint_delete_facts ss sc i h
  refine ⟨body, hsc, fun cfg L f base st => ⟨fun hr hx => ?_, ?_⟩⟩
  · exact delete_runs_budget (CfgSame.withFuns cfg cfg.funs) (DelFuns.refl cfg) (Shift.erase hi hskip hlab)
      (shiftPc_zero i) L f base st hr hx
  · intro id fd hfd hb Q hr hx
    subst hb
    exact delete_runs_budget (CfgSame.setFun cfg id _) (DelFuns.setFun hfd hi hskip hlab) (Shift.id Q) rfl L f base st hr hx

/-! ### the two variable warnings are exact -/

theorem mem_argLoop_unused_of {f a : Name} {ix : Nat} {u : Dict} (hu : a ∉ u.keys) : ∀ (args seen : List Name),
    a ∈ args → a ∉ seen → Warning.unusedArg f a ix ∈ argLoop f ix u seen args
  | [], _, h, _ => by simp at h
  | x :: r, seen, h, hs => by
    rw [argLoop]
    by_cases hx : x = a
    · subst hx
      have h1 : seen.contains x = false := by simpa using hs
      have h2 : u.has x = false := (has_false_iff u x).2 hu
      simp [h1, h2, hs]
    · have hr : a ∈ r := by
        rcases List.mem_cons.1 h with h | h
        · exact absurd h.symm hx
        · exact h
      split
      · exact List.mem_cons_of_mem _ (mem_argLoop_unused_of hu r seen hr hs)
      · refine List.mem_append.2 (Or.inr (mem_argLoop_unused_of hu r (x :: seen) hr ?_))
        simp only [List.mem_cons, not_or]
        exact ⟨fun e => hx e.symm, hs⟩

/-- **unused_variable_exact.**  Lint reports `Unused variable v` of function `f` (at some index) iff the script has a
top-level function statement named `f` whose body assigns `v` and reads it nowhere. -/
theorem unused_variable_exact (ss : List Stmt) (f v : Name) :
    (∃ ix, Warning.unusedVar f v ix ∈ lint ss) ↔
      ∃ (i : Nat) (k : Nat) (a : List Name) (laa y : Bool) (body : List Stmt),
        ss[i]? = some (Stmt.function k f a laa y body) ∧ v ∈ assigned body ∧ v ∉ bodyUses body := by
  constructor
  · rintro ⟨ix, h⟩
    exact unused_variable_mem_lint h
  · rintro ⟨i, k, a, laa, y, body, hi, hv, hnu⟩
    refine ⟨(varScan 0 body [] []).1.get v, ?_⟩
    rw [lint_decomp]
    simp only [List.mem_append]
    refine Or.inl (Or.inl (Or.inr (mem_global_loop.2 (Or.inr (Or.inl ⟨i, k, f, a, laa, y, body, hi, ?_⟩)))))
    rw [lintFunction_decomp]
    simp only [List.mem_append]
    refine Or.inl (Or.inl (Or.inl (Or.inl (Or.inr ?_))))
    simp only [unusedVarW, List.mem_filterMap]
    refine ⟨v, (mem_sortNames _ _).2 ((varScan_assigns_mem v body 0 [] []).2 (Or.inr hv)), ?_⟩
    have : (varScan 0 body [] []).2.has v = false := by
      rw [has_false_iff]
      intro hc
      rcases (varScan_uses_mem v body 0 [] []).1 hc with h | h
      · simp at h
      · exact hnu h
    simp [this]

/-- **unused_argument_exact.**  Lint reports `Unused argument a` of function `f` at index `ix` iff statement `ix` of the
script is a function statement named `f`, `a` is one of its parameters and the body reads `a` nowhere. -/
theorem unused_argument_exact (ss : List Stmt) (f a : Name) (ix : Nat) :
    Warning.unusedArg f a ix ∈ lint ss ↔
      ∃ (k : Nat) (args : List Name) (laa y : Bool) (body : List Stmt),
        ss[ix]? = some (Stmt.function k f args laa y body) ∧ a ∈ args ∧ a ∉ bodyUses body := by
  constructor
  · exact unused_argument_mem_lint
  · rintro ⟨k, args, laa, y, body, hi, ha, hnu⟩
    rw [lint_decomp]
    simp only [List.mem_append]
    refine Or.inl (Or.inl (Or.inr (mem_global_loop.2 (Or.inr (Or.inl ⟨ix, k, f, args, laa, y, body, hi, ?_⟩)))))
    rw [lintFunction_decomp]
    simp only [List.mem_append]
    refine Or.inl (Or.inl (Or.inl (Or.inr ?_)))
    refine mem_argLoop_unused_of ?_ args [] ha (by simp)
    intro hc
    rcases (varScan_uses_mem a body 0 [] []).1 hc with h | h
    · simp at h
    · exact hnu h

/-! ## transfer to the mirror machine (`Machine.execM`, with the label cache) by `C08.cache_transparent` -/

/-- `RunsTo` (hence `RunsEquiv`) speaks about `Machine.execute`, the mirror of `execute_script`, just as well -/
theorem runsTo_mirror (cfg : Config W) (P : List Stmt) (base : Option String) (st : State W) (r : Res W) :
    RunsTo cfg P base st r ↔ r ≠ .oof ∧ ∃ f, Machine.execute cfg f P base st = r := by
  simp only [RunsTo, C08.execute_eq]

/-- `rename_unused_local` on the mirror machine: the two configurations have the same call wrapper and the same `execute` -/
theorem rename_unused_local_mirror {cfg : Config W} {id : FnId} {fd : FuncDef} (hfd : cfg.funs id = some fd) {v v' : Name}
    (hv : v ∉ bodyUses fd.body) (hv' : v' ∉ bodyUses fd.body) (f : Nat) :
    callValue (setFun cfg id { fd with body := renameStmts v v' fd.body }) f = callValue cfg f ∧
    ∀ P base st, execute (setFun cfg id { fd with body := renameStmts v v' fd.body }) f P base st = execute cfg f P base st := by
  obtain ⟨h1, _, h3, _⟩ := rename_unused_local hfd hv hv' f
  refine ⟨?_, fun P base st => by rw [C08.execute_eq, C08.execute_eq]; exact h3 P base st⟩
  rw [C08.callValue_eq, C08.callValue_eq]
  funext fv args st
  exact h1 fv args st

/-- `rename_unused_arg` on the mirror machine -/
theorem rename_unused_arg_mirror {cfg : Config W} {id : FnId} {fd : FuncDef} (hfd : cfg.funs id = some fd) {a a' : Name}
    (ha : a ∉ bodyUses fd.body) (ha' : a' ∉ bodyUses fd.body) (f : Nat) :
    callValue (setFun cfg id { fd with args := renameArgs a a' fd.args }) f = callValue cfg f ∧
    ∀ P base st, execute (setFun cfg id { fd with args := renameArgs a a' fd.args }) f P base st = execute cfg f P base st := by
  obtain ⟨h1, _, h3, _⟩ := rename_unused_arg hfd ha ha' f
  refine ⟨?_, fun P base st => by rw [C08.execute_eq, C08.execute_eq]; exact h3 P base st⟩
  rw [C08.callValue_eq, C08.callValue_eq]
  funext fv args st
  exact h1 fv args st

/-! ## non-vacuity and the role of the hypotheses, on a tiny host the kernel can evaluate -/

namespace Tiny

/-- world = the log -/
abbrev TW := List Value

def truthy : Value → TW → Bool
  | .bool b, _ => b
  | .num q, _ => q != 0
  | .null, _ => false
  | _, _ => true

def binop : BinOp → Value → Value → TW → Value
  | .add, .num x, .num y, _ => .num (x + y)
  | .lt, .num x, .num y, _ => .bool (x < y)
  | _, _, _, _ => .null

def lib (name : String) (args : List Value) (w : TW) : LibTree TW :=
  if name = "log" then .ret (.ok .null) (w ++ args) else .ret (.fail .null) w

def host : Host TW :=
  { truthy := truthy, binop := binop, neg := id, lib := lib, other := fun _ _ w => .ret (.fail .null) w,
    notCallable := fun _ w => w, logFailure := id, newArray := fun _ w => (.null, w), builtin := fun _ => none }

def u (s : String) : Name := .user s

def st0 : State TW := { globals := [(u "log", .fn (.lib "log"))], world := [], count := 0 }

/-- `function f(n, m): t = n + 1; spare: ; n; r = n + 2; log(r); return r` — `t` is an unused variable, `m` an unused
argument, `spare` an unused label, statement 2 is pointless -/
def fBody : List Stmt := [
  .expr (some (u "t")) (.binary .add (.variable (u "n")) (.number 1)),
  .label (u "spare"),
  .expr none (.variable (u "n")),
  .expr (some (u "r")) (.binary .add (.variable (u "n")) (.number 2)),
  .expr none (.function (u "log") [.variable (u "r")]),
  .ret (some (.variable (u "r")))]

/-- `function f …; i = 0; top: ; i = i + 1; unused: ; i + 7; log(f(i)); jumpif (i < 3) top` -/
def script : List Stmt := [
  .function 0 (u "f") [u "n", u "m"] false false fBody,
  .expr (some (u "i")) (.number 0),
  .label (u "top"),
  .expr (some (u "i")) (.binary .add (.variable (u "i")) (.number 1)),
  .label (u "unused"),
  .expr none (.binary .add (.variable (u "i")) (.number 7)),
  .expr none (.function (u "log") [.function (u "f") [.variable (u "i")]]),
  .jump (u "top") (some (.binary .lt (.variable (u "i")) (.number 3))) ]

def fDef : FuncDef := { name := u "f", args := [u "n", u "m"], lastArgArray := false, body := fBody }

def cfg (max : Nat) : Config TW :=
  { host := host, funs := fun id => if id = 0 then some fDef else none, maxStatements := max }

/-- log, statement count and error of a finished run -/
def resInfo : Res TW → Option (TW × Nat × Option RtErr)
  | .done s => some (s.world, s.count, none)
  | .ret _ s => some (s.world, s.count, none)
  | .err e s => some (s.world, s.count, some e)
  | .oof => none

theorem script_scope : ScopeOf script .global script := Or.inl ⟨rfl, rfl⟩
theorem fBody_scope : ScopeOf script (.fn (u "f")) fBody := Or.inr ⟨u "f", 0, 0, [u "n", u "m"], false, false, rfl, rfl⟩

/-! lint reports all six warnings on this script -/
example : Warning.unusedLabel .global (u "unused") 4 ∈ lint script :=
  (unused_label_mem_lint _ _ _ _).2
    ⟨_, script_scope, ⟨by simp [DefinedIn, script], by rintro ⟨c, hc⟩; simp [script, u] at hc⟩, by decide⟩
example : Warning.unusedLabel (.fn (u "f")) (u "spare") 1 ∈ lint script :=
  (unused_label_mem_lint _ _ _ _).2
    ⟨_, fBody_scope, ⟨by simp [DefinedIn, fBody], by rintro ⟨c, hc⟩; simp [fBody] at hc⟩, by decide⟩
example : Warning.pointless .global 5 ∈ lint script := (pointless_exact _ _ _).2 ⟨_, script_scope, _, rfl, rfl⟩
example : Warning.pointless (.fn (u "f")) 2 ∈ lint script := (pointless_exact _ _ _).2 ⟨_, fBody_scope, _, rfl, rfl⟩
example : ∃ ix, Warning.unusedVar (u "f") (u "t") ix ∈ lint script :=
  (unused_variable_exact _ _ _).2 ⟨0, 0, _, _, _, fBody, rfl, by simp [assigned, fBody], by simp [bodyUses, fBody, stmtUses, exprUses, argsUses, u]⟩
example : Warning.unusedArg (u "f") (u "m") 0 ∈ lint script :=
  (unused_argument_exact _ _ _ _).2 ⟨0, _, _, _, fBody, rfl, by simp, by simp [bodyUses, fBody, stmtUses, exprUses, argsUses, u]⟩

/-! the hypotheses of the four theorems are inhabited by these (non-trivial: loop, call, log) instances -/
example : RunsEquiv (cfg 0) script (cfg 0) (deleteAt script 4) :=
  delete_skippable_runs rfl rfl (Or.inl ⟨_, rfl⟩) (label_not_target (by intro c hc; simp [script, u] at hc))
example : RunsEquiv (cfg 0) script (cfg 0) (deleteAt script 5) :=
  delete_skippable_runs rfl rfl (Or.inr ⟨_, rfl, rfl⟩) (fun _ _ _ => rfl)
example : RunsEquiv (cfg 0) script (setFun (cfg 0) 0 { fDef with body := deleteAt fBody 1 }) script :=
  (delete_unused_label_fn (cfg := cfg 0) (id := 0) (fd := fDef) rfl rfl (k := 1) (l := u "spare") rfl
    (by intro c hc; simp [fDef, fBody] at hc)).2.1 script
example : RunsEquiv (cfg 0) script (setFun (cfg 0) 0 { fDef with body := deleteAt fBody 2 }) script :=
  (delete_pointless_stmt_fn (cfg := cfg 0) (id := 0) (fd := fDef) rfl rfl (k := 2) rfl rfl).2.1 script
example (max fuel : Nat) (st : State TW) :
    execute₀ (setFun (cfg max) 0 { fDef with body := renameStmts (u "t") (u "zz") fBody }) fuel script none st =
      execute₀ (cfg max) fuel script none st :=
  (rename_unused_local (cfg := cfg max) (id := 0) (fd := fDef) rfl
    (by simp [bodyUses, fDef, fBody, stmtUses, exprUses, argsUses, u])
    (by simp [bodyUses, fDef, fBody, stmtUses, exprUses, argsUses, u]) fuel).2.2.1 script none st
example (max fuel : Nat) (st : State TW) :
    execute₀ (setFun (cfg max) 0 { fDef with args := renameArgs (u "m") (u "zz") fDef.args }) fuel script none st =
      execute₀ (cfg max) fuel script none st :=
  (rename_unused_arg (cfg := cfg max) (id := 0) (fd := fDef) rfl
    (by simp [bodyUses, fDef, fBody, stmtUses, exprUses, argsUses, u])
    (by simp [bodyUses, fDef, fBody, stmtUses, exprUses, argsUses, u]) fuel).2.2.1 script none st

/-- **the computed runs**: the original script logs `3 3 4 4 5 5` in 36 statements; without the unused label (or without the
pointless statement, or without the label of the function body) the log is the same and the count is 33: the deletions
change the statement count and nothing else. -/
theorem delete_changes_count_only :
    resInfo (execute₀ (cfg 0) 100 script none st0) = some ([.num 3, .num 3, .num 4, .num 4, .num 5, .num 5], 36, none) ∧
    resInfo (execute₀ (cfg 0) 100 (deleteAt script 4) none st0) = some ([.num 3, .num 3, .num 4, .num 4, .num 5, .num 5], 33, none) ∧
    resInfo (execute₀ (cfg 0) 100 (deleteAt script 5) none st0) = some ([.num 3, .num 3, .num 4, .num 4, .num 5, .num 5], 33, none) ∧
    resInfo (execute₀ (setFun (cfg 0) 0 { fDef with body := deleteAt fBody 1 }) 100 script none st0) =
      some ([.num 3, .num 3, .num 4, .num 4, .num 5, .num 5], 33, none) := by
  refine ⟨by decide +kernel, by decide +kernel, by decide +kernel, by decide +kernel⟩

/-- **why the deletion theorems assume the unlimited budget** (`delete_budget_counterexample`): with `maxStatements = 35` the
original run is aborted by the budget (it needs 36 statements) while the run without the unused label finishes (33) — the
deleted statement alone decides.  This is the design of the counter, true of the implementation as well (the harness' oracle
compares deletions only for runs in which the budget is not the deciding factor). -/
theorem delete_budget_counterexample :
    resInfo (execute₀ (cfg 35) 100 script none st0) =
      some ([.num 3, .num 3, .num 4, .num 4, .num 5, .num 5], 36, some (.exceeded 35)) ∧
    resInfo (execute₀ (cfg 35) 100 (deleteAt script 4) none st0) =
      some ([.num 3, .num 3, .num 4, .num 4, .num 5, .num 5], 33, none) := by
  refine ⟨by decide +kernel, by decide +kernel⟩

theorem run36 : resInfo (execute₀ (C09.withMax (cfg 0) 36) 100 script none st0) =
    some ([.num 3, .num 3, .num 4, .num 4, .num 5, .num 5], 36, none) := by decide +kernel

/-- the budgeted theorem at work: with budget 36 the original just finishes, so the edited run must agree -/
example : ResEq (execute₀ (C09.withMax (cfg 0) 36) 100 script none st0)
    (execute₀ (C09.withMax (cfg 0) 36) 100 (deleteAt script 4) none st0) :=
  delete_runs_budget (CfgSame.withFuns _ _) (DelFuns.refl _)
    (Shift.erase (P := script) (k := 4) rfl (Or.inl ⟨_, rfl⟩) (label_not_target (by intro c hc; simp [script, u] at hc)))
    (shiftPc_zero 4) 36 100 none st0
    (by intro hc; have h := run36; rw [hc] at h; simp [resInfo] at h)
    (by intro m s hc; have h := run36; rw [hc] at h; simp [resInfo] at h)

/-- **why the new name must not be read** (`rename_read_target_counterexample`): renaming the unused `t` to `n`, which the
body reads, changes the result (`n = n + 1` now precedes `r = n + 2`): the log becomes `4 4 5 5 6 6`. -/
theorem rename_read_target_counterexample :
    u "n" ∈ bodyUses fBody ∧
    resInfo (execute₀ (setFun (cfg 0) 0 { fDef with body := renameStmts (u "t") (u "n") fBody }) 100 script none st0) =
      some ([.num 4, .num 4, .num 5, .num 5, .num 6, .num 6], 36, none) := by
  refine ⟨by simp [bodyUses, fBody, stmtUses, exprUses], by decide +kernel⟩

end Tiny

end C18
