import BareProofs.C13Lemmas

/-!
# C13 — numbers survive conversion to text and back; integers print without a fraction

What is **proved** (for all strings, no bound on length) is the text surgery the code performs on top of CPython's `repr`/`float`:

* `patterns_as_modelled`      (in `BareProofs/C13Patterns.lean`, so that a changed regex breaks that obligation alone) the regex
                              sources the scanners were written for are the ones in the working tree (generated table)
* `strip_preserves_value`     `re.sub(r'\.0*$', '', s)` keeps the rational number denoted by any `s` of the `repr` grammar
* `strip_integral_no_fraction` `ds.0…0` becomes `ds`, which contains no point
* `strip_noop_on_exponent`, `strip_noop_without_trailing_dot_zeros`, `strip_noop_nonfinite`   where the clean-up is the identity
* `strip_is_literal`          for non-negative `s` of the `repr` grammar the result is consumed *entirely* by the source-literal
                              scanner `_R_EXPR_NUMBER` (`e+16` / `e-07` fit `e[+-]\d+`), and `float(group 1)` denotes the same number
* `literal_never_raises`      `float(match.group(1))` cannot raise on ASCII text (`_partial` in that respect: non-ASCII decimal
                              digits are covered by correspondence only)
* `parse_number_total`        the model of `numberParseFloat` answers only if the *whole* text (after surrounding whitespace and
                              digit-group underscores) is one decimal literal, with exactly its value, below the overflow bound
* `parse_float_never_nonfinite` `inf`/`infinity`/`nan` texts give null
* `parse_int_total`           the model of `numberParseInt` answers only if the whole text is sign, optional radix prefix, digits
                              below the radix with single underscores between them
* `int_prints_digits_only`, `int_text_roundtrip`   `str(int)` is an optional `-` and ASCII digits, and denotes the integer
* `roundtrip_under_assumptions`, `literal_roundtrip_under_assumptions`
                              with A1/A2 about CPython as explicit hypotheses (structure `PyFloat`):
                              `numberParseFloat(valueString x) = x`, and for non-negative text the source literal evaluates to `x`

What is **assumed** (DESIGN §6; sampled by the `numtext` stream, never proved): CPython's shortest-round-trip `float.__repr__`
and correctly rounded `float()` — hypotheses `PyFloat.repr_grammar`, `PyFloat.float_repr` (A1) and the use of `ofRat` for
`float(text)` (A2: the result depends only on the rational the text denotes).  `_partial` by nature: the shortest-repr algorithm is
not modelled.
-/

set_option linter.unusedSimpArgs false
set_option linter.unusedVariables false

namespace C13
open NumText

/-! ## the clean-up `\.0*$` on `repr` text -/

/-- For every string of the `repr` grammar the clean-up keeps the denoted number (and there is one). -/
theorem strip_preserves_value (s : String) (h : IsRepr s) :
    ∃ q, decVal s = some q ∧ decVal (stripDotZeros s) = some q := by
  obtain ⟨t, hl, hw, hr⟩ := repr_tok h
  obtain ⟨t', hs, hw', _, hv, _, _⟩ := strip_tok hw hr
  refine ⟨t.val, ?_, ?_⟩
  · simp [decVal, hl, decValL_text hw]
  · simp [decVal, stripDotZeros, String.toList_ofList, hl, hs, decValL_text (tokWF_weaken hw'), hv]

example : IsRepr "123.0" ∧ IsRepr "0.1" ∧ IsRepr "-0.0" ∧ IsRepr "1e+16" ∧ IsRepr "1.5e-07" ∧ IsRepr "5e-324" ∧
    IsRepr "1.7976931348623157e+308" ∧ ¬ IsRepr "1e16" ∧ ¬ IsRepr "123" ∧ ¬ IsRepr "1.e+05" ∧ ¬ IsRepr "+1.0" := by decide
example : decVal "123.0" = some 123 ∧ decVal (stripDotZeros "123.0") = some 123 ∧ stripDotZeros "123.0" = "123" := by decide +kernel
example : decVal "1.5e-07" = some ((3 : Rat) / 20000000) ∧ decVal "-0.0" = some 0 ∧ decVal "0.1" = some ((1 : Rat) / 10) := by
  decide +kernel
example : ∃ q, decVal "100.000" = some q ∧ decVal (stripDotZeros "100.000") = some q :=
  strip_preserves_value "100.000" (by decide)

theorem count_dot_text {t : Tok} (f : ReprFacts t) : List.count '.' t.text ≤ 1 := by
  obtain ⟨sign, ip, frac, exp⟩ := t
  have h1 : List.count '.' sign.text = 0 := List.count_eq_zero.mpr (dot_not_sign _)
  have h2 : List.count '.' ip = 0 := List.count_eq_zero.mpr (dot_not_ascii f.ip)
  have h3 : List.count '.' (fracText frac) ≤ 1 := by
    cases frac with
    | none => simp [fracText]
    | some fp =>
      have : List.count '.' fp = 0 := List.count_eq_zero.mpr (dot_not_ascii (f.fp fp rfl).1)
      simp [fracText, this]
  have h4 : List.count '.' (expText exp) = 0 := by
    cases exp with
    | none => simp [expText]
    | some e =>
      obtain ⟨_, hup, _, hed, _⟩ := f.sci e rfl
      have a : List.count '.' e.sign.text = 0 := List.count_eq_zero.mpr (dot_not_sign _)
      have b : List.count '.' e.digits = 0 := List.count_eq_zero.mpr (dot_not_ascii hed)
      simp [expText, ExpPart.text, hup, List.count_append, a, b, List.count_cons]
  simp only [Tok.text, List.count_append, h1, h2, h4]
  omega

/-- An integral value's `repr` `ds.0` (more generally `ds.00…0`) is printed as `ds`, and `ds` has no decimal point. -/
theorem strip_integral_no_fraction (ds : String) (k : Nat)
    (h : IsRepr (ds ++ String.ofList ('.' :: List.replicate k '0'))) :
    stripDotZeros (ds ++ String.ofList ('.' :: List.replicate k '0')) = ds ∧ '.' ∉ ds.toList := by
  obtain ⟨t, hl, hw, hr⟩ := repr_tok h
  have hc := count_dot_text (reprFacts hr)
  rw [← hl] at hc
  simp only [String.toList_append, String.toList_ofList, List.count_append, List.count_cons_self] at hc
  have hz : List.count '.' ds.toList = 0 := by omega
  have hnd : '.' ∉ ds.toList := List.count_eq_zero.mp hz
  refine ⟨?_, hnd⟩
  simp [stripDotZeros, String.toList_append, String.toList_ofList, stripL_trailing_zeros hnd, String.ofList_toList]

example : stripDotZeros "9007199254740992.0" = "9007199254740992" ∧ '.' ∉ "9007199254740992".toList :=
  strip_integral_no_fraction "9007199254740992" 1 (by decide)
example : stripDotZeros "-0.0" = "-0" := by decide

/-- Exponent forms are left alone. -/
theorem strip_noop_on_exponent (s : String) (h : IsRepr s) (he : 'e' ∈ s.toList) : stripDotZeros s = s := by
  obtain ⟨t, hl, hw, hr⟩ := repr_tok h
  obtain ⟨t', hs, _, _, _, _, hcase⟩ := strip_tok hw hr
  have f := reprFacts hr
  have hexp : t.exp ≠ none := by
    intro hn
    rw [hl] at he
    obtain ⟨sign, ip, frac, exp⟩ := t
    simp only at hn; subst hn
    simp only [Tok.text, expText, List.append_nil, List.mem_append] at he
    rcases he with he | he | he
    · cases sign <;> simp [Sign.text] at he
    · have := f.ip _ he; revert this; decide
    · cases frac with
      | none => simp [fracText] at he
      | some fp =>
        simp [fracText] at he
        have := (f.fp fp rfl).1 _ he; revert this; decide
  rcases hcase with hc | ⟨hc, _⟩
  · subst hc
    simp [stripDotZeros, hl, hs]
    rw [← hl, String.ofList_toList]
  · exact absurd hc hexp

example : stripDotZeros "1e+16" = "1e+16" := strip_noop_on_exponent "1e+16" (by decide) (by decide)
example : stripDotZeros "1.5e-07" = "1.5e-07" := strip_noop_on_exponent "1.5e-07" (by decide) (by decide)

/-- For ALL strings: unless the text ends in `.` `0`* (optionally followed by one final newline, where `$` also matches), the
clean-up changes nothing. -/
theorem strip_noop_without_trailing_dot_zeros (s : String)
    (h : ∀ p k, s.toList ≠ p ++ '.' :: List.replicate k '0' ∧ s.toList ≠ p ++ '.' :: (List.replicate k '0' ++ ['\n'])) :
    stripDotZeros s = s := by
  simp [stripDotZeros, stripL_noop_general h, String.ofList_toList]

/-- … and when it does end so and has no earlier point, exactly that tail is removed (for all strings). -/
theorem strip_removes_trailing_dot_zeros (p : String) (k : Nat) (h : '.' ∉ p.toList) :
    stripDotZeros (p ++ String.ofList ('.' :: List.replicate k '0')) = p := by
  simp [stripDotZeros, String.toList_append, String.toList_ofList, stripL_trailing_zeros h, String.ofList_toList]

example : stripDotZeros "0.1" = "0.1" ∧ stripDotZeros "100" = "100" ∧ stripDotZeros "1.05" = "1.05" ∧
    stripDotZeros "5." = "5" ∧ stripDotZeros "1.0\n" = "1\n" ∧ stripDotZeros "1.0.0" = "1.0" := by decide

/-- `repr` of the non-finite floats is left alone, and the number parser answers null on it. -/
theorem strip_noop_nonfinite (s : String) (h : IsReprNonFinite s) : stripDotZeros s = s ∧ numberParseFloat s = none := by
  rcases h with h | h | h <;> subst h <;> decide

/-! ## the result as a source literal -/

theorem reSpace_ascii {c : Char} (h : isAsciiDigit c = true) : isReSpace c = false := by
  simp [isAsciiDigit] at h
  simp [isReSpace, isUniSpace]
  omega

/-- For a non-negative string of the `repr` grammar the cleaned text is consumed entirely by the numeric-literal scanner
(`_R_EXPR_NUMBER`), and `float(group 1)` denotes the same number as the `repr` text. -/
theorem strip_is_literal (s : String) (h : IsRepr s) (hpos : s.toList.head? ≠ some '-') :
    ∃ q, decVal s = some q ∧ literal (stripDotZeros s) = .number (stripDotZeros s).length q := by
  obtain ⟨t, hl, hw, hr⟩ := repr_tok h
  obtain ⟨t', hs, hw', ha', hv, hsg, _⟩ := strip_tok hw hr
  have f := reprFacts hr
  have hnone : t'.sign = .none := by
    rw [hsg]
    cases hsign : t.sign with
    | none => rfl
    | plus => exact absurd hsign f.noPlus
    | minus => rw [hl] at hpos; simp [Tok.text, hsign, Sign.text] at hpos
  refine ⟨t.val, by simp [decVal, hl, decValL_text hw], ?_⟩
  have hst : (stripDotZeros s).toList = t'.text := by simp [stripDotZeros, String.toList_ofList, hl, hs]
  -- the text starts with a digit: `\s*` consumes nothing
  have hdrop : t'.text.dropWhile isReSpace = t'.text := by
    rcases hw'.someDigit with hip | ⟨hh, _⟩
    · cases hi : t'.ip with
      | nil => exact absurd hi hip
      | cons c r =>
        have hc : isReSpace c = false := reSpace_ascii (ha'.ip c (by simp [hi]))
        simp [Tok.text, hnone, Sign.text, hi, List.dropWhile, hc]
    · simp at hh
  unfold literal
  simp only [hst, hdrop, scanTok_text hw', floatText_text hw' (tokWF_weaken hw') ha', hv]
  simp [String.length, hst]

example : literal "1e+16" = .number 5 10000000000000000 ∧ literal "1.5e-07" = .number 7 ((3 : Rat) / 20000000) := by decide +kernel
example : ∃ q, decVal "123.0" = some q ∧ literal (stripDotZeros "123.0") = .number (stripDotZeros "123.0").length q :=
  strip_is_literal "123.0" (by decide) (by decide)
/-- what the sign requirement of the literal grammar excludes (and `repr` never produces): -/
example : literal "1e16" = .number 1 1 ∧ literal "1E+16" = .number 1 1 ∧ literal ".5" = .noMatch := by decide +kernel

/-- `float(match.group(1))` cannot raise: on ASCII text whatever `_R_EXPR_NUMBER` matched is a number for `float()`.
(`_partial`: for non-ASCII decimal digits, which both `\d` and `float()` accept, this is covered by correspondence only.) -/
theorem literal_never_raises (s : String) (ha : ∀ c ∈ s.toList, c.toNat < 128) : literal s ≠ .floatRaises := by
  unfold literal
  simp only
  cases hsc : scanTok true (s.toList.dropWhile isReSpace) with
  | none => simp
  | some p =>
    obtain ⟨t, rest⟩ := p
    obtain ⟨hl, hw⟩ := scanTok_sound hsc
    have hsub : ∀ c ∈ t.text, c.toNat < 128 := by
      intro c hc
      apply ha
      apply (List.dropWhile_sublist isReSpace).subset
      rw [hl]; simp [hc]
    have hasc : TokAscii t := by
      obtain ⟨sign, ip, frac, exp⟩ := t
      refine ⟨?_, ?_, ?_⟩
      · intro c hc; exact ascii_of_isDig (hw.ip c hc) (hsub c (by simp [Tok.text, hc]))
      · intro fp hfp c hc
        simp only at hfp; subst hfp
        exact ascii_of_isDig (hw.fp fp rfl c hc) (hsub c (by simp [Tok.text, fracText, hc]))
      · intro e he c hc
        simp only at he; subst he
        exact ascii_of_isDig ((hw.exp e rfl).digs c hc) (hsub c (by simp [Tok.text, expText, ExpPart.text, hc]))
    simp [floatText_text hw (tokWF_weaken hw) hasc]

example : literal "12abc" = .number 2 12 ∧ literal "  7.e+2x" = .number 7 700 ∧ literal "abc" = .noMatch := by decide +kernel

/-! ## the parsers are total and never answer with a partial or non-finite value -/

/-- `numberParseFloat` answers a number only if the whole text — after surrounding whitespace and digit-group underscores — is
one decimal literal `[+-]?(D+\.?D*|\.D+)([eE][+-]?D+)?`; the answer is exactly the number it denotes, below the overflow bound. -/
theorem parse_number_total (s : String) (q : Rat) (h : numberParseFloat s = some q) :
    ∃ t, floatBody s = some t.text ∧ TokWF false t ∧ t.val = q ∧ -overflowBound < q ∧ q < overflowBound := by
  unfold numberParseFloat at h
  cases hft : floatText s with
  | none => simp [hft] at h
  | some r =>
    cases r with
    | inf b => simp [hft] at h
    | nan => simp [hft] at h
    | fin q' =>
      simp only [hft] at h
      by_cases hov : overflowBound ≤ q' ∨ q' ≤ -overflowBound
      · simp [hov] at h
      · simp only [hov, if_false, Option.some.injEq] at h
        subst h
        unfold floatText at hft
        cases hb : floatBody s with
        | none => simp [hb] at hft
        | some b =>
          simp only [hb, Option.bind_some] at hft
          unfold floatLitOfBody at hft
          cases hin : parseInfNan b with
          | some r' =>
            simp only [hin] at hft
            unfold parseInfNan at hin
            dsimp only at hin
            split at hin
            · simp at hin; subst hin; simp at hft
            · split at hin
              · simp at hin; subst hin; simp at hft
              · simp at hin
          | none =>
            simp only [hin] at hft
            cases hsc : scanTok false b with
            | none => simp [hsc] at hft
            | some p =>
              obtain ⟨t, rest⟩ := p
              cases rest with
              | cons c cs => simp [hsc] at hft
              | nil =>
                simp [hsc] at hft
                obtain ⟨hl, hw⟩ := scanTok_sound hsc
                refine ⟨t, by simpa using congrArg some hl, hw, hft, ?_, ?_⟩
                · exact Rat.not_le.mp (fun hh => hov (Or.inr hh))
                · exact Rat.not_le.mp (fun hh => hov (Or.inl hh))

example : numberParseFloat " 1_0.5e1 " = some 105 ∧ numberParseFloat "1e5" = some 100000 ∧ numberParseFloat ".5" = some ((1 : Rat) / 2) ∧
    numberParseFloat "5." = some 5 ∧ numberParseFloat "\u0663" = some 3 := by decide +kernel
example : numberParseFloat "12abc" = none ∧ numberParseFloat "" = none ∧ numberParseFloat "1e" = none ∧ numberParseFloat "1__0" = none ∧
    numberParseFloat "0x10" = none ∧ numberParseFloat "1 2" = none ∧ numberParseFloat "1e400" = none := by decide +kernel

/-- A non-finite reading of the text (`inf`, `infinity`, `nan` in any case, signed) gives null, never a non-finite number. -/
theorem parse_float_never_nonfinite (s : String) (h : (∃ b, floatText s = some (.inf b)) ∨ floatText s = some .nan) :
    numberParseFloat s = none := by
  unfold numberParseFloat
  rcases h with ⟨b, h⟩ | h <;> simp [h]

example : floatText "inf" = some (.inf false) ∧ floatText " -Infinity" = some (.inf true) ∧ floatText "NaN" = some .nan ∧
    numberParseFloat "inf" = none ∧ numberParseFloat "-inf" = none ∧ numberParseFloat "nan" = none ∧
    numberParseFloat "Infinity" = none := by decide

/-- `int(text, base)` answers only if the whole text is `[+-]?`, an optional radix prefix, and digits below the base with single
underscores between digits; the answer is the value of those digits. -/
theorem parse_int_total (maxDigits : Nat) (s : String) (base : Nat) (n : Int) (h : pyInt maxDigits s base = some n) :
    ∃ l ds, pyTransform s.toList = some l ∧
      IntBody base (stripRadixPrefix base (scanSign (trimPy l)).2) ds ∧
      n = (if (scanSign (trimPy l)).1 = .minus then - (digitsVal base ds : Int) else (digitsVal base ds : Int)) ∧
      (isPow2Base base = false → 0 < maxDigits → ds.length ≤ maxDigits) := by
  unfold pyInt at h
  cases hl : pyTransform s.toList with
  | none => simp [hl] at h
  | some l =>
    simp only [hl] at h
    by_cases hus : (stripRadixPrefix base (scanSign (trimPy l)).2).head? = some '_'
    · simp [hus] at h
    · simp only [hus, if_false] at h
      cases hsc : intScan base (Char.ofNat 0) (stripRadixPrefix base (scanSign (trimPy l)).2) with
      | none => simp [hsc] at h
      | some ds =>
        simp only [hsc] at h
        by_cases hnil : ds = []
        · simp [hnil] at h
        · simp only [hnil, if_false] at h
          by_cases hlim : isPow2Base base = false ∧ 0 < maxDigits ∧ maxDigits < ds.length
          · simp [hlim] at h
          · rw [if_neg hlim] at h
            simp only [Option.some.injEq] at h
            have hsound := intScan_sound base _ _ _ hsc
            simp only [hus, if_false] at hsound
            refine ⟨l, ds, rfl, ?_, h.symm, ?_⟩
            · rcases hsound with ⟨_, h2, _⟩ | h3
              · exact absurd h2 hnil
              · exact h3
            · intro h1 h2
              apply Classical.byContradiction
              intro h3
              exact hlim ⟨h1, h2, by omega⟩

example : pyInt 4300 "0x_1f" 16 = some 31 ∧ pyInt 4300 " -zz " 36 = some (-1295) ∧ pyInt 4300 "0b101" 2 = some 5 ∧
    pyInt 4300 "1_0" 10 = some 10 ∧ pyInt 4300 "0b1" 16 = some 177 := by decide
example : pyInt 4300 "0x10" 10 = none ∧ pyInt 4300 "12abc" 10 = none ∧ pyInt 4300 "" 10 = none ∧ pyInt 4300 "1.0" 10 = none ∧
    pyInt 4300 "9" 9 = none ∧ pyInt 4300 "1__0" 10 = none ∧ pyInt 4300 "0x" 16 = none ∧ pyInt 4300 "+" 10 = none := by decide
example : numberParseInt 4300 "12" 37 = none ∧ numberParseInt 4300 "12" ((5 : Rat) / 2) = none ∧ numberParseInt 4300 "12" 10 = some 12 := by
  decide +kernel

/-! ## Python `int` carriers -/

/-- `str(n)` is an optional `-` followed by ASCII digits: no decimal point, no exponent. -/
theorem int_prints_digits_only (n : Int) :
    ∃ ds, AsciiDigs ds ∧ ds ≠ [] ∧ (valueStringNum (.int n)).toList = (if n < 0 then ['-'] else []) ++ ds ∧
      '.' ∉ (valueStringNum (.int n)).toList := by
  refine ⟨natStr n.natAbs, ascii_natStr _, natStr_ne_nil _, ?_, ?_⟩
  · by_cases hn : n < 0 <;> simp [valueStringNum, intStr, intStrL, hn, String.toList_ofList]
  · have hd := dot_not_ascii (ascii_natStr n.natAbs)
    by_cases hn : n < 0 <;> simp [valueStringNum, intStr, intStrL, hn, String.toList_ofList, hd]

/-- … and that text denotes `n`. -/
theorem int_text_roundtrip (n : Int) : decVal (valueStringNum (.int n)) = some (n : Rat) := by
  have hasc := ascii_natStr n.natAbs
  by_cases hn : n < 0
  · have hw : TokWF false ⟨.minus, natStr n.natAbs, none, none⟩ :=
      ⟨digs_of_ascii hasc, by simp, Or.inl (natStr_ne_nil _), by simp⟩
    have htext : (valueStringNum (.int n)).toList = Tok.text ⟨.minus, natStr n.natAbs, none, none⟩ := by
      simp [valueStringNum, intStr, intStrL, hn, String.toList_ofList, Tok.text, Sign.text, fracText, expText]
    simp only [decVal, htext, decValL_text hw, Tok.val, signVal, fracVal, expVal, natOf_natStr, Option.some.injEq]
    have : n = - (n.natAbs : Int) := by omega
    conv => rhs; rw [this]
    simp [Rat.intCast_neg, Rat.intCast_natCast]
    grind
  · have hw : TokWF false ⟨.none, natStr n.natAbs, none, none⟩ :=
      ⟨digs_of_ascii hasc, by simp, Or.inl (natStr_ne_nil _), by simp⟩
    have htext : (valueStringNum (.int n)).toList = Tok.text ⟨.none, natStr n.natAbs, none, none⟩ := by
      simp [valueStringNum, intStr, intStrL, hn, String.toList_ofList, Tok.text, Sign.text, fracText, expText]
    simp only [decVal, htext, decValL_text hw, Tok.val, signVal, fracVal, expVal, natOf_natStr, Option.some.injEq]
    have : n = (n.natAbs : Int) := by omega
    conv => rhs; rw [this]
    simp [Rat.intCast_natCast]
    grind

example : valueStringNum (.int (-9007199254740993)) = "-9007199254740993" ∧ valueStringNum (.int 0) = "0" := by decide

/-! ## the round trip, with CPython's `repr` / `float` as explicit assumptions -/

/-- What is assumed about CPython for finite floats `F` (NOT modelled, DESIGN §6):
* A1 `repr_grammar`: `repr x` is in the grammar `-?D+\.D+ | -?D(\.D+)?e[+-]DD+`;
* A1 `float_repr`:   `float(repr x) == x` — stated through A2:
* A2: `float(text)` depends only on the rational number `q` the text denotes: it is `ofRat q` (CPython: the correctly rounded
  double) whenever `|q|` is below the overflow bound. -/
structure PyFloat (F : Type) where
  repr : F → String
  ofRat : Rat → F
  repr_grammar : ∀ x, IsRepr (repr x)
  float_repr : ∀ x, ∃ q, decVal (repr x) = some q ∧ -overflowBound < q ∧ q < overflowBound ∧ ofRat q = x

/-- `value_string` on a float carrier, over the assumed `repr` -/
def valueStringF {F : Type} (P : PyFloat F) (x : F) : String := valueStringNum (.float (P.repr x))

/-- `numberParseFloat` as a function into floats, over the assumed `float()` (A2) -/
def numberParseFloatF {F : Type} (P : PyFloat F) (s : String) : Option F := (numberParseFloat s).map P.ofRat

/-- evaluating a source literal, over the assumed `float()` (A2): consumed length and value -/
def literalF {F : Type} (P : PyFloat F) (s : String) : Option (Nat × F) :=
  match literal s with
  | .number n q => some (n, P.ofRat q)
  | _ => none

theorem numberParseFloat_strip_repr (s : String) (h : IsRepr s) (q : Rat) (hq : decVal s = some q)
    (hlo : -overflowBound < q) (hhi : q < overflowBound) : numberParseFloat (stripDotZeros s) = some q := by
  obtain ⟨t, hl, hw, hr⟩ := repr_tok h
  obtain ⟨t', hs, hw', ha', hv, _, _⟩ := strip_tok hw hr
  have hqt : t.val = q := by simpa [decVal, hl, decValL_text hw] using hq
  have hst : stripDotZeros s = String.ofList t'.text := by simp [stripDotZeros, hl, hs]
  have hno : ¬ (overflowBound ≤ q ∨ q ≤ -overflowBound) := by
    rintro (h1 | h1)
    · exact absurd hhi (Rat.not_lt.mpr h1)
    · exact absurd hlo (Rat.not_lt.mpr h1)
  unfold numberParseFloat
  rw [hst, floatText_text hw' (tokWF_weaken hw') ha', hv, hqt]
  simp [hno]

/-- **Round trip under A1/A2**: a finite float, stringified (`'' + x`, `stringNew`, `arrayJoin`, `systemLog` all use
`value_string`) and parsed back with `numberParseFloat`, is the same float. -/
theorem roundtrip_under_assumptions {F : Type} (P : PyFloat F) (x : F) :
    numberParseFloatF P (valueStringF P x) = some x := by
  obtain ⟨q, hq, hlo, hhi, hx⟩ := P.float_repr x
  simp [numberParseFloatF, valueStringF, valueStringNum,
    numberParseFloat_strip_repr (P.repr x) (P.repr_grammar x) q hq hlo hhi, hx]

/-- **Round trip through source text under A1/A2**: for a float whose text does not start with `-`, the stringified value is,
as a whole, a numeric literal that evaluates to the same float. -/
theorem literal_roundtrip_under_assumptions {F : Type} (P : PyFloat F) (x : F)
    (hpos : (P.repr x).toList.head? ≠ some '-') :
    literalF P (valueStringF P x) = some ((valueStringF P x).length, x) := by
  obtain ⟨q, hq, hlo, hhi, hx⟩ := P.float_repr x
  obtain ⟨q', hq', hlit⟩ := strip_is_literal (P.repr x) (P.repr_grammar x) hpos
  have : q' = q := by rw [hq] at hq'; exact (Option.some.inj hq').symm
  subst this
  simp [literalF, valueStringF, valueStringNum, hlit, hx]

/-- The assumptions are satisfiable by a non-trivial instance: a three-element "float type" with `repr`s of the three shapes. -/
def toyFloats : PyFloat (Fin 3) where
  repr := fun x => if x = 0 then "123.0" else if x = 1 then "1.5e-07" else "1e+16"
  ofRat := fun q => if q = 123 then 0 else if q = (3 : Rat) / 20000000 then 1 else 2
  repr_grammar := by decide
  float_repr := by
    intro x
    match x with
    | 0 => exact ⟨123, by decide +kernel⟩
    | 1 => exact ⟨(3 : Rat) / 20000000, by decide +kernel⟩
    | 2 => exact ⟨10000000000000000, by decide +kernel⟩

example : numberParseFloatF toyFloats (valueStringF toyFloats 1) = some 1 := roundtrip_under_assumptions toyFloats 1
example : valueStringF toyFloats 0 = "123" ∧ valueStringF toyFloats 2 = "1e+16" := by decide
example : literalF toyFloats (valueStringF toyFloats 2) = some (5, 2) :=
  literal_roundtrip_under_assumptions toyFloats 2 (by decide)

end C13
