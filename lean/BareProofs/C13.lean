import BareModel.NumText

namespace C13
open NumText

/-- The regex sources the scanners were written for are the ones in the working tree (re-extracted on every run). -/
theorem patterns_as_modelled :
    patternOf "value.R_NUMBER_CLEANUP" = some ("\\.0*$", 32) ∧
    patternOf "library.R_NUMBER_CLEANUP" = some ("\\.0*$", 32) ∧
    patternOf "parser._R_EXPR_NUMBER" = some ("^\\s*([+-]?\\d+(?:\\.\\d*)?(?:e[+-]\\d+)?)", 32) := by decide

end C13
