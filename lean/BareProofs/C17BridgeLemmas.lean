import BareModel.IncludeBridge
import BareProofs.C17

/-!
# C17Bridge — lemmas: the traced machine is the machine (erasure), and it simulates the include model
-/

namespace C17Bridge
open Machine IncludeBridge
variable {W : Type}

@[simp] theorem cons_res (ev : Include.Event) (r : TRes W) : (r.cons ev).res = r.res := rfl
@[simp] theorem app_res (tr : List Include.Event) (r : TRes W) : (r.app tr).res = r.res := rfl
@[simp] theorem cons_inc (ev : Include.Event) (r : TRes W) : (r.cons ev).inc = r.inc := rfl
@[simp] theorem app_inc (tr : List Include.Event) (r : TRes W) : (r.app tr).inc = r.inc := rfl
@[simp] theorem cons_trace (ev : Include.Event) (r : TRes W) : (r.cons ev).trace = ev :: r.trace := rfl
@[simp] theorem app_trace (tr : List Include.Event) (r : TRes W) : (r.app tr).trace = tr ++ r.trace := rfl
@[simp] theorem cons_stop (ev : Include.Event) (r : TRes W) : (r.cons ev).stop = r.stop := rfl
@[simp] theorem app_stop (tr : List Include.Event) (r : TRes W) : (r.app tr).stop = r.stop := rfl

/-! ## erasure: the traced machine computes the results of `Machine.execM`, for all programs -/

def Erases (tag : Stmt → String) (cfg : Config W) (fuel : Nat) : Prop :=
  (∀ P locals base cache pc st,
      (execMT tag cfg fuel P locals base cache pc st).res = execM cfg fuel P locals base cache pc st) ∧
  (∀ base incs st, (execIncludesT tag cfg fuel base incs st).res = execIncludes cfg fuel base incs st)

theorem erases (tag : Stmt → String) (cfg : Config W) : ∀ fuel, Erases tag cfg fuel
  | 0 => by
    refine ⟨?_, ?_⟩
    · intro P locals base cache pc st
      rw [execMT.eq_1, execM.eq_1]
      cases P[pc]? <;> rfl
    · intro base incs st
      cases incs with
      | nil => rw [execIncludesT.eq_1, execIncludes.eq_1]
      | cons i r =>
        rw [execIncludesT.eq_2, execIncludes.eq_2]
        cases cfg.fetch (cfg.resolve base i) <;> rfl
  | fuel+1 => by
    obtain ⟨ihE, ihI⟩ := erases tag cfg fuel
    refine ⟨?_, ?_⟩
    · intro P locals base cache pc st
      rw [execMT.eq_1, execM.eq_1]
      cases P[pc]? with
      | none => rfl
      | some s =>
        simp only
        split
        · rfl
        · cases s with
          | expr name e =>
            simp only
            generalize evalExpr cfg _ locals e _ = r
            cases r with
            | ok v st2 => cases name <;> cases locals <;> simp only [cons_res] <;> exact ihE ..
            | err => rfl
            | oof => rfl
          | jump l c =>
            cases c with
            | none =>
              simp only
              cases jumpTarget P cache l with
              | none => rfl
              | some ci => simp only [cons_res]; exact ihE ..
            | some c =>
              simp only
              generalize evalExpr cfg _ locals c _ = r
              cases r with
              | ok v st2 =>
                simp only
                split
                · cases jumpTarget P cache l with
                  | none => rfl
                  | some ci => simp only [cons_res]; exact ihE ..
                · simp only [cons_res]; exact ihE ..
              | err => rfl
              | oof => rfl
          | ret e =>
            cases e with
            | none => rfl
            | some e =>
              simp only
              generalize evalExpr cfg _ locals e _ = r
              cases r <;> rfl
          | label l => simp only [cons_res]; exact ihE ..
          | function fid name args laa isAsync body => simp only [cons_res]; exact ihE ..
          | «include» incs =>
            simp only
            rw [← ihI]
            generalize execIncludesT tag cfg fuel base incs _ = mi
            cases hmi : mi.res with
            | done st2 => simp only [app_res]; exact ihE ..
            | ret v st2 => simp only [hmi]
            | err e st2 => simp only [hmi]
            | oof => simp only [hmi]
    · intro base incs st
      cases incs with
      | nil => rw [execIncludesT.eq_1, execIncludes.eq_1]
      | cons i r =>
        rw [execIncludesT.eq_2, execIncludes.eq_2]
        simp only
        cases cfg.fetch (cfg.resolve base i) with
        | missing => rfl
        | broken => rfl
        | script ss =>
          simp only
          rw [← ihE]
          generalize execMT tag cfg fuel ss none _ [] 0 st = m
          cases hm : m.res with
          | done st2 => simp only [app_res]; exact ihI ..
          | ret v st2 => simp only [app_res]; exact ihI ..
          | err e st2 => simp only [cons_res, hm]
          | oof => simp only [cons_res, hm]

theorem execMT_res (tag : Stmt → String) (cfg : Config W) (fuel : Nat) (P : List Stmt) (locals : Option Env)
    (base : Option String) (cache : Cache) (pc : Nat) (st : State W) :
    (execMT tag cfg fuel P locals base cache pc st).res = execM cfg fuel P locals base cache pc st :=
  (erases tag cfg fuel).1 ..

theorem execIncludesT_res (tag : Stmt → String) (cfg : Config W) (fuel : Nat) (base : Option String)
    (incs : List IncludeScript) (st : State W) :
    (execIncludesT tag cfg fuel base incs st).res = execIncludes cfg fuel base incs st :=
  (erases tag cfg fuel).2 ..

/-- an include statement never hands a `return` on to its includer -/
theorem execIncludesT_not_ret (tag : Stmt → String) (cfg : Config W) :
    ∀ (incs : List IncludeScript) (fuel : Nat) (base : Option String) (st : State W) (v : Value) (st' : State W),
      (execIncludesT tag cfg fuel base incs st).res ≠ .ret v st'
  | [], fuel, base, st, v, st' => by rw [execIncludesT.eq_1]; simp
  | i :: rest, fuel, base, st, v, st' => by
    rw [execIncludesT.eq_2]
    simp only
    cases cfg.fetch (cfg.resolve base i) with
    | missing => simp
    | broken => simp
    | script ss =>
      simp only
      cases fuel with
      | zero => simp
      | succ f =>
        simp only
        generalize execMT tag cfg f ss none _ [] 0 st = m
        cases hm : m.res with
        | done st2 => simp only [app_res]; exact execIncludesT_not_ret tag cfg rest _ _ _ _ _
        | ret v2 st2 => simp only [app_res]; exact execIncludesT_not_ret tag cfg rest _ _ _ _ _
        | err e st2 => simp [hm]
        | oof => simp [hm]

/-! ## simulation: on jump-free programs the traced machine and `Include.runScript` produce the same events -/

section Sim
variable {σ : Type}

/-- what the include model's result must be, given how the machine run ended -/
def SimS (stop : Stop) (mt : List Include.Event) (r : Include.Res σ) : Prop :=
  match stop with
  | .fin => r.trace = mt ∧ r.outcome = .ok
  | .incFailed u => r.trace = mt ∧ r.outcome = .includeFailed u
  | .incParse u => r.trace = mt ∧ r.outcome = .parseError u
  | .stmt => mt <+: r.trace
  | .oof => mt <+: r.trace

def Sim (m : TRes W) (r : Include.Res σ) : Prop := SimS m.stop m.trace r

theorem simS_prefix {stop : Stop} {mt : List Include.Event} {r : Include.Res σ} (h : SimS stop mt r) : mt <+: r.trace := by
  cases stop <;> simp only [SimS] at h
  · rw [h.1]; exact List.prefix_refl _
  · rw [h.1]; exact List.prefix_refl _
  · rw [h.1]; exact List.prefix_refl _
  · exact h
  · exact h

theorem simS_cons {stop : Stop} {mt : List Include.Event} {r : Include.Res σ} (ev : Include.Event) (h : SimS stop mt r) :
    SimS stop (ev :: mt) (⟨ev :: r.trace, r.state, r.opts, r.outcome⟩ : Include.Res σ) := by
  cases stop <;> simp only [SimS] at h ⊢
  · exact ⟨by rw [h.1], h.2⟩
  · exact ⟨by rw [h.1], h.2⟩
  · exact ⟨by rw [h.1], h.2⟩
  · exact (List.prefix_cons_inj ev).mpr h
  · exact (List.prefix_cons_inj ev).mpr h

theorem simS_app {stop : Stop} {mt : List Include.Event} {r : Include.Res σ} (tr : List Include.Event) (h : SimS stop mt r) :
    SimS stop (tr ++ mt) (⟨tr ++ r.trace, r.state, r.opts, r.outcome⟩ : Include.Res σ) := by
  cases stop <;> simp only [SimS] at h ⊢
  · exact ⟨by rw [h.1], h.2⟩
  · exact ⟨by rw [h.1], h.2⟩
  · exact ⟨by rw [h.1], h.2⟩
  · exact (List.prefix_append_right_inj tr).mpr h
  · exact (List.prefix_append_right_inj tr).mpr h

/-- every file of the virtual file system is jump-free (for `ofList` file systems: `filesStraight`, decidable) -/
def FilesStraight (fs : String → VFile) : Prop := ∀ u ss, fs u = .stmts ss → Straight ss = true

variable (tag : Stmt → String) (cfg : Config W) (sp : Option String) (fs : String → VFile) (eff : String → σ → σ)

theorem runItems_stmt (rec : Include.Options → Include.Script → σ → Include.Res σ) (o : Include.Options) (t : String)
    (rest : Include.Script) (s : σ) :
    Include.runItems (icfgOf tag sp fs) eff rec o (.stmt t :: rest) s =
      ⟨.exec t :: (Include.runItems (icfgOf tag sp fs) eff rec { o with statementCount := o.statementCount + 1 } rest (eff t s)).trace,
       (Include.runItems (icfgOf tag sp fs) eff rec { o with statementCount := o.statementCount + 1 } rest (eff t s)).state,
       (Include.runItems (icfgOf tag sp fs) eff rec { o with statementCount := o.statementCount + 1 } rest (eff t s)).opts,
       (Include.runItems (icfgOf tag sp fs) eff rec { o with statementCount := o.statementCount + 1 } rest (eff t s)).outcome⟩ := by
  simp [Include.runItems, icfgOf]

theorem runItems_ret (rec : Include.Options → Include.Script → σ → Include.Res σ) (o : Include.Options)
    (rest : Include.Script) (s : σ) :
    Include.runItems (icfgOf tag sp fs) eff rec o (.ret :: rest) s =
      ⟨[], s, { o with statementCount := o.statementCount + 1 }, .ok⟩ := by
  simp [Include.runItems, icfgOf]

theorem stopOf_err_ne_fin (e : RtErr) (st : State W) (b : Bool) : stopOf (.err e st : Res W) b ≠ .fin := by
  cases e <;> cases b <;> simp [stopOf]

/-- the `inc` case of `Include.runItems` -/
def incStep (r1 r2 : Include.Res σ) : Include.Res σ :=
  match r1.outcome with
  | .ok => ⟨r1.trace ++ r2.trace, r2.state, r2.opts, r2.outcome⟩
  | _ => r1

theorem runItems_inc (rec : Include.Options → Include.Script → σ → Include.Res σ) (o : Include.Options) (es : List Include.Entry)
    (rest : Include.Script) (s : σ) :
    Include.runItems (icfgOf tag sp fs) eff rec o (.inc es :: rest) s =
      incStep (Include.runEntries (icfgOf tag sp fs) rec { o with statementCount := o.statementCount + 1 } es s)
        (Include.runItems (icfgOf tag sp fs) eff rec
          (Include.runEntries (icfgOf tag sp fs) rec { o with statementCount := o.statementCount + 1 } es s).opts rest
          (Include.runEntries (icfgOf tag sp fs) rec { o with statementCount := o.statementCount + 1 } es s).state) := by
  have hmax : (icfgOf tag sp fs).maxStatements = 0 := rfl
  generalize icfgOf tag sp fs = ic at hmax ⊢
  simp only [Include.runItems, hmax, incStep]
  simp only [Nat.lt_irrefl, decide_false, Bool.false_and, Bool.false_eq_true, if_false]
  split <;> split <;> simp_all

/-- the include statement of the includer, given the simulation of its entries and of the rest of the list -/
theorem sim_include_stmt (mi : TRes W) (m2 : State W → TRes W) (r1 : Include.Res σ) (r2 : Include.Res σ)
    (hnr : ∀ v st', mi.res ≠ .ret v st')
    (h1 : Sim mi r1) (h2 : ∀ st2, mi.res = .done st2 → Sim (m2 st2) r2) :
    Sim (match mi.res with
         | .done st2 => (m2 st2).app mi.trace
         | _ => mi)
        (incStep r1 r2) := by
  unfold incStep
  cases hmi : mi.res with
  | done st2 =>
    simp only
    have hs : mi.stop = .fin := by simp [TRes.stop, hmi, stopOf]
    have h1' := h1; simp only [Sim, hs, SimS] at h1'
    rw [h1'.2]; simp only [h1'.1]
    exact simS_app mi.trace (h2 st2 hmi)
  | ret v st2 => exact absurd hmi (hnr v st2)
  | err e st2 =>
    simp only
    cases hs : mi.stop with
    | fin => exact absurd (show stopOf (.err e st2) mi.inc = .fin by rw [← hmi]; exact hs) (stopOf_err_ne_fin _ _ _)
    | incFailed u =>
      have h1' := h1; simp only [Sim, hs, SimS] at h1'
      rw [h1'.2]; exact h1
    | incParse u =>
      have h1' := h1; simp only [Sim, hs, SimS] at h1'
      rw [h1'.2]; exact h1
    | stmt =>
      have h1' := h1; simp only [Sim, hs, SimS] at h1'
      simp only [Sim, hs, SimS]
      cases r1.outcome <;> simp only <;> first | exact h1' | exact h1'.trans (List.prefix_append _ _)
    | oof =>
      have h1' := h1; simp only [Sim, hs, SimS] at h1'
      simp only [Sim, hs, SimS]
      cases r1.outcome <;> simp only <;> first | exact h1' | exact h1'.trans (List.prefix_append _ _)
  | oof =>
    simp only
    have hs : mi.stop = .oof := by simp [TRes.stop, hmi, stopOf]
    have h1' := h1; simp only [Sim, hs, SimS] at h1'
    simp only [Sim, hs, SimS]
    cases r1.outcome <;> simp only <;> first | exact h1' | exact h1'.trans (List.prefix_append _ _)

/-- the `.text` case of `Include.runEntries` -/
def entStep (url : String) (o : Include.Options) (r0 r2 : Include.Res σ) : Include.Res σ :=
  match r0.outcome with
  | .ok => ⟨.fetch url :: r0.trace ++ r2.trace, r2.state, r2.opts, r2.outcome⟩
  | out => ⟨.fetch url :: r0.trace, r0.state, { o with statementCount := r0.opts.statementCount }, out⟩

theorem entStep_prefix (url : String) (o : Include.Options) (r0 r2 : Include.Res σ) (mt : List Include.Event)
    (h : mt <+: r0.trace) : (.fetch url :: mt) <+: (entStep url o r0 r2).trace := by
  unfold entStep
  cases r0.outcome <;> simp only <;>
    first
    | exact (List.prefix_cons_inj _).mpr h
    | exact (List.prefix_cons_inj _).mpr (h.trans (List.prefix_append _ _))

/-- one entry of an include statement, given the simulation of the included script and of the remaining entries -/
theorem sim_entry (url : String) (o : Include.Options) (m0 : TRes W) (mrest : State W → TRes W) (r0 r2 : Include.Res σ)
    (h0 : Sim m0 r0)
    (h2 : ∀ st', (m0.res = .done st' ∨ ∃ v, m0.res = .ret v st') → Sim (mrest st') r2) :
    Sim (match m0.res with
         | .done st' => (mrest st').app (.fetch url :: m0.trace)
         | .ret _ st' => (mrest st').app (.fetch url :: m0.trace)
         | _ => m0.cons (.fetch url))
        (entStep url o r0 r2) := by
  cases hm : m0.res with
  | done st' =>
    simp only
    have hs : m0.stop = .fin := by simp [TRes.stop, hm, stopOf]
    have h0' := h0; simp only [Sim, hs, SimS] at h0'
    unfold entStep
    rw [h0'.2]; simp only [h0'.1]
    have := simS_app (.fetch url :: m0.trace) (h2 st' (.inl hm))
    simpa [Sim] using this
  | ret v st' =>
    simp only
    have hs : m0.stop = .fin := by simp [TRes.stop, hm, stopOf]
    have h0' := h0; simp only [Sim, hs, SimS] at h0'
    unfold entStep
    rw [h0'.2]; simp only [h0'.1]
    have := simS_app (.fetch url :: m0.trace) (h2 st' (.inr ⟨v, hm⟩))
    simpa [Sim] using this
  | err e st2 =>
    simp only
    cases hs : m0.stop with
    | fin => exact absurd (show stopOf (.err e st2) m0.inc = .fin by rw [← hm]; exact hs) (stopOf_err_ne_fin _ _ _)
    | incFailed u =>
      have h0' := h0; simp only [Sim, hs, SimS] at h0'
      simp only [Sim, cons_stop, hs, SimS, cons_trace, entStep, h0'.2, h0'.1, and_self]
    | incParse u =>
      have h0' := h0; simp only [Sim, hs, SimS] at h0'
      simp only [Sim, cons_stop, hs, SimS, cons_trace, entStep, h0'.2, h0'.1, and_self]
    | stmt =>
      have h0' := h0; simp only [Sim, hs, SimS] at h0'
      simp only [Sim, cons_stop, hs, SimS, cons_trace]
      exact entStep_prefix url o r0 r2 _ h0'
    | oof =>
      have h0' := h0; simp only [Sim, hs, SimS] at h0'
      simp only [Sim, cons_stop, hs, SimS, cons_trace]
      exact entStep_prefix url o r0 r2 _ h0'
  | oof =>
    simp only
    have hs : m0.stop = .oof := by simp [TRes.stop, hm, stopOf]
    have h0' := h0; simp only [Sim, hs, SimS] at h0'
    simp only [Sim, cons_stop, hs, SimS, cons_trace]
    exact entStep_prefix url o r0 r2 _ h0'

theorem runEntries_cons (rec : Include.Options → Include.Script → σ → Include.Res σ) (o : Include.Options) (e : Include.Entry)
    (es : List Include.Entry) (s : σ) (url : String) (hurl : Include.resolveEntry (icfgOf tag sp fs) o.urlFn e = url) :
    Include.runEntries (icfgOf tag sp fs) rec o (e :: es) s =
      match fs url with
      | .missing => ⟨[.fetch url], s, o, .includeFailed url⟩
      | .throws => ⟨[.fetch url], s, o, .includeFailed url⟩
      | .broken => ⟨[.fetch url], s, o, .parseError url⟩
      | .stmts ss =>
        entStep url o (rec { o with urlFn := .relativeTo url } (itemsOf tag ss) s)
          (Include.runEntries (icfgOf tag sp fs) rec
            { o with statementCount := (rec { o with urlFn := .relativeTo url } (itemsOf tag ss) s).opts.statementCount } es
            (rec { o with urlFn := .relativeTo url } (itemsOf tag ss) s).state) := by
  have hf : (icfgOf tag sp fs).fetch = some (fun u => fileOf tag (fs u)) := rfl
  rw [Include.runEntries]
  simp only [hf, hurl]
  cases hfile : fs url <;> simp only [fileOf, entStep]
  split <;> simp_all

/-- the two halves of the simulation, at one amount of fuel, for every gas of the include model that is at least as large -/
def SimExecAt (fuel : Nat) : Prop :=
  ∀ g, fuel ≤ g → ∀ (P : List Stmt) (locals : Option Env) (base : Option String) (cache : Cache) (pc : Nat) (st : State W)
      (o : Include.Options) (s : σ), Straight P = true → o.urlFn = urlFnOf base →
     Sim (execMT tag (instCfg cfg sp fs) fuel P locals base cache pc st)
         (Include.runItems (icfgOf tag sp fs) eff (Include.runScript (icfgOf tag sp fs) eff g) o (itemsOf tag (P.drop pc)) s)

def SimIncAt (fuel : Nat) : Prop :=
  ∀ g, fuel ≤ g → ∀ (base : Option String) (incs : List IncludeScript) (st : State W) (o : Include.Options) (s : σ),
      o.urlFn = urlFnOf base →
     Sim (execIncludesT tag (instCfg cfg sp fs) fuel base incs st)
         (Include.runEntries (icfgOf tag sp fs) (Include.runScript (icfgOf tag sp fs) eff g) o (incs.map entryOf) s)

def SimAt (fuel : Nat) : Prop := SimExecAt tag cfg sp fs eff fuel ∧ SimIncAt tag cfg sp fs eff fuel

theorem sim_nil_prefix (m : TRes W) (r : Include.Res σ) (ht : m.trace = []) (hs : m.stop = .stmt ∨ m.stop = .oof) : Sim m r := by
  rcases hs with hs | hs <;> simp [Sim, hs, SimS, ht]

theorem simIncludes (hfs : FilesStraight fs) (fuel : Nat) (ih : ∀ f, fuel = f + 1 → SimAt tag cfg sp fs eff f) :
    SimIncAt tag cfg sp fs eff fuel := by
  intro g hg base incs st o s ho
  cases incs with
  | nil => rw [execIncludesT.eq_1]; simp [Include.runEntries, Sim, SimS, TRes.stop, stopOf]
  | cons i rest =>
    have hurl : Include.resolveEntry (icfgOf tag sp fs) o.urlFn (entryOf i) = (instCfg cfg sp fs).resolve base i := by
      rw [ho]; rfl
    rw [execIncludesT.eq_2, List.map_cons, runEntries_cons tag sp fs _ o _ _ s _ hurl]
    have hfetch : (instCfg cfg sp fs).fetch = fetchOf fs := rfl
    simp only [hfetch]
    generalize (instCfg cfg sp fs).resolve base i = url
    unfold fetchOf
    cases hfile : fs url with
    | missing => simp [Sim, SimS, TRes.stop, stopOf]
    | throws => simp [Sim, SimS, TRes.stop, stopOf]
    | broken => simp [Sim, SimS, TRes.stop, stopOf]
    | stmts ss =>
      simp only
      cases fuel with
      | zero =>
        simp only [Sim, TRes.stop, stopOf, SimS]
        exact entStep_prefix url o _ _ [] (List.nil_prefix)
      | succ f =>
        obtain ⟨ihE, ihI⟩ := ih f rfl
        obtain ⟨g', rfl⟩ : ∃ g', g = g' + 1 := ⟨g - 1, by omega⟩
        simp only
        refine sim_entry url o _ (fun st' => execIncludesT tag (instCfg cfg sp fs) f base rest st') _ _ ?_ ?_
        · have := ihE g' (by omega) ss none (some url) [] 0 st { o with urlFn := .relativeTo url } s (hfs url ss hfile) rfl
          simpa [Include.runScript] using this
        · intro st' _
          exact ihI (g' + 1) (by omega) base rest st' _ _ ho

theorem stopOf_err_false (e : RtErr) (st : State W) : stopOf (.err e st : Res W) false = .stmt := by
  cases e <;> rfl

theorem sim_prefix (m : TRes W) (r : Include.Res σ) (hs : m.stop = .stmt ∨ m.stop = .oof) (hp : m.trace <+: r.trace) : Sim m r := by
  rcases hs with hs | hs <;> simpa [Sim, hs, SimS] using hp

theorem sim_cons (ev : Include.Event) {m : TRes W} {r : Include.Res σ} (h : Sim m r) :
    Sim (m.cons ev) (⟨ev :: r.trace, r.state, r.opts, r.outcome⟩ : Include.Res σ) := simS_cons ev h

theorem itemsOf_cons (s0 : Stmt) (rest : List Stmt) : itemsOf tag (s0 :: rest) = itemOf tag s0 :: itemsOf tag rest := rfl

theorem simExec (fuel : Nat) (ih : ∀ f, fuel = f + 1 → SimAt tag cfg sp fs eff f) : SimExecAt tag cfg sp fs eff fuel := by
  intro g hg P locals base cache pc st o s hP ho
  rw [execMT.eq_1]
  cases hget : P[pc]? with
  | none =>
    have : P.drop pc = [] := by rw [List.drop_eq_nil_iff]; exact List.getElem?_eq_none_iff.mp hget
    rw [this]; simp [itemsOf, Include.runItems, Sim, SimS, TRes.stop, stopOf]
  | some s0 =>
    obtain ⟨hlt, hs0⟩ := List.getElem?_eq_some_iff.mp hget
    have hdrop : P.drop pc = s0 :: P.drop (pc+1) := by rw [← hs0]; exact List.drop_eq_getElem_cons hlt
    have hstr : straight s0 = true := List.all_eq_true.mp hP s0 (List.mem_of_getElem? hget)
    rw [hdrop, itemsOf_cons]
    cases fuel with
    | zero => exact sim_nil_prefix _ _ rfl (.inr rfl)
    | succ f =>
      obtain ⟨ihE, ihI⟩ := ih f rfl
      have ho1 : ({ o with statementCount := o.statementCount + 1 } : Include.Options).urlFn = urlFnOf base := ho
      simp only
      split
      · exact sim_nil_prefix _ _ rfl (.inl (stopOf_err_false _ _))
      · cases s0 with
        | expr name e =>
          simp only [itemOf]; rw [runItems_stmt]
          generalize evalExpr (instCfg cfg sp fs) _ locals e _ = r
          cases r with
          | ok v st2 =>
            cases name <;> cases locals <;> simp only <;> exact sim_cons _ (ihE g (by omega) _ _ _ _ _ _ _ _ hP ho1)
          | err e2 st2 => exact sim_prefix _ _ (.inl (stopOf_err_false _ _)) (List.prefix_refl _ |>.trans (by simp))
          | oof => exact sim_prefix _ _ (.inr rfl) (by simp)
        | jump l c => simp [straight] at hstr
        | ret e =>
          simp only [itemOf]; rw [runItems_ret]
          cases e with
          | none => simp [Sim, SimS, TRes.stop, stopOf]
          | some e =>
            simp only
            generalize evalExpr (instCfg cfg sp fs) _ locals e _ = r
            cases r with
            | ok v st2 => simp [Sim, SimS, TRes.stop, stopOf]
            | err e2 st2 => exact sim_nil_prefix _ _ rfl (.inl (stopOf_err_false _ _))
            | oof => exact sim_nil_prefix _ _ rfl (.inr rfl)
        | label l =>
          simp only [itemOf]; rw [runItems_stmt]
          exact sim_cons _ (ihE g (by omega) _ _ _ _ _ _ _ _ hP ho1)
        | function fid name args laa isAsync body =>
          simp only [itemOf]; rw [runItems_stmt]
          exact sim_cons _ (ihE g (by omega) _ _ _ _ _ _ _ _ hP ho1)
        | «include» incs =>
          simp only [itemOf]; rw [runItems_inc]
          refine sim_include_stmt _ (fun st2 => execMT tag (instCfg cfg sp fs) f P locals base cache (pc+1) st2) _ _
            (execIncludesT_not_ret tag _ incs _ _ _) (ihI g (by omega) base incs _ _ s ho1) ?_
          intro st2 _
          refine ihE g (by omega) _ _ _ _ _ _ _ _ hP ?_
          rw [C17.runEntries_urlFn]; exact ho1

theorem simAt (hfs : FilesStraight fs) : ∀ fuel, SimAt tag cfg sp fs eff fuel
  | 0 => ⟨simExec tag cfg sp fs eff 0 (fun f h => by omega), simIncludes tag cfg sp fs eff hfs 0 (fun f h => by omega)⟩
  | fuel+1 =>
    have ih := simAt hfs fuel
    ⟨simExec tag cfg sp fs eff (fuel+1) (fun f h => by cases h; exact ih),
     simIncludes tag cfg sp fs eff hfs (fuel+1) (fun f h => by cases h; exact ih)⟩

end Sim

end C17Bridge
