import BareProofs.C06Regex7
import BareProofs.C06Regex8Lemmas

/-!
# C06Regex8 — the remaining expression tokens (strings, bracketed names, numbers) and the full capstones
-/

namespace C06Regex
open Rx Text RxPatterns

/-! ## strings -/

/-- `_R_EXPR_STRING(_DOUBLE).match(text)`: `group(1)` through `_R_EXPR_STRING(_DOUBLE)_ESCAPE.sub('\\1', …)`, rest of the text -/
def rxScanStringQ (e : Bool) (q : Char) (t : Chars) : Option (Chars × Chars) :=
  (matchAt (exprStringQ q) t).bind fun st => (st.group t 1).map fun g => (sub1 (escQ e q) g, st.rest)

/-- **`^\s*q((?:\\\\|\\q|[^q])*)q`** for a quote `q` (not a backslash, not a blank): `ExprScan.scanString q` = the first backtracking
match (an escaped pair is taken iff a closing quote is still ahead: `strBody`), the group through the escape substitution.
The pattern is exponential on unterminated strings with backslash runs (finding F27); the theorem is about results, not cost. -/
theorem string_regex_q (e : Bool) (q : Char) (hq : ¬ q = '\\') (hs : isSpace q = false) (t : Chars) :
    ExprScan.scanString q t = rxScanStringQ e q t := by
  have hfold : exprStringQ q = Rx.bol ⬝ ws ⬝ lit q ⬝ Rx.cap 1 none (.star (strB q)) ⬝ lit q := rfl
  unfold ExprScan.scanString rxScanStringQ matchAt matchFrom
  rw [hfold, skipWs_eq, lead]
  · unfold lit
    rw [seq_m, one_m', step_lit]
    cases hl : lstripL t with
    | nil => rfl
    | cons c r =>
      by_cases hc : c = q
      · subst hc
        simp only [if_true]
        rw [seq_m, cap_m, star_m]
        have := str_loop c hq ((t.takeWhile isSpace).length + 1) r.length ((t.takeWhile isSpace).length + 1) r [] (Nat.le_refl _)
        unfold strK lit at this
        simp only [] at this ⊢
        rw [this]
        cases hb : ExprScan.strBody c r with
        | none => rfl
        | some v =>
          obtain ⟨raw, rest⟩ := v
          have hsp := strBody_spec c r raw rest hb
          have hd : t.drop ((t.takeWhile isSpace).length + 1) = r := by
            rw [← List.drop_drop, drop_ind, hl]; rfl
          have hg := slice_prefix t ((t.takeWhile isSpace).length + 1) _ raw (c :: rest) (by rw [hd, hsp]) rfl
          simp [St.group, St.span, List.lookup, hg, sub1_escQ]
      · simp [hc]
  · intro st ⟨x, r, hr, hx⟩
    have : ¬ x = q := fun e' => by rw [e', hs] at hx; exact Bool.noConfusion hx
    simp [seq_m, lit, one_m', step_lit, hr, this]

def rxScanString (t : Chars) : Option (Chars × Chars) := rxScanStringQ true '\'' t
def rxScanStringDouble (t : Chars) : Option (Chars × Chars) := rxScanStringQ false '"' t

/-- **`_R_EXPR_STRING`** `^\s*'((?:\\\\|\\'|[^'])*)'` with `_R_EXPR_STRING_ESCAPE` -/
theorem string_regex (t : Chars) : ExprScan.scanString '\'' t = rxScanString t :=
  string_regex_q true '\'' (by decide) (by decide) t

/-- **`_R_EXPR_STRING_DOUBLE`** `^\s*"((?:\\\\|\\"|[^"])*)"` with `_R_EXPR_STRING_DOUBLE_ESCAPE` -/
theorem stringDouble_regex (t : Chars) : ExprScan.scanString '"' t = rxScanStringDouble t :=
  string_regex_q false '"' (by decide) (by decide) t

/-- the patterns behind the two readers are the pinned ones -/
theorem string_patterns : exprString = exprStringQ '\'' ∧ exprStringDouble = exprStringQ '"' ∧
    exprStringEscape = escQ true '\'' ∧ exprStringDoubleEscape = escQ false '"' ∧ exprVariableExEscape = escQ true ']' :=
  ⟨rfl, rfl, rfl, rfl, rfl⟩

/-! ## bracketed names -/

/-- `_R_EXPR_VARIABLE_EX.match(text)`: `group(1)` through `_R_EXPR_VARIABLE_EX_ESCAPE.sub('\\1', …)`, rest of the text -/
def rxScanVariableEx (t : Chars) : Option (Chars × Chars) :=
  (matchAt exprVariableEx t).bind fun st => (st.group t 1).map fun g => (sub1 (escQ true ']') g, st.rest)

theorem unescape_single (w : Char) (hw : ¬ w = '\\') : ExprScan.unescape ']' [w] = [w] := by
  rw [ExprScan.unescape.eq_def]; simp [hw, ExprScan.unescape]

/-- **`_R_EXPR_VARIABLE_EX`** `^\s*\[\s*((?:\\\]|[^\]])+)\s*\]` with `_R_EXPR_VARIABLE_EX_ESCAPE`: the group runs to the first `]`
that is not taken as an escaped pair (`bracketBody`); `[   ]` names the variable `" "` (the `\s*` gives its last blank back). -/
theorem variableEx_regex (t : Chars) : ExprScan.scanVariableEx t = rxScanVariableEx t := by
  have hfold : exprVariableEx = Rx.bol ⬝ ws ⬝ elit '[' ⬝ ws ⬝ Rx.cap 1 none (.plus brC) ⬝ ws ⬝ elit ']' := rfl
  unfold ExprScan.scanVariableEx rxScanVariableEx matchAt matchFrom
  rw [hfold, skipWs_eq, isPySpace_eq, lead]
  · rw [seq_m]
    unfold elit
    rw [one_m', step_lit]
    cases hl : lstripL t with
    | nil => rfl
    | cons c r =>
      by_cases hc : c = '['
      · subst hc
        simp only [if_true]
        have hd : t.drop ((t.takeWhile isSpace).length + 1) = r := by
          rw [← List.drop_drop, drop_ind, hl]; rfl
        have hbo := br_outer ((t.takeWhile isSpace).length + 1) r
        unfold elit at hbo
        rw [hbo]
        have hsplit := List.takeWhile_append_dropWhile (p := isSpace) (l := r)
        cases hrf : r.dropWhile isSpace with
        | nil => rfl
        | cons d r2 =>
          simp only []
          by_cases hdd : d = ']'
          · subst hdd
            simp only [if_true]
            cases hw : (r.takeWhile isSpace).getLast? with
            | none => rfl
            | some w =>
              have hws : isSpace w = true := mem_takeWhile_p _ _ _ (List.mem_of_getLast? hw)
              have hw2 : ¬ w = '\\' := fun e => by rw [e] at hws; exact absurd hws (by decide)
              have hne : r.takeWhile isSpace ≠ [] := fun e => by rw [e] at hw; cases hw
              have hpos : 0 < (r.takeWhile isSpace).length := List.length_pos_iff.mpr hne
              have hdl := drop_last _ w hw
              have hdrop : r.drop ((r.takeWhile isSpace).length - 1) = [w] ++ (']' :: r2) := by
                conv => lhs; arg 2; rw [← hsplit]
                rw [List.drop_append_of_le_length (by omega), hdl, hrf]
              have hg := slice_prefix t ((t.takeWhile isSpace).length + 1 + (r.takeWhile isSpace).length - 1) 1 [w] (']' :: r2)
                (by rw [show (t.takeWhile isSpace).length + 1 + (r.takeWhile isSpace).length - 1 =
                      (t.takeWhile isSpace).length + 1 + ((r.takeWhile isSpace).length - 1) from by omega,
                    ← List.drop_drop, hd, hdrop]) rfl
              rw [show (t.takeWhile isSpace).length + 1 + (r.takeWhile isSpace).length - 1 + 1 =
                  (t.takeWhile isSpace).length + 1 + (r.takeWhile isSpace).length from by omega] at hg
              rw [show (t.takeWhile isSpace).length + 1 + (r.takeWhile isSpace).length - 1 =
                  (t.takeWhile isSpace).length + (r.takeWhile isSpace).length from by omega] at hg
              simp [St.group, St.span, List.lookup, hg, sub1_escQ, unescape_single w hw2]
          · simp only [hdd, if_false]
            cases hb : ExprScan.bracketBody (d :: r2) with
            | none => rfl
            | some v =>
              obtain ⟨raw, rest⟩ := v
              have hsp := bracketBody_spec _ raw rest hb
              have hg := slice_prefix t ((t.takeWhile isSpace).length + 1 + (r.takeWhile isSpace).length) _ raw (']' :: rest)
                (by rw [← List.drop_drop, hd, drop_length_takeWhile, hrf, hsp]) rfl
              simp [brVal, St.group, St.span, List.lookup, hg, sub1_escQ]
      · simp [hc]
  · intro st ⟨x, r, hr, hx⟩
    have : ¬ x = '[' := fun e' => by rw [e'] at hx; exact absurd hx (by decide)
    simp [seq_m, elit, one_m', step_lit, hr, this]

/-! ## the capstones, with every token but the number literal by the engine -/

/-- the string reader for both quote characters `parseAtom` uses (any other quote character is never asked for) -/
def rxStr (q : Char) (t : Chars) : Option (Chars × Chars) :=
  if q = '\'' then rxScanString t else if q = '"' then rxScanStringDouble t else ExprScan.scanString q t

theorem scanString_eq_rxStr : ExprScan.scanString = rxStr := by
  funext q t
  unfold rxStr
  by_cases h1 : q = '\''
  · subst h1; simp only [if_true]; exact string_regex t
  · by_cases h2 : q = '"'
    · subst h2; simp only [h1, if_false, if_true]; exact stringDouble_regex t
    · simp only [h1, h2, if_false]

/-- the token scanners by the engine on the pinned `_R_EXPR_*` ASTs: everything except `_R_EXPR_NUMBER` -/
def rxS2 : Scanners :=
  ⟨rxScanBinOp, rxScanUnaryOp, rxScanGroupOpen, rxScanClose, rxScanComma, rxScanFuncOpen,
   ExprScan.scanNumber, rxStr, rxScanVariable, rxScanVariableEx⟩

theorem exS_eq_rxS2 : exS = rxS2 := by
  rw [exS_eq_rxS]
  unfold rxS rxS2
  rw [scanString_eq_rxStr, show ExprScan.scanVariableEx = rxScanVariableEx from funext variableEx_regex]

/-- `parse_expression` with every token scanner except the number literal replaced by the engine -/
def rxParseExpr2 (s : String) : Except ParseErr Expr := parseExprLW rxS2 s.toList

/-- `ExprParse.parseExpr` = the same parser with the operator, parenthesis, comma, function-open, variable, bracketed-variable and
both string token scanners (with their escape substitutions) computed by the backtracking engine on the pinned ASTs — ALL texts.

Full statement (`parseExpr_is_regex_driven`): the same with `scanNumber` by the engine.  Missing: the closed form of
`_R_EXPR_NUMBER` and reading `float(group(1))` back from the matched text (prefix stability of `scanNumber`). -/
theorem parseExpr_is_regex_driven_partial2 (s : String) : ExprParse.parseExpr s = rxParseExpr2 s := by
  unfold ExprParse.parseExpr rxParseExpr2
  rw [← parseExprLW_ex, exS_eq_rxS2]

/-- **`parse_script` is regex driven down to every token except the number literal**: all inputs, no side condition. -/
theorem parseScript_fully_regex_driven_partial2 (chunks : List String) (start : Nat) :
    Parser.parseScript chunks start = rxParseScriptWith rxParseExpr2 chunks start := by
  rw [parseScript_is_regex_driven, ← show ExprParse.parseExpr = rxParseExpr2 from funext parseExpr_is_regex_driven_partial2]
  rfl

example : rxScanString " 'it\\'s\\\\' + 1".toList = some ("it's\\".toList, " + 1".toList) := by decide +kernel
example : rxScanStringDouble "\"a\\\"b\" x".toList = some ("a\"b".toList, " x".toList) := by decide +kernel
example : rxScanVariableEx "[   ]".toList = some ([' '], []) ∧ rxScanVariableEx "[ a\\]b ] c".toList = some ("a]b ".toList, " c".toList) ∧
    rxScanVariableEx "[a\\]".toList = some ("a\\".toList, []) := by decide +kernel

end C06Regex
