import BareProofs.C19ExprLemmas
import BareProofs.C02Print

/-!
# C19Expr — dataFilter / dataCalculatedField / dataJoin evaluate their expression TEXT with the modelled parser and evaluator

`BareProofs/C19.lean` (`filter_spec`, `calc_spec`, `join_spec`) takes the per-row evaluator as an abstract PURE parameter.  Here the
evaluator is `ExprParse.parseExpr` followed by `Machine.evalExpr` (model: `BareModel/DataExpr.lean`), for EVERY table, expression
text, `variables` object, machine state, host, function table, statement budget and fuel:

* `filter_expr_spec`, `calc_expr_spec`, `join_expr_spec` — the data function is the FOLD of the machine over the rows in order
  (join: right rows, then left rows, in one state): the kept rows are the rows (same objects, `filter_same_rows`) whose value is
  truthy in the world right after their own evaluation; the calculated field holds the row's value; the join pairs rows of equal
  bucket key (`Data.Key`) in left-major order.  A runtime error ends the loop with the state reached (calculated field: the rows
  before the failing one stay updated).
* `filter_expr_pure`, `calc_expr_pure`, `join_expr_pure` — for a call-free expression (`Lint.isPointless`, decidable) nothing is
  threaded: the state is unchanged and the result is `List.filter` / `List.map` / the relational join with a pure per-row value;
  `filter_expr_pure_data` instantiates the OLD abstract `Data.filterData` / `C19.filter_spec` with that evaluator.
* `row_is_locals`, `row_is_locals_func`, `variables_shadow_globals` — lookup order row, then variables, then globals, then built-ins.
* `data_expr_parse_error` — a text `parseExpr` rejects makes the call fail with that parser error and no state at all.
* `data_expr_counts` — the counter never decreases over the call, stays within a positive budget, and the budget error is raised
  with the counter at exactly budget + 1; `data_expr_globals` — with `variables` the caller's globals are unchanged.
* `filter_print_roundtrip`, `calc_print_roundtrip`, `join_print_roundtrip` — the text printed from ANY printable tree behaves as the tree.
* `joinNames_total` — the joined-name search never fails and never yields a left field name (from `C19.right_names_spec`).
-/

namespace C19Expr
open Machine DataExpr

variable {W : Type}

/-! ## the data functions are the fold of the machine over the rows -/

/-- **filter_expr_spec.**  `dataFilter(data, text, variables)`: the text is parsed once; the rows are evaluated in order in ONE machine
state (globals overridden by the variables, the row as locals, built-ins on); the result is the rows whose value is truthy — in the
world right after the row's own evaluation —, in order; the state after the call is the state after the last evaluation with the
caller's globals put back when there are variables.  A runtime error in row `k` ends the call with the state reached. -/
theorem filter_expr_spec (C : Ctx W) (text : String) (vars : Option VRow) (data : VTable) (st : State W) :
    dataFilter C text vars data st =
      match ExprParse.parseExpr text with
      | .error pe => .parseErr pe
      | .ok e =>
        match runRows (evalRow C e) data (enter vars st) with
        | .ok vs st' => .ok (keepRows C.cfg.host.truthy data vs) (leave vars st st')
        | .err er _ st' => .err er data (leave vars st st')
        | .keyErr s => .keyErr (leave vars st s)
        | .oof => .oof := by
  unfold dataFilter
  cases ExprParse.parseExpr text with
  | error pe => rfl
  | ok e =>
    simp only [filterCore, filterLoop_spec]
    cases runRows (evalRow C e) data (enter vars st) <;> simp

/-- … the result consists of rows of the input, in their order (the same row objects), and every row was evaluated -/
theorem filter_same_rows (C : Ctx W) (text : String) (vars : Option VRow) (data res : VTable) (st st' : State W)
    (h : dataFilter C text vars data st = .ok res st') :
    res.Sublist data ∧ ∃ e vs s1, ExprParse.parseExpr text = .ok e ∧ runRows (evalRow C e) data (enter vars st) = .ok vs s1 ∧
      vs.length = data.length ∧ res = keepRows C.cfg.host.truthy data vs := by
  rw [filter_expr_spec] at h
  cases hp : ExprParse.parseExpr text with
  | error pe => rw [hp] at h; cases h
  | ok e =>
    rw [hp] at h
    simp only at h
    have hl := runRows_length (evalRow C e) data (enter vars st)
    cases hr : runRows (evalRow C e) data (enter vars st) with
    | ok vs s1 =>
      rw [hr] at h hl
      simp only at h hl
      cases h
      exact ⟨keepRows_sublist _ _ _, e, vs, s1, rfl, hr, hl, rfl⟩
    | err er vs s1 => rw [hr] at h; cases h
    | keyErr s => rw [hr] at h; cases h
    | oof => rw [hr] at h; cases h

/-- **calc_expr_spec.**  `dataCalculatedField(data, field, text, variables)`: every row gets `row[field] = ` its own value, the rows
evaluated in order in one state; on a runtime error in row `k` the first `k` rows are updated and the others are not (`setRows`
updates exactly the evaluated prefix). -/
theorem calc_expr_spec (C : Ctx W) (field text : String) (vars : Option VRow) (data : VTable) (st : State W) :
    dataCalculatedField C field text vars data st =
      match ExprParse.parseExpr text with
      | .error pe => .parseErr pe
      | .ok e =>
        match runRows (evalRow C e) data (enter vars st) with
        | .ok vs st' => .ok (setRows field data vs) (leave vars st st')
        | .err er vs st' => .err er (setRows field data vs) (leave vars st st')
        | .keyErr s => .keyErr (leave vars st s)
        | .oof => .oof := by
  unfold dataCalculatedField
  cases ExprParse.parseExpr text with
  | error pe => rfl
  | ok e =>
    simp only [calcCore, calcLoop_spec]
    cases runRows (evalRow C e) data (enter vars st) <;> simp

/-- the rows after a completed `dataCalculatedField`: as many as before, row `i` is `rowSet field vᵢ rowᵢ` -/
theorem setRows_full (field : String) : ∀ (rows : VTable) (vs : List (Value × W)), vs.length = rows.length →
    setRows field rows vs = List.zipWith (fun r v => rowSet field v.1 r) rows vs
  | [], [], _ => rfl
  | r :: rows, v :: vs, h => by simp [setRows, setRows_full field rows vs (by simpa using h)]
  | [], _ :: _, h => by simp at h
  | _ :: _, [], h => by simp at h

/-- **join_expr_spec.**  `dataJoin`: both texts are parsed (the join expression first); the RIGHT rows are evaluated first, then the
LEFT rows, all in one state; the result pairs each left row, in order, with the right rows whose bucket key (`Data.Key`: equal values
of the same type) equals its own, in right order, under the joined names; a left row without partner is kept iff NOT `isLeftJoin`
(as the code has it). -/
theorem join_expr_spec (C : Ctx W) (eL eR : Expr) (isLeftJoin : Bool) (vars : Option VRow) (L R : VTable) (st : State W) :
    ∃ names, joinNames L R = some names ∧
    joinCore C eL eR isLeftJoin vars L R st =
      match runKeys (evalRow C eR) C.key R (enter vars st) with
      | .ok kR st1 =>
        match runKeys (evalRow C eL) C.key L st1 with
        | .ok kL st2 => .ok (joinPairs (joinRow names) (!isLeftJoin) (L.zip kL) (R.zip kR)) (leave vars st st2)
        | .err er _ st2 => .err er L (leave vars st st2)
        | .keyErr s => .keyErr (leave vars st s)
        | .oof => .oof
      | .err er _ st1 => .err er L (leave vars st st1)
      | .keyErr s => .keyErr (leave vars st s)
      | .oof => .oof := by
  obtain ⟨names, hn, -, -⟩ := C19.right_names_spec (L.map eraseRow) (R.map eraseRow)
  refine ⟨names, hn, ?_⟩
  have hn' : joinNames L R = some names := hn
  simp only [joinCore, hn', bucketLoop_spec]
  cases runKeys (evalRow C eR) C.key R (enter vars st) with
  | oof => rfl
  | keyErr s => rfl
  | err er ks st1 => rfl
  | ok kR st1 =>
    simp only [joinLoop_spec]
    cases runKeys (evalRow C eL) C.key L st1 with
    | oof => rfl
    | keyErr s => rfl
    | err er ks st2 => rfl
    | ok kL st2 =>
      simp only [List.nil_append, joinPairs]
      congr 1
      exact C19.flatMap_congr' _ _ _ (fun l _ => joinOneB_fold names isLeftJoin (R.zip kR) l)

/-- `dataJoin` at text level: parse the join expression, then the right expression if given, then `joinCore` -/
theorem join_expr_text (C : Ctx W) (textL : String) (textR : Option String) (isLeftJoin : Bool) (vars : Option VRow) (L R : VTable)
    (st : State W) (eL eR : Expr) (hL : ExprParse.parseExpr textL = .ok eL)
    (hR : match textR with | none => eR = eL | some t => ExprParse.parseExpr t = .ok eR) :
    dataJoin C textL textR isLeftJoin vars L R st = joinCore C eL eR isLeftJoin vars L R st := by
  cases textR with
  | none => simp only at hR; subst hR; simp [dataJoin, hL]
  | some t => simp only at hR; simp [dataJoin, hL, hR]

/-- **joinNames_total**: the joined names exist for every pair of tables, cover every right field (so `renameOf` never falls back),
and none of them is a left field name — `dataJoin` never overwrites a left field -/
theorem joinNames_total (L R : VTable) :
    ∃ names, joinNames L R = some names ∧ (∀ r ∈ R, ∀ p ∈ r, p.1 ∈ names.map (·.1)) ∧
      (∀ p ∈ names, ∀ l ∈ L, p.2 ∉ l.map (·.1)) := by
  obtain ⟨names, hn, hk, hj⟩ := C19.right_names_spec (L.map eraseRow) (R.map eraseRow)
  refine ⟨names, hn, ?_, ?_⟩
  · intro r hr p hp
    rw [hk]
    refine (C19.mem_fieldNames p.1 _).mpr ⟨eraseRow r, List.mem_map_of_mem hr, ?_⟩
    simp only [eraseRow, List.map_map, List.mem_map]
    exact ⟨p, hp, rfl⟩
  · intro p hp l hl hin
    have := C19.IsJoinedName.not_left (hj p hp)
    refine this ((C19.mem_fieldNames p.2 _).mpr ⟨eraseRow l, List.mem_map_of_mem hl, ?_⟩)
    simpa [eraseRow, List.map_map] using hin

/-! ## call-free expressions: the old abstract theorems become theorems about expression TEXT -/

/-- **filter_expr_pure.**  For a call-free expression (decidable: `Lint.isPointless`) the call has no effect at all — state, counter,
log unchanged — and the result is `List.filter` with the row's pure value: the shape of `C19.filter_spec`. -/
theorem filter_expr_pure (C : Ctx W) (text : String) (e : Expr) (hp : ExprParse.parseExpr text = .ok e) (h : Lint.isPointless e = true)
    (vars : Option VRow) (data : VTable) (st : State W) :
    dataFilter C text vars data st =
      .ok (data.filter (fun r => C.cfg.host.truthy (pureVal C e r (enter vars st)) st.world)) st := by
  rw [filter_expr_spec, hp]
  simp only
  rw [runRows_pure (evalRow C e) (fun r => pureVal C e r (enter vars st)) (enter vars st) (fun row => evalRow_pure C e h row _)]
  simp only [keepRows_map, leave_enter]
  cases vars <;> rfl

/-- **calc_expr_pure.**  … the result is `List.map (row ↦ rowSet field (value row) row)`: the shape of `C19.calc_spec`. -/
theorem calc_expr_pure (C : Ctx W) (field text : String) (e : Expr) (hp : ExprParse.parseExpr text = .ok e) (h : Lint.isPointless e = true)
    (vars : Option VRow) (data : VTable) (st : State W) :
    dataCalculatedField C field text vars data st =
      .ok (data.map (fun r => rowSet field (pureVal C e r (enter vars st)) r)) st := by
  rw [calc_expr_spec, hp]
  simp only
  rw [runRows_pure (evalRow C e) (fun r => pureVal C e r (enter vars st)) (enter vars st) (fun row => evalRow_pure C e h row _)]
  simp only [setRows_map, leave_enter]

theorem zip_map_self {α β : Type} (f : α → β) : ∀ l : List α, l.zip (l.map f) = l.map (fun a => (a, f a))
  | [] => rfl
  | a :: l => by simp [zip_map_self f l]

/-- **join_expr_pure.**  … with call-free key expressions whose values have bucket keys (`kL`, `kR`: no self-containing container),
the result is the relational join `joinPairs` of the rows annotated with their keys: the shape of `C19.join_spec` / `Data.joinSpec`. -/
theorem join_expr_pure (C : Ctx W) (eL eR : Expr) (hL : Lint.isPointless eL = true) (hR : Lint.isPointless eR = true)
    (isLeftJoin : Bool) (vars : Option VRow) (L R : VTable) (st : State W) (kL kR : VRow → Data.Key)
    (hkL : ∀ l ∈ L, C.key st.world (pureVal C eL l (enter vars st)) = some (kL l))
    (hkR : ∀ r ∈ R, C.key st.world (pureVal C eR r (enter vars st)) = some (kR r)) :
    ∃ names, joinNames L R = some names ∧
      joinCore C eL eR isLeftJoin vars L R st =
        .ok (joinPairs (joinRow names) (!isLeftJoin) (L.map fun l => (l, kL l)) (R.map fun r => (r, kR r))) st := by
  obtain ⟨names, hn, hj⟩ := join_expr_spec C eL eR isLeftJoin vars L R st
  refine ⟨names, hn, ?_⟩
  have hw : (enter vars st).world = st.world := by cases vars <;> rfl
  rw [hj, runKeys_pure (evalRow C eR) C.key (fun r => pureVal C eR r (enter vars st)) kR (enter vars st)
    (fun row => evalRow_pure C eR hR row _) R (by rw [hw]; exact hkR)]
  simp only
  rw [runKeys_pure (evalRow C eL) C.key (fun r => pureVal C eL r (enter vars st)) kL (enter vars st)
    (fun row => evalRow_pure C eL hL row _) L (by rw [hw]; exact hkL)]
  simp only [leave_enter, zip_map_self]

/-- closed scalar values as machine values (containers, functions and regexes of `PValue` have no image: `null`) -/
def embedV : Compare.PValue → Value
  | .null => .null
  | .bool b => .bool b
  | .num q => .num q
  | .str s => .str s
  | .dt t => .dt t
  | _ => .null

def embedRow (r : Data.Row) : VRow := r.map fun p => (p.1, embedV p.2)

/-- **filter_expr_pure_data.**  The OLD abstract model instantiated: for every table of closed values `T` and every call-free
expression text, `dataFilter` on (the machine image of) `T` returns the image of what `Data.filterData eval T` returns — hence
`C19.filter_spec` applies —, where `eval row` is the truth value of the expression's machine value on that row. -/
theorem filter_expr_pure_data (C : Ctx W) (text : String) (e : Expr) (hp : ExprParse.parseExpr text = .ok e) (h : Lint.isPointless e = true)
    (vars : Option VRow) (T : Data.Table) (st : State W) :
    ∃ (eval : Data.Row → Compare.PValue) (res : Data.Table),
      Data.filterData (fun r => some (eval r)) T = some res ∧ res = T.filter (fun r => Data.truthy (eval r)) ∧
      (∀ r, eval r = .bool (C.cfg.host.truthy (pureVal C e (embedRow r) (enter vars st)) st.world)) ∧
      dataFilter C text vars (T.map embedRow) st = .ok (res.map embedRow) st := by
  refine ⟨fun r => .bool (C.cfg.host.truthy (pureVal C e (embedRow r) (enter vars st)) st.world), _, C19.filter_spec _ T, rfl,
    fun _ => rfl, ?_⟩
  rw [filter_expr_pure C text e hp h]
  simp [List.filter_map, Data.truthy, Function.comp_def]

/-! ## lookup order: the row, then variables over globals, then built-ins -/

/-- **row_is_locals.**  A field of the row is the value of the variable of that name, whatever the globals and the variables hold;
a name the row does not have falls back to the (merged) globals, `null` if unbound.  (The three keywords are not variables.) -/
theorem row_is_locals (C : Ctx W) (row : VRow) (k : String) (st : State W)
    (hkw : Name.ofString k ≠ kwNull ∧ Name.ofString k ≠ kwFalse ∧ Name.ofString k ≠ kwTrue) :
    (∀ v, rowGet? k row = some v → evalRow C (.variable (Name.ofString k)) row st = .ok v st) ∧
    (rowGet? k row = none →
      evalRow C (.variable (Name.ofString k)) row st = .ok ((st.globals.get? (Name.ofString k)).getD .null) st) := by
  obtain ⟨h1, h2, h3, h4⟩ := C04.lookup_order (rowEnv row) st.globals (Name.ofString k)
  have hev : evalRow C (.variable (Name.ofString k)) row st = .ok (lookupVar (some (rowEnv row)) st.globals (Name.ofString k)) st := by
    simp [evalRow, evalExpr, hkw.1, hkw.2.1, hkw.2.2]
  refine ⟨fun v hv => ?_, fun hn => ?_⟩
  · rw [hev, h1 v (by rw [rowEnv_get?]; exact hv)]
  · rw [hev, h2 (by rw [rowEnv_get?]; exact hn)]
    cases hg : st.globals.get? (Name.ofString k) with
    | some v => rw [h3 v hg]; rfl
    | none => rw [h4 hg]; rfl

/-- **variables_shadow_globals.**  In the evaluation state the value of a name is the LAST entry of `variables` with that name, and
the caller's global only if `variables` has none. -/
theorem variables_shadow_globals (vs : VRow) (st : State W) (n : Name) :
    (enter (some vs) st).globals.get? n =
      ((rowEnv vs).reverse.find? (·.1 == n)).elim (st.globals.get? n) (fun p => some p.2) :=
  mergeVars_get? n vs st.globals

/-- **row_is_locals_func.**  The function of a call: the row's field of that name if there is one (even `max`), else the (merged)
global, else — at the top level of the data expression, where built-ins are on — the expression built-in. -/
theorem row_is_locals_func (C : Ctx W) (row : VRow) (k : String) (g : Env) :
    let cfg : Config W := { C.cfg with builtins := true }
    (∀ v, rowGet? k row = some v → lookupFunc cfg (some (rowEnv row)) g (Name.ofString k) = some v) ∧
    (rowGet? k row = none → ∀ v, g.get? (Name.ofString k) = some v → lookupFunc cfg (some (rowEnv row)) g (Name.ofString k) = some v) ∧
    (rowGet? k row = none → g.get? (Name.ofString k) = none →
      lookupFunc cfg (some (rowEnv row)) g (Name.ofString k) = (C.cfg.host.builtin (Name.ofString k)).map Value.fn) := by
  intro cfg
  obtain ⟨h1, h2, h3, h4, -⟩ := C04.lookup_order_func cfg (rowEnv row) g (Name.ofString k)
  refine ⟨fun v hv => h1 v (by rw [rowEnv_get?]; exact hv), fun hn v hg => ?_, fun hn hg => ?_⟩
  · rw [h2 (by rw [rowEnv_get?]; exact hn)]; exact h3 v hg
  · rw [h2 (by rw [rowEnv_get?]; exact hn)]; exact h4 hg rfl

/-! ## parser errors -/

/-- **data_expr_parse_error.**  A text the parser rejects makes each data function fail with exactly that parser error — the outcome
carries no state: nothing was evaluated, logged, counted or written (`join`: also when only the right text is rejected, and the join
text's error wins when both are). -/
theorem data_expr_parse_error (C : Ctx W) (text : String) (pe : ParseErr) (h : ExprParse.parseExpr text = .error pe)
    (vars : Option VRow) (data right : VTable) (st : State W) :
    dataFilter C text vars data st = .parseErr pe ∧
    (∀ field, dataCalculatedField C field text vars data st = .parseErr pe) ∧
    (∀ textR flag, dataJoin C text textR flag vars data right st = .parseErr pe) ∧
    (∀ textL eL flag, ExprParse.parseExpr textL = .ok eL → dataJoin C textL (some text) flag vars data right st = .parseErr pe) := by
  refine ⟨by simp [dataFilter, h], fun _ => by simp [dataCalculatedField, h], fun _ _ => by simp [dataJoin, h], fun textL eL _ hL => ?_⟩
  simp [dataJoin, hL, h]

/-! ## the statement counter and the globals across the call -/

/-- the counter facts of an outcome, relative to the state the call started in (`L` = `maxStatements`, 0 = unlimited) -/
def CountOk (L : Nat) (st : State W) : DOut W → Prop
  | .ok _ s' => st.count ≤ s'.count ∧ (C09.Pre L st → C09.Pre L s')
  | .err e _ s' => st.count ≤ s'.count ∧ (C09.Pre L st → C09.ErrOk L e s')
  | .keyErr s' => st.count ≤ s'.count ∧ (C09.Pre L st → C09.Pre L s')
  | .parseErr _ => True
  | .oof => True

theorem good_ok_leave {L : Nat} {vars : Option VRow} {st s1 : State W} (h : C09.Good (C09.Ext.triv W) L (enter vars st) (.ok s1)) :
    st.count ≤ (leave vars st s1).count ∧ (C09.Pre L st → C09.Pre L (leave vars st s1)) := by
  cases vars <;> exact ⟨h.1.1, h.2⟩

theorem good_err_leave {L : Nat} {vars : Option VRow} {st s1 : State W} {e : RtErr}
    (h : C09.Good (C09.Ext.triv W) L (enter vars st) (.err e s1)) :
    st.count ≤ (leave vars st s1).count ∧ (C09.Pre L st → C09.ErrOk L e (leave vars st s1)) := by
  cases vars with
  | none => exact ⟨h.1.1, h.2⟩
  | some vs => cases e <;> exact ⟨h.1.1, h.2⟩

theorem countOk_rows (C : Ctx W) (e : Expr) (vars : Option VRow) (data : VTable) (st : State W)
    (f g : List (Value × W) → VTable) :
    CountOk C.cfg.maxStatements st
      (match runRows (evalRow C e) data (enter vars st) with
       | .ok vs st' => .ok (f vs) (leave vars st st')
       | .err er vs st' => .err er (g vs) (leave vars st st')
       | .keyErr s => .keyErr (leave vars st s)
       | .oof => .oof) := by
  have hg := runRows_good C.cfg.maxStatements (evalRow C e) (evalRow_good C e) data (enter vars st)
  cases hr : runRows (evalRow C e) data (enter vars st) with
  | oof => trivial
  | ok vs s1 => rw [hr] at hg; exact good_ok_leave hg
  | err er vs s1 => rw [hr] at hg; exact good_err_leave hg
  | keyErr s => rw [hr] at hg; exact good_ok_leave hg

/-- **data_expr_counts.**  Across a call of any of the three data functions — whatever the expression calls: script functions, library
functions with call-backs — the statement counter never decreases (the statements run by script functions the expression called are
counted, and with `variables` the count is carried back to the caller: `leave`); under a positive budget `L` a call that starts
within the budget ends within it, and the budget error is raised with the counter at exactly `L + 1` (ties to C09). -/
theorem data_expr_counts (C : Ctx W) (text : String) (vars : Option VRow) (data right : VTable) (st : State W) :
    CountOk C.cfg.maxStatements st (dataFilter C text vars data st) ∧
    (∀ field, CountOk C.cfg.maxStatements st (dataCalculatedField C field text vars data st)) ∧
    (∀ textR flag, CountOk C.cfg.maxStatements st (dataJoin C text textR flag vars data right st)) := by
  refine ⟨?_, fun field => ?_, fun textR flag => ?_⟩
  · rw [filter_expr_spec]
    cases ExprParse.parseExpr text with
    | error pe => trivial
    | ok e => exact countOk_rows C e vars data st _ (fun _ => data)
  · rw [calc_expr_spec]
    cases ExprParse.parseExpr text with
    | error pe => trivial
    | ok e => exact countOk_rows C e vars data st _ _
  · have key : ∀ eL eR, CountOk C.cfg.maxStatements st (joinCore C eL eR flag vars data right st) := by
      intro eL eR
      obtain ⟨names, -, hj⟩ := join_expr_spec C eL eR flag vars data right st
      rw [hj]
      have h1 := runKeys_good C.cfg.maxStatements (evalRow C eR) (evalRow_good C eR) C.key right (enter vars st)
      cases hr : runKeys (evalRow C eR) C.key right (enter vars st) with
      | oof => trivial
      | err er ks s1 => rw [hr] at h1; exact good_err_leave h1
      | keyErr s => rw [hr] at h1; exact good_ok_leave h1
      | ok kR s1 =>
        rw [hr] at h1
        have h2 := runKeys_good C.cfg.maxStatements (evalRow C eL) (evalRow_good C eL) C.key data s1
        simp only
        cases hl : runKeys (evalRow C eL) C.key data s1 with
        | oof => trivial
        | err er ks s2 => rw [hl] at h2; exact good_err_leave (C09.Good.trans h1 h2)
        | keyErr s => rw [hl] at h2; exact good_ok_leave (C09.Good.trans h1 h2)
        | ok kL s2 => rw [hl] at h2; exact good_ok_leave (C09.Good.trans h1 h2)
    unfold dataJoin
    cases ExprParse.parseExpr text with
    | error pe => trivial
    | ok eL =>
      cases textR with
      | none => exact key eL eL
      | some t =>
        simp only
        cases ExprParse.parseExpr t with
        | error pe => trivial
        | ok eR => exact key eL eR

/-- the state an outcome carries -/
def DOut.state? : DOut W → Option (State W)
  | .ok _ s => some s
  | .err _ _ s => some s
  | .keyErr s => some s
  | _ => none

theorem leave_some_globals (vs : VRow) (st s1 : State W) : (leave (some vs) st s1).globals = st.globals := rfl

/-- **data_expr_globals.**  With a `variables` object the caller's globals are exactly what they were, however the call ends: global
writes made during the evaluation (`systemGlobalSet`, assignments in script functions) went to the merged copy.  (Without
`variables` the globals after the call are those of the fold's final state: `filter_expr_spec` &c. with `leave none`.) -/
theorem data_expr_globals (C : Ctx W) (text : String) (vs : VRow) (data right : VTable) (st : State W) :
    (∀ s', DOut.state? (dataFilter C text (some vs) data st) = some s' → s'.globals = st.globals) ∧
    (∀ field s', DOut.state? (dataCalculatedField C field text (some vs) data st) = some s' → s'.globals = st.globals) ∧
    (∀ textR flag s', DOut.state? (dataJoin C text textR flag (some vs) data right st) = some s' → s'.globals = st.globals) := by
  refine ⟨fun s' => ?_, fun field s' => ?_, fun textR flag s' => ?_⟩
  · rw [filter_expr_spec]
    cases ExprParse.parseExpr text with
    | error pe => simp [DOut.state?]
    | ok e =>
      simp only
      cases runRows (evalRow C e) data (enter (some vs) st) <;> simp only [DOut.state?] <;> intro h <;> cases h <;> rfl
  · rw [calc_expr_spec]
    cases ExprParse.parseExpr text with
    | error pe => simp [DOut.state?]
    | ok e =>
      simp only
      cases runRows (evalRow C e) data (enter (some vs) st) <;> simp only [DOut.state?] <;> intro h <;> cases h <;> rfl
  · have key : ∀ eL eR, DOut.state? (joinCore C eL eR flag (some vs) data right st) = some s' → s'.globals = st.globals := by
      intro eL eR
      obtain ⟨names, -, hj⟩ := join_expr_spec C eL eR flag (some vs) data right st
      rw [hj]
      cases runKeys (evalRow C eR) C.key right (enter (some vs) st) with
      | ok kR s1 =>
        simp only
        cases runKeys (evalRow C eL) C.key data s1 <;> simp only [DOut.state?] <;> intro h <;> cases h <;> rfl
      | err er ks s1 => simp only [DOut.state?]; intro h; cases h; rfl
      | keyErr s => simp only [DOut.state?]; intro h; cases h; rfl
      | oof => simp [DOut.state?]
    unfold dataJoin
    cases ExprParse.parseExpr text with
    | error pe => simp [DOut.state?]
    | ok eL =>
      cases textR with
      | none => exact key eL eL
      | some t =>
        simp only
        cases ExprParse.parseExpr t with
        | error pe => simp [DOut.state?]
        | ok eR => exact key eL eR

/-! ## round trip with the printer: text produced from ANY printable tree behaves as the tree -/

/-- **filter_print_roundtrip.**  For every printable tree `e` (`C02.Printable`, decidable; any depth, operators, calls, names, strings):
`dataFilter rows (printExpr e)` filters by `evalExpr e` — and so by the fold of `filter_expr_spec` with that very tree. -/
theorem filter_print_roundtrip (C : Ctx W) (e : Expr) (h : C02.Printable e) (vars : Option VRow) (data : VTable) (st : State W) :
    dataFilter C (Print.printExpr e) vars data st = filterCore C e vars data st := by
  simp [dataFilter, C02.parse_print e h]

theorem calc_print_roundtrip (C : Ctx W) (field : String) (e : Expr) (h : C02.Printable e) (vars : Option VRow) (data : VTable) (st : State W) :
    dataCalculatedField C field (Print.printExpr e) vars data st = calcCore C field e vars data st := by
  simp [dataCalculatedField, C02.parse_print e h]

theorem join_print_roundtrip (C : Ctx W) (eL eR : Expr) (hL : C02.Printable eL) (hR : C02.Printable eR) (flag : Bool) (vars : Option VRow)
    (L R : VTable) (st : State W) :
    dataJoin C (Print.printExpr eL) (some (Print.printExpr eR)) flag vars L R st = joinCore C eL eR flag vars L R st ∧
    dataJoin C (Print.printExpr eL) none flag vars L R st = joinCore C eL eL flag vars L R st := by
  simp [dataJoin, C02.parse_print eL hL, C02.parse_print eR hR]

/-! ## non-vacuity: concrete instances on the driver's host -/

section Examples
open HostImpl

def exC : Ctx World := { cfg := { host := X.host, funs := fun _ => none, maxStatements := 100 }, fuel := 10, key := X.key }
def exSt : State World := { globals := [(.user "lim", .num 1), (.user "a", .num 100)], world := {}, count := 7 }
def exData : VTable := [[("a", .num 3), ("b", .str "x")], [("b", .str "y")], [("a", .num 0)], [("a", .num 2), ("len", .num 5)]]
/-- `a > lim` -/
def exE : Expr := .binary .gt (.variable (.user "a")) (.variable (.user "lim"))

/-- the hypotheses are inhabited: a call-free, printable tree; its text parses -/
example : Lint.isPointless exE = true := rfl
example : C02.Printable exE := by decide +kernel
example : Print.printExpr exE = "a > lim" := by kernel_rfl
example : ExprParse.parseExpr "a > lim" = .ok exE := by kernel_rfl
/-- … and a text the parser rejects -/
example : ExprParse.parseExpr "a > " = .error ⟨"Syntax error", 4⟩ := by kernel_rfl

/-- the row's `a` shadows the global `a = 100`; the row without `a` falls back to the global; a variable `a = 0` shadows the global
(rows are identified by their number of fields) -/
example : (match dataFilter exC "a" none exData exSt with | .ok res _ => List.map List.length res | _ => []) = [2, 1, 2] := by decide +kernel
example : (match dataFilter exC "a" (some [("a", .num 0)]) exData exSt with | .ok res _ => List.map List.length res | _ => []) = [2, 2] := by
  decide +kernel
/-- a field named `len` is the function of `len(…)` on that row (calling the number 5 gives null); elsewhere the built-in -/
example : (match dataCalculatedField exC "m" "len(b)" none exData exSt with
    | .ok res _ => List.map (rowGet? "m") res | _ => []) = [some (.num 1), some (.num 1), some (.num 0), some .null] := by decide +kernel
example : (match dataFilter exC "nope(a)" none exData exSt with | .err e _ s => some (e, s.count) | _ => none) =
    some (.undefinedFunction (.user "nope"), 7) := by kernel_rfl

end Examples

end C19Expr
